def hello := "world"
