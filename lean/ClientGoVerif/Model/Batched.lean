/-
  C08: the batched snapshot iterator — internal/unionstore/membuffer_snapshot.go `snapshotBatchedIter` (shared by the ART and
  the RBT buffer through SnapshotWithMutex).  Core-only, executable.

  A scan is cut into batches; every batch opens a fresh snapshot iterator, takes at most `batchSize` entries and remembers
  where to resume:
  * forward: the next lower bound is `lastKey ++ [0x00]` — the IMMEDIATE SUCCESSOR of the last key in byte order, so that
    nothing between the last key and the resume key can exist (`fillBatch`: copy lastKey into nextKey, `nextKey[keyLen] = 0`);
  * reverse: the next (exclusive) upper bound is `lastKey` itself; after the empty key — the smallest key, which as an
    upper bound would mean "unbounded" — the scan is exhausted.
  Batch sizes: 32, then doubling up to 4096 (`batchSize = min(batchSize*2, 4096)`); the theorems hold for every schedule.
-/
import ClientGoVerif.Model.VLog
namespace CGV.MemBuf
open CGV

/-- the resume key of a forward scan: the immediate successor of `k` in the byte order -/
def succKey (k : Bytes) : Bytes := k ++ [0]

/-- the first `n` batch sizes of snapshotBatchedIter -/
def batchSizes : Nat → Nat → List Nat
  | 0, _ => []
  | n + 1, s => s :: batchSizes n (min (s * 2) 4096)

namespace VLog

/-- BatchedSnapshotIter(lo, hi, reverse = false), one entry of `sizes` per fillBatch -/
def batchedFwd (m : VLog) (lo hi : Bytes) : List Nat → List Item
  | [] => []
  | s :: rest =>
    let b := (ordered false (m.snapItems lo hi)).take s
    match b.getLast? with
    | none => []
    | some l => b ++ batchedFwd m (succKey l.key) hi rest

/-- BatchedSnapshotIter(lo, hi, reverse = true) -/
def batchedRev (m : VLog) (lo hi : Bytes) : List Nat → List Item
  | [] => []
  | s :: rest =>
    let b := (ordered true (m.snapItems lo hi)).take s
    match b.getLast? with
    | none => []
    | some l => if l.key.isEmpty then b else b ++ batchedRev m lo l.key rest

end VLog
end CGV.MemBuf
