/-
  Model of /repo/internal/unionstore/pipelined_memdb.go (PipelinedMemDB), of the flush callback installed by
  /repo/txnkv/transaction/txn.go:InitPipelinedMemDB (closed check, pipelinedStart/pipelinedEnd, primary key), and of
  the range handed to /repo/txnkv/rangetask/range_task.go:RunOnRange by
  /repo/txnkv/transaction/pipelined_flush.go:resolveFlushedLocks (C16).  Core-only, executable.

  Conventions
  * a buffer (`MemDB` without flags) is an association list key ↦ value, at most one entry per key;
    the empty value is the tombstone written by `Delete` (memdb.go: `IsTombstone`);
  * the flush goroutine is a pair of events: `start` (inside `Flush`: the goroutine calls the flush function) and
    `complete` (the flush function returned: `onFlushing := false; errCh <- err`).  When `Flush`/`FlushWait` block on
    `errCh` while the flush function is still running, the result it will return is an *input* (`late`);
  * `Mem()` of the mutable buffer (arena capacities) is an input of `flush` (observed on the implementation);
  * ghost fields (`hist`, `active`, `failed`, `lockKeys`) record what the theorems talk about; no branch reads them.
-/
import ClientGoVerif.Model.Bytes
import ClientGoVerif.Generated.PipelinedConsts
namespace CGV.Pipelined
open CGV

/-! ## buffers -/

abbrev Buf := List (Bytes × Bytes)

def Buf.get : Buf → Bytes → Option Bytes
  | [], _ => none
  | (k', v) :: rest, k => if k' = k then some v else Buf.get rest k

def Buf.erase (b : Buf) (k : Bytes) : Buf := b.filter (fun e => !(e.1 == k))

/-- `MemDB.Set`/`Delete`: one entry per key, the new one wins -/
def Buf.put (b : Buf) (k v : Bytes) : Buf := (k, v) :: b.erase k

def Buf.keys (b : Buf) : List Bytes := b.map (·.1)

/-- insertion into a list sorted by key (only used to print buffers / pick the first mutation) -/
def insertSorted (e : Bytes × Bytes) : Buf → Buf
  | [] => [e]
  | x :: xs => if Bytes.lt e.1 x.1 then e :: x :: xs else x :: insertSorted e xs

def Buf.sorted (b : Buf) : Buf := b.foldr insertSorted []

/-- write the entries of `ms` into `b` (where `ms` names a key twice its first entry wins, as in `Buf.get`) -/
def Buf.apply (b : Buf) (ms : Buf) : Buf := ms.foldr (fun e acc => acc.put e.1 e.2) b

def minKey : List Bytes → Bytes → Bytes
  | [], m => m
  | k :: ks, m => minKey ks (if Bytes.lt k m then k else m)

def maxKey : List Bytes → Bytes → Bytes
  | [], m => m
  | k :: ks, m => maxKey ks (if Bytes.lt m k then k else m)

/-! ## configuration and state -/

structure Cfg where
  minKeys : Nat := Gen.MinFlushKeys
  minSize : Nat := Gen.MinFlushMemSize
  forceSize : Nat := Gen.ForceFlushMemSizeThreshold
  /-- true: the flush function is the callback of InitPipelinedMemDB (sticky `closed`, range bounds, primary) -/
  layer : Bool := false
  deriving Repr

inductive FlushRes | ok | err
  deriving DecidableEq, Repr

/-- `ttlManager.state` of the committer: `run` (after the batch holding the primary was flushed) moves uninit → running,
    `close` moves running → closed *only*; the flush callback refuses to flush when it reads `closed` -/
inductive TTL | uninit | running | closed
  deriving DecidableEq, Repr

/-- the kind of error a failing flush function returns, as far as the code distinguishes kinds:
    `handleAlreadyExistErr` special-cases an error chain that contains `*tikverr.ErrKeyExist` (for key `k`) -/
inductive ErrKind | generic | keyExist (k : Bytes)
  deriving DecidableEq, Repr

/-- the error `Flush` / `FlushWait` hand to the caller: the flush function's error, except that a chain containing
    ErrKeyExist is replaced by that ErrKeyExist with `Value` set to what the flushing buffer holds for its key
    (left unset when the flushing buffer has no value for the key) -/
inductive Reported | generic | keyExist (k : Bytes) (v : Option Bytes)
  deriving DecidableEq, Repr

/-- `handleAlreadyExistErr` -/
def translate (flushing : Option Buf) : ErrKind → Reported
  | .generic => .generic
  | .keyExist k => .keyExist k (flushing.bind (·.get k))

/-- how a running flush function ends: result, when it fails how many mutations (in key order) reached the store,
    and the kind of its error -/
structure Completion where
  res : FlushRes
  applied : Nat
  kind : ErrKind := .generic
  deriving Repr

abbrev Cache := List (Bytes × Option Bytes)

def Cache.get : Cache → Bytes → Option (Option Bytes)
  | [], _ => none
  | (k', v) :: rest, k => if k' = k then some v else Cache.get rest k

def Cache.put (c : Cache) (k : Bytes) (v : Option Bytes) : Cache := (k, v) :: c.filter (fun e => !(e.1 == k))

structure PState where
  cfg : Cfg := {}
  /-- `memDB` -/
  mbuf : Buf := []
  /-- staging checkpoints of `memDB`, innermost first -/
  stages : List Buf := []
  /-- `flushingMemDB` -/
  flushing : Option Buf := none
  /-- `onFlushing`: the flush function has been called and has not returned -/
  running : Bool := false
  /-- content of `errCh` (capacity 1) -/
  errCh : Option FlushRes := none
  /-- the kind of the error sitting in `errCh` (meaningful when `errCh = some .err`) -/
  errKind : ErrKind := .generic
  /-- the error most recently returned by `Flush` / `FlushWait` -/
  lastErr : Option Reported := none
  /-- the remote buffer served by `bufferBatchGetter` (locks of this transaction in the store) -/
  store : Buf := []
  /-- `generation` -/
  gen : Nat := 0
  /-- `batchGetCache` -/
  cache : Option Cache := none
  /-- callback layer: `committer.ttlManager.state` -/
  ttl : TTL := .uninit
  /-- callback layer: `pipelinedCommitInfo.pipelinedStart/End`, `committer.primaryKey` (empty = unset) -/
  pStart : Bytes := []
  pEnd : Bytes := []
  primary : Bytes := []
  -- ghost
  /-- every call of the flush function, newest first: (generation, buffer handed over) -/
  hist : List (Nat × Buf) := []
  /-- generations whose flush function is running -/
  active : List Nat := []
  /-- a flush error has been returned to the caller by `Flush` or `FlushWait` -/
  failed : Bool := false
  /-- callback layer: keys sent to the store in a Flush request (they carry locks) -/
  lockKeys : List Bytes := []
  deriving Repr

inductive Op
  | set (k v : Bytes)
  | del (k : Bytes)
  | get (k : Bytes)
  | batchGet (ks : List Bytes)
  | flush (force : Bool) (mem : Nat) (late : Completion)
  | flushDone (c : Completion)
  | flushWait (late : Completion)
  | stage
  | release
  | cleanup
  deriving Repr

inductive Out
  | ok
  | val (v : Bytes)
  | notFound
  | vals (m : Buf)
  | handle (h : Nat)
  /-- `Flush` returned (false, nil) -/
  | notFlushed
  /-- `Flush` returned (true, nil); the flush function was called with (gen, buffer); `rpc`: a Flush request is sent -/
  | flushed (gen : Nat) (b : Buf) (rpc : Bool)
  | errNilValue
  | errStaging
  /-- the error of the previous flush, returned by `Flush` or `FlushWait` -/
  | errFlush
  /-- `flushDone` while no flush function is running (not an event of the implementation) -/
  | noFlush
  deriving Repr, DecidableEq

/-! ## reads -/

/-- what lies below the mutable buffer without the cache: flushing buffer, then the store -/
def below (s : PState) (k : Bytes) : Option Bytes :=
  match s.flushing.bind (·.get k) with
  | some v => some v
  | none => s.store.get k

/-- `get(k, skipRemoteBuffer = true)` = `GetLocal` -/
def getLocal (s : PState) (k : Bytes) : Option Bytes :=
  match s.mbuf.get k with
  | some v => some v
  | none => s.flushing.bind (·.get k)

/-- `get(k, skipRemoteBuffer = false)`: mutable, flushing, cache, remote buffer -/
def readValue (s : PState) (k : Bytes) : Option Bytes :=
  match getLocal s k with
  | some v => some v
  | none =>
    match s.cache.bind (·.get k) with
    | some e => e
    | none => s.store.get k

/-- first loop of `BatchGet`: local hits go to the result and to the cache, misses to `shrinkKeys` -/
def bgLocal (s : PState) : List Bytes → Buf → Cache → List Bytes → Buf × Cache × List Bytes
  | [], m, c, miss => (m, c, miss.reverse)
  | k :: ks, m, c, miss =>
    match getLocal s k with
    | some v => bgLocal s ks (m.put k v) (c.put k (some v)) miss
    | none => bgLocal s ks m c (k :: miss)

/-- second loop of `BatchGet` over `shrinkKeys` with the values of the remote buffer -/
def bgRemote (store : Buf) : List Bytes → Buf → Cache → Buf × Cache
  | [], m, c => (m, c)
  | k :: ks, m, c =>
    match store.get k with
    | some v => bgRemote store ks (m.put k v) (c.put k (some v))
    | none => bgRemote store ks m (c.put k none)

def batchGet (s : PState) (ks : List Bytes) : PState × Buf :=
  let c0 := s.cache.getD []
  let (m1, c1, miss) := bgLocal s ks [] c0 []
  let (m2, c2) := bgRemote s.store miss m1 c1
  ({ s with cache := some c2 }, m2)

/-! ## flush -/

/-- `needFlush` -/
def needFlush (cfg : Cfg) (mem len : Nat) (onFlushing : Bool) : Bool :=
  if mem < cfg.minSize || (len < cfg.minKeys && mem < cfg.forceSize) then false
  else if onFlushing && mem < cfg.forceSize then false
  else true

/-- the flush function returns: `onFlushing := false; errCh <- err`.  On success all mutations of the flushing buffer are
    in the store; on failure a prefix (in key order) may be. -/
def complete (s : PState) (c : Completion) : PState :=
  match s.flushing with
  | none => s
  | some f =>
    let ms := match c.res with
      | .ok => f
      -- callback layer: a Flush request succeeds or fails as a whole, and every request of one failing flush fails
      | .err => f.sorted.take (if s.cfg.layer then 0 else c.applied)
    { s with
      store := s.store.apply ms
      running := false
      errCh := some c.res
      -- with the callback layer an AlreadyExist key error of a key without the PresumeKeyNotExists flag comes back from
      -- `extractKeyExistsErr` as a plain error (flags are not exercised)
      errKind := if s.cfg.layer then .generic else c.kind
      ttl := if s.cfg.layer then
          (match c.res with
           | .ok => if s.ttl == .uninit && f.keys.contains s.primary then .running else s.ttl   -- `c.run` after the primary batch
           | .err => if s.ttl == .running then .closed else s.ttl)                              -- `committer.close()`
        else s.ttl
      active := s.active.filter (· != s.gen) }

/-- `kv.NextKey`: the least byte string greater than `k` -/
def nextKey (k : Bytes) : Bytes := k ++ [0]

/-- the flush callback's "update bounds" block: `if len(pipelinedStart) == 0 || pipelinedStart > startKey` for the start;
    the end is the EXCLUSIVE bound `NextKey(largest key)`: `if len(pipelinedEnd) == 0 || pipelinedEnd <= endKey` -/
def updBounds (b : Bytes × Bytes) (ks : List Bytes) : Bytes × Bytes :=
  let lo := minKey ks (ks.headD [])
  let hi := maxKey ks (ks.headD [])
  (if b.1.isEmpty || Bytes.lt lo b.1 then lo else b.1, if b.2.isEmpty || Bytes.le b.2 hi then nextKey hi else b.2)

/-- the bounds after the callback has seen the non-empty key batches `bs` (oldest first) -/
def boundsOf (bs : List (List Bytes)) : Bytes × Bytes := bs.foldl updBounds ([], [])

/-- what the callback can see: every flushed buffer is non-empty (`memdb.Len() == 0` returns early) and keys are non-empty -/
def validBatches (bs : List (List Bytes)) : Prop := ∀ b ∈ bs, b ≠ [] ∧ ∀ k ∈ b, k ≠ []

/-- `Flush` past all checks: swap the buffers, bump the generation, call the flush function in a goroutine.
    With the callback layer the function returns at once when the committer is closed (error) or the buffer is
    empty (nil); otherwise it updates the range bounds and the primary and sends the Flush requests. -/
def start (s : PState) : PState × Out :=
  let f := s.mbuf
  let g := s.gen + 1
  let s1 := { s with flushing := some f, mbuf := [], gen := g, errCh := none, hist := (g, f) :: s.hist }
  if s.cfg.layer then
    if s.ttl == .closed then
      ({ s1 with running := false, errCh := some .err, errKind := .generic }, .flushed g f false)
    else if f.isEmpty then
      ({ s1 with running := false, errCh := some .ok }, .flushed g f false)
    else
      let ks := f.keys
      let nb := updBounds (s.pStart, s.pEnd) ks
      -- `if len(c.primaryKey) == 0 { primaryKey = key }` over the mutations in key order
      let first := (f.sorted.keys.find? (fun k => !k.isEmpty)).getD []
      ({ s1 with
          running := true, active := g :: s.active
          pStart := nb.1
          pEnd := nb.2
          primary := if s.primary.isEmpty then first else s.primary
          lockKeys := ks ++ s.lockKeys },
       .flushed g f true)
  else
    ({ s1 with running := true, active := g :: s.active }, .flushed g f false)

/-- the receive `<-p.errCh`: if the flush function is still running it ends now, with the result `late` -/
def await (s : PState) (late : Completion) : PState :=
  if s.running then complete s late else s

/-- `err != nil` after the receive: `err = p.handleAlreadyExistErr(err); p.flushingMemDB = nil; return err` -/
def failWith (s : PState) : PState × Out :=
  ({ s with flushing := none, errCh := none, failed := true, lastErr := some (translate s.flushing s.errKind) }, .errFlush)

/-- `Flush` after the receive from `errCh` -/
def flushAfterWait (s : PState) : PState × Out :=
  if s.errCh = some .err then failWith s else start s

def doFlush (s : PState) (force : Bool) (mem : Nat) (late : Completion) : PState × Out :=
  let s1 := { s with cache := none }
  if !s1.stages.isEmpty then (s1, .errStaging)
  else if !force && !needFlush s1.cfg mem s1.mbuf.length s1.running then (s1, .notFlushed)
  else if s1.flushing.isSome then flushAfterWait (await s1 late)
  else start s1

/-- `FlushWait` after the receive from `errCh` -/
def waitAfter (s : PState) : PState × Out :=
  if s.errCh = some .err then failWith s else ({ s with flushing := none, errCh := none }, .ok)

def doFlushWait (s : PState) (late : Completion) : PState × Out :=
  if s.flushing.isSome then waitAfter (await s late) else (s, .ok)

/-! ## the machine -/

def step (s : PState) : Op → PState × Out
  | .set k v => if v.isEmpty then (s, .errNilValue) else ({ s with mbuf := s.mbuf.put k v }, .ok)
  | .del k => ({ s with mbuf := s.mbuf.put k [] }, .ok)
  | .get k => (s, match readValue s k with | some v => .val v | none => .notFound)
  | .batchGet ks => let (s', m) := batchGet s ks; (s', .vals m.sorted)
  | .flush force mem late => doFlush s force mem late
  | .flushDone c => if s.running then (complete s c, .ok) else (s, .noFlush)
  | .flushWait late => doFlushWait s late
  | .stage => ({ s with stages := s.mbuf :: s.stages }, .handle (s.stages.length + 1))
  | .release => ({ s with stages := s.stages.tail }, .ok)
  | .cleanup =>
    -- `p.batchGetCache = nil; p.memDB.Cleanup(h)`
    match s.stages with
    | [] => ({ s with cache := none }, .ok)
    | m :: rest => ({ s with mbuf := m, stages := rest, cache := none }, .ok)

def run (s : PState) : List Op → PState
  | [] => s
  | op :: ops => run (step s op).1 ops

def init (cfg : Cfg) : PState := { cfg := cfg }

/-- the value of `k` in the newest generation whose flush function has returned and that holds `k`
    (`hist` is newest first; the generation still being flushed is not counted) -/
def newestFlushed (s : PState) (k : Bytes) : Option Bytes :=
  ((if s.running then s.hist.tail else s.hist).map (·.2)).findSome? (·.get k)

/-- the assumption under which the callback's bounds are meaningful: written keys are non-empty (the empty key is the
    "unset" sentinel of pipelinedStart / pipelinedEnd / primaryKey) -/
def Op.keyOk : Op → Bool
  | .set k _ => !k.isEmpty
  | .del k => !k.isEmpty
  | _ => true

/-- what the caller sees: the results of the ops, in order -/
def runOuts (s : PState) : List Op → List Out
  | [] => []
  | op :: ops => (step s op).2 :: runOuts (step s op).1 ops

/-! ## the specification the buffer is compared with: one map and the batches between flushes -/

structure Spec where
  /-- the write log of the transaction, newest first (a read returns the newest entry of the key) -/
  cur : Buf := []
  curSaved : List Buf := []
  /-- the writes since the last triggered flush, newest first -/
  pending : Buf := []
  pendSaved : List Buf := []
  /-- the write logs closed by each triggered flush, newest first -/
  handed : List Buf := []
  deriving Repr

def specStep (sp : Spec) (op : Op) (out : Out) : Spec :=
  match op with
  | .set k v => if v.isEmpty then sp else { sp with cur := (k, v) :: sp.cur, pending := (k, v) :: sp.pending }
  | .del k => { sp with cur := (k, []) :: sp.cur, pending := (k, []) :: sp.pending }
  | .stage => { sp with curSaved := sp.cur :: sp.curSaved, pendSaved := sp.pending :: sp.pendSaved }
  | .release => { sp with curSaved := sp.curSaved.tail, pendSaved := sp.pendSaved.tail }
  | .cleanup =>
    { sp with cur := sp.curSaved.headD sp.cur, curSaved := sp.curSaved.tail,
              pending := sp.pendSaved.headD sp.pending, pendSaved := sp.pendSaved.tail }
  | .flush _ _ _ =>
    match out with
    | .flushed _ _ _ => { sp with handed := sp.pending :: sp.handed, pending := [] }
    | _ => sp
  | _ => sp

def stepBoth (σ : PState × Spec) (op : Op) : (PState × Spec) × Out :=
  let r := step σ.1 op
  ((r.1, specStep σ.2 op r.2), r.2)

def runBoth (σ : PState × Spec) : List Op → PState × Spec
  | [] => σ
  | op :: ops => runBoth (stepBoth σ op).1 ops

/-- `Commit` of a pipelined transaction as far as the buffer is concerned (2pc.go:execute): `Flush(true)`, `FlushWait()` -/
def commitOuts (s : PState) (mem : Nat) (late1 late2 : Completion) : Out × Out :=
  let r1 := doFlush s true mem late1
  match r1.2 with
  | .flushed _ _ _ => (r1.2, (doFlushWait r1.1 late2).2)
  | o => (o, .ok)

def commitOk (s : PState) (mem : Nat) (late1 late2 : Completion) : Bool :=
  match commitOuts s mem late1 late2 with
  | (.flushed _ _ _, .ok) => true
  | _ => false

/-! ## the commit point of a pipelined transaction -/

/-- what happens to one Commit request for the primary key (store side + network):
    `execLost`: the store executes it, the answer is lost (RPC error); `lost`: the request is lost before execution;
    `keyErr`: the store answers with a definite key error (it answers `ok` if the primary is already committed);
    `ok`: executed and answered -/
inductive Attempt | execLost | lost | keyErr | ok
  deriving DecidableEq, Repr

/-- outcome of `commitMutations(primary)`: success, or an error together with the committer's undetermined flag
    (`setUndeterminedErr` on an RPC error of the primary batch, cleared by any later answer) -/
inductive CommitRes | ok | err (undetermined : Bool)
  deriving DecidableEq, Repr

/-- `actionCommit.handleSingleBatch` for the primary batch: the region request sender may retry after an RPC error (on
    another replica, after a back-off) until an answer arrives or it gives up.  How many attempts it makes is the
    replica selector's business (observed on the implementation); `attempts` lists what happened to each attempt made.
    Returns (primary committed in the store?, result): when every attempt was lost the error comes back with the
    undetermined flag set. -/
def primaryCommit : List Attempt → Bool → Bool × CommitRes
  | [], c => (c, .err true)
  | a :: rest, c =>
    match a with
    | .execLost => primaryCommit rest true
    | .lost => primaryCommit rest c
    | .keyErr => if c then (c, .ok) else (c, .err false)
    | .ok => (true, .ok)

/-- what `KVTxn.Commit` tells the caller -/
inductive Answer | nil | undetermined | other
  deriving DecidableEq, Repr

/-- `commitFlushedMutations` (as `commitTxn` of ordinary 2PC): an error of `commitMutations(primary)` is reported as
    ErrResultUndetermined when the undetermined flag is set, and as it is otherwise -/
def pipelinedAnswer : CommitRes → Answer
  | .ok => .nil
  | .err true => .undetermined
  | .err false => .other

/-- the caller must not be told a definite failure for a committed transaction, nor success for an uncommitted one -/
def answerMatchesOutcome (a : Answer) (committed : Bool) : Bool :=
  !(a == .other && committed) && !(a == .nil && !committed)

/-! ## the range handed to the range task and the regions it visits -/

/-- region layout = the split keys, strictly increasing; regions are [-∞,s₁), [s₁,s₂), …, [sₙ,+∞);
    a region is (start, end) with `none` = +∞ (the empty start key is -∞ and the least byte string) -/
abbrev Region := Bytes × Option Bytes

/-- the loop of `RunOnRange` with `regionsPerTask = 1` plus the handler of `buildPipelinedResolveHandler`, which
    sends one region-wide ResolveLock per task: the regions that receive a ResolveLock, in order.
    `key` = next start key, `lo` = start of the region currently looked at. -/
def tasks (key end_ : Bytes) : Bytes → List Bytes → List Region
  | lo, [] => [(lo, none)]
  | lo, hi :: rest =>
    if Bytes.lt key hi then
      (lo, some hi) :: (if Bytes.le end_ hi then [] else tasks hi end_ hi rest)
    else tasks key end_ hi rest

/-- the same loop for an unbounded end key (`len(endKey) == 0`): every region from the one holding `key` -/
def tasksFrom (key : Bytes) : Bytes → List Bytes → List Region
  | lo, [] => [(lo, none)]
  | lo, hi :: rest => if Bytes.lt key hi then (lo, some hi) :: tasksFrom hi hi rest else tasksFrom key hi rest

/-- `RunOnRange(start, end)`: `if len(endKey) != 0 && bytes.Compare(startKey, endKey) >= 0 { return nil }` -/
def runOnRange (splits : List Bytes) (start end_ : Bytes) : List Region :=
  if end_.isEmpty then tasksFrom start [] splits   -- unbounded (not reachable from resolveFlushedLocks' callers)
  else if !Bytes.lt start end_ then []
  else tasks start end_ [] splits

def Region.has (r : Region) (k : Bytes) : Bool :=
  Bytes.le r.1 k && (match r.2 with | none => true | some hi => Bytes.lt k hi)

def covered (rs : List Region) (k : Bytes) : Bool := rs.any (·.has k)

/-- key range in the half-open sense of RunOnRange -/
def inRange (start end_ k : Bytes) : Bool := Bytes.le start k && Bytes.lt k end_

/-- commit (after `Flush(true)`, `FlushWait`) / rollback (after `FlushWait`): the regions that get a ResolveLock.
    `none`: commit refused ("unexpected empty pipelinedStart or pipelinedEnd"). -/
def resolveRegions (s : PState) (splits : List Bytes) (commit : Bool) : Option (List Region) :=
  if s.pStart.isEmpty || s.pEnd.isEmpty then (if commit then none else some [])
  else some (runOnRange splits s.pStart s.pEnd)

/-- a flushed key reaches the outcome of the primary: it is the primary of a commit (committed directly by
    `commitFlushedMutations`) or its region receives the ResolveLock -/
def keyResolved (s : PState) (rs : List Region) (commit : Bool) (k : Bytes) : Bool :=
  (commit && k == s.primary) || covered rs k

end CGV.Pipelined
