/-
  Model of /repo/config/retry/backoff.go + config.go (newBackoffFn, expo) + kv/variables.go (C20).
  Core-only, executable.  Conventions:
  * Go `int` is `Int` (no overflow modelled); Go `map[string]int` is an association list (`AMap`), a missing
    key reads 0 exactly as in Go; `*Backoffer` is an index into the arena `State.bs` (ids are never reused).
  * Nondeterminism is an input: the pre-truncation `sleep` chosen by the jitter, and the error class returned
    when the budget is exhausted (Go picks the longest sleeper by map iteration order); the model checks that
    the input lies in the allowed set (`sleepAllowed`, `exceededErrs`) and otherwise answers `badChoice`
    without changing the state.
  * `context.Context`: a back-offer's context is the list of cancel tokens on its path from the root
    (`new`/`newNoop` create a root token = own id, `Fork` appends a token = id of the fork, `Clone` shares);
    it is done iff one of its tokens was cancelled.
  * `vars.Killed` is a pointer: `Vars.killTok` names the flag, `State.kills` holds the flag values.
  * Ghost fields (not in the Go struct): `tainted` (see `merge`) and `retired` (a fork that was merged into an
    ancestor shares its maps with it in Go — the doc comment of UpdateUsingForked forbids further use; the
    model rejects every later op that names it, so value semantics and pointer semantics agree).
-/
import ClientGoVerif.Generated.BackoffTable
namespace CGV.Backoff

/-! ## Go maps as association lists -/

abbrev AMap := List (String × Int)

def AMap.get : AMap → String → Int
  | [], _ => 0
  | (k', v) :: r, k => if k' = k then v else AMap.get r k

/-- `m[k] += d` -/
def AMap.add : AMap → String → Int → AMap
  | [], k, d => [(k, d)]
  | (k', v) :: r, k, d => if k' = k then (k', v + d) :: r else (k', v) :: AMap.add r k d

/-! ## configs -/

structure Config where
  name : String
  base : Int
  cap : Int
  jitter : Int
  errK : String        -- class of `cfg.err`
  deriving Repr, DecidableEq

def Config.ofRow (r : String × Int × Int × Int × String) : Config :=
  { name := r.1, base := r.2.1, cap := r.2.2.1, jitter := r.2.2.2.1, errK := r.2.2.2.2 }

def table : List Config := Gen.backoffTable.map Config.ofRow

/-- `isSleepExcluded[name]` (a package-level map keyed by the config *name*) -/
def exclLimit : List (String × Int) → String → Option Int
  | [], _ => none
  | (k, v) :: r, n => if k = n then some v else exclLimit r n

def excl (n : String) : Option Int := exclLimit Gen.isSleepExcluded n

/-- largest limit of `isSleepExcluded` (0 if the map is empty) -/
def exclMax : Int := Gen.isSleepExcluded.foldl (fun a p => max a p.2) 0

/-- `strings.EqualFold(c.name, txnLockFastName)` (ASCII) -/
def isLockFast (n : String) : Bool := n.toLower == Gen.txnLockFastName.toLower

/-- the largest cap of the table -/
def tableMaxCap : Int := table.foldl (fun a c => max a c.cap) 0

/-! ## newBackoffFn -/

/-- state captured by the closure returned by `newBackoffFn(base, cap, jitter)` -/
structure Fn where
  base : Int
  cap : Int
  jitter : Int
  attempts : Nat
  lastSleep : Int
  deriving Repr, DecidableEq

def mkFn (base cap jitter : Int) : Fn :=
  let b := if base < 2 then 2 else base
  { base := b, cap := cap, jitter := jitter, attempts := 0, lastSleep := b }

/-- `int(math.Min(float64(cap), float64(base)*math.Pow(2.0, float64(n))))` -/
def expo (base cap : Int) (n : Nat) : Int := min cap (base * 2 ^ n)

/-- may the `switch jitter` of the closure produce `sleep = s`?  (`rand.Intn(k)` needs k > 0, else it panics:
    an empty allowed set) -/
def sleepAllowed (f : Fn) (s : Int) : Bool :=
  let v := expo f.base f.cap f.attempts
  if f.jitter = Gen.noJitter then s == v
  else if f.jitter = Gen.fullJitter then decide (0 ≤ s ∧ s < v)
  else if f.jitter = Gen.equalJitter then
    let h := Int.tdiv v 2
    decide (0 < h ∧ h ≤ s ∧ s < h + h)
  else if f.jitter = Gen.decorrJitter then
    -- min(cap, base + rand.Intn(lastSleep*3 - base))
    let w := f.lastSleep * 3 - f.base
    decide (0 < w ∧ ((f.base ≤ s ∧ s < f.base + w ∧ s ≤ f.cap) ∨ (s = f.cap ∧ f.cap ≤ f.base + w - 1)))
  else s == 0

/-- `realSleep`: cut by the per-call maximum when that is ≥ 0 -/
def realSleep (maxSleepMs sleep : Int) : Int :=
  if maxSleepMs ≥ 0 ∧ sleep > maxSleepMs then maxSleepMs else sleep

/-! ## the Backoffer -/

structure Vars where
  lockFast : Int
  weight : Int
  killTok : Nat
  deriving Repr, DecidableEq

/-- kill token of `kv.DefaultVars` (`&ignoreKill`) -/
def defaultKillTok : Nat := 0
def defaultVars : Vars := { lockFast := Gen.defBackoffLockFast, weight := Gen.defBackOffWeight, killTok := defaultKillTok }

structure Backoffer where
  ctx : List Nat
  fns : List (String × Fn)            -- b.fn (nil ≙ [])
  maxSleep : Int
  totalSleep : Int
  excludedSleep : Int
  vars : Option Vars
  noop : Bool
  errorsNum : Nat
  configs : List (String × String)    -- b.configs as (name, error class)
  sleepMS : AMap                      -- b.backoffSleepMS
  times : AMap                        -- b.backoffTimes
  parent : Option Nat
  tainted : Bool                      -- ghost
  retired : Bool                      -- ghost
  deriving Repr, DecidableEq

structure State where
  bs : List Backoffer
  cancelled : List Nat
  kills : List (Nat × Nat)
  deriving Repr, DecidableEq

def init : State := { bs := [], cancelled := [], kills := [] }

def State.setB (s : State) (id : Nat) (b : Backoffer) : State := { s with bs := s.bs.set id b }
def State.push (s : State) (b : Backoffer) : State := { s with bs := s.bs ++ [b] }

def isDone (s : State) (b : Backoffer) : Bool := b.ctx.any (fun t => s.cancelled.contains t)

def killVal : List (Nat × Nat) → Nat → Nat
  | [], _ => 0
  | (k, v) :: r, t => if k = t then v else killVal r t

/-- `CheckKilled`: `some signal` when `vars != nil && vars.Killed != nil && *vars.Killed != 0` -/
def checkKilled (s : State) (b : Backoffer) : Option Nat :=
  match b.vars with
  | none => none
  | some v => let k := killVal s.kills v.killTok; if k ≠ 0 then some k else none

def maxInt32 : Int := 2147483647

/-- the tail of `withVars` (after `b.vars` is set): `none` = run-time panic (nil `vars`, weight 0) -/
def applyWeight (b : Backoffer) : Option Backoffer :=
  if b.maxSleep > 0 then
    match b.vars with
    | none => none
    | some v =>
      if v.weight = 0 then none
      else if Int.tdiv maxInt32 v.weight ≥ b.maxSleep then some { b with maxSleep := b.maxSleep * v.weight }
      else some b
  else some b

def fnLookup : List (String × Fn) → String → Option Fn
  | [], _ => none
  | (k, f) :: r, n => if k = n then some f else fnLookup r n

def fnSet : List (String × Fn) → String → Fn → List (String × Fn)
  | [], n, f => [(n, f)]
  | (k, g) :: r, n, f => if k = n then (k, f) :: r else (k, g) :: fnSet r n f

/-- first config of `b.configs` with the given name (the second loop of `longestSleepCfg`) -/
def cfgErr : List (String × String) → String → Option String
  | [], _ => none
  | (k, e) :: r, n => if k = n then some e else cfgErr r n

/-! ### longestSleepCfg -/

/-- entries of `backoffSleepMS` whose kind is not excluded -/
def nonExcl (m : AMap) : AMap := m.filter (fun p => (excl p.1).isNone)

/-- the `maxSleep` local of `longestSleepCfg` after the loop -/
def longest (m : AMap) : Int := (nonExcl m).foldl (fun a p => max a p.2) 0

/-- possible values of `candidate` after the first loop (which one depends on map iteration order);
    `""` when nothing slept -/
def candidates (m : AMap) : List String :=
  if longest m > 0 then ((nonExcl m).filter (fun p => p.2 == longest m)).map (·.1) else [""]

/-- error classes `BackoffWithCfgAndMaxSleep` may return when the budget is exceeded -/
def exceededErrs (b : Backoffer) (caller : String) : List String :=
  (candidates b.sleepMS).map fun n => match cfgErr b.configs n with | some e => e | none => caller

/-! ### results -/

inductive Out
  | created (id : Nat)
  | slept (real base : Int) (attempts : Nat)                -- returns nil
  | killedAfter (sig : Nat) (real base : Int) (attempts : Nat)  -- slept, then CheckKilled fired
  | cancelled                                               -- ctx done: returns the caller's error, no sleep
  | noop                                                    -- NewNoopBackoff: returns the caller's error
  | exceeded (errK : String)
  | merged | ignored                                        -- UpdateUsingForked: ancestor found / not found
  | done
  | badChoice                                               -- the supplied observation is not in the allowed set
  | bad                                                     -- unknown / retired back-offer, unknown token
  | panic                                                   -- nil-vars dereference or division by zero in Go
  deriving Repr, DecidableEq

def callerK : String := "caller"

/-- the closure `f` used by the call: `b.fn[cfg.name]`, lazily created by `cfg.createBackoffFn(b.vars)`, which
    dereferences `vars` only for the lock-fast name (`none` = nil dereference) -/
def effFn (b : Backoffer) (cfg : Config) : Option Fn :=
  match fnLookup b.fns cfg.name with
  | some f => some f
  | none =>
    if isLockFast cfg.name then
      match b.vars with
      | some v => some (mkFn v.lockFast cfg.cap cfg.jitter)
      | none => none
    else some (mkFn cfg.base cfg.cap cfg.jitter)

/-- `b.maxSleep > 0 && (maxBackoffTimeExceeded || maxExcludedTimeExceeded)` -/
def overBudget (b : Backoffer) (name : String) : Bool :=
  let maxBackoffTimeExceeded : Bool := decide (b.totalSleep - b.excludedSleep ≥ b.maxSleep)
  let maxExcludedTimeExceeded : Bool :=
    match excl name with
    | some maxLimit => decide (b.excludedSleep ≥ maxLimit ∧ b.excludedSleep ≥ b.maxSleep)
    | none => false
  decide (b.maxSleep > 0) && (maxBackoffTimeExceeded || maxExcludedTimeExceeded)

/-- the accounting after a sleep of `realSleep maxSleepMs sleep` with closure `f` -/
def sleptB (b : Backoffer) (cfg : Config) (f : Fn) (maxSleepMs sleep : Int) : Backoffer :=
  let real := realSleep maxSleepMs sleep
  { b with
    errorsNum := b.errorsNum + 1                                     -- appendErr
    configs := b.configs ++ [(cfg.name, cfg.errK)]
    fns := fnSet b.fns cfg.name { f with attempts := f.attempts + 1, lastSleep := sleep }
    totalSleep := b.totalSleep + real
    excludedSleep := if (excl cfg.name).isSome then b.excludedSleep + real else b.excludedSleep
    sleepMS := b.sleepMS.add cfg.name real
    times := b.times.add cfg.name 1 }

/-- `BackoffWithCfgAndMaxSleep(cfg, maxSleepMs, err)`; inputs `sleep` and `obsErr` resolve the nondeterminism -/
def backoff (s : State) (id : Nat) (b : Backoffer) (cfg : Config) (maxSleepMs sleep : Int) (obsErr : String) :
    State × Out :=
  if isDone s b then (s, .cancelled)                 -- select <-b.ctx.Done(): return err
  else if b.noop then (s, .noop)
  else if overBudget b cfg.name then
    if (exceededErrs b callerK).contains obsErr then (s, .exceeded obsErr) else (s, .badChoice)
  else
    match effFn b cfg with
    | none => (s, .panic)
    | some f =>
      if sleepAllowed f sleep then
        let b' := sleptB b cfg f maxSleepMs sleep
        -- CheckKilled after the accounting
        match checkKilled s b' with
        | some sig => (s.setB id b', .killedAfter sig (realSleep maxSleepMs sleep) f.base f.attempts)
        | none => (s.setB id b', .slept (realSleep maxSleepMs sleep) f.base f.attempts)
      else (s, .badChoice)

/-- proper ancestors of a back-offer whose `parent` field is `p`, nearest first (`fuel` ≥ arena size suffices,
    see `Proofs/Backoff.lean: ancestors_fuel`) -/
def ancestors (bs : List Backoffer) : Nat → Option Nat → List Nat
  | 0, _ => []
  | _ + 1, none => []
  | fuel + 1, some p => p :: ancestors bs fuel (match bs[p]? with | some b => b.parent | none => none)

def newBackoffer (id : Nat) (maxSleep : Int) (vars : Option Vars) : Backoffer :=
  { ctx := [id], fns := [], maxSleep := maxSleep, totalSleep := 0, excludedSleep := 0, vars := vars, noop := false,
    errorsNum := 0, configs := [], sleepMS := [], times := [], parent := none, tainted := false, retired := false }

/-- `Reset` -/
def resetB (b : Backoffer) : Backoffer :=
  { b with fns := [], totalSleep := 0, excludedSleep := 0, tainted := false }

inductive Op
  /-- `NewBackoffer(ctx, maxSleep)`: DefaultVars, no weight applied -/
  | newPlain (maxSleep : Int)
  /-- `NewBackofferWithVars(ctx, maxSleep, nil)` -/
  | newNil (maxSleep : Int)
  /-- `NewBackofferWithVars(ctx, maxSleep, &Variables{lockFast, weight, &fresh})` -/
  | newVars (maxSleep lockFast weight : Int)
  | newNoop
  | backoff (id : Nat) (cfg : Config) (maxSleepMs sleep : Int) (obsErr : String)
  | clone (id : Nat)
  | fork (id : Nat)
  /-- `bs[target].UpdateUsingForked(bs[forked])` -/
  | merge (target forked : Nat)
  | reset (id : Nat)
  | resetMaxSleep (id : Nat) (maxSleep : Int)
  /-- call the cancel function of the context created together with back-offer `tok` -/
  | cancel (tok : Nat)
  /-- `atomic.StoreUint32(vars.Killed, sig)` for the vars created with back-offer `id` -/
  | kill (id : Nat) (sig : Nat)
  deriving Repr, DecidableEq

/-- a live (existing, not retired) back-offer -/
def State.live (s : State) (id : Nat) : Option Backoffer :=
  match s.bs[id]? with
  | some b => if b.retired then none else some b
  | none => none

def step (s : State) : Op → State × Out
  | .newPlain n =>
    (s.push (newBackoffer s.bs.length n (some defaultVars)), .created s.bs.length)
  | .newNil n =>
    match applyWeight (newBackoffer s.bs.length n (some defaultVars)) with
    | some b => (s.push b, .created s.bs.length)
    | none => (s, .panic)
  | .newVars n lf w =>
    -- the kill flag of the new Variables is named by id+1 (0 is DefaultVars' flag)
    match applyWeight (newBackoffer s.bs.length n (some { lockFast := lf, weight := w, killTok := s.bs.length + 1 })) with
    | some b => (s.push b, .created s.bs.length)
    | none => (s, .panic)
  | .newNoop =>
    (s.push { newBackoffer s.bs.length 0 none with noop := true }, .created s.bs.length)
  | .backoff id cfg m sleep obsErr =>
    match s.live id with
    | some b => backoff s id b cfg m sleep obsErr
    | none => (s, .bad)
  | .clone id =>
    match s.live id with
    | some b => (s.push { b with fns := [], noop := false }, .created s.bs.length)
    | none => (s, .bad)
  | .fork id =>
    match s.live id with
    | some b => (s.push { b with fns := [], noop := false, ctx := b.ctx ++ [s.bs.length], parent := some id },
                 .created s.bs.length)
    | none => (s, .bad)
  | .merge t f =>
    match s.live t, s.live f with
    | some b, some fb =>
      if (ancestors s.bs s.bs.length fb.parent).contains t then
        let b' := { b with
          totalSleep := fb.totalSleep, excludedSleep := fb.excludedSleep, errorsNum := fb.errorsNum
          sleepMS := fb.sleepMS, times := fb.times
          configs := fb.configs       -- `b.configs = forked.configs` (the slice is shared like the maps; `forked` is retired)
          -- ghost: the copied accounting was accumulated under the fork's budget
          tainted := fb.tainted || decide (fb.maxSleep ≤ 0) || decide (fb.maxSleep > b.maxSleep) }
        (((s.setB t b').setB f { fb with retired := true }), .merged)
      else (s, .ignored)
    | _, _ => (s, .bad)
  | .reset id =>
    match s.live id with
    | some b => (s.setB id (resetB b), .done)
    | none => (s, .bad)
  | .resetMaxSleep id n =>
    match s.live id with
    | some b =>
      match applyWeight { resetB b with maxSleep := n } with
      | some b' => (s.setB id b', .done)
      | none => (s, .panic)
    | none => (s, .bad)
  | .cancel tok =>
    match s.bs[tok]? with
    | some b => if b.ctx.getLast? = some tok then ({ s with cancelled := tok :: s.cancelled }, .done) else (s, .bad)
    | none => (s, .bad)
  | .kill id sig =>
    match s.bs[id]? with
    | some b =>
      match b.vars with
      | some v => if v.killTok = id + 1 then ({ s with kills := (v.killTok, sig) :: s.kills }, .done) else (s, .bad)
      | none => (s, .bad)
    | none => (s, .bad)

def run (s : State) (ops : List Op) : State := ops.foldl (fun s o => (step s o).1) s

/-- `GetTypes`: config names of this back-offer and all its ancestors -/
def getTypes (s : State) (b : Backoffer) : List String :=
  b.configs.map (·.1) ++
    (ancestors s.bs s.bs.length b.parent).flatMap fun a =>
      match s.bs[a]? with | some x => x.configs.map (·.1) | none => []

end CGV.Backoff
