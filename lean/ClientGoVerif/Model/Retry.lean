/-
  C10 — accounting model of the retry loop of /repo/internal/locate/region_request.go
  (`SendReqCtx`, `sendReqState.next`, `onSendFail`, `onRegionError`) and replica_selector.go.  Core-only, executable.

  The replica selector is abstracted to its ACCOUNTING; which replica is chosen (scoring, labels, liveness, slowness)
  is NOT modelled — the observed choice is an input:
    * per replica `attempts` (`baseReplicaSelector.buildRPCContext`: `targetReplica.attempts++`), capped by
      `maxReplicaAttempt` (`replica.isExhausted`, the weakest of the caps 1 / 2 / maxReplicaAttempt the strategies use);
    * `replica.onUpdateLeader`: a NotLeader reply with a leader hint refills an exhausted replica to `maxReplicaAttempt-1`;
      every NotLeader reply with a leader hint is a redirect; `replicaSelector.leaderHintRedirects` counts them and from the
      (#replicas+1)-th on `onNotLeader` backs off (regionScheduling) before following the hint;
    * the back-off budget of config/retry/backoff.go `BackoffWithCfgAndMaxSleep`: a back-off of a non-excluded kind is
      refused when `totalSleep - excludedSleep ≥ maxSleep`, of an excluded kind additionally when
      `excludedSleep ≥ limit ∧ excludedSleep ≥ maxSleep`; every sleep is at least the kind's minimal sleep;
    * flags of every outgoing request (`req.ReplicaRead`, `req.StaleRead`, `req.IsRetryRequest`) and read-ts validation
      (`validateReadTS` runs before the loop; on failure nothing is sent);
    * the final result: ok only directly after a store's ok reply, a store region error only after such a reply,
      the pseudo EpochNotMatch when no replica is left, an error only once the budget is spent (or ts validation failed).

  One model step per observed loop event (`Ev`); `stepAllowed` says which events are legal in which state.
-/
import ClientGoVerif.Model.Bytes
import ClientGoVerif.Generated.RetryConsts
namespace CGV.Retry
open CGV

/-- what the store answered to one RPC, as far as the accounting cares -/
inductive Resp
  | ok | rpcerr | regionerr | nlhint (q : Nat)
  deriving DecidableEq, Repr

/-- value returned by `SendReqCtx` -/
inductive ResKind
  | ok            -- a response without region error
  | regionStore   -- a response carrying a store's region error (not retriable / not retried)
  | regionPseudo  -- EpochNotMatch without regions (fabricated when no replica is left, or a store's own)
  | errBudget     -- an error (the Backoffer refused to sleep)
  | errTs         -- the read-ts validator's error
  | errFatal      -- the sender's own error for an answer it never retries (flashback, raft entry too large, …)
  | errOther      -- anything else (cancelled context, panic, …): never legal for the fault alphabet of C10
  deriving DecidableEq, Repr

inductive Ev
  /-- one RPC attempt: target peer/store (1-based), wire flags, proxy store (0 = none), the real `replica.attempts` of the
      charged replica after the send (0 = not reported), the answer class and the answer itself (fault name) -/
  | send (peer store : Nat) (rr sr retry : Bool) (proxy attObs : Nat) (resp : Resp) (fault : String)
  /-- `replica.onUpdateLeader` lowered an exhausted replica's counter to `a` -/
  | bump (q a : Nat)
  /-- `Backoffer.Backoff` slept `ms` for config `kind` -/
  | backoff (kind : String) (ms : Nat)
  /-- `SendReqCtx` returned; `lastIsResp`: the returned payload IS the last RPC's response object -/
  | result (k : ResKind) (lastIsResp : Bool)
  deriving DecidableEq, Repr

structure Cfg where
  n : Nat            -- replicas of the region
  maxSleep : Nat     -- Backoffer.maxSleep (ms)
  isWrite : Bool     -- write command
  tsInvalid : Bool   -- validation enabled ∧ read command ∧ the oracle rejects the read ts
  hints : Nat        -- (unused since the hint-cycle repair; kept for the line protocol)
  shortRead : Bool   -- read command with a time-out below ReadTimeoutShort (`isReadReqConfigurableTimeout`)
  deriving DecidableEq, Repr

structure State where
  cfg : Cfg
  att : List Nat          -- per replica attempts (length n)
  total : Nat             -- Backoffer.totalSleep
  excluded : Nat          -- Backoffer.excludedSleep
  credit : Nat            -- (unused since the hint-cycle repair)
  redirects : Nat         -- replicaSelector.leaderHintRedirects
  sent : Nat              -- sendReqState.vars.sendTimes
  last : Option Resp      -- answer of the last RPC
  done : Bool
  owedNow : Option String -- back-off config the handler of the last answer calls before anything else is sent
  owedBusy : List Nat     -- stores that answered ServerIsBusy and have not been backed off for yet (immediate or pending)
  busyCredit : Bool       -- a tikvServerBusy back-off happened since the last RPC
  lastStore : Nat         -- store of the last RPC
  lastFatal : Bool        -- the last answer is one the sender never retries and turns into its own error
  deriving DecidableEq, Repr

def maxAtt : Nat := Gen.maxReplicaAttempt

def init (c : Cfg) : State :=
  { cfg := c, att := List.replicate c.n 0, total := 0, excluded := 0, credit := c.hints, redirects := 0, sent := 0, last := none, done := false,
    owedNow := none, owedBusy := [], busyCredit := false, lastStore := 0, lastFatal := false }

/-! ## back-off table (regenerated from config/retry/config.go) -/

def lookupRow : List (String × Nat × Nat × Nat) → String → Option (Nat × Nat × Nat)
  | [], _ => none
  | (k, v) :: t, x => if k = x then some v else lookupRow t x

def lookupNat : List (String × Nat) → String → Option Nat
  | [], _ => none
  | (k, v) :: t, x => if k = x then some v else lookupNat t x

def maxVal : List (String × Nat) → Nat
  | [] => 0
  | (_, v) :: t => max v (maxVal t)

/-- least sleep of one `Backoff` call of a config (attempt 0, before the cap): `expo(base,cap,0)` for NoJitter,
    `v/2 + rand(v/2)` for EqualJitter, `base + rand(…)` for DecorrJitter, `rand(v)` (possibly 0) for FullJitter -/
def rowMin (r : Nat × Nat × Nat) : Nat :=
  let (base, cap, jitter) := r
  let b := if base < 2 then 2 else base      -- newBackoffFn: `if base < 2 { base = 2 }`
  let v := min b cap
  if jitter = Gen.jitterNo then v
  else if jitter = Gen.jitterEqual then v / 2
  else if jitter = Gen.jitterDecorr then v
  else 0

def kindRow (k : String) : Option (Nat × Nat × Nat) := lookupRow Gen.senderBackoffs k
def kindLimit (k : String) : Option Nat := lookupNat Gen.sleepExcluded k
def exclLimitMax : Nat := maxVal Gen.sleepExcluded

def minList (d : Nat) : List Nat → Nat
  | [] => d
  | a :: t => min a (minList d t)

/-- the least sleep over all configs the sender can use (the "min base" of the bound); 1000000 caps the empty table -/
def minStep : Nat := minList 1000000 (Gen.senderBackoffs.map fun r => rowMin r.2)

/-! ## budget -/

def mainRem (s : State) : Nat := s.cfg.maxSleep - (s.total - s.excluded)
def exclRem (s : State) : Nat := max exclLimitMax s.cfg.maxSleep - s.excluded

/-- the Go test `maxTimeExceeded` of `BackoffWithCfgAndMaxSleep` for config `k` (with `maxSleep > 0`) -/
def backoffRefused (s : State) (k : String) : Bool :=
  (s.total - s.excluded ≥ s.cfg.maxSleep) ||
  (match kindLimit k with
   | some lim => s.excluded ≥ lim && s.excluded ≥ s.cfg.maxSleep
   | none => false)

/-- some config's back-off would be refused now: the only way the loop ends with an error -/
def budgetSpent (s : State) : Bool :=
  (s.total - s.excluded ≥ s.cfg.maxSleep) ||
  (Gen.sleepExcluded.any fun e => s.excluded ≥ e.2 && s.excluded ≥ s.cfg.maxSleep)

/-! ## what the handlers of onSendFail / onRegionError owe before the next RPC (branch by branch) -/

def busyKind : String := "tikvServerBusy"

/-- `some k`: the handler itself calls `bo.Backoff(k)` before the loop can send anything again -/
def owesNow (shortRead : Bool) (fault : String) : Option String :=
  if fault = "rpcerr" || fault = "down" || fault = "grpccancel" then some "tikvRPC"          -- onSendFail
  else if fault = "deadline" || fault = "grpcdeadline" then (if shortRead then none else some "tikvRPC")
  else if fault = "nl" || fault = "rinr" || fault = "merging" then some "regionScheduling"
  else if fault = "maxts" then some "maxTsNotSynced"
  else if fault = "diskfull" then some "tikvDiskFull"
  else if fault = "epochold" then some "regionMiss"
  else if fault = "recov" then some "regionRecoveryInProgress"
  else if fault = "witness" then some "isWitness"
  else if fault = "notinit" then some "regionNotInitialized"
  else none

/-- ServerIsBusy (`onServerIsBusy`): back-off now or a pending back-off applied before the store is used again;
    with reason "deadline is exceeded" on a short-time-out read the replica is only flagged -/
def owesBusy (shortRead : Bool) (fault : String) : Bool :=
  fault = "busy" || fault = "busyw" || fault = "busyww" || (fault = "busydl" && !shortRead)

/-- NotLeader replies that carry a leader hint (`nlx`: a hint naming a peer outside the region) -/
def isRedirectFault (fault : String) : Bool :=
  fault = "nl1" || fault = "nl2" || fault = "nl3" || fault = "nlnext" || fault = "nlx"

/-- `onNotLeader`: the first `n` (= #replicas) hints are followed at once; before following a further one the selector backs
    off. `k` = hints followed so far -/
def owesNowK (n : Nat) (shortRead : Bool) (k : Nat) (fault : String) : Option String :=
  if isRedirectFault fault && k ≥ n then some "regionScheduling" else owesNow shortRead fault

def isFatalFault (fault : String) : Bool :=
  fault = "flashback" || fault = "flashbacknp" || fault = "toolarge" || fault = "badmaxts" || fault = "rpccancel"

/-! ## steps -/

def validPeer (s : State) (p : Nat) : Bool := 1 ≤ p && p ≤ s.cfg.n

/-- the replica an RPC is charged to: the proxy when forwarding, else the target -/
def charged (peer proxy : Nat) : Nat := if proxy = 0 then peer else proxy

def getAtt (s : State) (p : Nat) : Nat := (s.att[p - 1]?).getD maxAtt

def afterOk (s : State) : Bool := s.last = some .ok

def stepAllowed (s : State) : Ev → Bool
  | .send peer store rr sr retry proxy attObs _resp _fault =>
    let c := charged peer proxy
    !s.done && !s.cfg.tsInvalid && !afterOk s &&
    validPeer s peer && validPeer s c &&
    getAtt s c < maxAtt &&
    (attObs = 0 || attObs = getAtt s c + 1) &&
    (retry == decide (0 < s.sent)) &&
    (!s.cfg.isWrite || (!rr && !sr)) &&
    (s.owedNow.isNone && (!s.owedBusy.contains store || s.busyCredit)) &&
    ((match _resp with | .nlhint _ => false | _ => true) || isRedirectFault _fault)
  | .bump q a =>
    !s.done && validPeer s q && s.last = some (.nlhint q) && a + 1 = maxAtt
  | .backoff k ms =>
    !s.done && !s.cfg.tsInvalid && !afterOk s &&
    (match kindRow k with
     | some r => rowMin r ≤ ms && 0 < ms && ms ≤ r.2.1
     | none => false) &&
    !backoffRefused s k
  | .result k lastIsResp =>
    !s.done &&
    (match k with
     | .ok => afterOk s && lastIsResp && 0 < s.sent
     | .regionStore =>
        lastIsResp && (match s.last with | some .regionerr => true | some (.nlhint _) => true | _ => false)
     | .regionPseudo =>
        !s.cfg.tsInvalid && !afterOk s && (!lastIsResp || s.last = some .regionerr)
     | .errBudget => !s.cfg.tsInvalid && !afterOk s && budgetSpent s && !lastIsResp
     | .errTs => s.cfg.tsInvalid && s.sent = 0 && !lastIsResp
     | .errFatal => s.lastFatal && !lastIsResp
     | .errOther => false)

def setAtt (l : List Nat) (i v : Nat) : List Nat := l.set i v

def step (s : State) : Ev → State
  | .send peer store _ _ _ proxy _ resp fault =>
    let c := charged peer proxy
    let rest := s.owedBusy.filter (· != store)
    { s with att := setAtt s.att (c - 1) (getAtt s c + 1), sent := s.sent + 1, last := some resp,
             owedNow := owesNowK s.cfg.n s.cfg.shortRead s.redirects fault,
             redirects := if isRedirectFault fault then s.redirects + 1 else s.redirects,
             owedBusy := if owesBusy s.cfg.shortRead fault then store :: rest else rest,
             busyCredit := false, lastStore := store, lastFatal := isFatalFault fault }
  | .bump q _ =>
    { s with att := setAtt s.att (q - 1) (min (getAtt s q) (maxAtt - 1)), last := some .regionerr }
  | .backoff k ms =>
    { s with total := s.total + ms, excluded := if (kindLimit k).isSome then s.excluded + ms else s.excluded,
             owedNow := if s.owedNow = some k then none else s.owedNow,
             busyCredit := s.busyCredit || k = busyKind,
             owedBusy := if k = busyKind then s.owedBusy.filter (· != s.lastStore) else s.owedBusy }
  | .result _ _ => { s with done := true }

/-- run a trace; `none` as soon as an event is not allowed -/
def run (s : State) : List Ev → Option State
  | [] => some s
  | e :: es => if stepAllowed s e then run (step s e) es else none

/-! ## the measure -/

def ceilDiv (a m : Nat) : Nat := (a + m - 1) / m

def remAtt (l : List Nat) : Nat := (l.map fun a => maxAtt - a).sum

/-- remaining back-off steps (main budget + excluded budget) -/
def rank1 (s : State) : Nat := ceilDiv (mainRem s) minStep + ceilDiv (exclRem s) minStep
/-- Σ remaining attempts + 2·(leader-hint refills left) -/
def owedFlag (s : State) : Nat := if s.owedNow.isNone then 1 else 0
def freeLeft (s : State) : Nat := s.cfg.n - s.redirects
def bumpOk (s : State) : Nat := match s.last with | some (.nlhint _) => 1 | _ => 0
/-- first component: remaining back-off steps, and whether a back-off is already owed -/
def rankA (s : State) : Nat := 2 * rank1 s + owedFlag s
/-- second component: Σ remaining attempts + 2·(free leader-hint redirects left) + 2·(a refill is possible) -/
def rank2 (s : State) : Nat := remAtt s.att + 2 * freeLeft s + 2 * bumpOk s

def rank (s : State) : Nat × Nat := (rankA s, rank2 s)

def isSend : Ev → Bool | .send .. => true | _ => false
def isFinal : Ev → Bool | .result .. => true | _ => false
def countSends (es : List Ev) : Nat := (es.filter isSend).length

/-- explicit bounds for a configuration -/
def backoffBound (c : Cfg) : Nat := ceilDiv c.maxSleep minStep + ceilDiv (max exclLimitMax c.maxSleep) minStep
def sendBound (c : Cfg) : Nat := c.n * maxAtt + c.n + backoffBound c + 1
def eventBound (c : Cfg) : Nat := 2 * (c.n * maxAtt + c.n + backoffBound c + 1) + backoffBound c + 1

/-! ## the property oracles, as functions of an event trace (evaluated by the driver on the model's own accepted trace) -/

def propBounded (c : Cfg) (es : List Ev) : Bool := countSends es ≤ sendBound c && es.length ≤ eventBound c

def propWriteFlags (c : Cfg) (es : List Ev) : Bool :=
  es.all fun e => match e with
    | .send _ _ rr sr _ _ _ _ _ => !c.isWrite || (!rr && !sr)
    | _ => true

/-- every send after the first carries the retry marker, the first does not; `k` = sends so far -/
def retryMarkedFrom (k : Nat) : List Ev → Bool
  | [] => true
  | .send _ _ _ _ retry _ _ _ _ :: es => (retry == decide (0 < k)) && retryMarkedFrom (k + 1) es
  | _ :: es => retryMarkedFrom k es
def propRetryMarked (es : List Ev) : Bool := retryMarkedFrom 0 es

def propTsValid (c : Cfg) (es : List Ev) : Bool := !c.tsInvalid || countSends es = 0

/-- an ok result directly follows an RPC a store answered ok and returns that RPC's response object; a store region error
    result returns the last RPC's response object and that RPC was answered with a region error.
    `prev` = previous event, `last` = answer of the last RPC -/
def genuineFrom (prev : Option Ev) (last : Option Resp) : List Ev → Bool
  | [] => true
  | e :: es =>
    (match e with
     | .result .ok b => b && (match prev with | some (.send _ _ _ _ _ _ _ .ok _) => true | _ => false)
     | .result .regionStore b => b && (match last with | some .regionerr => true | some (.nlhint _) => true | _ => false)
     | _ => true) &&
    genuineFrom (some e) (match e with | .send _ _ _ _ _ _ _ r _ => some r | _ => last) es
def propGenuine (es : List Ev) : Bool := genuineFrom none none es

/-- is there a back-off of config `k` before the next RPC (to any store if `scope = none`, to store `st` if `some st`)? -/
def backoffBeforeSend (k : String) (scope : Option Nat) : List Ev → Bool
  | [] => true
  | .backoff k' _ :: es => k' = k || backoffBeforeSend k scope es
  | .send _ st _ _ _ _ _ _ _ :: es =>
    (match scope with
     | none => false
     | some s0 => st != s0 && backoffBeforeSend k scope es)
  | _ :: es => backoffBeforeSend k scope es

/-- every retry path switches peer or consumes back-off budget: after an answer for which the handler owes a back-off, no RPC
    (to any store / to the same store) follows before a back-off of that config -/
def disciplineFrom (n : Nat) (shortRead : Bool) (k : Nat) : List Ev → Bool
  | [] => true
  | e :: es =>
    (match e with
     | .send _ st _ _ _ _ _ _ f =>
       (match owesNowK n shortRead k f with | some kind => backoffBeforeSend kind none es | none => true) &&
       (!owesBusy shortRead f || backoffBeforeSend busyKind (some st) es)
     | _ => true) &&
    disciplineFrom n shortRead (match e with | .send _ _ _ _ _ _ _ _ f => if isRedirectFault f then k + 1 else k | _ => k) es
def propBackoffDiscipline (n : Nat) (shortRead : Bool) (es : List Ev) : Bool := disciplineFrom n shortRead 0 es

/-! ## line protocol (driver side) -/

def parseResp (t : String) : Option Resp :=
  match t with
  | "ok" => some .ok
  | "rpcerr" => some .rpcerr
  | "regionerr" => some .regionerr
  | _ => match t.splitOn ":" with
    | ["nlhint", q] => q.toNat?.map .nlhint
    | _ => none

def parseBool (t : String) : Option Bool :=
  match t with | "0" => some false | "1" => some true | _ => none

def parseRes (k d : String) : Option ResKind :=
  match k, d with
  | "ok", _ => some .ok
  | "regionerr", "store" => some .regionStore
  | "regionerr", "pseudo" => some .regionPseudo
  | "err", "tsinvalid" => some .errTs
  | "err", "other" => some .errBudget
  | "err", "fatal" => some .errFatal
  | "err", _ => some .errOther
  | "panic", _ => some .errOther
  | "nil", _ => some .errOther
  | _, _ => none

def parseEv (w : List String) : Option Ev :=
  match w with
  | ["send", p, st, rr, sr, rt, px, a, r, f] => do
    let p ← p.toNat?; let st ← st.toNat?; let rr ← parseBool rr; let sr ← parseBool sr; let rt ← parseBool rt
    let px ← px.toNat?; let a ← a.toNat?; let r ← parseResp r
    pure (.send p st rr sr rt px a r f)
  | ["bump", q, a] => do pure (.bump (← q.toNat?) (← a.toNat?))
  | ["backoff", k, ms] => do pure (.backoff k (← ms.toNat?))
  | ["result", k, d, b] => do pure (.result (← parseRes k d) (← parseBool b))
  | _ => none

def isReadCmd (c : String) : Bool := c == "get" || c == "batchget" || c == "scan"
def isWriteCmd (c : String) : Bool := c == "prewrite" || c == "commit" || c == "plock"
def isHintFault (f : String) : Bool := f == "nl1" || f == "nl2" || f == "nl3" || f == "nlnext"
def faultNames : List String :=
  ["ok", "rpcerr", "down", "deadline", "nl", "nl1", "nl2", "nl3", "nlnext", "nlx", "epoch", "epochr", "epochold", "rnf",
   "busy", "busyw", "busydl", "stale", "snm", "dnr", "maxts", "diskfull", "dlmsg", "unk",
   "undet", "recov", "witness", "flashback", "flashbacknp", "toolarge", "badmaxts", "knir", "bucket", "notinit", "rinr",
   "merging", "mismatch", "rpccancel", "grpccancel", "grpcdeadline", "busyww"]
def modeNames : List String := ["leader", "follower", "mixed", "learner", "prefer", "stale"]

/-- the outcome table of `pdOracle.ValidateReadTS` for the harness' four ts classes -/
def tsRejected (ts mode : String) : Bool :=
  ts == "future" || ts == "maxint" || (ts == "max" && mode == "stale")

end CGV.Retry
