/-
  C10 — model of the v2 replica selector of /repo/internal/locate/replica_selector.go (without forwarding / proxy):
  `replicaSelector.next`, `nextForReplicaReadLeader`, `nextForReplicaReadMixed`, `ReplicaSelectLeaderStrategy`,
  `ReplicaSelectMixedStrategy` (`isCandidate`, `calculateScore`, the exhausted-fallbacks), `isLeaderCandidate`,
  `canSendReplicaRead`, and the handlers that change selector state (`onNotLeader`/`updateLeader`/`onUpdateLeader`,
  `onServerIsBusy` incl. the leader-busy probe, `onDataIsNotReady`, `onRegionNotFound`, `onFlashbackInProgress`,
  `onReadReqConfigurableTimeout`).  Core-only, executable.

  Selector-OWNED state (attempt counters, replica flag bits, cached leader index, read type, request flags, region
  validity) is carried by the model; what the selector READS from the store cache (liveness, slowness, store-epoch
  staleness, label match, learner role, estimated wait over threshold) is an input refreshed before every `next`.
  Where Go picks randomly among equal-score candidates the model returns the CHOICE SET.
-/
import ClientGoVerif.Model.Retry
import ClientGoVerif.Generated.SelectorConsts
namespace CGV.Selector
open CGV

structure Rep where
  -- selector-owned
  attempts : Nat := 0
  deadline : Bool := false       -- deadlineErrUsingConfTimeoutFlag
  dataNotReady : Bool := false   -- dataIsNotReadyFlag
  notLeader : Bool := false      -- notLeaderFlag
  serverBusy : Bool := false     -- serverIsBusyFlag
  suspect : Bool := false        -- suspectNotLeaderFlag
  -- read from the store cache / region meta (inputs)
  live : Nat := 0                -- 0 reachable, 1 unreachable, 2 unknown
  slow : Bool := false           -- store.healthStatus.IsSlow()
  stale : Bool := false          -- replica.isEpochStale()
  label : Bool := true           -- store.IsStoreMatch(stores) && store.IsLabelsMatch(labels)
  learner : Bool := false        -- peer.Role == Learner
  over : Bool := false           -- store.EstimatedWaitTime() > busyThreshold
  deriving DecidableEq, Repr

structure Sel where
  reps : List Rep
  leaderIdx : Nat := 0           -- region.getStore().workTiKVIdx
  readLeader : Bool              -- s.replicaReadType == ReplicaReadLeader
  reqType : Nat                  -- req.ReplicaReadType
  stale : Bool                   -- s.isStaleRead
  readOnly : Bool                -- s.isReadOnlyReq
  leaderOnly : Bool := false     -- s.option.leaderOnly
  preferLeader : Bool := false   -- s.option.preferLeader
  hasLabels : Bool := false      -- len(s.option.labels) > 0
  selAtt : Nat := 0              -- s.attempts
  busyThr : Bool := false        -- s.busyThreshold > 0
  invRetry : Bool := false       -- s.regionInvalidatedForRetry
  valid : Bool := true           -- s.region.isValid()
  busyCnt : Nat := 0             -- s.leaderBusyCount
  busyPeer : Nat := 0            -- s.leaderBusyPeerID as replica index + 1 (0 = none)
  probed : Bool := false         -- s.leaderBusyProbed
  rr : Bool                      -- req.ReplicaRead
  sr : Bool                      -- req.StaleRead
  busyMs : Bool := false         -- req.BusyThresholdMs > 0
  deriving DecidableEq, Repr

def maxAtt : Nat := Gen.maxReplicaAttempt

/-! ## candidates and scores -/

/-- `isLeaderCandidate` (attempted-time limit never reached: RPCs take no wall time in the harness) -/
def isLeaderCand (r : Rep) : Bool :=
  r.live == 0 && r.attempts < maxAtt && !r.deadline && !r.notLeader && !r.stale

/-- fields of `ReplicaSelectMixedStrategy`; `labels`: the strategy carries label/store filters -/
structure Strat where
  tryLeader : Bool := false
  preferLeader : Bool := false
  leaderOnly : Bool := false
  learnerOnly : Bool := false
  labels : Bool := false
  busy : Bool := false           -- busyThreshold > 0
  deriving DecidableEq, Repr

/-- `ReplicaSelectMixedStrategy.isCandidate` -/
def isCand (st : Strat) (isLeader : Bool) (r : Rep) : Bool :=
  !r.stale && r.live != 1 &&
  r.attempts < (if r.dataNotReady && !isLeader then 2 else 1) &&
  !(st.leaderOnly && !isLeader) &&
  !(st.busy && (r.over || r.serverBusy || isLeader)) &&
  !(st.preferLeader && r.slow && !isLeader)

/-- `ReplicaSelectMixedStrategy.calculateScore` on the facts it looks at; bit values regenerated from the Go constants.
    `fresh`: `r.attempts == 0` -/
def scoreB (tryLeader preferLeader learnerOnly labels : Bool) (isLeader slow label learner fresh : Bool) : Nat :=
  (if !labels || label then Gen.flagLabelMatches else 0) |||
  (if isLeader then
     (if preferLeader then (if !slow then Gen.flagPreferLeader else Gen.flagNormalPeer)
      else if tryLeader then (if labels then Gen.flagPreferLeader else Gen.flagNormalPeer)
      else 0)
   else
     (if learnerOnly then (if learner then Gen.flagNormalPeer else 0) else Gen.flagNormalPeer)) |||
  (if !slow then Gen.flagNotSlow else 0) |||
  (if fresh then Gen.flagNotAttempted else 0)

def score (st : Strat) (isLeader : Bool) (r : Rep) : Nat :=
  scoreB st.tryLeader st.preferLeader st.learnerOnly st.labels isLeader r.slow r.label r.learner (r.attempts == 0)

/-- (index, score) of every candidate, in replica order; `k` = index of the head -/
def scoredFrom (st : Strat) (li : Nat) (k : Nat) : List Rep → List (Nat × Nat)
  | [] => []
  | r :: t =>
    if isCand st (k == li) r then (k, score st (k == li) r) :: scoredFrom st li (k + 1) t
    else scoredFrom st li (k + 1) t

def maxScore : List (Nat × Nat) → Nat
  | [] => 0
  | p :: t => max p.2 (maxScore t)

/-- the replicas with the highest score (Go: one of them at random) -/
def argmax (l : List (Nat × Nat)) : List Nat := (l.filter fun p => p.2 == maxScore l).map (·.1)

def modRep (s : Sel) (i : Nat) (f : Rep → Rep) : Sel :=
  match s.reps[i]? with
  | some r => { s with reps := s.reps.set i (f r) }
  | none => s

def leaderRep (s : Sel) : Option Rep := s.reps[s.leaderIdx]?

def leaderIs (s : Sel) (p : Rep → Bool) : Bool :=
  match leaderRep s with | some r => p r | none => false

/-- `ReplicaSelectLeaderStrategy.next` -/
def leaderStrat (s : Sel) : Bool := leaderIs s fun r => isLeaderCand r && !r.suspect

/-- the leader was only skipped because it is suspected to have lost leadership: restore it (tikv/client-go#2028) -/
def clearSuspect (s : Sel) : Sel := modRep s s.leaderIdx fun r => { r with suspect := false }

/-- nothing left: invalidate the region unless some replica timed out (`hasDeadlineExceededError`) -/
def exhausted (s : Sel) : Sel := if s.reps.any (·.deadline) then s else { s with valid := false }

/-- `ReplicaSelectMixedStrategy.next`: the choice set and the selector afterwards -/
def mixedNext (st : Strat) (s : Sel) : List Nat × Sel :=
  if !(argmax (scoredFrom st s.leaderIdx 0 s.reps)).isEmpty then (argmax (scoredFrom st s.leaderIdx 0 s.reps), s)
  else if st.busy then ([], s)
  else if leaderIs s (·.suspect) then
    if leaderIs (clearSuspect s) isLeaderCand then ([s.leaderIdx], clearSuspect s)
    else ([], exhausted (clearSuspect s))
  else ([], exhausted s)

/-- `canSendReplicaRead` -/
def canSendReplicaRead (s : Sel) : Bool :=
  leaderIs s fun r => !(r.attempts == 0 || r.deadline || r.serverBusy)

def repIs (s : Sel) (i : Nat) (p : Rep → Bool) : Bool :=
  match s.reps[i]? with | some r => p r | none => false

/-- leader read with a busy threshold and the leader looks busy: try an idle replica (`busyThreshold` strategy) -/
def busyDivert (s : Sel) : Bool := s.busyThr && s.readOnly && leaderIs s (fun r => r.over || r.serverBusy)
def idleNext (s : Sel) : List Nat × Sel := mixedNext { busy := true } s
def fallbackNext (s : Sel) : List Nat × Sel := mixedNext { leaderOnly := s.leaderOnly } s

/-- `nextForReplicaReadLeader` (forwarding off) -/
def nextLeaderPath (s : Sel) : List Nat × Sel :=
  if leaderStrat s then
    if busyDivert s then
      if !(idleNext s).1.isEmpty then ((idleNext s).1, { (idleNext s).2 with rr := true })
      else ([s.leaderIdx], { s with busyThr := false, busyMs := false, rr := false })
    else ([s.leaderIdx], s)
  else if !(fallbackNext s).1.isEmpty && s.readOnly && leaderIs (fallbackNext s).2 (·.deadline) then
    ((fallbackNext s).1, { (fallbackNext s).2 with rr := true, sr := false })
  else fallbackNext s

/-- stale read, second attempt: a leader that was not tried yet is read with a plain leader read -/
def viaLeader (s : Sel) : Bool := s.stale && s.selAtt == 2 && leaderStrat s && leaderIs s (fun r => r.attempts < 1)

def mixedStrat (s : Sel) : Strat :=
  { tryLeader := s.reqType == Gen.replicaReadMixed || s.reqType == Gen.replicaReadPreferLeader,
    preferLeader := s.preferLeader, leaderOnly := s.leaderOnly,
    learnerOnly := s.reqType == Gen.replicaReadLearner, labels := s.hasLabels }
def mixedPick (s : Sel) : List Nat × Sel := mixedNext (mixedStrat s) s

/-- stale read: retry (or label mismatch on a non-leader) goes out as replica read once the leader was tried and is
    neither timed out nor busy -/
def useReplica (s : Sel) (t : Nat) : Bool :=
  (s.selAtt != 1 || (repIs (mixedPick s).2 t (fun r => !r.label) && t != s.leaderIdx)) && canSendReplicaRead (mixedPick s).2

/-- `nextForReplicaReadMixed`; `s.selAtt` is already incremented. `t` is the observed choice (flags may depend on it) -/
def nextMixedPath (s : Sel) (t : Nat) : List Nat × Sel :=
  if viaLeader s then ([s.leaderIdx], { s with sr := false, rr := false })
  else if (mixedPick s).1.isEmpty then ([], (mixedPick s).2)
  else if s.stale then
    ((mixedPick s).1, if useReplica s t then { (mixedPick s).2 with sr := false, rr := true }
                      else { (mixedPick s).2 with sr := true, rr := false })
  else ((mixedPick s).1, { (mixedPick s).2 with sr := false, rr := s.readOnly && t != s.leaderIdx })

/-- state `next` works on: one-shot retry permission consumed, selector attempt counted -/
def pre (s : Sel) : Sel := { s with invRetry := false, selAtt := s.selAtt + 1 }

def pathOf (s : Sel) (t : Nat) : List Nat × Sel := if s.readLeader then nextLeaderPath (pre s) else nextMixedPath (pre s) t

def charge (s : Sel) (t : Nat) : Sel := modRep s t fun r => { r with attempts := r.attempts + 1 }

/-- `replicaSelector.next` + `buildRPCContext`: choice set, and the selector after the observed choice `t` was charged -/
def next (s : Sel) (t : Nat) : List Nat × Sel :=
  if !s.invRetry && !s.valid then ([], s)
  else if (pathOf s t).1.contains t then ((pathOf s t).1, charge (pathOf s t).2 t)
  else pathOf s t

/-! ## handlers (effects on selector-owned state only) -/

def setTarget (s : Sel) (t : Nat) (f : Rep → Rep) : Sel := modRep s t f

/-- `replica.onUpdateLeader` -/
def onUpdateLeader (r : Rep) : Rep :=
  { r with attempts := if r.attempts ≥ maxAtt then maxAtt - 1 else r.attempts, notLeader := false, suspect := false }

/-- `onNotLeader` with a leader hint naming replica `q` (`none`: peer not in the region → region invalidated) -/
def onHint (s : Sel) (t : Nat) (q : Option Nat) : Sel :=
  let s := setTarget s t fun r => { r with notLeader := true }
  match q with
  | none => { s with valid := false }
  | some q =>
    match s.reps[q]? with
    | none => { s with valid := false }
    | some r =>
      if r.live != 0 then s
      else
        let s1 := { (modRep s q onUpdateLeader) with leaderIdx := q }
        if repIs s1 q isLeaderCand then { s1 with readLeader := true } else s1

/-- `canFastRetry` -/
def canFastRetry (s : Sel) : Bool :=
  !(s.readLeader && leaderIs s fun r => isLeaderCand r && !r.serverBusy)

/-- the leader-busy probe of `onServerIsBusy` (tikv/client-go#2028): the second ServerIsBusy(0) from the same cached
    leader marks it suspect-not-leader, once per selector -/
def probeCount (s : Sel) (t : Nat) : Nat := (if s.busyPeer != t + 1 then 0 else s.busyCnt) + 1
def countBusy (s : Sel) (t : Nat) : Sel := { s with busyPeer := t + 1, busyCnt := probeCount s t }
def onBusyProbe (s : Sel) (t : Nat) : Sel :=
  if probeCount s t ≥ Gen.leaderBusyProbeThreshold then
    { (setTarget (countBusy s t) t fun r => { r with suspect := true }) with probed := true }
  else countBusy s t

def busyMark (s : Sel) (t : Nat) (wait : Bool) : Sel :=
  if wait then (if s.busyThr && s.readOnly then setTarget s t fun r => { r with serverBusy := true } else s)
  else if s.readLeader && !s.stale && !s.leaderOnly && t == s.leaderIdx && !s.probed then onBusyProbe s t
  else s

/-- `onServerIsBusy`; `wait`: EstimatedWaitMs != 0 -/
def onBusy (s : Sel) (t : Nat) (wait : Bool) : Sel :=
  if canFastRetry (busyMark s t wait) then setTarget (busyMark s t wait) t fun r => { r with serverBusy := true }
  else busyMark s t wait

def markDeadline (s : Sel) (t : Nat) : Sel := setTarget s t fun r => { r with deadline := true }

/-- deadline-class answers (client/grpc deadline, ServerIsBusy "deadline is exceeded", message "Deadline is exceeded") -/
def handleDeadline (s : Sel) (t : Nat) (fault : String) (shortRead : Bool) : Sel :=
  if shortRead then markDeadline s t
  else if fault = "busydl" then onBusy s t false
  else s

/-- NotLeader answers -/
def handleNotLeader (s : Sel) (t : Nat) (fault : String) : Sel :=
  if fault = "nl" then setTarget s t fun r => { r with notLeader := true }
  else if fault = "nl1" then onHint s t (some 0)
  else if fault = "nl2" then onHint s t (some 1)
  else if fault = "nl3" then onHint s t (some 2)
  else if fault = "nlnext" then onHint s t (some ((t + 1) % 3))
  else onHint s t none

/-- `onRegionNotFound` -/
def handleRegionNotFound (s : Sel) : Sel :=
  if leaderIs s (fun r => r.attempts < 1) then
    { s with reqType := Gen.replicaReadLeader, rr := false, readLeader := true, invRetry := true, valid := false }
  else { s with valid := false }

/-- `onFlashbackInProgress` -/
def handleFlashback (s : Sel) (t : Nat) : Sel :=
  if s.rr && t != s.leaderIdx then
    { s with busyMs := false, busyThr := false, readLeader := true, reqType := Gen.replicaReadLeader, rr := false }
  else s

def isDeadlineFault (f : String) : Bool := f = "deadline" || f = "grpcdeadline" || f = "busydl" || f = "dlmsg"
def isNotLeaderFault (f : String) : Bool := f = "nl" || f = "nl1" || f = "nl2" || f = "nl3" || f = "nlnext" || f = "nlx"
def isInvalidatingFault (f : String) : Bool :=
  f = "epoch" || f = "epochr" || f = "snm" || f = "knir" || f = "recov" || f = "witness" || f = "mismatch"

/-- effect of the answer `fault` to the RPC sent to replica `t` (`shortRead`: `isReadReqConfigurableTimeout`) -/
def handle (s : Sel) (t : Nat) (fault : String) (shortRead : Bool) : Sel :=
  if isDeadlineFault fault then handleDeadline s t fault shortRead
  else if isNotLeaderFault fault then handleNotLeader s t fault
  else if fault = "busy" then onBusy s t false
  else if fault = "busyw" || fault = "busyww" then onBusy s t true
  else if fault = "dnr" then setTarget s t fun r => { r with dataNotReady := true }
  else if fault = "rnf" then handleRegionNotFound s
  else if fault = "flashback" then handleFlashback s t
  else if isInvalidatingFault fault then { s with valid := false }
  else s

/-- `onSendSuccess`: a leader read served by a non-leader switches the cached leader -/
def onSuccess (s : Sel) (t : Nat) : Sel :=
  if t != s.leaderIdx && !s.sr && !s.rr && t < s.reps.length then { s with leaderIdx := t } else s

/-! ## the flag table, stated separately from the imperative code above -/

/-- which flags a request leaves with, as a function of (read mode, fallback state, role of the chosen replica) -/
inductive FlagRule
  | keep                 -- leader path, nothing special: flags as they were
  | replica              -- ReplicaRead = true, StaleRead unchanged      (leader busy → idle follower)
  | leaderNoThreshold    -- ReplicaRead = false, BusyThresholdMs = 0     (all replicas busy → leader)
  | replicaNoStale       -- ReplicaRead = true, StaleRead = false        (leader timed out → follower)
  | leaderRead           -- both false                                   (stale read, second attempt, on the leader)
  | staleRead            -- StaleRead = true, ReplicaRead = false
  | replicaRead          -- StaleRead = false, ReplicaRead = true
  | byRole (rr : Bool)   -- StaleRead = false, ReplicaRead = rr          (follower / mixed / learner / prefer-leader)
  deriving DecidableEq, Repr

def applyRule (s : Sel) : FlagRule → Bool × Bool × Bool
  | .keep => (s.rr, s.sr, s.busyMs)
  | .replica => (true, s.sr, s.busyMs)
  | .leaderNoThreshold => (false, s.sr, false)
  | .replicaNoStale => (true, false, s.busyMs)
  | .leaderRead => (false, false, s.busyMs)
  | .staleRead => (false, true, s.busyMs)
  | .replicaRead => (true, false, s.busyMs)
  | .byRole rr => (rr, false, s.busyMs)

/-- the decision table: which rule applies, from (read mode, fallback state, chosen replica) -/
def flagRule (s : Sel) (t : Nat) : FlagRule :=
  if s.readLeader then
    if leaderStrat (pre s) then
      if busyDivert (pre s) then (if !(idleNext (pre s)).1.isEmpty then .replica else .leaderNoThreshold) else .keep
    else if !(fallbackNext (pre s)).1.isEmpty && (pre s).readOnly && leaderIs (fallbackNext (pre s)).2 (·.deadline) then .replicaNoStale
    else .keep
  else if viaLeader (pre s) then .leaderRead
  else if s.stale then (if useReplica (pre s) t then .replicaRead else .staleRead)
  else .byRole (s.readOnly && t != s.leaderIdx)

/-- the observable flag rules R2–R4 the harness evaluates on the implementation, here on the model's own post-`next`
    state `m` (chosen `t`, request entered as stale read iff `entered`) -/
def readFlagRules (m : Sel) (t : Nat) (entered : Bool) : Bool :=
  let isLeader := t == m.leaderIdx
  !(m.sr && !entered) &&
  (m.stale || m.readLeader || (!m.sr && m.rr == (m.readOnly && !isLeader))) &&
  !(m.stale && !m.readLeader && m.selAtt == 2 && isLeader &&
      repIs m t (fun r => r.attempts == 1 && r.live == 0 && !r.stale && !r.deadline && !r.notLeader && !r.suspect) &&
      (m.rr || m.sr))

def flagsOf (s : Sel) : Bool × Bool × Bool := (s.rr, s.sr, s.busyMs)

/-! ## runs: inputs refreshed, a replica chosen and charged, the answer handled -/

def refreshReps : List Rep → List Rep → List Rep
  | [], _ => []
  | a :: t, [] => a :: t
  | a :: t, b :: u =>
    { a with live := b.live, slow := b.slow, stale := b.stale, label := b.label, learner := b.learner, over := b.over }
      :: refreshReps t u

/-- copy what the selector reads from the store cache (the input fields of `inp`) into `s` -/
def refreshInputs (s : Sel) (inp : List Rep) : Sel := { s with reps := refreshReps s.reps inp }

structure Obs where
  t : Nat              -- the replica that was chosen
  fault : String       -- what the store answered
  short : Bool
  inputs : List Rep    -- store-cache observations at that moment

def stepSel (s : Sel) (o : Obs) : Sel := handle (next (refreshInputs s o.inputs) o.t).2 o.t o.fault o.short
def runSel (s : Sel) (os : List Obs) : Sel := os.foldl stepSel s

end CGV.Selector
