/-
  Model/Mvcc.lean — executable reference model of the in-process mock TiKV MVCC store
  (/repo/internal/mockstore/mocktikv/mvcc_leveldb.go, mvcc.go; the deadlock detector of
  internal/mockstore/deadlock), command by command, branch by branch (profile `mock`).

  State: per key an optional lock and the write records in descending commit-ts order — the order the
  mock keeps them in leveldb (`key_lock, key_verMax … key_0`).  A record written at a version that already
  exists replaces it (leveldb Put).  All writes of one command go through a batch that is applied at the end
  (reads inside one command see the state before the command); a command that fails applies nothing,
  except where the Go code writes before returning (noted at the place).

  Where the property text (C12) fixes the intended behaviour and the code differs, the model follows the
  property text and the place is marked `-- C12-DEF`.
-/
import ClientGoVerif.Model.Bytes
namespace CGV.Mvcc
open CGV

scoped notation "TS" => Nat
def maxU64 : Nat := 2 ^ 64 - 1
/-- oracle.ExtractPhysical -/
def physical (ts : TS) : Nat := ts / 2 ^ 18

/-- kvrpcpb.Op -/
inductive Op | put | del | lock | rollback | insert | pessimisticLock | checkNotExists
  deriving DecidableEq, Repr, Inhabited

def Op.code : Op → Nat
  | .put => 0 | .del => 1 | .lock => 2 | .rollback => 3 | .insert => 4 | .pessimisticLock => 5 | .checkNotExists => 6
def Op.ofCode : Nat → Option Op
  | 0 => some .put | 1 => some .del | 2 => some .lock | 3 => some .rollback | 4 => some .insert
  | 5 => some .pessimisticLock | 6 => some .checkNotExists | _ => none

/-- mvccValueType -/
inductive VT | put | delete | rollback | lock
  deriving DecidableEq, Repr, Inhabited
def VT.code : VT → Nat | .put => 0 | .delete => 1 | .rollback => 2 | .lock => 3
/-- valueTypeOpMap -/
def VT.opCode : VT → Nat | .put => 0 | .delete => 1 | .rollback => 3 | .lock => 2

structure Lock where
  startTS : TS
  primary : Bytes
  value : Bytes
  op : Op
  ttl : Nat
  forUpdateTS : TS
  txnSize : Nat
  minCommitTS : TS
  deriving DecidableEq, Repr, Inhabited

structure Write where
  vt : VT
  startTS : TS
  commitTS : TS
  value : Bytes
  deriving DecidableEq, Repr, Inhabited

structure Entry where
  lock : Option Lock := none
  writes : List Write := []     -- descending commitTS, at most one record per commitTS
  deriving DecidableEq, Repr, Inhabited

/-- kvrpcpb.Assertion -/
inductive Assertion | none | exist | notExist
  deriving DecidableEq, Repr, Inhabited

structure Mutation where
  op : Op
  key : Bytes
  value : Bytes := []
  assertion : Assertion := .none
  deriving DecidableEq, Repr, Inhabited

/-- the error classes of mocktikv/errors.go with the fields the client acts on -/
inductive KErr
  | locked (key primary : Bytes) (startTS forUpdateTS ttl txnSize : Nat) (lockType : Op)
  | alreadyExist (key : Bytes)
  | conflict (startTS conflictTS conflictCommitTS : TS) (key : Bytes) (canForce : Bool)
  | deadlock (lockKey : Bytes) (lockTS : TS)
  | retryable
  | abort (cls : String)
  | alreadyCommitted (commitTS : TS)
  | alreadyRollbacked (startTS : TS) (key : Bytes)
  | commitTsExpired (startTS attempted : TS) (key : Bytes) (minCommitTS : TS)
  | txnNotFound (startTS : TS) (primary : Bytes)
  | assertionFailed (startTS : TS) (key : Bytes) (a : Assertion) (existStart existCommit : TS)
  deriving DecidableEq, Repr, Inhabited

/-- deadlock detector: wait-for map in insertion order -/
abbrev WaitFor := List (TS × List TS)

structure Store where
  kv : List (Bytes × Entry) := []       -- strictly ascending keys, no empty entry
  waitFor : WaitFor := []
  deriving Repr, Inhabited

/-! ## ordered-map plumbing -/

def getEntry (kv : List (Bytes × Entry)) (k : Bytes) : Entry :=
  match kv with
  | [] => {}
  | (k', e) :: rest => if k' == k then e else getEntry rest k

def Entry.isEmpty (e : Entry) : Bool := e.lock.isNone && e.writes.isEmpty

def setEntry (kv : List (Bytes × Entry)) (k : Bytes) (e : Entry) : List (Bytes × Entry) :=
  match kv with
  | [] => if e.isEmpty then [] else [(k, e)]
  | (k', e') :: rest =>
    match Bytes.cmp k k' with
    | .lt => if e.isEmpty then (k', e') :: rest else (k, e) :: (k', e') :: rest
    | .eq => if e.isEmpty then rest else (k, e) :: rest
    | .gt => (k', e') :: setEntry rest k e

/-- leveldb Put of a version record: replace an equal version, keep descending order -/
def putWrite (ws : List Write) (w : Write) : List Write :=
  match ws with
  | [] => [w]
  | x :: rest =>
    if x.commitTS == w.commitTS then w :: rest
    else if x.commitTS < w.commitTS then w :: x :: rest
    else x :: putWrite rest w

def delWrite (ws : List Write) (commitTS : TS) : List Write := ws.filter (·.commitTS != commitTS)

/-- one leveldb batch entry -/
inductive Act
  | putLock (k : Bytes) (l : Lock)
  | delLock (k : Bytes)
  | putWrite (k : Bytes) (w : Write)
  | delWrite (k : Bytes) (commitTS : TS)
  deriving Repr

def applyAct (kv : List (Bytes × Entry)) : Act → List (Bytes × Entry)
  | .putLock k l => let e := getEntry kv k; setEntry kv k { e with lock := some l }
  | .delLock k => let e := getEntry kv k; setEntry kv k { e with lock := none }
  | .putWrite k w => let e := getEntry kv k; setEntry kv k { e with writes := putWrite e.writes w }
  | .delWrite k c => let e := getEntry kv k; setEntry kv k { e with writes := delWrite e.writes c }

def applyBatch (kv : List (Bytes × Entry)) (b : List Act) : List (Bytes × Entry) := b.foldl applyAct kv

/-- regionContains-style half-open range with empty end = +∞ (newScanIterator) -/
def inRange (start end_ : Bytes) (k : Bytes) : Bool :=
  Bytes.le start k && (end_.isEmpty || Bytes.lt k end_)

/-! ## reads -/

def lockErr (l : Lock) (key : Bytes) : KErr :=
  .locked key l.primary l.startTS l.forUpdateTS l.ttl l.txnSize l.op

/-- mvccLock.check: returns the (possibly lowered) read ts, or the blocking lock -/
def Lock.check (l : Lock) (ts : TS) (key : Bytes) (resolved : List TS) : Except KErr TS :=
  if l.startTS > ts || l.op == .lock || l.op == .pessimisticLock then .ok ts
  else if ts == maxU64 && l.primary == key then .ok (l.startTS - 1)
  else if resolved.contains l.startTS then .ok ts
  else .error (lockErr l key)

/-- the version loop of getValue: first put/delete record with commitTS ≤ ts; `none` = not found/deleted -/
def firstVisible (ws : List Write) (ts : TS) : Option Write :=
  match ws with
  | [] => none
  | w :: rest =>
    if w.vt == .rollback || w.vt == .lock then firstVisible rest ts
    else if w.commitTS ≤ ts then (if w.vt == .delete then none else some w)
    else firstVisible rest ts

/-- getValue(iter, key, startTS, isoLevel, resolvedLocks); si = isolation level SI -/
def getValue (e : Entry) (key : Bytes) (ts : TS) (si : Bool) (resolved : List TS) : Except KErr (Option Write) :=
  match (if si then e.lock else none) with
  | some l =>
    match l.check ts key resolved with
    | .ok ts' => .ok (firstVisible e.writes ts')
    | .error err => .error err
  | none => .ok (firstVisible e.writes ts)

/-- one result pair of BatchGet/Scan -/
inductive Pair
  | kv (key value : Bytes) (commitTS : TS)
  | err (e : KErr)
  deriving Repr

def batchGet (s : Store) (keys : List Bytes) (ts : TS) (si : Bool) (resolved : List TS) : List Pair :=
  keys.filterMap fun k =>
    match getValue (getEntry s.kv k) k ts si resolved with
    | .ok none => none
    | .ok (some w) => some (.kv k w.value w.commitTS)
    | .error e => some (.err e)

/-- Scan: walks the keys that have any record in [start, end); an error pair counts towards the limit -/
def scanAux (kv : List (Bytes × Entry)) (limit : Nat) (ts : TS) (si : Bool) (resolved : List TS)
    (acc : List Pair) : List Pair :=
  match kv with
  | [] => acc.reverse
  | (k, e) :: rest =>
    if acc.length ≥ limit then acc.reverse
    else
      let acc' := match getValue e k ts si resolved with
        | .ok none => acc
        | .ok (some w) => .kv k w.value 0 :: acc
        | .error err => .err err :: acc
      scanAux rest limit ts si resolved acc'

def scan (s : Store) (start end_ : Bytes) (limit : Nat) (ts : TS) (si : Bool) (resolved : List TS) : List Pair :=
  scanAux (s.kv.filter fun p => inRange start end_ p.1) limit ts si resolved []

/-- mvccEntry.Get as used by ReverseScan (`len(val) != 0 || err != nil`) -/
def reverseScan (s : Store) (start end_ : Bytes) (limit : Nat) (ts : TS) (si : Bool) (resolved : List TS) : List Pair :=
  scanAux ((s.kv.filter fun p => inRange start end_ p.1).reverse) limit ts si resolved []

/-! ## the conflict / assertion / value scan shared by prewrite and pessimistic lock -/

structure CCArgs where
  m : Mutation
  forUpdateTS : TS
  startTS : TS
  getVal : Bool
  assertOn : Bool              -- assertionLevel != Off
  lockOnlyIfExists : Bool
  allowLockWithConflict : Bool

structure CCState where
  needGetVal : Bool
  needNotExist : Bool          -- needCheckShouldNotExistForPessimisticLock
  needRollback : Bool
  retVal : Option Bytes        -- none = nil

/-- the `for ok` loop of checkConflictValue over the remaining records (current record first) -/
def ccLoop (a : CCArgs) (conflict : Option KErr) (assertOn : Bool) (ws : List Write) (st : CCState) :
    Except KErr (Option Bytes) :=
  match ws with
  | [] => .ok st.retVal     -- unreachable: the loop is entered with a record and exits inside
  | w :: rest =>
    -- rollback check
    if st.needRollback && w.vt == .rollback && w.commitTS == a.startTS then
      .error (.alreadyRollbacked a.startTS a.m.key)
    else
      let needRollback := if st.needRollback && w.commitTS < a.startTS then false else st.needRollback
      let needAssertPrewrite := a.m.assertion != .none && a.m.op != .pessimisticLock && assertOn
      let step : Except KErr Bool :=       -- returns the new needNotExist
        match w.vt with
        | .put | .lock =>
          if st.needNotExist then
            match conflict with
            | some c => .error c
            | none => .error (.alreadyExist a.m.key)
          else if needAssertPrewrite && a.m.assertion == .notExist then
            .error (.assertionFailed a.startTS a.m.key a.m.assertion w.startTS w.commitTS)
          else .ok st.needNotExist
        | .delete =>
          if a.lockOnlyIfExists && conflict.isSome then
            match conflict with
            | some c => .error c
            | none => .ok false
          else .ok false
        | .rollback => .ok st.needNotExist
      match step with
      | .error e => .error e
      | .ok needNotExist =>
        let (needGetVal, retVal) :=
          if st.needGetVal && (w.vt == .delete || w.vt == .put) then (false, some w.value)
          else (st.needGetVal, st.retVal)
        if !needNotExist && !needGetVal && !needRollback then .ok retVal
        else
          match rest with
          | [] =>
            if a.m.assertion == .exist && assertOn then
              .error (.assertionFailed a.startTS a.m.key a.m.assertion 0 0)
            else .ok retVal
          | _ :: _ =>
            ccLoop a conflict assertOn rest { needGetVal := needGetVal, needNotExist := needNotExist, needRollback := needRollback, retVal := retVal }

/-- checkConflictValue: result = (value for getVal, write-conflict to report with CanForceLock) -/
def checkConflictValue (a : CCArgs) (ws : List Write) : Except KErr (Option Bytes × Option KErr) :=
  match ws with
  | [] =>
    if a.m.assertion == .exist && a.assertOn && a.m.op != .pessimisticLock then
      .error (.assertionFailed a.startTS a.m.key a.m.assertion 0 0)
    else .ok (none, none)
  | w :: _ =>
    let conflict : Option KErr :=
      if w.commitTS > a.forUpdateTS then some (.conflict a.forUpdateTS w.startTS w.commitTS a.m.key false) else none
    if conflict.isSome && !a.allowLockWithConflict then
      match conflict with
      | some c => .error c
      | none => .ok (none, none)
    else
      let assertOn := if conflict.isSome then false else a.assertOn
      let st : CCState := {
        needGetVal := a.getVal
        needNotExist := a.m.assertion == .notExist && a.m.op == .pessimisticLock
        needRollback := true
        retVal := none }
      match ccLoop a conflict assertOn ws st with
      | .error e => .error e
      | .ok rv =>
        let c' := conflict.map fun c => match c with
          | .conflict s ct cc k _ => KErr.conflict s ct cc k true
          | other => other
        .ok (if a.getVal then rv else none, c')

/-! ## deadlock detector -/

def wfLookup (m : WaitFor) (t : TS) : List TS :=
  match m with
  | [] => []
  | (t', l) :: rest => if t' == t then l else wfLookup rest t

/-- doDetect with fuel (the wait-for graph is acyclic by construction) -/
def doDetect (m : WaitFor) (fuel : Nat) (source waitFor : TS) : Bool :=
  match fuel with
  | 0 => false
  | fuel + 1 =>
    (wfLookup m waitFor).any fun nxt => nxt == source || doDetect m fuel source nxt

def wfRegister (m : WaitFor) (source waitFor : TS) : WaitFor :=
  match m with
  | [] => [(source, [waitFor])]
  | (t, l) :: rest =>
    if t == source then (t, if l.contains waitFor then l else l ++ [waitFor]) :: rest
    else (t, l) :: wfRegister rest source waitFor

def wfCleanUp (m : WaitFor) (t : TS) : WaitFor := m.filter (·.1 != t)

/-! ## pessimistic lock -/

inductive WakeUp | normal | forceLock
  deriving DecidableEq, Repr, Inhabited

structure PLReq where
  mutations : List Mutation
  primary : Bytes
  startTS : TS
  forUpdateTS : TS
  ttl : Nat
  minCommitTS : TS := 0
  returnValues : Bool := false
  checkExistence : Bool := false
  lockOnlyIfExists : Bool := false
  wakeUp : WakeUp := .normal
  noWait : Bool := false          -- WaitTimeout == LockNoWait
  deriving Repr, Inhabited

/-- PessimisticLockKeyResult -/
inductive PLResult
  | normal (value : Option Bytes) (existence : Bool)
  | lockedWithConflict (value : Option Bytes) (existence : Bool) (conflictTS : TS)
  | failed
  deriving Repr

structure PLResp where
  errors : List KErr := []
  results : List PLResult := []    -- ForceLock mode
  values : List (Option Bytes) := []
  notFounds : List Bool := []
  panic : Bool := false
  deriving Repr

/-- a foreign lock on the key: deadlock detection or a `locked` error with the wait-for edge recorded -/
def plForeign (e : Entry) (wf : WaitFor) (r : PLReq) (m : Mutation) : Option (KErr × WaitFor) :=
  match e.lock with
  | some l =>
    if l.startTS != r.startTS then
      if doDetect wf 64 r.startTS l.startTS then some (.deadlock m.key l.startTS, wf)
      else some (lockErr l m.key, wfRegister wf r.startTS l.startTS)
    else none
  | none => none

def plOwnPrewrite (e : Entry) : Bool :=
  match e.lock with
  | some l => l.op != .pessimisticLock
  | none => false

def valNonEmpty (val : Option Bytes) : Bool :=
  match val with | some v => !v.isEmpty | none => false

def plRes (r : PLReq) (val : Option Bytes) (conflict : Option KErr) : Option PLResult :=
  match conflict with
  | some (.conflict _ _ cc _ _) => some (.lockedWithConflict val (valNonEmpty val) cc)
  | _ =>
    if r.returnValues then some (.normal val (valNonEmpty val))
    else if r.checkExistence then some (.normal none (valNonEmpty val))
    else some (.normal none false)

def plWrite (e : Entry) (r : PLReq) : Bool :=
  match e.lock with
  | some l => l.forUpdateTS < r.forUpdateTS
  | none => true

def plNewLock (r : PLReq) : Lock :=
  ⟨r.startTS, r.primary, [], .pessimisticLock, r.ttl, r.forUpdateTS, 0, r.minCommitTS⟩

def plArgs (r : PLReq) (m : Mutation) : CCArgs :=
  ⟨m, r.forUpdateTS, r.startTS, true, false, r.lockOnlyIfExists, r.wakeUp == .forceLock⟩

/-- pessimisticLockMutation: (error?, result?, batch entries, new wait-for map) -/
def plMutation (s : Store) (wf : WaitFor) (r : PLReq) (m : Mutation) :
    Option KErr × Option PLResult × List Act × WaitFor :=
  if r.lockOnlyIfExists && !r.returnValues then (some (.abort "lockOnlyIfExists"), none, [], wf)
  else
    match plForeign (getEntry s.kv m.key) wf r m with
    | some (err, wf') => (some err, none, [], wf')
    | none =>
      -- C12-DEF: a pessimistic lock request over the transaction's own prewrite lock is refused (TiKV);
      -- the Go code falls through and replaces the prewrite lock
      if plOwnPrewrite (getEntry s.kv m.key) then (some (.abort "own-prewrite-lock"), none, [], wf)
      else
      match checkConflictValue (plArgs r m) (getEntry s.kv m.key).writes with
      | .error err => (some err, none, [], wf)
      | .ok (val, conflict) =>
        if r.lockOnlyIfExists && !valNonEmpty val then (none, plRes r val conflict, [], wf)
        else
          (none, plRes r val conflict,
            if plWrite (getEntry s.kv m.key) r then [Act.putLock m.key (plNewLock r)] else [], wf)

def plLoop (s : Store) (r : PLReq) (ms : List Mutation) (wf : WaitFor)
    (errs : List KErr) (results : List PLResult) (acts : List Act) : List KErr × List PLResult × List Act × WaitFor :=
  match ms with
  | [] => (errs.reverse, results.reverse, acts, wf)
  | m :: rest =>
    let (err, res, a, wf') := plMutation s wf r m
    let results' := match res with | some x => x :: results | none => results
    match err with
    | some e =>
      let results'' := if r.wakeUp == .forceLock then PLResult.failed :: results' else results'
      let isLocked := match e with | .locked .. => true | _ => false
      if r.noWait && isLocked then ((e :: errs).reverse, results''.reverse, acts ++ a, wf')
      else plLoop s r rest wf' (e :: errs) results'' (acts ++ a)
    | none => plLoop s r rest wf' errs results' (acts ++ a)

def pessimisticLock (s : Store) (r : PLReq) : Store × PLResp :=
  let (errs, results, acts, wf) := plLoop s r r.mutations s.waitFor [] [] []
  let s1 : Store := { s with waitFor := wf }
  let force := r.wakeUp == .forceLock
  let anyErr := !errs.isEmpty
  let panic := (!anyErr || force) && results.length != r.mutations.length
  if panic then (s1, { panic := true })
  else if anyErr then (s1, { errors := errs, results := if force then results else [] })
  else
    let s2 : Store := { s1 with kv := applyBatch s1.kv acts }
    if force then (s2, { results := results })
    else if r.returnValues then
      (s2, { values := results.map fun x => match x with | .normal v _ => v | _ => none,
             notFounds := results.map fun x => match x with | .normal _ ex => !ex | _ => true })
    else if r.checkExistence then
      (s2, { notFounds := results.map fun x => match x with | .normal _ ex => !ex | _ => true })
    else (s2, {})

/-! ## pessimistic rollback -/

def pessimisticRollback (s : Store) (start end_ : Bytes) (keys : List Bytes) (startTS forUpdateTS : TS) : Store :=
  let hit (l : Lock) : Bool := l.op == .pessimisticLock && l.startTS == startTS && l.forUpdateTS ≤ forUpdateTS
  let keys' := if keys.isEmpty then
      (s.kv.filter fun p => inRange start end_ p.1 && (match p.2.lock with | some l => hit l | none => false)).map (·.1)
    else keys
  let acts := keys'.filterMap fun k =>
    match (getEntry s.kv k).lock with
    | some l => if hit l then some (Act.delLock k) else none
    | none => none
  { s with kv := applyBatch s.kv acts }

/-! ## prewrite -/

inductive PAction | doCheck | doNotCheck | skip     -- DO_PESSIMISTIC_CHECK, DO_CONSTRAINT_CHECK?, SKIP
  deriving DecidableEq, Repr, Inhabited

structure PrewriteReq where
  mutations : List Mutation
  primary : Bytes
  startTS : TS
  forUpdateTS : TS := 0
  ttl : Nat
  minCommitTS : TS := 0
  txnSize : Nat := 0
  actions : List PAction := []      -- empty = all SKIP
  assertOn : Bool := false
  resolved : List TS := []
  deriving Repr, Inhabited

/-- prewriteMutation -/
def prewriteMutation (s : Store) (r : PrewriteReq) (m : Mutation) (action : PAction) : Except KErr (List Act) :=
  let e := getEntry s.kv m.key
  let cc (fts : TS) := checkConflictValue ⟨m, fts, r.startTS, false, r.assertOn, false, false⟩ e.writes
  let writeLock (ttl minCommit : Nat) : List Act :=
    let op := if m.op == .insert then Op.put else m.op
    let newLock : Lock := ⟨r.startTS, r.primary, m.value, op, ttl, 0, r.txnSize, if r.primary == m.key then minCommit else 0⟩
    [Act.putLock m.key newLock]
  match e.lock with
  | some l =>
    if l.startTS != r.startTS then
      .error (lockErr { l with ttl := if action == .doCheck then 0 else l.ttl } m.key)
    else if l.op != .pessimisticLock then .ok []
    else
      let ttl := if r.ttl < l.ttl then l.ttl else r.ttl
      let minCommit := if r.minCommitTS < l.minCommitTS then l.minCommitTS else r.minCommitTS
      -- C12-DEF: a prewrite over the transaction's own pessimistic lock is not re-checked for write
      -- conflicts (TiKV); the Go code calls checkConflictValue(…, startTS, startTS, …).  The rollback-marker
      -- and assertion checks of that call are kept by checking at forUpdateTS = +∞.
      match cc maxU64 with
      | .error err => .error err
      | .ok _ => .ok (writeLock ttl minCommit)
  | none =>
    if action == .doCheck then .error (.abort "pessimistic lock not found")
    else
      match cc r.startTS with
      | .error err => .error err
      | .ok _ => .ok (writeLock r.ttl r.minCommitTS)

def prewriteLoop (s : Store) (r : PrewriteReq) (ms : List Mutation) (i : Nat)
    (errs : List (Option KErr)) (acts : List Act) : List (Option KErr) × List Act :=
  match ms with
  | [] => (errs.reverse, acts)
  | m :: rest =>
    let insertCheck : Option KErr :=
      if (m.op == .insert || m.op == .checkNotExists) && r.forUpdateTS == 0 then
        match getValue (getEntry s.kv m.key) m.key r.startTS true r.resolved with
        | .error e => some e
        | .ok (some _) => some (.alreadyExist m.key)
        | .ok none => none
      else none
    match insertCheck with
    | some e => prewriteLoop s r rest (i + 1) (some e :: errs) acts
    | none =>
      if m.op == .checkNotExists then prewriteLoop s r rest (i + 1) errs acts
      else
        let action := if r.actions.isEmpty then PAction.skip else (r.actions.getD i .skip)
        match prewriteMutation s r m action with
        | .error e => prewriteLoop s r rest (i + 1) (some e :: errs) acts
        | .ok a => prewriteLoop s r rest (i + 1) (none :: errs) (acts ++ a)

/-- MVCCStore.Prewrite: one optional error per processed mutation (CheckNotExists mutations that pass add none) -/
def prewrite (s : Store) (r : PrewriteReq) : Store × List (Option KErr) :=
  let (errs, acts) := prewriteLoop s r r.mutations 0 [] []
  if errs.any Option.isSome then (s, errs) else ({ s with kv := applyBatch s.kv acts }, errs)

/-! ## commit / rollback / cleanup / status -/

/-- getTxnCommitInfo: the transaction's own write record -/
def txnCommitInfo (ws : List Write) (startTS : TS) : Option Write := ws.find? (·.startTS == startTS)

/-- commitLock.  C12-DEF: committing a leftover pessimistic lock changes no data (TiKV): the lock is removed
    and no record is written; the Go code writes a *delete* record for every op other than put/lock. -/
def commitLock (l : Lock) (key : Bytes) (startTS commitTS : TS) : List Act :=
  if l.op == .pessimisticLock then [Act.delLock key]
  else
    let vt : VT := match l.op with | .put => .put | .lock => .lock | _ => .delete
    [Act.putWrite key { vt := vt, startTS := startTS, commitTS := commitTS, value := l.value }, Act.delLock key]

def rollbackMarker (key : Bytes) (startTS : TS) : Act :=
  .putWrite key { vt := .rollback, startTS := startTS, commitTS := startTS, value := [] }

def rollbackLock (key : Bytes) (startTS : TS) : List Act := [rollbackMarker key startTS, .delLock key]

def commitKey (s : Store) (key : Bytes) (startTS commitTS : TS) : Except KErr (List Act) :=
  let e := getEntry s.kv key
  match e.lock.filter (·.startTS == startTS) with
  | none =>
    match txnCommitInfo e.writes startTS with
    | some c => if c.vt != .rollback then .ok [] else .error .retryable
    | none => .error .retryable
  | some l =>
    if l.minCommitTS > commitTS then .error (.commitTsExpired startTS commitTS key l.minCommitTS)
    else .ok (commitLock l key startTS commitTS)

def commitLoop (s : Store) (keys : List Bytes) (startTS commitTS : TS) (acts : List Act) : Except KErr (List Act) :=
  match keys with
  | [] => .ok acts
  | k :: rest =>
    match commitKey s k startTS commitTS with
    | .error e => .error e
    | .ok a => commitLoop s rest startTS commitTS (acts ++ a)

def commit (s : Store) (keys : List Bytes) (startTS commitTS : TS) : Store × Option KErr :=
  let s1 : Store := { s with waitFor := wfCleanUp s.waitFor startTS }
  match commitLoop s keys startTS commitTS [] with
  | .error e => (s1, some e)
  | .ok acts => ({ s1 with kv := applyBatch s1.kv acts }, none)

def rollbackKey (s : Store) (key : Bytes) (startTS : TS) : Except KErr (List Act) :=
  let e := getEntry s.kv key
  match e.lock.filter (·.startTS == startTS) with
  | some _ => .ok (rollbackLock key startTS)
  | none =>
    match txnCommitInfo e.writes startTS with
    | some c => if c.vt != .rollback then .error (.alreadyCommitted c.commitTS) else .ok []
    | none => .ok [rollbackMarker key startTS]

def rollbackLoop (s : Store) (keys : List Bytes) (startTS : TS) (acts : List Act) : Except KErr (List Act) :=
  match keys with
  | [] => .ok acts
  | k :: rest =>
    match rollbackKey s k startTS with
    | .error e => .error e
    | .ok a => rollbackLoop s rest startTS (acts ++ a)

def rollback (s : Store) (keys : List Bytes) (startTS : TS) : Store × Option KErr :=
  let s1 : Store := { s with waitFor := wfCleanUp s.waitFor startTS }
  match rollbackLoop s keys startTS [] with
  | .error e => (s1, some e)
  | .ok acts => ({ s1 with kv := applyBatch s1.kv acts }, none)

/-- Cleanup (deprecated API, still served).  The no-lock/no-record branch leaves a rollback marker, as the
    property text requires of every rollback path. -/
def cleanup (s : Store) (key : Bytes) (startTS currentTS : TS) : Store × Option KErr :=
  let s1 : Store := { s with waitFor := wfCleanUp s.waitFor startTS }
  let e := getEntry s.kv key
  match e.lock.filter (·.startTS == startTS) with
  | some l =>
    if currentTS == 0 || physical l.startTS + l.ttl < physical currentTS then
      ({ s1 with kv := applyBatch s1.kv (rollbackLock key startTS) }, none)
    else (s1, some (lockErr l key))
  | none =>
    match txnCommitInfo e.writes startTS with
    | some c => if c.vt != .rollback then (s1, some (.alreadyCommitted c.commitTS)) else (s1, none)
    | none => ({ s1 with kv := applyBatch s1.kv [rollbackMarker key startTS] }, none)

/-- kvrpcpb.Action -/
inductive Action | noAction | ttlExpireRollback | lockNotExistRollback | minCommitTSPushed
  | ttlExpirePessimisticRollback | lockNotExistDoNothing
  deriving DecidableEq, Repr, Inhabited

def Action.code : Action → Nat
  | .noAction => 0 | .ttlExpireRollback => 1 | .lockNotExistRollback => 2 | .minCommitTSPushed => 3
  | .ttlExpirePessimisticRollback => 4 | .lockNotExistDoNothing => 5

structure StatusResp where
  ttl : Nat := 0
  commitTS : TS := 0
  action : Action := .noAction
  err : Option KErr := none
  deriving Repr

def checkTxnStatus (s : Store) (primary : Bytes) (lockTS callerStartTS currentTS : TS)
    (rollbackIfNotExist resolvingPessimistic : Bool) : Store × StatusResp :=
  let e := getEntry s.kv primary
  match e.lock.filter (·.startTS == lockTS) with
  | some l =>
    if physical l.startTS + l.ttl < physical currentTS then
      if resolvingPessimistic && l.op == .pessimisticLock then
        -- pessimisticRollbackKey(primary, lock.startTS, lock.forUpdateTS): always matches the lock itself
        ({ s with kv := applyBatch s.kv [Act.delLock primary] }, { action := .ttlExpirePessimisticRollback })
      else
        ({ s with kv := applyBatch s.kv (rollbackLock primary lockTS) }, { action := .ttlExpireRollback })
    else if callerStartTS == maxU64 then (s, { ttl := l.ttl, action := .minCommitTSPushed })
    else if l.minCommitTS > 0 then
      if l.minCommitTS < callerStartTS + 1 then
        let m1 := callerStartTS + 1
        let m2 := if m1 < currentTS then currentTS else m1
        ({ s with kv := applyBatch s.kv [Act.putLock primary { l with minCommitTS := m2 }] },
         { ttl := l.ttl, action := .minCommitTSPushed })
      else (s, { ttl := l.ttl, action := .minCommitTSPushed })
    else (s, { ttl := l.ttl, action := .noAction })
  | none =>
    match txnCommitInfo e.writes lockTS with
    | some c => if c.vt != .rollback then (s, { commitTS := c.commitTS }) else (s, {})
    | none =>
      if rollbackIfNotExist then
        if resolvingPessimistic then (s, { action := .lockNotExistDoNothing })
        else ({ s with kv := applyBatch s.kv [rollbackMarker primary lockTS] }, { action := .lockNotExistRollback })
      else (s, { err := some (.txnNotFound lockTS primary) })

def heartBeat (s : Store) (key : Bytes) (startTS : TS) (adviseTTL : Nat) : Store × Except KErr Nat :=
  match (getEntry s.kv key).lock.filter (·.startTS == startTS) with
  | some l =>
    if l.primary != key then (s, .error (.abort "heartbeat-non-primary"))
    else if adviseTTL > l.ttl then
      ({ s with kv := applyBatch s.kv [Act.putLock key { l with ttl := adviseTTL }] }, .ok adviseTTL)
    else (s, .ok l.ttl)
  | none => (s, .error (.abort "lock-not-exist"))

/-! ## lock scan / resolution / GC / delete-range -/

def scanLock (s : Store) (start end_ : Bytes) (maxTS : TS) : List (Bytes × Bytes × TS) :=   -- key, primary, startTS
  (s.kv.filter fun p => inRange start end_ p.1).filterMap fun (k, e) =>
    match e.lock with
    | some l => if l.startTS ≤ maxTS then some (k, l.primary, l.startTS) else none
    | none => none

def resolveLock (s : Store) (start end_ : Bytes) (startTS commitTS : TS) : Store :=
  let acts := (s.kv.filter fun p => inRange start end_ p.1).flatMap fun (k, e) =>
    match e.lock with
    | some l =>
      if l.startTS == startTS then
        (if commitTS > 0 then commitLock l k startTS commitTS else rollbackLock k startTS)
      else []
    | none => []
  { s with kv := applyBatch s.kv acts }

def lookupTxn (infos : List (TS × TS)) (t : TS) : Option TS :=
  match infos with
  | [] => none
  | (a, c) :: rest => if a == t then some c else lookupTxn rest t

def batchResolveLock (s : Store) (start end_ : Bytes) (infos : List (TS × TS)) : Store :=
  let acts := (s.kv.filter fun p => inRange start end_ p.1).flatMap fun (k, e) =>
    match e.lock with
    | some l =>
      match lookupTxn infos l.startTS with
      | some c => if c > 0 then commitLock l k l.startTS c else rollbackLock k l.startTS
      | none => []
    | none => []
  { s with kv := applyBatch s.kv acts }

/-- GC of one key's versions: records above the safe point are kept; below it only the newest put survives -/
def gcWrites (key : Bytes) (ws : List Write) (safePoint : TS) (keepNext : Bool) : List Act :=
  match ws with
  | [] => []
  | w :: rest =>
    if w.commitTS > safePoint then gcWrites key rest safePoint keepNext
    else if w.vt == .put || w.vt == .delete then
      (if !keepNext || w.vt == .delete then [Act.delWrite key w.commitTS] else []) ++ gcWrites key rest safePoint false
    else Act.delWrite key w.commitTS :: gcWrites key rest safePoint keepNext

def gcLoop (kv : List (Bytes × Entry)) (safePoint : TS) (acts : List Act) : Except Bytes (List Act) :=
  match kv with
  | [] => .ok acts
  | (k, e) :: rest =>
    match e.lock.filter (·.startTS ≤ safePoint) with
    | some _ => .error k
    | none => gcLoop rest safePoint (acts ++ gcWrites k e.writes safePoint true)

/-- returns the key whose lock blocks GC, if any -/
def gc (s : Store) (start end_ : Bytes) (safePoint : TS) : Store × Option Bytes :=
  match gcLoop (s.kv.filter fun p => inRange start end_ p.1) safePoint [] with
  | .error k => (s, some k)
  | .ok acts => ({ s with kv := applyBatch s.kv acts }, none)

def deleteRange (s : Store) (start end_ : Bytes) : Store :=
  { s with kv := s.kv.filter fun p => !(inRange start end_ p.1) }

end CGV.Mvcc
