/-
  kv/keyflags.go: `KeyFlags` (uint16) as `Nat`, `ApplyFlagsOps`, `AndPersistent`.  Core-only, executable.
  The table op ↦ statements is regenerated from the Go source (Generated/KeyFlags.lean) on every run.
-/
import ClientGoVerif.Generated.KeyFlags
namespace CGV.KeyFlags
open CGV.Gen.KeyFlags

/-- one statement of a `case`: `origin |= m` or `origin &= ^m` (uint16 complement) -/
def applyStmt (f : Nat) (st : Bool × Nat) : Nat :=
  if st.1 then f ||| st.2 else f &&& (65535 - st.2)

/-- one `FlagsOp` (its numeric value); values without a `case` leave the flags unchanged (the switch has no default) -/
def applyOp (f : Nat) (op : Nat) : Nat :=
  match opTable.find? (fun r => r.1 == op) with
  | some r => r.2.foldl applyStmt f
  | none => f

/-- `kv.ApplyFlagsOps(origin, ops...)` -/
def applyOps (f : Nat) (ops : List Nat) : Nat := ops.foldl applyOp f

/-- `KeyFlags.AndPersistent` -/
def andPersistent (f : Nat) : Nat := f &&& persistentFlags

/-- the op every value write prepends (`kv.DelNeedConstraintCheckInPrewrite`) -/
def delNeedConstraintCheck : Nat := DelNeedConstraintCheckInPrewrite

end CGV.KeyFlags
