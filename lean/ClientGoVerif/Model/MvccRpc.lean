/-
  RPC-handler layer of the mock store over the MVCC model (mocktikv/rpc.go kvHandler): region clamping, which
  errors reach the wire and in which form.  `rpcExec` takes the command tokens of a trace `rpc` event
  (HUB.md) and returns the model's wire answer in the same canonical form the recorder uses.
-/
import ClientGoVerif.Model.MvccProto
namespace CGV.MvccRpc
open CGV CGV.Mvcc CGV.MvccProto

/-- convertToKeyError: errors without a wire form of their own become Abort -/
def wireErr : KErr → String
  | .alreadyRollbacked .. => "abort"
  | .alreadyCommitted .. => "abort"
  | .conflict s ct cc k _ => kerrStr (.conflict s ct cc k false)
  | e => kerrStr e

def isLocked : KErr → Bool | .locked .. => true | _ => false

/-- handleKvPrewrite: keep all errors if they are all KeyIsLocked, else only the first other error -/
def prewriteWire (errs : List (Option KErr)) : List KErr :=
  let es := errs.filterMap id
  match es.find? (fun e => !isLocked e) with
  | some _ =>
    -- errs[i : i+1] at the first non-locked error, after dropping nils: exactly that error
    match errs.find? (fun e => match e with | some e => !isLocked e | none => false) with
    | some (some e) => [e]
    | _ => []
  | none => es

def clampEnd (reqEnd rend : Bytes) : Bytes :=
  if !reqEnd.isEmpty && (rend.isEmpty || Bytes.lt reqEnd rend) then reqEnd else rend

def pairWire : Pair → String
  | .kv k v c => s!"{hexOrTilde k}={hexOrTilde v}@{c}"
  | .err e => s!"E:{wireErr e}"

def kvTok (t : String) : String := (t.splitOn "=").getD 1 ""
def tokVal (pref t : String) : Option String := if t.startsWith pref then some (t.drop pref.length).toString else none

/-- returns (new store, wire answer).  `none` = malformed event. -/
def rpcExec (s : Store) (rstart rend : Bytes) (w : List String) : Option (Store × String) :=
  match w with
  | ["get", k, ts, si, rs] => do
    let k ← hx k; let ts ← ts.toNat?; let si ← parseBool si; let rs ← parseNatList rs
    match getValue (getEntry s.kv k) k ts si rs with
    | .ok none => pure (s, "ok ~ 0")
    | .ok (some wr) => pure (s, s!"ok {hexOrTilde wr.value} {wr.commitTS}")
    | .error e => pure (s, s!"err {wireErr e}")
  | ["bget", ks, ts, si, rs] => do
    let ks ← parseHexList ks; let ts ← ts.toNat?; let si ← parseBool si; let rs ← parseNatList rs
    pure (s, showList ((batchGet s ks ts si rs).map pairWire))
  | ["scan", a, b, lim, ts, si, rs] => do
    let a ← hx a; let b ← hx b; let lim ← lim.toNat?; let ts ← ts.toNat?; let si ← parseBool si; let rs ← parseNatList rs
    pure (s, showList ((scan s a (clampEnd b rend) lim ts si rs).map pairWire))
  | ["rscan", lo, hi, lim, ts, si, rs] => do
    let lo ← hx lo; let hi ← hx hi; let lim ← lim.toNat?; let ts ← ts.toNat?; let si ← parseBool si; let rs ← parseNatList rs
    pure (s, showList ((reverseScan s lo (clampEnd hi rend) lim ts si rs).map pairWire))
  | ["prewrite", p, st, fu, ttl, mc, sz, ao, rs, ms, _async, _onepc, _sec] => do
    let p ← hx p; let st ← st.toNat?; let fu ← fu.toNat?; let ttl ← ttl.toNat?; let mc ← mc.toNat?
    let sz ← sz.toNat?; let ao ← parseBool ao; let rs ← parseNatList rs; let ms ← parseMuts ms
    let allSkip := ms.all fun x => x.2 == .skip
    let req : PrewriteReq := {
      mutations := ms.map (·.1), primary := p, startTS := st, forUpdateTS := fu, ttl := ttl,
      minCommitTS := mc, txnSize := sz, actions := if allSkip then [] else ms.map (·.2), assertOn := ao, resolved := rs }
    let (s', errs) := prewrite s req
    -- the mock implements neither async commit nor 1PC: min_commit_ts and one_pc_commit_ts stay 0
    pure (s', s!"errs={showList ((prewriteWire errs).map wireErr)} mincommit=0 onepc=0")
  | ["plock", p, st, fu, ttl, mc, flags, ms] => do
    let p ← hx p; let st ← st.toNat?; let fu ← fu.toNat?; let ttl ← ttl.toNat?; let mc ← mc.toNat?
    let ms ← parseMuts ms
    let has (c : Char) := flags.toList.contains c
    let req : PLReq := {
      mutations := ms.map (·.1), primary := p, startTS := st, forUpdateTS := fu, ttl := ttl, minCommitTS := mc,
      returnValues := has 'r', checkExistence := has 'c', lockOnlyIfExists := has 'e',
      wakeUp := if has 'f' then .forceLock else .normal, noWait := has 'n' }
    let (s', r) := pessimisticLock s req
    pure (s', plRespStr r)
  | ["prollback", _, _, ks, st, fu] => do
    let ks ← parseHexList ks; let st ← st.toNat?; let fu ← fu.toNat?
    pure (pessimisticRollback s rstart rend ks st fu, "ok")
  | ["commit", ks, st, ct] => do
    let ks ← parseHexList ks; let st ← st.toNat?; let ct ← ct.toNat?
    let (s', e) := commit s ks st ct
    pure (s', match e with | none => "ok" | some e => s!"err {wireErr e}")
  | ["rollback", ks, st] => do
    let ks ← parseHexList ks; let st ← st.toNat?
    let (s', e) := rollback s ks st
    pure (s', match e with | none => "ok" | some e => s!"err {wireErr e}")
  | ["cleanup", k, st, cur] => do
    let k ← hx k; let st ← st.toNat?; let cur ← cur.toNat?
    let (s', e) := cleanup s k st cur
    pure (s', match e with
      | none => "ok commit=0"
      | some (.alreadyCommitted c) => s!"ok commit={c}"
      | some e => s!"err {wireErr e}")
  | ["status", p, lt, cs, cur, rb, rp] => do
    let p ← hx p; let lt ← lt.toNat?; let cs ← cs.toNat?; let cur ← cur.toNat?; let rb ← parseBool rb; let rp ← parseBool rp
    let (s', r) := checkTxnStatus s p lt cs cur rb rp
    pure (s', match r.err with
      | some e => s!"err {wireErr e}"
      | none => s!"ok ttl={r.ttl} commit={r.commitTS} action={r.action.code}")
  | ["heartbeat", k, st, adv] => do
    let k ← hx k; let st ← st.toNat?; let adv ← adv.toNat?
    let (s', r) := heartBeat s k st adv
    pure (s', match r with | .ok t => s!"ok {t}" | .error e => s!"err {wireErr e}")
  | ["scanlock", _, _, mx] => do
    let mx ← mx.toNat?
    pure (s, showList ((scanLock s rstart rend mx).map fun (k, p, t) => s!"{hexOrTilde k}/{hexOrTilde p}/{t}"))
  | ["resolve", _, _, st, ct, infos, _keys] => do
    let st ← st.toNat?; let ct ← ct.toNat?
    let infos ← (tokVal "infos=" infos) >>= parsePairs
    -- single form: all locks of the transaction in the region (the mock ignores `keys`: a superset with the same status);
    -- batch form (`txn_infos`): every listed transaction
    if infos.isEmpty then pure (resolveLock s rstart rend st ct, "ok")
    else pure (batchResolveLock s rstart rend infos, "ok")
  | ["gc", _, _, sp] => do
    let sp ← sp.toNat?
    let (s', blocked) := gc s rstart rend sp
    pure (s', match blocked with | none => "ok" | some _ => "err abort")
  | ["delrange", a, b] => do
    let a ← hx a; let b ← hx b
    pure (deleteRange s a b, "ok")
  | ["other", _] => pure (s, "other")
  | _ => none

/-- split at the commas that are not inside parentheses (`E:locked(61,61,…),63=0100@0` has two elements) -/
def splitTop (s : String) : List String :=
  let rec go (cs : List Char) (depth : Nat) (cur : List Char) (acc : List String) : List String :=
    match cs with
    | [] => (String.ofList cur.reverse :: acc).reverse
    | c :: rest =>
      if c == '(' then go rest (depth + 1) (c :: cur) acc
      else if c == ')' then go rest (depth - 1) (c :: cur) acc
      else if c == ',' && depth == 0 then go rest depth [] (String.ofList cur.reverse :: acc)
      else go rest depth (c :: cur) acc
  go s.toList 0 [] []

/-- recorded commit timestamps of reads are 0 unless the request asked for them: compare modulo `@c` / trailing ts -/
def stripTS (ans : String) : String :=
  let toks := ans.splitOn " "
  match toks with
  | ["ok", v, _] => s!"ok {v}"
  | _ => " ".intercalate (toks.map fun t =>
      ",".intercalate ((splitTop t).map fun p =>
        if p.startsWith "E:" then p else (p.splitOn "@").headD p))

def answersAgree (cmd : String) (model recorded : String) : Bool :=
  if cmd == "get" || cmd == "bget" then model == recorded || stripTS model == stripTS recorded
  else model == recorded

end CGV.MvccRpc
