/-
  Row types and the "required ⇒ flag" rule of the C15 command / key-field catalogue.
  The table itself (`Generated/CodecCatalogue.lean`) is rewritten on every run from the OBSERVED behaviour of
  /repo (harness/c15 -catalogue).  Strings are labels only; the rule inspects enums and booleans.
-/
namespace CGV.ApiV2.Cat

inductive Side | req | resp
  deriving DecidableEq, Repr
inductive Fmt | plain | region
  deriving DecidableEq, Repr
/-- what EncodeRequest / DecodeResponse did to the marker key placed in the field -/
inductive Effect | prefixed | stripped | strippedRegion | unchanged | error | dropped | other | panic
  deriving DecidableEq, Repr
/-- what an EMPTY key placed in a request field came out as: the keyspace end, the keyspace prefix, still empty,
    or anything else (`na` on the response side) -/
inductive EmptyEff | na | kend | kstart | empty | other
  deriving DecidableEq, Repr
/-- role of a key-bearing field by its name: `start`/`start_key`, `end`/`end_key`, or a plain key -/
inductive Role | key | start | end_
  deriving DecidableEq, Repr

structure FieldRow where
  cmd : String
  side : Side
  path : String
  multi : Bool          -- repeated bytes
  fmt : Fmt             -- expected wire form by the rule: plain key or region boundary (memcomparable)
  effect : Effect
  intact : Bool         -- EncodeRequest left the caller's message untouched (requests are re-encoded on retry)
  role : Role
  empty : EmptyEff
  known : Bool          -- the row matched a `known` entry of known_findings.json (printed as KNOWN-FINDING)

structure CmdRow where
  name : String
  value : Nat
  req : String
  resp : String
  identified : Bool     -- CallRPC / CallDebugRPC / ToBatchCommandsRequest accepted a request of this type
  stream : Bool
  hasCtx : Bool         -- the request message has a kvrpcpb.Context field
  attach : Bool         -- AttachContext returned true (twice) and the message carries the attached context
  hasRegErr : Bool      -- the response message has a region_error field
  genRegErr : Bool      -- GenRegionErrorResp gave a response of the CallRPC response type whose region error reads back
  batchForm : Bool      -- unary and request/response are members of the BatchCommands oneofs (same arm name)
  toBatch : Bool        -- ToBatchCommandsRequest wraps the very request message in the matching arm
  fromBatch : Bool      -- FromBatchCommandsResponse unwraps the matching arm to the very response message
  known : Bool

/-- the rule: what a key-bearing field row must show -/
def FieldRow.ok (r : FieldRow) : Bool :=
  match r.side with
  | .req => r.effect == .prefixed && r.intact &&
      (match r.role with
       | .end_ => r.empty == .kend                          -- empty end = end of the keyspace
       | .start => r.empty == .kstart                       -- empty start = start of the keyspace, never the global start
       | .key => r.empty == .kstart || r.empty == .empty)   -- empty key: prefixed, or left unset
  | .resp =>
    match r.fmt with
    | .plain => r.effect == .stripped
    | .region => r.effect == .strippedRegion

/-- the rule: what a command row must show -/
def CmdRow.ok (c : CmdRow) : Bool :=
  c.identified && (!c.hasCtx || c.attach) && (!c.hasRegErr || c.genRegErr)
    && (!c.batchForm || (c.toBatch && c.fromBatch))

end CGV.ApiV2.Cat
