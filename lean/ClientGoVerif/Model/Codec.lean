/-
  Model of /repo/util/codec/bytes.go and number.go (C19).  Core-only, executable.
  Integers: uint64 is a `Nat` (< 2^64), int64 an `Int` (-2^63 ≤ v < 2^63); the bit operations of the
  Go code are modelled by their arithmetic meaning (`x ^ signMask` = add/sub 2^63, `^x` = 2^64-1-x,
  `v>>k` on int64 = floor division); the correspondence check ties this to the Go code.
-/
import ClientGoVerif.Model.Bytes
import ClientGoVerif.Generated.CodecConsts
namespace CGV.Codec
open CGV

inductive Err | insufficient | invalid | overflow
  deriving DecidableEq, Repr

def Err.str : Err → String
  | .insufficient => "insufficient" | .invalid => "invalid" | .overflow => "overflow"

abbrev Res (α : Type) := Except Err (α × Bytes)   -- (value, remaining suffix)

def G : Nat := Gen.encGroupSize
def two64 : Nat := 2 ^ 64
def two63 : Nat := 2 ^ 63

/-! ## memcomparable bytes -/

/-- `EncodeBytes(nil, data)`: the loop `for idx := 0; idx <= dLen; idx += 8` -/
def encodeBytes (data : Bytes) : Bytes :=
  if h : data.length ≥ 8 then
    data.take 8 ++ [UInt8.ofNat Gen.encMarker] ++ encodeBytes (data.drop 8)
  else
    data ++ List.replicate (8 - data.length) (UInt8.ofNat Gen.encPad)
      ++ [UInt8.ofNat (Gen.encMarker - (8 - data.length))]
termination_by data.length
decreasing_by simp [List.length_drop]; omega

/-- `decodeBytes(b, nil, reverse)`; result is (buf, rest). `acc` is `buf` so far. -/
def decodeBytesAux (rev : Bool) (b : Bytes) (acc : Bytes) : Res Bytes :=
  if h : b.length < 9 then .error .insufficient
  else
    let group := b.take 8
    let marker := (b.getD 8 0).toNat
    let padCount := if rev then marker else Gen.encMarker - marker
    if padCount > 8 then .error .invalid
    else
      let real := 8 - padCount
      let acc' := acc ++ group.take real
      let rest := b.drop 9
      if padCount ≠ 0 then
        let padByte : UInt8 := if rev then UInt8.ofNat Gen.encMarker else UInt8.ofNat Gen.encPad
        if (group.drop real).all (· == padByte) then
          .ok (if rev then acc'.map (fun c => 255 - c) else acc', rest)
        else .error .invalid
      else decodeBytesAux rev rest acc'
termination_by b.length
decreasing_by simp [List.length_drop]; omega

def decodeBytes (b : Bytes) : Res Bytes := decodeBytesAux false b []
def decodeBytesDesc (b : Bytes) : Res Bytes := decodeBytesAux true b []

/-! ## fixed-width ordered integers -/

/-- n bytes, most significant first (binary.BigEndian.PutUint64 for n = 8) -/
def be : Nat → Nat → Bytes
  | 0, _ => []
  | n+1, v => UInt8.ofNat (v / 256 ^ n % 256) :: be n v

/-- the Go loop `v = (v << 8) | c` starting from `init` (without the 64-bit truncation) -/
def fromBE (init : Nat) (b : Bytes) : Nat := b.foldl (fun acc c => acc * 256 + c.toNat) init

/-- `uint64(v)` for an int64 -/
def toU64 (v : Int) : Nat := (v % (two64 : Int)).toNat
/-- `int64(u)` for a uint64 -/
def toI64 (u : Nat) : Int := if u < two63 then (u : Int) else (u : Int) - (two64 : Int)

/-- `u ^ signMask` -/
def signFlip (u : Nat) : Nat := if u < Gen.signMask then u + Gen.signMask else u - Gen.signMask
/-- `^u` on 64 bits -/
def bnot (u : Nat) : Nat := two64 - 1 - u

def encodeUint (v : Nat) : Bytes := be 8 v
def encodeUintDesc (v : Nat) : Bytes := be 8 (bnot v)
def encodeInt (v : Int) : Bytes := be 8 (signFlip (toU64 v))
def encodeIntDesc (v : Int) : Bytes := be 8 (bnot (signFlip (toU64 v)))

def decodeUint (b : Bytes) : Res Nat :=
  if b.length < 8 then .error .insufficient else .ok (fromBE 0 (b.take 8), b.drop 8)
def decodeUintDesc (b : Bytes) : Res Nat :=
  if b.length < 8 then .error .insufficient else .ok (bnot (fromBE 0 (b.take 8)), b.drop 8)
def decodeInt (b : Bytes) : Res Int :=
  if b.length < 8 then .error .insufficient else .ok (toI64 (signFlip (fromBE 0 (b.take 8))), b.drop 8)
def decodeIntDesc (b : Bytes) : Res Int :=
  if b.length < 8 then .error .insufficient else .ok (toI64 (signFlip (bnot (fromBE 0 (b.take 8)))), b.drop 8)

/-! ## LEB128 varints (encoding/binary) -/

/-- binary.PutUvarint -/
def encodeUvarint (v : Nat) : Bytes :=
  if h : v < 128 then [UInt8.ofNat v]
  else UInt8.ofNat (v % 128 + 128) :: encodeUvarint (v / 128)
termination_by v
decreasing_by omega

/-- binary.Uvarint: loop over bytes with `x`, shift `s` (here: multiplier 128^i), index i.
    Returns overflow when i = 9 and byte > 1, or more than 10 bytes. -/
def decodeUvarintAux : Bytes → Nat → Nat → Nat → Res Nat
  | [], _, _, _ => .error .insufficient
  | c :: rest, i, mul, x =>
    if i = 10 then .error .overflow
    else if c.toNat < 128 then
      if i = 9 ∧ c.toNat > 1 then .error .overflow
      else .ok (x + c.toNat * mul, rest)
    else decodeUvarintAux rest (i + 1) (mul * 128) (x + (c.toNat - 128) * mul)

def decodeUvarint (b : Bytes) : Res Nat := decodeUvarintAux b 0 1 0

/-- zig-zag: `ux := uint64(x) << 1; if x < 0 { ux = ^ux }` -/
def zigzag (v : Int) : Nat := if v < 0 then (-(2 * v) - 1).toNat else (2 * v).toNat
def unzigzag (u : Nat) : Int := if u % 2 = 0 then (u / 2 : Nat) else -((u / 2 : Nat) : Int) - 1

def encodeVarint (v : Int) : Bytes := encodeUvarint (zigzag v)
def decodeVarint (b : Bytes) : Res Int :=
  match decodeUvarint b with
  | .ok (u, r) => .ok (unzigzag u, r)
  | .error e => .error e

/-! ## comparable varints -/

def nTag : Nat := Gen.negativeTagEnd
def pTag : Nat := Gen.positiveTagStart

/-- number of value bytes EncodeComparableUvarint uses for v > 239 -/
def ulen (v : Nat) : Nat :=
  if v ≤ 0xff then 1 else if v ≤ 0xffff then 2 else if v ≤ 0xffffff then 3
  else if v ≤ 0xffffffff then 4 else if v ≤ 0xffffffffff then 5
  else if v ≤ 0xffffffffffff then 6 else if v ≤ 0xffffffffffffff then 7 else 8

def encodeCmpUvarint (v : Nat) : Bytes :=
  if v ≤ pTag - nTag then [UInt8.ofNat (v + nTag)]
  else UInt8.ofNat (pTag + ulen v) :: be (ulen v) v

/-- number of value bytes for negative v -/
def nlen (v : Int) : Nat :=
  if v ≥ -0xff then 1 else if v ≥ -0xffff then 2 else if v ≥ -0xffffff then 3
  else if v ≥ -0xffffffff then 4 else if v ≥ -0xffffffffff then 5
  else if v ≥ -0xffffffffffff then 6 else if v ≥ -0xffffffffffffff then 7 else 8

def encodeCmpVarint (v : Int) : Bytes :=
  if v < 0 then UInt8.ofNat (nTag - nlen v) :: be (nlen v) (toU64 v)
  else encodeCmpUvarint v.toNat

def decodeCmpUvarint (b : Bytes) : Res Nat :=
  match b with
  | [] => .error .insufficient
  | first :: b =>
    if first.toNat < nTag then .error .invalid
    else if first.toNat ≤ pTag then .ok (first.toNat - nTag, b)
    else
      let length := first.toNat - pTag
      if b.length < length then .error .insufficient
      else .ok (fromBE 0 (b.take length) % two64, b.drop length)

/-- DecodeComparableVarint.  The single-byte branch returns the suffix *after* the tag byte, as the
    property (value and unconsumed suffix) requires. -/
def decodeCmpVarint (b : Bytes) : Res Int :=
  match b with
  | [] => .error .insufficient
  | first :: b' =>
    if nTag ≤ first.toNat ∧ first.toNat ≤ pTag then .ok ((first.toNat : Int) - nTag, b')
    else
      let neg := first.toNat < nTag
      let length := if neg then nTag - first.toNat else first.toNat - pTag
      if b'.length < length then .error .insufficient
      else
        let v := fromBE (if neg then two64 - 1 else 0) (b'.take length) % two64
        if ¬ neg ∧ v ≥ two63 then .error .invalid
        else if neg ∧ v < two63 then .error .invalid
        else .ok (toI64 v, b'.drop length)

end CGV.Codec
