/-
  C08, second model layer: the inner-node containers of the radix tree — internal/unionstore/art/art_node.go
  node4 / node16 / node48 / node256 with `findChild`, `addChild{4,16,48,256}`, `growNode{4,16,48}`, `replaceChild` and the
  child enumeration order the iterator relies on (index order for node4/16, `nextPresentIdx` order for node48/256).
  Core-only, executable.  `χ` is the child handle (opaque).

  Representation: the fixed-size arrays are modelled by their used part (`nodeNum` = length): node4/16 keep the parallel
  arrays `keys`/`children` as two lists; node48 keeps `keys[c]` + the `present` bitmap as `idx : UInt8 → Option Nat` (slot of
  byte `c`, `none` = bit clear) and `children` as the list of used slots; node256 keeps `children[c]` + bitmap as
  `UInt8 → Option χ`.  Nodes never shrink in this tree (leaves are never removed), so there is no shrink path to model.
  NOT modelled here: prefix, in-place leaf, the allocator / free lists, and the path logic of recursiveInsert / search.
-/
namespace CGV.ArtNode

def cap4 : Nat := 4
def cap16 : Nat := 16
def cap48 : Nat := 48

inductive Node (χ : Type) where
  | n4 (keys : List UInt8) (children : List χ)
  | n16 (keys : List UInt8) (children : List χ)
  | n48 (idx : UInt8 → Option Nat) (children : List χ)
  | n256 (children : UInt8 → Option χ) (num : Nat)

variable {χ : Type}

def insertAt {α} (l : List α) (i : Nat) (x : α) : List α := l.take i ++ x :: l.drop i

/-- addChild4's loop: the first index whose key is `≥ c` (or `nodeNum`) -/
def firstGE (c : UInt8) : List UInt8 → Nat
  | [] => 0
  | k :: ks => if c ≤ k then 0 else firstGE c ks + 1

/-- sort.Find(n, cmp) with cmp(i) = 1 if keys[i] < c, 0 if equal, -1 otherwise: `i, j := 0, n; for i < j { h := (i+j)/2; … }` -/
def bsearch (keys : List UInt8) (c : UInt8) : Nat → Nat → Nat → Nat
  | 0, lo, _ => lo
  | fuel + 1, lo, hi =>
    if lo < hi then
      let h := (lo + hi) / 2
      if keys.getD h 0 < c then bsearch keys c fuel (h + 1) hi else bsearch keys c fuel lo h
    else lo

/-- node4.findChild: linear scan -/
def find4 (keys : List UInt8) (c : UInt8) : Option Nat := keys.findIdx? (· == c)

/-- node16.findChild: binary search, then equality -/
def find16 (keys : List UInt8) (c : UInt8) : Option Nat :=
  let i := bsearch keys c keys.length 0 keys.length
  if i < keys.length && keys.getD i 0 == c then some i else none

def Node.num : Node χ → Nat
  | .n4 ks _ => ks.length
  | .n16 ks _ => ks.length
  | .n48 _ cs => cs.length
  | .n256 _ n => n

def Node.kind : Node χ → Nat
  | .n4 _ _ => 4 | .n16 _ _ => 16 | .n48 _ _ => 48 | .n256 _ _ => 256

/-- artNode.findChild (the non-inplace part) -/
def Node.findChild : Node χ → UInt8 → Option χ
  | .n4 ks cs, c => (find4 ks c).bind (cs[·]?)
  | .n16 ks cs, c => (find16 ks c).bind (cs[·]?)
  | .n48 idx cs, c => (idx c).bind (cs[·]?)
  | .n256 ch _, c => ch c

/-- growNode4: same keys and children in a node16 -/
def grow4 (ks : List UInt8) (cs : List χ) : Node χ := .n16 ks cs

/-- the loop of growNode16 over i = start, start+1, …: `n48.keys[keys[i]] = i; present |= bit keys[i]` -/
def idxOfKeys : List UInt8 → Nat → (UInt8 → Option Nat) → (UInt8 → Option Nat)
  | [], _, f => f
  | k :: ks, i, f => idxOfKeys ks (i + 1) (fun c => if c = k then some i else f c)

/-- growNode16: the loop above from an empty node48, `n48.children[i] = n16.children[i]` -/
def grow16 (ks : List UInt8) (cs : List χ) : Node χ :=
  .n48 (idxOfKeys ks 0 (fun _ => none)) cs

/-- growNode48: `n256.children[i] = n48.children[n48.keys[i]]` for every present i, bitmap copied -/
def grow48 (idx : UInt8 → Option Nat) (cs : List χ) : Node χ :=
  .n256 (fun c => (idx c).bind (cs[·]?)) cs.length

def add256 (ch : UInt8 → Option χ) (n : Nat) (c : UInt8) (x : χ) : Node χ :=
  .n256 (fun c' => if c' = c then some x else ch c') (n + 1)

def add48 (idx : UInt8 → Option Nat) (cs : List χ) (c : UInt8) (x : χ) : Node χ :=
  if cs.length ≥ cap48 then
    match grow48 idx cs with
    | .n256 ch n => add256 ch n c x
    | other => other
  else .n48 (fun c' => if c' = c then some cs.length else idx c') (cs ++ [x])

def add16 (ks : List UInt8) (cs : List χ) (c : UInt8) (x : χ) : Node χ :=
  if ks.length ≥ cap16 then
    match grow16 ks cs with
    | .n48 idx cs' => add48 idx cs' c x
    | other => other
  else
    let i := bsearch ks c ks.length 0 ks.length
    .n16 (insertAt ks i c) (insertAt cs i x)

def add4 (ks : List UInt8) (cs : List χ) (c : UInt8) (x : χ) : Node χ :=
  if ks.length ≥ cap4 then
    match grow4 ks cs with
    | .n16 ks' cs' => add16 ks' cs' c x
    | other => other
  else
    let i := firstGE c ks
    .n4 (insertAt ks i c) (insertAt cs i x)

/-- artNode.addChild (the non-inplace part); the byte must not be present -/
def Node.addChild : Node χ → UInt8 → χ → Node χ
  | .n4 ks cs, c, x => add4 ks cs c x
  | .n16 ks cs, c, x => add16 ks cs c x
  | .n48 idx cs, c, x => add48 idx cs c x
  | .n256 ch n, c, x => add256 ch n c x

/-- artNode.replaceChild; `none` is the panic "replace child failed" -/
def Node.replaceChild : Node χ → UInt8 → χ → Option (Node χ)
  | .n4 ks cs, c, x => (find4 ks c).map fun i => .n4 ks (cs.set i x)
  | .n16 ks cs, c, x => (find16 ks c).map fun i => .n16 ks (cs.set i x)
  | .n48 idx cs, c, x => (idx c).map fun i => .n48 idx (cs.set i x)
  | .n256 ch n, c, x => if (ch c).isSome then some (.n256 (fun c' => if c' = c then some x else ch c') n) else none

/-- all byte values in ascending order (the order `nextPresentIdx` walks the bitmap) -/
def allBytes : List UInt8 := (List.range 256).map UInt8.ofNat

/-- the children in the order the iterator visits them -/
def Node.children : Node χ → List (UInt8 × χ)
  | .n4 ks cs => ks.zip cs
  | .n16 ks cs => ks.zip cs
  | .n48 idx cs => allBytes.filterMap fun c => ((idx c).bind (cs[·]?)).map fun x => (c, x)
  | .n256 ch _ => allBytes.filterMap fun c => (ch c).map fun x => (c, x)

def Node.empty : Node χ := .n4 [] []

/-- the kind of a node that has received `n` children (nodes grow when full and never shrink) -/
def kindFor (n : Nat) : Nat := if n ≤ 4 then 4 else if n ≤ 16 then 16 else if n ≤ 48 then 48 else 256

end CGV.ArtNode
