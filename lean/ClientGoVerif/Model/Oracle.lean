/-
  Model of /repo/oracle/oracle.go, /repo/oracle/oracles/pd.go and of the commit-wait loop
  `KVTxn.GetTimestampForCommit` (/repo/txnkv/transaction/txn.go)  (C13).  Core-only, executable.

  * uint64 is a `Nat` (< 2^64), int64 an `Int`; the bit operations are modelled by their arithmetic
    meaning including the 64-bit wrap-around (`wrapI64`), as in Model/Codec.lean.
  * The concurrent part is a small-step machine: `step : St → Act → St`.  Every shared-memory access of
    `setLastTS` (map load, LoadOrStore, pointer load, compare, CAS) and of `ValidateReadTS` (cached check,
    single-flight join-or-start, delivery, retry) is one step of one thread; PD issuing a timestamp is a
    step of the environment.  A schedule is a list of actions; a disabled action is a stutter step, so
    "all interleavings" = "all action lists".
  * `singleflight.Group` is modelled by its contract (one registered call per key; join-or-start is atomic;
    the key is deleted and the result handed to everybody who joined in one atomic step).
  * The background updater (`updateTS`) is an actor too: one tick = `startUpd`, the Range over the map, then the
    same getTimestamp + setLastTS steps as a foreground call (it publishes through `setLastTS`).
  * Cancellation of a caller's context is an action of the environment (`cancel`); a call blocked at PD or on a
    flight may then return the context error (`abort`).  The flight a cancelled call started is untouched.
  * Ghost fields (`startClk`, `startPd`, `doneClk`, `clock`) record real time; they never influence a step.
-/
import ClientGoVerif.Model.Bytes
import ClientGoVerif.Generated.OracleConsts
namespace CGV.Oracle
open CGV

/-! ## pure part: compose / extract / expiry -/

def two64 : Nat := 2 ^ 64
def two63 : Nat := 2 ^ 63
def shiftMul : Nat := 2 ^ Gen.physicalShiftBits

/-- `uint64(v)` for an int64 -/
def toU64 (v : Int) : Nat := (v % (two64 : Int)).toNat
/-- `int64(u)` for a uint64 -/
def toI64 (u : Nat) : Int := if u % two64 < two63 then ((u % two64 : Nat) : Int) else ((u % two64 : Nat) : Int) - (two64 : Int)
/-- the value an int64 computation wraps to -/
def wrapI64 (v : Int) : Int := toI64 (toU64 v)

/-- `ComposeTS(physical, logical) = uint64((physical << physicalShiftBits) + logical)` -/
def composeTS (physical logical : Int) : Nat := toU64 (physical * (shiftMul : Int) + logical)
/-- `ExtractPhysical(ts) = int64(ts >> physicalShiftBits)` -/
def extractPhysical (ts : Nat) : Int := ((ts / shiftMul : Nat) : Int)
/-- `ExtractLogical(ts) = int64(ts & logicalBits)` -/
def extractLogical (ts : Nat) : Int := ((ts % shiftMul : Nat) : Int)

/-- `pdOracle.IsExpired`; `last = none` is the "scope unknown" branch -/
def isExpired (last : Option Nat) (lockTS ttl : Nat) : Bool :=
  match last with
  | none => true
  | some l => decide (extractPhysical l ≥ wrapI64 (extractPhysical lockTS + toI64 ttl))

/-- `pdOracle.UntilExpired` -/
def untilExpired (last : Option Nat) (lockTS ttl : Nat) : Int :=
  match last with
  | none => 0
  | some l => wrapI64 (wrapI64 (extractPhysical lockTS + toI64 ttl) - extractPhysical l)

/-! ## the concurrent machine -/

inductive PC
  | idle
  -- GetTimestamp (client call, or the body of a validation flight)
  | gCall      -- called, PD request not yet sent
  | gWait      -- request at PD, no timestamp assigned yet
  | gIssued    -- PD assigned `ts`, response on its way
  | gArrived   -- response arrived: `setLastTS(ts)` starts with `lastTSMap.Load`
  | gStoreNew  -- map had no entry: about to `LoadOrStore` a pointer holding `ts`
  | gLoop      -- top of the CAS loop: about to `lastTSPointer.Load()`
  | gLoaded    -- holds `(lTso, lVer)`: about to compare
  | gCas       -- `ts > lTso`: about to `CompareAndSwap(last, current)`
  | gDone      -- `GetTimestamp` returned `ts`
  | gFin       -- flight only: key deleted, result delivered
  -- background updater (`updateTS` → `doUpdate`): one tick
  | uRange     -- about to `lastTSMap.Range`: with an entry it does getTimestamp + setLastTS, i.e. continues at gCall
  | uFin       -- the map had no entry: nothing to update
  -- the caller's context was cancelled while it waited
  | gCancelled -- GetTimestamp returned ctx.Err() (PD request pending; a timestamp PD may have assigned is dropped)
  | vCancelled -- ValidateReadTS returned "fail to validate …: context canceled" (it was waiting for a flight)
  -- ValidateReadTS
  | vCheck     -- top of the loop: about to read the cached ts
  | vJoin      -- cached ts too old: about to `DoChan` (join or start)
  | vWait      -- waiting for flight `fid`
  | vGot       -- received `cur`
  | vAccept    -- returned nil
  | vReject    -- returned ErrFutureTSRead
  deriving DecidableEq, Repr, Inhabited

structure Thread where
  pc : PC := .idle
  ts : Nat := 0            -- timestamp PD assigned to this call
  lTso : Nat := 0          -- loaded lastTSO: value …
  lVer : Nat := 0          -- … and identity (pointer) of the loaded object
  rd : Nat := 0            -- readTS being validated
  retrying : Bool := false
  cur : Nat := 0           -- result received from the flight
  fid : Nat := 0           -- flight joined
  isFlight : Bool := false
  isUpd : Bool := false    -- a tick of the background updater (context.TODO(): cannot be cancelled)
  cancelled : Bool := false -- the context the caller passed has been cancelled
  startClk : Nat := 0      -- ghost: clock when the call started
  startPd : Nat := 0       -- ghost: largest timestamp PD had issued when the call started
  doneClk : Nat := 0       -- ghost: clock when GetTimestamp returned
  deriving Inhabited

structure St where
  pdLast : Nat := 0                   -- largest timestamp PD has issued
  low : Option (Nat × Nat) := none    -- lastTSMap[scope]: (tso, identity of the lastTSO object)
  flight : Option Nat := none         -- tsForValidation: thread id of the registered flight
  thr : Nat → Thread := fun _ => {}
  clock : Nat := 0                    -- ghost: number of actions so far

def init (pd0 : Nat) : St := { pdLast := pd0 }

inductive Act
  | startGet (i : Nat)              -- a client calls GetTimestamp / GetTimestampAsync+Wait on thread i
  | startVal (i : Nat) (rd : Nat)   -- a client calls ValidateReadTS(rd) on thread i
  | pdIssue (i : Nat) (inc : Nat)   -- PD assigns `pdLast + inc + 1` to the request of thread i
  | run (i : Nat) (fresh : Nat)     -- thread i performs its next step (`fresh`: id for a flight it may start)
  | startUpd (i : Nat)              -- the background updater starts a tick (`doUpdate`) as thread i
  | cancel (i : Nat)                -- the environment cancels the context of client call i (at any moment)
  | abort (i : Nat)                 -- call i, blocked at PD or on a flight, observes `<-ctx.Done()` and returns the ctx error
  deriving Repr, DecidableEq

def St.set (s : St) (i : Nat) (t : Thread) : St :=
  { s with thr := fun j => if j = i then t else s.thr j }

def hasTs : PC → Bool
  | .gIssued | .gArrived | .gStoreNew | .gLoop | .gLoaded | .gCas | .gDone | .gFin => true
  | _ => false

def isDone : PC → Bool
  | .gDone | .gFin => true
  | _ => false

/-- the step of thread `i` (state `t`) at its current program counter -/
def runThread (s : St) (i fresh : Nat) (t : Thread) : St :=
  match t.pc with
  | .uRange =>
    match s.low with
    | none => s.set i { t with pc := .uFin }
    | some _ => s.set i { t with pc := .gCall }
  | .gCall => s.set i { t with pc := .gWait }
  | .gIssued => s.set i { t with pc := .gArrived }
  | .gArrived =>
    match s.low with
    | none => s.set i { t with pc := .gStoreNew }
    | some _ => s.set i { t with pc := .gLoop }
  | .gStoreNew =>
    match s.low with
    | none => { s with low := some (t.ts, 0) }.set i { t with pc := .gLoop }
    | some _ => s.set i { t with pc := .gLoop }
  | .gLoop =>
    match s.low with
    | some (tso, ver) => s.set i { t with pc := .gLoaded, lTso := tso, lVer := ver }
    | none => s
  | .gLoaded =>
    if t.ts ≤ t.lTso then s.set i { t with pc := .gDone, doneClk := s.clock }
    else s.set i { t with pc := .gCas }
  | .gCas =>
    match s.low with
    | some (_, ver) =>
      if ver = t.lVer then { s with low := some (t.ts, ver + 1) }.set i { t with pc := .gDone, doneClk := s.clock }
      else s.set i { t with pc := .gLoop }
    | none => s.set i { t with pc := .gLoop }
  | .gDone =>
    if t.isFlight then
      -- singleflight.doCall after fn returned: delete the key, hand the result to everybody who joined
      { s with flight := none,
               thr := fun j =>
                 if j = i then { t with pc := .gFin }
                 else if (s.thr j).pc = .vWait ∧ (s.thr j).fid = i then { s.thr j with pc := .vGot, cur := t.ts }
                 else s.thr j }
    else s
  | .vCheck =>
    match s.low with
    | some (tso, _) => if t.rd ≤ tso then s.set i { t with pc := .vAccept } else s.set i { t with pc := .vJoin }
    | none => s.set i { t with pc := .vJoin }
  | .vJoin =>
    match s.flight with
    | some f => s.set i { t with pc := .vWait, fid := f }
    | none =>
      if (s.thr fresh).pc = .idle ∧ fresh ≠ i then
        { s with flight := some fresh,
                 thr := fun j =>
                   if j = i then { t with pc := .vWait, fid := fresh }
                   else if j = fresh then { pc := .gCall, isFlight := true, startClk := s.clock, startPd := s.pdLast }
                   else s.thr j }
      else s
  | .vGot =>
    if t.rd > t.cur then
      if t.retrying then s.set i { t with pc := .vReject }
      else s.set i { t with pc := .vCheck, retrying := true }
    else s.set i { t with pc := .vAccept }
  | _ => s

def step' (s : St) : Act → St
  | .startGet i =>
    if (s.thr i).pc = .idle then s.set i { pc := .gCall, startClk := s.clock, startPd := s.pdLast } else s
  | .startVal i rd =>
    if (s.thr i).pc = .idle then s.set i { pc := .vCheck, rd := rd, startClk := s.clock, startPd := s.pdLast } else s
  | .pdIssue i inc =>
    if (s.thr i).pc = .gWait then
      { s with pdLast := s.pdLast + inc + 1 }.set i { s.thr i with pc := .gIssued, ts := s.pdLast + inc + 1 }
    else s
  | .run i fresh => runThread s i fresh (s.thr i)
  | .startUpd i =>
    if (s.thr i).pc = .idle then s.set i { pc := .uRange, isUpd := true, startClk := s.clock, startPd := s.pdLast } else s
  | .cancel i => s.set i { s.thr i with cancelled := true }
  | .abort i =>
    -- flights run under context.Background(), the updater under context.TODO(): only client calls can be aborted.
    -- A flight started by a call that is aborted keeps running for those who joined it.
    let t := s.thr i
    if t.cancelled = true ∧ t.isFlight = false ∧ t.isUpd = false then
      match t.pc with
      | .gWait => s.set i { t with pc := .gCancelled }
      | .gIssued => s.set i { t with pc := .gCancelled }
      | .vWait => s.set i { t with pc := .vCancelled }
      | _ => s
    else s

/-- one action; the ghost clock counts actions -/
def step (s : St) (a : Act) : St :=
  let s' := step' s a
  { s' with clock := s.clock + 1 }

def run (s : St) (acts : List Act) : St := acts.foldl step s

/-- the low-resolution timestamp (`GetLowResolutionTimestamp`) -/
def St.lowTs (s : St) : Option Nat := s.low.map (·.1)

/-- order on optional timestamps: absent ≤ anything -/
def optLe : Option Nat → Option Nat → Prop
  | none, _ => True
  | some _, none => False
  | some a, some b => a ≤ b

instance : (a b : Option Nat) → Decidable (optLe a b)
  | none, _ => isTrue trivial
  | some _, none => isFalse (fun h => h)
  | some a, some b => inferInstanceAs (Decidable (a ≤ b))

/-! ## front end of ValidateReadTS (before the loop) -/

inductive ValPre | disabled | errRange | errLatestStale | acceptLatest | loop
  deriving DecidableEq, Repr

/-- the checks of `ValidateReadTS` before the loop -/
def validatePre (enabled : Bool) (readTS : Nat) (isStale : Bool) : ValPre :=
  if !enabled then .disabled
  else if readTS ≥ two63 - 1 ∧ readTS < two64 - 1 then .errRange
  else if readTS = two64 - 1 then (if isStale then .errLatestStale else .acceptLatest)
  else .loop

/-! ## GetTimestampForCommit with a scripted PD -/

/-- `expo(base, cap, n)` of config/retry with NoJitter (BoCommitTSLag) -/
def boSleep (n : Nat) : Nat := min Gen.commitTSLagCap (Gen.commitTSLagBase * 2 ^ n)

inductive CommitRes
  | ok (ts : Nat)
  | errZeroSleep       -- ErrCommitTSLag: zero max sleep
  | errDrift           -- ErrCommitTSLag: drift exceeds the allowed timeout
  | errTimeout         -- back-off budget exhausted
  | exhausted          -- the script ended (not an outcome of the code)
  deriving DecidableEq, Repr

/-- the `for ts := first; ts <= waitUntil;` loop.  `script`: the timestamps the following
    `GetTimestampWithRetry` calls return; `n`: back-offs so far; `total`: ms slept so far;
    `budget`: `int(maxSleep.Milliseconds())` (0 = no limit, as in `retry.NewBackoffer`). -/
def commitLoop (waitUntil budget : Nat) : List Nat → Nat → Nat → Nat → CommitRes
  | script, n, total, ts =>
    if ts > waitUntil then .ok ts
    else if budget > 0 ∧ total ≥ budget then .errTimeout
    else match script with
      | [] => .exhausted
      | t :: rest => commitLoop waitUntil budget rest (n + 1) (total + boSleep n) t

def maxDuration : Int := (two63 : Int) - 1

/-- `GetTimeFromTS(a).Sub(GetTimeFromTS(b))` in ns (time.Time.Sub saturates) -/
def tsSubNs (a b : Nat) : Int :=
  let d := (extractPhysical a - extractPhysical b) * 1000000
  if d > maxDuration then maxDuration else if d < -maxDuration - 1 then -maxDuration - 1 else d

/-- `GetTimestampForCommit`: `waitUntil` = commitWaitUntilTSO, `maxSleepNs` = commitWaitUntilTSOTimeout,
    `script` = results of the successive GetTimestamp calls (all successful). -/
def getTimestampForCommit (waitUntil maxSleepNs : Nat) (script : List Nat) : CommitRes :=
  match script with
  | [] => .exhausted
  | first :: rest =>
    if first > waitUntil then .ok first
    else if maxSleepNs = 0 then .errZeroSleep
    else if tsSubNs waitUntil first > (maxSleepNs : Int) then .errDrift
    else commitLoop waitUntil (maxSleepNs / 1000000) rest 0 0 first

/-! ## the commit paths that fetch a commit timestamp

  Every commit mode obtains the timestamp it commits at (or the `min_commit_ts` it sends) through
  `GetTimestampForCommit`; PD is a script of the values successive `GetTimestamp` calls return. -/

/-- `commitLoop` that also returns the unconsumed part of the script -/
def commitLoopR (waitUntil budget : Nat) : List Nat → Nat → Nat → Nat → CommitRes × List Nat
  | script, n, total, ts =>
    if ts > waitUntil then (.ok ts, script)
    else if budget > 0 ∧ total ≥ budget then (.errTimeout, script)
    else match script with
      | [] => (.exhausted, [])
      | t :: rest => commitLoopR waitUntil budget rest (n + 1) (total + boSleep n) t

/-- `GetTimestampForCommit` returning the rest of the PD script as well -/
def fetchCommitTS (waitUntil maxSleepNs : Nat) (script : List Nat) : CommitRes × List Nat :=
  match script with
  | [] => (.exhausted, [])
  | first :: rest =>
    if first > waitUntil then (.ok first, rest)
    else if maxSleepNs = 0 then (.errZeroSleep, rest)
    else if tsSubNs waitUntil first > (maxSleepNs : Int) then (.errDrift, rest)
    else commitLoopR waitUntil (maxSleepNs / 1000000) rest 0 0 first

inductive CMode | twoPC | async | onePC | pipelined
  deriving DecidableEq, Repr

/-- what the store does: `expired` = the first commit of the primary is rejected with CommitTsExpired (2PC and
    pipelined), `fallback` = the async-commit / 1PC prewrite falls back to ordinary 2PC -/
inductive StoreBeh | normal | expired | fallback
  deriving DecidableEq, Repr

inductive TxnRes
  | ok (commitTS : Nat) (minSent : Nat)   -- committed at commitTS; minSent = min_commit_ts sent with the prewrites (async / 1PC; else 0)
  | err (e : CommitRes)                   -- Commit failed with that outcome of a commit-ts fetch
  deriving DecidableEq, Repr

/-- after the prewrites of an async-commit / 1PC transaction that sent `minC` as min_commit_ts -/
def afterPrewrite (beh : StoreBeh) (c maxSleepNs minC : Nat) (rest : List Nat) : TxnRes :=
  if beh = .fallback then
    -- the store refused async commit / 1PC: ordinary 2PC, the commit ts is fetched after the prewrites
    match fetchCommitTS c maxSleepNs rest with
    | (.ok ts, _) => .ok ts minC
    | (e, _) => .err e
  else .ok minC minC

/-- after the commit ts `ts` of an ordinary 2PC / pipelined transaction was fetched -/
def afterFetch (beh : StoreBeh) (c maxSleepNs ts : Nat) (rest : List Nat) : TxnRes :=
  if beh = .expired then
    -- CommitTsExpired on the primary: "update commit ts and retry"
    match fetchCommitTS c maxSleepNs rest with
    | (.ok ts2, _) => .ok ts2 0
    | (e, _) => .err e
  else .ok ts 0

/-- the commit-timestamp decisions of `twoPhaseCommitter.execute` / `commitFlushedMutations` /
    `actionCommit.handleSingleBatch`.  `causal` = SetCausalConsistency(true); `c` = commitWaitUntilTSO (0 = none). -/
def commitTxn (mode : CMode) (causal : Bool) (beh : StoreBeh) (startTS c maxSleepNs : Nat) (script : List Nat) : TxnRes :=
  match mode with
  | .async | .onePC =>
    -- before the prewrites: `if commitTSMayBeCalculated && (needLinearizability() || commitWaitUntilTSO > 0)`
    if causal = false ∨ c > 0 then
      match fetchCommitTS c maxSleepNs script with
      | (.ok ts, rest) => afterPrewrite beh c maxSleepNs (max (startTS + 1) (ts + 1)) rest
      | (e, _) => .err e
    else afterPrewrite beh c maxSleepNs (startTS + 1) script
  | .twoPC | .pipelined =>
    match fetchCommitTS c maxSleepNs script with
    | (.ok ts, rest) => afterFetch beh c maxSleepNs ts rest
    | (e, _) => .err e

/-- the commit-wait specification: a commit that succeeds does so at a timestamp strictly above the constraint, and a
    `min_commit_ts` handed to the store (async commit / 1PC) is strictly above it as well -/
def CommitWaitSpec (mode : CMode) (c : Nat) : TxnRes → Prop
  | .ok commitTS minSent => commitTS > c ∧ ((mode = .async ∨ mode = .onePC) → minSent > c)
  | .err _ => True

/-! ## adaptive update interval -/

inductive AState | none | normal | adapting | recovering | unadjustable
  deriving DecidableEq, Repr

def AState.str : AState → String
  | .none => "none" | .normal => "normal" | .adapting => "adapting"
  | .recovering => "recovering" | .unadjustable => "unadjustable"

def minAllowed : Int := Gen.minAllowedAdaptiveUpdateTSInterval
def shrinkPreserve : Int := Gen.adaptiveUpdateTSIntervalShrinkingPreserve
def recoverDelay : Int := Gen.adaptiveUpdateTSIntervalDelayBeforeRecovering

def checkUnadjustable (conf : Int) : Option (AState × Int) :=
  if conf ≤ minAllowed then some (.unadjustable, conf) else none

def checkNormal (conf cur : Int) : Option (AState × Int) :=
  if conf > minAllowed ∧ cur = conf then some (.normal, cur) else none

def checkAdapting (conf cur sinceShort required : Int) : Option (AState × Int) :=
  if required ≠ 0 ∧ required < cur ∧ cur > minAllowed then
    some (.adapting, max (required - shrinkPreserve) minAllowed)
  else if cur ≠ conf ∧ sinceShort < recoverDelay then some (.adapting, cur)
  else none

def checkRecovering (conf cur sinceShort inc : Int) : Option (AState × Int) :=
  if cur = conf ∨ sinceShort < recoverDelay then none
  else
    let n := cur + inc
    some (.recovering, if n > conf then conf else n)

/-- what `nextState` does with the first check that fires -/
def finishState (conf : Int) : AState × Int → AState × Int
  | (.recovering, n) => match checkNormal conf n with
    | some r => r
    | none => (.recovering, n)
  | r => r

/-- `pdOracle.nextUpdateInterval` as a pure function: `conf` = lastTSUpdateInterval, `cur` =
    adaptiveLastTSUpdateInterval, `sinceShort` = now − lastShortStalenessReadTime, `inc` = the recovery
    increment `Duration(timeSinceLastTick.Seconds() * float64(recoverPerSecond))`, `required` = requiredStaleness
    (all ns).  Result: (state stored, interval stored and returned). -/
def nextUpdateInterval (prev : AState) (conf cur sinceShort inc required : Int) : AState × Int :=
  let first : Option (AState × Int) :=
    if required ≠ 0 then
      (checkUnadjustable conf).orElse fun _ => checkAdapting conf cur sinceShort required
    else
      (checkUnadjustable conf).orElse fun _ =>
      (checkAdapting conf cur sinceShort required).orElse fun _ =>
      (checkNormal conf cur).orElse fun _ => checkRecovering conf cur sinceShort inc
  match first with
  | some r => finishState conf r
  | none => (prev, cur)

/-- `SetLowResolutionTimestampUpdateInterval(new)` (new > 0) on (configured, adaptive) -/
def setConfigured (conf cur new : Int) : Int × Int :=
  if new = conf then (conf, cur)
  else if cur = conf ∨ new < cur then (new, new)
  else (new, cur)

/-- the invariant of (configured, adaptive): `min(500ms, configured) ≤ adaptive ≤ configured` -/
def intervalOk (conf cur : Int) : Prop := min minAllowed conf ≤ cur ∧ cur ≤ conf

end CGV.Oracle
