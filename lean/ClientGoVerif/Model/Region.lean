/-
  Model of the region cache lookups of /repo/internal/locate (C09).  Core-only, executable.

  region_cache.go : findRegionByKey / tryFindRegionByKey, LocateKey / LocateEndKey / LocateRegionByID,
                    LocateKeyRange, BatchLocateKeyRanges (step 1 and step 2), batchLocateRangesMerger
                    (appendRegion / build), rangesAfterKey, regionsHaveGapInRanges, GroupKeysByRegion,
                    ListRegionIDsInKeyRange, regionIndexMu.insertRegionToCache, OnRegionEpochNotMatch,
                    UpdateLeader, InvalidateCachedRegion, one gcRoundFunc round
  sorted_btree.go : SearchByKey, AscendGreaterOrEqual, removeIntersecting, ReplaceOrInsert
  mocktikv        : Cluster.{GetRegionByKey, GetPrevRegionByKey, GetRegionByID, ScanRegions}, pdClient.BatchScanRegions
                    (as seen through CodecPDClient: keys are memcomparable-encoded on the way in and decoded on the
                    way out; the encoding is an order isomorphism (C19), the model works on raw keys)

  Conventions: a region's end is `Option Bytes` (none = +∞); the code's raw `EndKey()` (empty = +∞) is
  `Region.endKey`.  Go's `bytes.Compare(a,b) < 0` is `Bytes.lt a b`, `<= 0` is `Bytes.le a b`.
  The B-tree is a list of entries sorted by start key with unique start keys.  `mu.regions` (VerID → *Region) is
  derived from the list (first entry with that VerID): a VerID determines the key range in every PD history.
  Loops that the Go code runs until PD's answers make progress take fuel.
-/
import ClientGoVerif.Model.Bytes
import ClientGoVerif.Generated.RegionConsts
namespace CGV.Region
open CGV

structure Region where
  id : Nat
  start : Bytes
  end_ : Option Bytes
  ver : Nat
  confVer : Nat
  deriving DecidableEq, Repr

/-- `Region.EndKey()` : empty byte string = unbounded -/
def Region.endKey (r : Region) : Bytes :=
  match r.end_ with
  | none => []
  | some e => e

/-- `contains(startKey, endKey, key)` : startKey <= key < endKey, empty endKey is the maximum -/
def Region.contains (r : Region) (k : Bytes) : Bool :=
  Bytes.le r.start k && (Bytes.lt k r.endKey || r.endKey.isEmpty)

/-- `Region.ContainsByEnd` : startKey < key <= endKey; the empty key is the point at +∞ -/
def Region.containsByEnd (r : Region) (k : Bytes) : Bool :=
  if k.isEmpty then r.endKey.isEmpty
  else Bytes.lt r.start k && (Bytes.le k r.endKey || r.endKey.isEmpty)

/-- RegionVerID -/
structure VerID where
  id : Nat
  confVer : Nat
  ver : Nat
  deriving DecidableEq, Repr

def Region.verID (r : Region) : VerID := ⟨r.id, r.confVer, r.ver⟩

/-- a cached `*Region`: immutable meta + the mutable bits the lookups look at -/
structure Entry where
  r : Region
  valid : Bool        -- false once `invalidate` stored expiredTTL (checkRegionCacheTTL fails)
  reload : Bool       -- syncFlags has needReloadOnAccess or needDelayedReloadReady (every lookup but one treats them alike)
  leader : Nat        -- store id of the work peer
  peers : List Nat    -- store ids of the peers in meta order
  delayedOnly : Bool  -- of the two flags only needDelayedReloadReady is set (`isValid()` looks at needReloadOnAccess only)
  deriving DecidableEq, Repr

structure Cache where
  sorted : List Entry                 -- mu.sorted, ascending by start key
  latest : List (Nat × VerID)         -- mu.latestVersions
  deriving Repr

def Cache.empty : Cache := ⟨[], []⟩

/-! ## the ordered index (sorted_btree.go) -/

/-- last entry (= greatest start key in a sorted list) satisfying `p` -/
def lastLE (p : Entry → Bool) : List Entry → Option Entry → Option Entry
  | [], acc => acc
  | e :: es, acc => if p e then lastLE p es (some e) else lastLE p es acc

/-- `Contains` / `ContainsByEnd` according to the lookup mode -/
def inRegion (isEnd : Bool) (r : Region) (key : Bytes) : Bool :=
  if isEnd then r.containsByEnd key else r.contains key

/-- `SortedRegions.SearchByKey`: DescendLessOrEqual(key) = greatest start <= key; in end-key mode an item starting
    exactly at the key is skipped (greatest start < key); the first item visited decides (contained → it, else nil) -/
def searchByKey (s : List Entry) (key : Bytes) (isEnd : Bool) : Option Entry :=
  match lastLE (fun e => if isEnd then Bytes.lt e.r.start key else Bytes.le e.r.start key) s none with
  | none => none
  | some e => if inRegion isEnd e.r key then some e else none

/-- the items `removeIntersecting` visits: start >= r.start and (r unbounded or start < r.end) -/
def inRangeStart (r : Region) (e : Entry) : Bool :=
  Bytes.le r.start e.r.start && (r.endKey.isEmpty || Bytes.lt e.r.start r.endKey)

/-- `removeIntersecting`: none = stale (some visited item has a greater version); else (kept, deleted) -/
def removeIntersecting (s : List Entry) (r : Region) : Option (List Entry × List Entry) :=
  if s.any (fun e => inRangeStart r e && decide (e.r.ver > r.ver)) then none
  else some (s.filter (fun e => !inRangeStart r e), s.filter (fun e => inRangeStart r e))

/-- `ReplaceOrInsert` on the sorted list -/
def insertSorted (e : Entry) : List Entry → List Entry
  | [] => [e]
  | x :: xs =>
    if Bytes.lt e.r.start x.r.start then e :: x :: xs
    else if e.r.start == x.r.start then e :: xs
    else x :: insertSorted e xs

def latestGet (l : List (Nat × VerID)) (id : Nat) : Option VerID :=
  match l.find? (fun p => p.1 == id) with
  | some p => some p.2
  | none => none

def latestErase (l : List (Nat × VerID)) (id : Nat) : List (Nat × VerID) := l.filter (fun p => p.1 != id)

/-- `removeVersionFromCache` (the `regions` map is derived, only latestVersions is touched) -/
def removeVersion (l : List (Nat × VerID)) (v : VerID) : List (Nat × VerID) :=
  match latestGet l v.id with
  | some x => if x = v then latestErase l v.id else l
  | none => l

/-- the epoch check against `latestVersions[newVer.id]` -/
def staleByLatest (l : List (Nat × VerID)) (r : Region) : Bool :=
  match latestGet l r.id with
  | some old => decide (old.ver > r.ver) || decide (old.confVer > r.confVer)
  | none => false

/-- `regionIndexMu.insertRegionToCache`; the Bool is the Go return value (false = stale, nothing changed) -/
def insertRegionToCache (c : Cache) (n : Entry) : Cache × Bool :=
  if staleByLatest c.latest n.r then (c, false)
  else
    match removeIntersecting c.sorted n.r with
    | none => (c, false)
    | some (kept, deleted) =>
      (⟨insertSorted n kept,
        (n.r.id, n.r.verID) :: latestErase (deleted.foldl (fun l d => removeVersion l d.r.verID) c.latest) n.r.id⟩, true)

/-- `mu.regions[verID]` -/
def Cache.byVerID (c : Cache) (v : VerID) : Option Entry := c.sorted.find? (fun e => e.r.verID == v)

/-- `searchCachedRegionByID` -/
def Cache.byID (c : Cache) (id : Nat) : Option Entry :=
  match latestGet c.latest id with
  | some v => c.byVerID v
  | none => none

/-- apply `f` to the cached object with this VerID (pointer mutation) -/
def Cache.update (c : Cache) (v : VerID) (f : Entry → Entry) : Cache :=
  { c with sorted := c.sorted.map (fun e => if e.r.verID == v then f e else e) }

def Cache.invalidate (c : Cache) (v : VerID) : Cache := c.update v (fun e => { e with valid := false })

/-- one full `gcRoundFunc` round: expired items leave the B-tree and the version maps -/
def Cache.gc (c : Cache) : Cache :=
  let dead := c.sorted.filter (fun e => !e.valid)
  ⟨c.sorted.filter (fun e => e.valid), dead.foldl (fun l d => removeVersion l d.r.verID) c.latest⟩

/-! ## PD (mock cluster behind CodecPDClient) -/

structure PdRegion where
  r : Region
  leader : Nat       -- store id of the leader peer (0 = none)
  peers : List Nat
  deriving DecidableEq, Repr

/-- the PD answering: a list of regions sorted by start key (a partition of the key space; possibly a stale one) -/
abbrev PD := List PdRegion

def PD.getRegion (pd : PD) (key : Bytes) : Option PdRegion := pd.find? (fun p => p.r.contains key)

def PD.getPrevRegion (pd : PD) (key : Bytes) : Option PdRegion :=
  match pd.getRegion key with
  | none => none
  | some cur => if cur.r.start.isEmpty then none else pd.find? (fun p => p.r.endKey == cur.r.start)

def PD.getRegionByID (pd : PD) (id : Nat) : Option PdRegion := pd.find? (fun p => p.r.id == id)

/-- `Cluster.ScanRegions(startKey, endKey, limit)` -/
def PD.scanRegions (pd : PD) (startKey endKey : Bytes) (limit : Nat) : List PdRegion :=
  let rs := pd.dropWhile (fun p => !(p.r.endKey.isEmpty || Bytes.lt startKey p.r.endKey))
  let rs :=
    if endKey.isEmpty then rs
    else
      let pre := rs.takeWhile (fun p => Bytes.lt p.r.start endKey)
      if pre.isEmpty then rs else pre
  if limit > 0 && rs.length > limit then rs.take limit else rs

structure KeyRange where
  start : Bytes
  end_ : Bytes      -- raw: empty = unbounded
  deriving DecidableEq, Repr

/-- `BatchScanRegions` as the harness' PD wrapper answers it (the mock's own BatchScanRegions skips a later range
    with an unbounded end and subtracts the cumulative count from the limit; the wrapper asks the cluster's
    ScanRegions per range, drops a region equal to the previous one, and stops at `limit`) -/
def PD.batchScanAux (pd : PD) (limit : Nat) : List KeyRange → List PdRegion → List PdRegion
  | [], acc => acc
  | kr :: rest, acc =>
    let rs := pd.scanRegions kr.start kr.end_ 0
    let acc' := rs.foldl (fun a r =>
      if limit > 0 && a.length ≥ limit then a
      else match a.getLast? with
        | some l => if l.r.id == r.r.id then a else a ++ [r]
        | none => a ++ [r]) acc
    PD.batchScanAux pd limit rest acc'

def PD.batchScanRegions (pd : PD) (ranges : List KeyRange) (limit : Nat) : List PdRegion :=
  PD.batchScanAux pd limit ranges []

/-! ## region_cache.go -/

inductive Err | notFound | gap | empty | fuel | retry
  deriving DecidableEq, Repr

def PdRegion.toEntry (p : PdRegion) : Entry :=
  ⟨p.r, true, false, (if p.peers.contains p.leader then p.leader else p.peers.headD 0), p.peers, false⟩

/-- `loadRegion` with a no-op backoffer: a retry round is an error -/
def loadRegion (pd : PD) (key : Bytes) (isEnd : Bool) : Except Err Entry :=
  match pd.getRegion key with
  | none => .error .notFound
  | some reg =>
    if isEnd && reg.r.start == key && !reg.r.start.isEmpty then
      match pd.getPrevRegion key with
      | none => .error .notFound
      | some p => .ok p.toEntry
    else .ok reg.toEntry

def loadRegionByID (pd : PD) (id : Nat) : Except Err Entry :=
  match pd.getRegionByID id with
  | none => .error .notFound
  | some p => .ok p.toEntry

/-- `findRegionByKey` -/
def findRegionByKey (c : Cache) (pd : PD) (key : Bytes) (isEnd : Bool) : Cache × Except Err Entry :=
  match searchByKey c.sorted key isEnd with
  | some e =>
    if !e.valid then loadAndInsert c
    else if e.reload then
      -- resetSyncFlags cleared both flags on the cached object
      let c1 := c.update e.r.verID (fun x => { x with reload := false, delayedOnly := false })
      match loadRegion pd key isEnd with
      | .error _ =>
        -- error ignored, needReloadOnAccess set (again), old region returned
        (c.update e.r.verID (fun x => { x with delayedOnly := false }), .ok e)
      | .ok lr => ((insertRegionToCache c1 lr).1, .ok lr)
    else (c, .ok e)
  | none => loadAndInsert c
where
  loadAndInsert (c : Cache) : Cache × Except Err Entry :=
    match loadRegion pd key isEnd with
    | .error x => (c, .error x)
    | .ok lr =>
      let (c1, ok) := insertRegionToCache c lr
      if ok then (c1, .ok lr)
      else
        match loadRegion pd key isEnd with
        | .error x => (c1, .error x)
        | .ok lr2 => ((insertRegionToCache c1 lr2).1, .ok lr2)

/-- `tryFindRegionByKey` -/
def tryFindRegionByKey (c : Cache) (key : Bytes) (isEnd : Bool) : Option Entry :=
  match searchByKey c.sorted key isEnd with
  | some e => if !e.valid || e.reload then none else some e
  | none => none

def locateKey (c : Cache) (pd : PD) (key : Bytes) : Cache × Except Err Region :=
  let (c', r) := findRegionByKey c pd key false
  (c', r.map (·.r))

/-- `LocateRegionByID` -/
def locateRegionByID (c : Cache) (pd : PD) (id : Nat) : Cache × Except Err Region :=
  let cached := match c.byID id with | some e => if e.valid then some e else none | none => none
  match cached with
  | some e =>
    if e.reload then
      let c1 := c.update e.r.verID (fun x => { x with reload := false, delayedOnly := false })
      match loadRegionByID pd id with
      | .error _ => (c.update e.r.verID (fun x => { x with delayedOnly := false }), .ok e.r)
      | .ok lr => ((insertRegionToCache c1 lr).1, .ok lr.r)
    else (c, .ok e.r)
  | none =>
    match loadRegionByID pd id with
    | .error x => (c, .error x)
    | .ok lr => ((insertRegionToCache c lr).1, .ok lr.r)

/-- `regionsHaveGapInRanges(ranges, regionsInfo, limit)` — the loop over regionsInfo with (checkIdx as the list of
    remaining ranges, checkKey) -/
def gapLoop (limit nInfos : Nat) : List Region → KeyRange → List KeyRange → Bytes → Bool
  | [], cur, rest, checkKey =>
    if limit > 0 && nInfos == limit then false
    else if !rest.isEmpty then true
    else if checkKey.isEmpty then false
    else if cur.end_.isEmpty then true
    else Bytes.lt checkKey cur.end_
  | r :: rs, cur, rest, checkKey =>
    if Bytes.lt checkKey r.start then true
    else if r.endKey.isEmpty then false
    else
      let ck := r.endKey
      -- advance over the ranges the region's end covers
      match advance ck cur rest with
      | none => false
      | some (cur', rest') =>
        let ck' := if Bytes.lt ck cur'.start then cur'.start else ck
        gapLoop limit nInfos rs cur' rest' ck'
where
  advance (ck : Bytes) : KeyRange → List KeyRange → Option (KeyRange × List KeyRange)
    | cur, rest =>
      if !cur.end_.isEmpty && Bytes.le cur.end_ ck then
        match rest with
        | [] => none
        | n :: rest' => advance ck n rest'
      else some (cur, rest)

def regionsHaveGapInRanges (ranges : List KeyRange) (infos : List Region) (limit : Nat) : Bool :=
  match ranges with
  | [] => false
  | r0 :: rest =>
    if infos.isEmpty then true
    else gapLoop limit infos.length infos r0 rest r0.start

def limitPerBatch : Nat := Gen.defaultRegionsPerBatch

/-- `batchScanRegions` (no-op backoffer: an empty or gapped answer is an error) -/
def batchScanRegions (pd : PD) (ranges : List KeyRange) (limit : Nat) : Except Err (List Entry) :=
  let infos := pd.batchScanRegions ranges limit
  if infos.isEmpty then .error .empty
  else if regionsHaveGapInRanges ranges (infos.map (·.r)) limit then .error .gap
  else .ok (infos.map (·.toEntry))

/-- `BatchLoadRegionsWithKeyRanges`: scan, then insert every region (old regions stay valid) -/
def batchLoadRegionsWithKeyRanges (c : Cache) (pd : PD) (ranges : List KeyRange) (limit : Nat) :
    Cache × Except Err (List Entry) :=
  match ranges with
  | [] => (c, .ok [])
  | _ =>
    match batchScanRegions pd ranges limit with
    | .error x => (c, .error x)
    | .ok rs => (rs.foldl (fun c r => (insertRegionToCache c r).1) c, .ok rs)

/-- `BatchLoadRegionsWithKeyRange` = `scanRegions` (PD ScanRegions, non-empty, gap check; no-op backoffer: a retry
    round is an error) followed by inserting every region (old regions stay valid) -/
def batchLoadRegionsWithKeyRange (c : Cache) (pd : PD) (startKey endKey : Bytes) (limit : Nat) :
    Cache × Except Err (List Entry) :=
  let infos := pd.scanRegions startKey endKey limit
  if infos.isEmpty then (c, .error .empty)
  else if regionsHaveGapInRanges [⟨startKey, endKey⟩] (infos.map (·.r)) limit then (c, .error .gap)
  else
    let rs := infos.map (·.toEntry)
    (rs.foldl (fun c r => (insertRegionToCache c r).1) c, .ok rs)

/-- the `for` loop of `findLastRegion`: walk PD's regions from startKey until one with an unbounded end -/
def findLastLoop : Nat → Cache → PD → Bytes → Cache × Except Err Entry
  | 0, c, _, _ => (c, .error .fuel)
  | fuel + 1, c, pd, startKey =>
    match batchLoadRegionsWithKeyRange c pd startKey [] limitPerBatch with
    | (c1, .error x) => (c1, .error x)
    | (c1, .ok rs) =>
      match rs.getLast? with
      | none => (c1, .error .empty)
      | some last => if last.r.endKey.isEmpty then (c1, .ok last) else findLastLoop fuel c1 pd last.r.endKey

/-- `findLastRegion` (/repo f67ac70): the item with the greatest start key (`b.Max()`) if its end is unbounded and it
    `isValid()` (no needReloadOnAccess — needDelayedReloadReady is NOT looked at here —, TTL ok); otherwise PD's regions from its start key on -/
def findLastRegion (fuel : Nat) (c : Cache) (pd : PD) : Cache × Except Err Entry :=
  match c.sorted.getLast? with
  | some e =>
    if e.r.endKey.isEmpty && !(e.reload && !e.delayedOnly) && e.valid then (c, .ok e)
    else findLastLoop fuel c pd e.r.start
  | none => findLastLoop fuel c pd []

/-- `LocateEndKey`; the first branch is the one `findRegionByKey` takes for `isEndKey && len(key) == 0`
    (LocateEndKey is the only caller with isEndKey) -/
def locateEndKey (fuel : Nat) (c : Cache) (pd : PD) (key : Bytes) : Cache × Except Err Region :=
  if key.isEmpty then
    let (c', r) := findLastRegion fuel c pd
    (c', r.map (·.r))
  else
    let (c', r) := findRegionByKey c pd key true
    (c', r.map (·.r))

/-- `LocateKeyRange` step 1: follow cached regions from startKey; result: (locations so far reversed, done?, next start) -/
def cachedChain : Nat → Cache → Bytes → Bytes → List Region → List Region × Bool × Bytes
  | 0, _, startKey, _, acc => (acc, false, startKey)
  | fuel + 1, c, startKey, endKey, acc =>
    match tryFindRegionByKey c startKey false with
    | none => (acc, false, startKey)
    | some e =>
      if e.r.containsByEnd endKey then (e.r :: acc, true, startKey)
      else cachedChain fuel c e.r.endKey endKey (e.r :: acc)

/-- `LocateKeyRange` -/
def locateKeyRangeLoop : Nat → Cache → PD → Bytes → Bytes → List Region → Cache × Except Err (List Region)
  | 0, c, _, _, _, _ => (c, .error .fuel)
  | fuel + 1, c, pd, startKey, endKey, acc =>
    let (acc1, done, startKey1) := cachedChain (fuel + 1) c startKey endKey acc
    if done then (c, .ok acc1.reverse)
    else
      match batchLoadRegionsWithKeyRanges c pd [⟨startKey1, endKey⟩] limitPerBatch with
      | (c1, .error x) => (c1, .error x)
      | (c1, .ok batch) =>
        match batch.getLast? with
        | none => (c1, .error .empty)
        | some endRegion =>
          let acc2 := (batch.map (·.r)).reverse ++ acc1
          if endRegion.r.containsByEnd endKey then (c1, .ok acc2.reverse)
          else locateKeyRangeLoop fuel c1 pd endRegion.r.endKey endKey acc2

def locateKeyRange (fuel : Nat) (c : Cache) (pd : PD) (startKey endKey : Bytes) : Cache × Except Err (List Region) :=
  locateKeyRangeLoop fuel c pd startKey endKey []

/-- `SortedRegions.AscendGreaterOrEqual(startKey, endKey, limit)` followed by the need-reload filter of
    `scanRegionsFromCache` -/
def ascendFrom (endKey : Bytes) : Nat → List Entry → Bytes → List Entry
  | 0, _, _ => []
  | _, [], _ => []
  | limit + 1, e :: es, lastStart =>
    if !endKey.isEmpty && Bytes.le endKey e.r.start then []
    else if !e.valid then []
    else if !e.r.contains lastStart then []
    else e :: ascendFrom endKey limit es e.r.endKey

def scanRegionsFromCache (c : Cache) (startKey endKey : Bytes) (limit : Nat) : List Entry :=
  let from_ := c.sorted.dropWhile (fun e => Bytes.lt e.r.start startKey)
  (ascendFrom endKey limit from_ startKey).filter (fun e => !e.reload)

/-- state of step 1 of `BatchLocateKeyRanges` -/
structure Step1 where
  last : Option Entry            -- lastRegion
  cached : List Entry            -- cachedRegions (in order)
  uncached : List KeyRange       -- uncachedRanges (in order)
  deriving Repr

/-- the `for _, r = range batchRegionInCache` body; returns (state, startKey, stop?, containsAll?) -/
def step1Batch (endKey : Bytes) : List Entry → Step1 → Bytes → Step1 × Bytes × Bool × Bool
  | [], st, startKey => (st, startKey, false, false)
  | r :: rs, st, startKey =>
    if !r.r.contains startKey then (st, startKey, true, false)
    else
      let st' := { st with cached := st.cached ++ [r], last := some r }
      if r.r.containsByEnd endKey then (st', startKey, true, true)
      else step1Batch endKey rs st' r.r.endKey

/-- the `outer:` loop -/
def step1Scan : Nat → Cache → Bytes → Step1 → Bytes → Step1 × Bytes × Bool
  | 0, _, _, st, startKey => (st, startKey, false)
  | fuel + 1, c, endKey, st, startKey =>
    let batch := scanRegionsFromCache c startKey endKey limitPerBatch
    let (st', startKey', stop, all) := step1Batch endKey batch st startKey
    if stop then (st', startKey', all)
    else if batch.length < limitPerBatch then (st', startKey', false)
    else step1Scan fuel c endKey st' startKey'

/-- the part of the loop body after the range start has been cut by `lastRegion` -/
def step1From (fuel : Nat) (c : Cache) (st : Step1) (endKey startKey : Bytes) : Step1 :=
  match tryFindRegionByKey c startKey false with
  | none => { st with last := none, uncached := st.uncached ++ [⟨startKey, endKey⟩] }
  | some r =>
    let st1 : Step1 := { st with last := some r, cached := st.cached ++ [r] }
    if r.r.containsByEnd endKey then st1
    else
      match step1Scan fuel c endKey st1 r.r.endKey with
      | (st2, startKey2, all) =>
        if all then st2 else { st2 with uncached := st2.uncached ++ [⟨startKey2, endKey⟩] }

/-- one iteration of `for _, keyRange := range keyRanges` -/
def step1Range (fuel : Nat) (c : Cache) (st : Step1) (kr : KeyRange) : Step1 :=
  match st.last with
  | some l =>
    if l.r.containsByEnd kr.end_ then st
    else if l.r.contains kr.start then step1From fuel c st kr.end_ l.r.endKey
    else step1From fuel c st kr.end_ kr.start
  | none => step1From fuel c st kr.end_ kr.start

def batchStep1 (fuel : Nat) (c : Cache) (ranges : List KeyRange) : Step1 :=
  ranges.foldl (step1Range fuel c) ⟨none, [], []⟩

/-- `batchLocateRangesMerger` -/
structure Merger where
  lastEndKey : Option Bytes
  cached : List Region        -- cachedRegions[cachedIdx:]
  merged : List Region        -- mergedLocations, reversed
  deriving Repr

/-- `lastEndKey != nil && bytes.Compare(*lastEndKey, k) >= 0` -/
def Merger.coveredUpTo (m : Merger) (k : Bytes) : Bool :=
  match m.lastEndKey with
  | some l => Bytes.le k l
  | none => false

/-- `m.lastEndKey != nil && len(cached.EndKey()) > 0 && bytes.Compare(*m.lastEndKey, cached.EndKey()) >= 0`:
    the cached region is covered by the uncached regions appended so far -/
def skipTest (lastEndKey : Option Bytes) (c : Region) : Bool :=
  match lastEndKey with
  | some l => !c.endKey.isEmpty && Bytes.le c.endKey l
  | none => false

/-- the `for ; m.cachedIdx < len(m.cachedRegions); m.cachedIdx++` loop of appendRegion; the skip test is
    `m.lastEndKey != nil && len(cached.EndKey()) > 0 && bytes.Compare(*m.lastEndKey, cached.EndKey()) >= 0` -/
def mergerFlushBefore (lastEndKey : Option Bytes) (uStart : Bytes) : List Region → List Region → List Region × List Region
  | [], merged => ([], merged)
  | c :: cs, merged =>
    if skipTest lastEndKey c then
      mergerFlushBefore lastEndKey uStart cs merged
    else if Bytes.le uStart c.start then (c :: cs, merged)
    else mergerFlushBefore lastEndKey uStart cs (c :: merged)

/-- the body of appendRegion (before the deferred function) -/
def Merger.appendCore (m : Merger) (u : Region) : Merger :=
  if u.start.isEmpty then { m with merged := u :: m.merged }
  else if m.coveredUpTo u.start then { m with merged := u :: m.merged }
  else
    { m with cached := (mergerFlushBefore m.lastEndKey u.start m.cached m.merged).1,
             merged := u :: (mergerFlushBefore m.lastEndKey u.start m.cached m.merged).2 }

def Merger.appendRegion (m : Merger) (u : Region) : Merger :=
  -- the deferred function runs after the body
  if u.endKey.isEmpty then { m.appendCore u with cached := [] }
  else { m.appendCore u with lastEndKey := some u.endKey }

def mergerFlushRest (lastEndKey : Option Bytes) : List Region → List Region → List Region
  | [], merged => merged
  | c :: cs, merged =>
    if skipTest lastEndKey c then mergerFlushRest lastEndKey cs merged
    else mergerFlushRest lastEndKey cs (c :: merged)

def Merger.build (m : Merger) : List Region := (mergerFlushRest m.lastEndKey m.cached m.merged).reverse

/-- `rangesAfterKey` (sort.Search on a predicate that is monotone for sorted ranges: first index satisfying it) -/
def rangesAfterKey (ranges : List KeyRange) (splitKey : Bytes) : List KeyRange :=
  match ranges.getLast? with
  | none => []
  | some lastR =>
    if splitKey.isEmpty || (!lastR.end_.isEmpty && Bytes.le lastR.end_ splitKey) then []
    else
      match ranges.dropWhile (fun r => !(r.end_.isEmpty || Bytes.lt splitKey r.end_)) with
      | [] => []
      | r0 :: rest => (if Bytes.lt r0.start splitKey then { r0 with start := splitKey } else r0) :: rest

/-- step 2 of `BatchLocateKeyRanges` (maxRangesPerBatch = 16 * defaultRegionsPerBatch) -/
def batchStep2 : Nat → Cache → PD → List KeyRange → Merger → Cache × Except Err Merger
  | 0, c, _, uncached, m => if uncached.isEmpty then (c, .ok m) else (c, .error .fuel)
  | fuel + 1, c, pd, uncached, m =>
    if uncached.isEmpty then (c, .ok m)
    else
      let toSend := if uncached.length > 16 * limitPerBatch then uncached.take (16 * limitPerBatch) else uncached
      match batchLoadRegionsWithKeyRanges c pd toSend limitPerBatch with
      | (c1, .error x) => (c1, .error x)
      | (c1, .ok regions) =>
        match regions.getLast? with
        | none => (c1, .error .empty)
        | some lastR =>
          let m' := regions.foldl (fun m r => m.appendRegion r.r) m
          batchStep2 fuel c1 pd (rangesAfterKey uncached lastR.r.endKey) m'

/-- `BatchLocateKeyRanges` -/
def batchLocateKeyRanges (fuel : Nat) (c : Cache) (pd : PD) (ranges : List KeyRange) : Cache × Except Err (List Region) :=
  let st := batchStep1 fuel c ranges
  let m : Merger := ⟨none, st.cached.map (·.r), []⟩
  match batchStep2 fuel c pd st.uncached m with
  | (c1, .error x) => (c1, .error x)
  | (c1, .ok m') => (c1, .ok m'.build)

/-- `KeyLocation.Contains` -/
abbrev locContains := Region.contains

/-- groups of `GroupKeysByRegion`: VerID ↦ keys in arrival order -/
def groupAdd (g : List (VerID × List Bytes)) (v : VerID) (k : Bytes) : List (VerID × List Bytes) :=
  match g with
  | [] => [(v, [k])]
  | (v', ks) :: rest => if v' = v then (v', ks ++ [k]) :: rest else (v', ks) :: groupAdd rest v k

/-- `GroupKeysByRegion` with a nil filter: (groups, locations used for each key in order) -/
def groupKeysLoop (pd : PD) : List Bytes → Cache → Option Region → List (VerID × List Bytes) → List Region →
    Cache × Except Err (List (VerID × List Bytes) × List Region)
  | [], c, _, g, locs => (c, .ok (g, locs.reverse))
  | k :: ks, c, lastLoc, g, locs =>
    match (match lastLoc with | some l => if l.contains k then some l else none | none => none) with
    | some l => groupKeysLoop pd ks c (some l) (groupAdd g l.verID k) (l :: locs)
    | none =>
      match locateKey c pd k with
      | (c1, .error x) => (c1, .error x)
      | (c1, .ok l) => groupKeysLoop pd ks c1 (some l) (groupAdd g l.verID k) (l :: locs)

def groupKeysByRegion (c : Cache) (pd : PD) (keys : List Bytes) :
    Cache × Except Err (List (VerID × List Bytes) × List Region) :=
  groupKeysLoop pd keys c none [] []

/-- `ListRegionIDsInKeyRange` ([start, end], end inclusive) -/
def listRegionIDs : Nat → Cache → PD → Bytes → Bytes → List Region → Cache × Except Err (List Region)
  | 0, c, _, _, _, _ => (c, .error .fuel)
  | fuel + 1, c, pd, startKey, endKey, acc =>
    match locateKey c pd startKey with
    | (c1, .error x) => (c1, .error x)
    | (c1, .ok l) =>
      if l.contains endKey then (c1, .ok (l :: acc).reverse)
      else listRegionIDs fuel c1 pd l.endKey endKey (l :: acc)

/-- the regions built from an EpochNotMatch answer: `newRegion` gets no leader from the store's error (work peer = first
    peer), then the work peer is switched to ctx.Store if that store has a peer -/
def epochNews (store : Nat) (current : List PdRegion) : List Entry :=
  current.map (fun m => { m.toEntry with leader := if m.peers.contains store then store else m.peers.headD 0 })

/-- `OnRegionEpochNotMatch(ctx{Region: v, Store: store}, currentRegions)` -/
def onRegionEpochNotMatch (c : Cache) (v : VerID) (store : Nat) (current : List PdRegion) : Cache × Except Err Unit :=
  if current.isEmpty then (c.invalidate v, .ok ())
  else if current.any (fun m => m.r.id == v.id && (decide (m.r.confVer < v.confVer) || decide (m.r.ver < v.ver))) then
    (c, .error .retry)
  else
    let c1 := if !((epochNews store current).any (fun e => e.r.verID == v)) then c.invalidate v else c
    ((epochNews store current).foldl (fun c e => (insertRegionToCache c e).1) c1, .ok ())

/-- `UpdateLeader(regionID, leader{StoreId: store}, _)` with a non-nil leader -/
def updateLeader (c : Cache) (v : VerID) (store : Nat) : Cache :=
  c.update v (fun e => if e.peers.contains store then { e with leader := store } else { e with valid := false })

/-- `OnSendFail(ctx{Region: v, AccessIdx: work peer}, scheduleReload, err != nil)`: the work peer moves to the next
    TiKV peer; with scheduleReload the region gets needReloadOnAccess (the store-side effects — store epoch, liveness
    probe — do not touch the index) -/
def nextPeer (peers : List Nat) (leader : Nat) : Nat :=
  match peers.idxOf? leader with
  | some i => peers.getD ((i + 1) % peers.length) leader
  | none => leader

def onSendFail (c : Cache) (v : VerID) (scheduleReload : Bool) : Cache :=
  c.update v (fun e => { e with leader := nextPeer e.peers e.leader, reload := e.reload || scheduleReload,
                                delayedOnly := e.delayedOnly && !scheduleReload })

/-! ## the error-feedback loop of a request (what drives convergence) -/

/-- two regions share a key -/
def overlaps (a b : Region) : Bool :=
  (a.endKey.isEmpty || Bytes.lt b.start a.endKey) && (b.endKey.isEmpty || Bytes.lt a.start b.endKey)

/-- how the sender reacts to a region error for the location it used -/
inductive Feedback
  | invalidate      -- RegionNotFound & co: InvalidateCachedRegion
  | needReload      -- OnSendFail with scheduleReload / store failure marks: needReloadOnAccess
  | epochNotMatch   -- EpochNotMatch carrying the store's current regions that overlap the stale one
  deriving DecidableEq, Repr

def applyFeedback (c : Cache) (pd : PD) (r : Region) : Feedback → Cache
  | .invalidate => c.invalidate r.verID
  | .needReload => c.update r.verID (fun e => { e with reload := true, delayedOnly := false })
  | .epochNotMatch =>
    match c.byVerID r.verID with
    | none => c
    | some e => (onRegionEpochNotMatch c r.verID e.leader (pd.filter (fun p => overlaps r p.r))).1

/-- one request attempt for `key` while PD (= the stores' truth) is `pd`: locate, send; the store accepts exactly
    its current region description, anything else is answered by a region error and handled by `fb`.
    Result: the cache afterwards and whether the request was accepted. -/
def attempt (c : Cache) (pd : PD) (key : Bytes) (fb : Feedback) : Cache × Bool :=
  match locateKey c pd key with
  | (c1, .error _) => (c1, false)
  | (c1, .ok r) =>
    match pd.getRegion key with
    | some p => if p.r = r then (c1, true) else (applyFeedback c1 pd r fb, false)
    | none => (c1, false)

/-- attempts until accepted, at most `n`; returns the cache and the number of rejected attempts (none = not accepted) -/
def attempts : Nat → Cache → PD → Bytes → Feedback → Nat → Cache × Option Nat
  | 0, c, _, _, _, _ => (c, none)
  | n + 1, c, pd, key, fb, failed =>
    match attempt c pd key fb with
    | (c1, true) => (c1, some failed)
    | (c1, false) => attempts n c1 pd key fb (failed + 1)

end CGV.Region
