/-
  Model of the CLIENT loops of /repo/rawkv/rawkv.go and /repo/internal/kvrpc/batch.go (C11).
  Core-only, executable.

  * The store is `Spec.OMap Bytes`; what a region serves is the map restricted to the region
    (`restrict`, `region…` functions) — a correct store; mocktikv is tied to it by the differential.
  * A layout is a list of split points; `locate`/`locateEnd` model `LocateKey`/`LocateEndKey` followed by a
    request that the store accepted (the epoch check guarantees that the located region is the region that
    served the request).  The layout may differ for every partial request of a call: every loop takes the
    layout sequence as an input (`SScript`: `none` = the attempt ended in a region error and is retried,
    `some L` = the attempt was served under layout `L`).
  * Batches: `BScript` gives, for every `sendBatchReq`/`sendBatchPut` invocation in depth-first order,
    the layout the keys were grouped with (the region cache's view, possibly stale) and one outcome per
    batch (`true` = served, `false` = region error → that batch alone is re-grouped recursively).
  Empty end key = +∞ exactly as in the Go code (`[]`), converted with `toBound` when talking to the Spec.
-/
import ClientGoVerif.Spec.OrderedMap
import ClientGoVerif.Generated.RawKVConsts
namespace CGV.RawKV
open CGV CGV.Spec

abbrev KV := Bytes × Bytes
abbrev Item := Bytes × Bytes          -- key and value (value unused by get/delete batches)
abbrev Store := OMap Bytes
abbrev Layout := List Bytes           -- split points
abbrev Region := Bytes × Bytes        -- [start, end); end = [] is +∞

def toBound (e : Bytes) : Bound := if e = [] then none else some e
def inRegion (R : Region) (k : Bytes) : Bool := inRange R.1 (toBound R.2) k

/-- `LocateKey`: the region `[s, e)` of the layout with `s ≤ k < e` -/
def locate : Layout → Bytes → Region
  | [], _ => ([], [])
  | s :: L, k =>
    let R := locate L k
    if s ≤ k then (if R.1 < s then s else R.1, R.2)
    else (R.1, if R.2 = [] ∨ s < R.2 then s else R.2)

/-- `LocateEndKey`: the region `[s, e)` of the layout with `s < k ≤ e` -/
def locateEnd : Layout → Bytes → Region
  | [], _ => ([], [])
  | s :: L, k =>
    let R := locateEnd L k
    if s < k then (if R.1 < s then s else R.1, R.2)
    else (R.1, if R.2 = [] ∨ s < R.2 then s else R.2)

/-! ## what one region serves: the Spec map restricted to the region -/

def restrict (m : Store) (R : Region) : Store := m.filterKeys (inRegion R)
def regionGet (m : Store) (R : Region) (k : Bytes) : Option Bytes := (restrict m R).get k
def regionPut (m : Store) (R : Region) (k v : Bytes) : Store := if inRegion R k then m.insert k v else m
def regionDelete (m : Store) (R : Region) (k : Bytes) : Store := if inRegion R k then m.erase k else m
/-- RawScan: `[s, e)`, first `limit` pairs -/
def regionScan (m : Store) (R : Region) (s e : Bytes) (limit : Nat) : List KV :=
  ((restrict m R).range s (toBound e)).take limit
/-- RawScan reverse: keys in `[e, s)`, descending, first `limit` pairs -/
def regionRScan (m : Store) (R : Region) (s e : Bytes) (limit : Nat) : List KV :=
  ((restrict m R).rrange (some s) e).take limit
def regionDeleteRange (m : Store) (R : Region) (s e : Bytes) : Store :=
  m.filterKeys (fun k => !(inRange s (toBound e) k && inRegion R k))
def regionBatchGet (m : Store) (R : Region) (keys : List Bytes) : List KV :=
  keys.filterMap (fun k => (regionGet m R k).map (fun v => (k, v)))
def regionBatchPut (m : Store) (R : Region) (items : List Item) : Store :=
  items.foldl (fun m p => regionPut m R p.1 p.2) m
def regionBatchDelete (m : Store) (R : Region) (keys : List Bytes) : Store :=
  keys.foldl (fun m k => regionDelete m R k) m
/-- RawCAS: `prev = none` is `PreviousNotExist`; returns (store, previous value, swapped) -/
def regionCAS (m : Store) (R : Region) (k : Bytes) (prev : Option Bytes) (new : Bytes) : Store × Option Bytes × Bool :=
  let cur := regionGet m R k
  if cur = prev then (regionPut m R k new, cur, true) else (m, cur, false)

/-! ## checksum (crc64-ECMA of key++value, xor-ed; counts) -/

structure Checksum where
  crc : UInt64
  kvs : Nat
  bytes : Nat
  deriving DecidableEq, Repr

def Checksum.zero : Checksum := ⟨0, 0, 0⟩
def Checksum.add (a b : Checksum) : Checksum := ⟨a.crc ^^^ b.crc, a.kvs + b.kvs, a.bytes + b.bytes⟩

def crcPoly : UInt64 := 0xC96C5795D7870F42
def crcBit (c : UInt64) : UInt64 := if c &&& 1 = 1 then (c >>> 1) ^^^ crcPoly else c >>> 1
def crcByte (c : UInt64) (b : UInt8) : UInt64 :=
  crcBit (crcBit (crcBit (crcBit (crcBit (crcBit (crcBit (crcBit (c ^^^ b.toUInt64))))))))
/-- hash/crc64 with the ECMA table: `^update(^0, data)` -/
def crc64 (data : Bytes) : UInt64 := ~~~ (data.foldl crcByte (~~~ (0 : UInt64)))

def csOne (p : KV) : Checksum := ⟨crc64 (p.1 ++ p.2), 1, p.1.length + p.2.length⟩
def csOf (l : List KV) : Checksum := l.foldl (fun c p => c.add (csOne p)) Checksum.zero
def regionChecksum (m : Store) (R : Region) (s e : Bytes) : Checksum := csOf ((restrict m R).range s (toBound e))

/-! ## single-region calls: `sendReq` (locate, send, on region error back off and retry) -/

/-- one entry per attempt: `none` = region error (retry), `some L` = served under layout `L` -/
abbrev SScript := List (Option Layout)
/-- trace of the served partial requests: (start key, end key, limit) -/
abbrev STrace := List (Bytes × Bytes × Nat)

def nextOk : SScript → Option Layout
  | [] => none
  | none :: r => nextOk r
  | some L :: _ => some L

def get (m : Store) (sc : SScript) (k : Bytes) : Option (Option Bytes) :=
  (nextOk sc).map fun L => regionGet m (locate L k) k
def put (m : Store) (sc : SScript) (k v : Bytes) : Option Store :=
  (nextOk sc).map fun L => regionPut m (locate L k) k v
def delete (m : Store) (sc : SScript) (k : Bytes) : Option Store :=
  (nextOk sc).map fun L => regionDelete m (locate L k) k
def cas (m : Store) (sc : SScript) (k : Bytes) (prev : Option Bytes) (new : Bytes) : Option (Store × Option Bytes × Bool) :=
  (nextOk sc).map fun L => regionCAS m (locate L k) k prev new

/-- `len(endKey) == 0 || bytes.Compare(startKey, endKey) < 0` -/
def fwdCond (start end_ : Bytes) : Bool := end_ = [] || decide (start < end_)

/-- `Client.Scan`: `f` is the identity, or strips the value for key-only scans.
    Result `none`: the script ran out before the loop finished. -/
def scanLoop (m : Store) (f : KV → KV) (end_ : Bytes) (limit : Nat) :
    SScript → Bytes → List KV → STrace → Option (List KV × STrace)
  | [], start, acc, tr =>
    if acc.length < limit ∧ fwdCond start end_ then none else some (acc, tr)
  | none :: rest, start, acc, tr =>
    if acc.length < limit ∧ fwdCond start end_ then scanLoop m f end_ limit rest start acc tr else some (acc, tr)
  | some L :: rest, start, acc, tr =>
    if acc.length < limit ∧ fwdCond start end_ then
      let R := locate L start
      let kvs := regionScan m R start end_ (limit - acc.length)
      let acc' := acc ++ kvs.map f
      let tr' := tr ++ [(start, end_, limit - acc.length)]
      if R.2 = [] then some (acc', tr') else scanLoop m f end_ limit rest R.2 acc' tr'
    else some (acc, tr)

/-- `Client.ReverseScan`: loop while `len(keys) < limit && startKey > endKey` -/
def rscanLoop (m : Store) (f : KV → KV) (end_ : Bytes) (limit : Nat) :
    SScript → Bytes → List KV → STrace → Option (List KV × STrace)
  | [], start, acc, tr =>
    if acc.length < limit ∧ end_ < start then none else some (acc, tr)
  | none :: rest, start, acc, tr =>
    if acc.length < limit ∧ end_ < start then rscanLoop m f end_ limit rest start acc tr else some (acc, tr)
  | some L :: rest, start, acc, tr =>
    if acc.length < limit ∧ end_ < start then
      let R := locateEnd L start
      let kvs := regionRScan m R start end_ (limit - acc.length)
      let acc' := acc ++ kvs.map f
      let tr' := tr ++ [(start, end_, limit - acc.length)]
      if R.1 = [] then some (acc', tr') else rscanLoop m f end_ limit rest R.1 acc' tr'
    else some (acc, tr)

/-- `Client.DeleteRange` + `sendDeleteRangeReq`: each request is cut at the located region's end -/
def deleteRangeLoop (end_ : Bytes) : SScript → Bytes → Store → STrace → Option (Store × STrace)
  | [], start, m, tr => if fwdCond start end_ then none else some (m, tr)
  | none :: rest, start, m, tr =>
    if fwdCond start end_ then deleteRangeLoop end_ rest start m tr else some (m, tr)
  | some L :: rest, start, m, tr =>
    if fwdCond start end_ then
      let R := locate L start
      let actualEnd := if R.2 ≠ [] ∧ (end_ = [] ∨ R.2 < end_) then R.2 else end_
      let m' := regionDeleteRange m R start actualEnd
      let tr' := tr ++ [(start, actualEnd, 0)]
      if actualEnd = [] then some (m', tr') else deleteRangeLoop end_ rest actualEnd m' tr'
    else some (m, tr)

/-- `Client.Checksum` -/
def checksumLoop (m : Store) (end_ : Bytes) : SScript → Bytes → Checksum → STrace → Option (Checksum × STrace)
  | [], start, acc, tr => if fwdCond start end_ then none else some (acc, tr)
  | none :: rest, start, acc, tr =>
    if fwdCond start end_ then checksumLoop m end_ rest start acc tr else some (acc, tr)
  | some L :: rest, start, acc, tr =>
    if fwdCond start end_ then
      let R := locate L start
      let acc' := acc.add (regionChecksum m R start end_)
      let tr' := tr ++ [(start, end_, 0)]
      if R.2 = [] then some (acc', tr') else checksumLoop m end_ rest R.2 acc' tr'
    else some (acc, tr)

def stripValue (p : KV) : KV := (p.1, [])

def scan (m : Store) (sc : SScript) (start end_ : Bytes) (limit : Nat) (keyOnly : Bool) : Option (List KV × STrace) :=
  scanLoop m (if keyOnly then stripValue else id) end_ limit sc start [] []
def reverseScan (m : Store) (sc : SScript) (start end_ : Bytes) (limit : Nat) (keyOnly : Bool) : Option (List KV × STrace) :=
  rscanLoop m (if keyOnly then stripValue else id) end_ limit sc start [] []
def deleteRange (m : Store) (sc : SScript) (start end_ : Bytes) : Option (Store × STrace) :=
  deleteRangeLoop end_ sc start m []
def checksum (m : Store) (sc : SScript) (start end_ : Bytes) : Option (Checksum × STrace) :=
  checksumLoop m end_ sc start Checksum.zero []

/-! ## batches: group by region, split, send; a region error re-groups that batch only -/

structure BEntry where
  layout : Layout          -- what `GroupKeysByRegion` saw (the cache's view)
  outs : List Bool         -- per batch, in the model's batch order: served / region error
abbrev BScript := List BEntry

/-- `GroupKeysByRegion`: regions in order of first appearance, items in request order -/
def groupItems (G : Layout) (items : List Item) : List (Region × List Item) :=
  ((items.map fun it => locate G it.1).eraseDups).map fun R => (R, items.filter fun it => locate G it.1 == R)

/-- `kvrpc.AppendKeyBatches` (flushes when `count > limit`, i.e. batches of `limit + 1` keys) -/
def keyBatches (limit : Nat) : List Item → List Item → List (List Item)
  | [], cur => if cur.isEmpty then [] else [cur]
  | it :: rest, cur =>
    if cur.length > limit then cur :: keyBatches limit rest [it] else keyBatches limit rest (cur ++ [it])

/-- `kvrpc.AppendBatches` (flushes when the accumulated size reached the limit) -/
def putBatches (limit : Nat) : List Item → List Item → Nat → List (List Item)
  | [], cur, _ => if cur.isEmpty then [] else [cur]
  | it :: rest, cur, size =>
    if size ≥ limit then cur :: putBatches limit rest [it] (it.1.length + it.2.length)
    else putBatches limit rest (cur ++ [it]) (size + (it.1.length + it.2.length))

def mkKeyBatches (G : Layout) (items : List Item) : List (Region × List Item) :=
  (groupItems G items).flatMap fun g => (keyBatches Gen.rawBatchPairCount g.2 []).map fun b => (g.1, b)
def mkPutBatches (G : Layout) (items : List Item) : List (Region × List Item) :=
  (groupItems G items).flatMap fun g => (putBatches Gen.rawBatchPutSize g.2 [] 0).map fun b => (g.1, b)

/-- `keyToValue` of `sendBatchPut`: a Go map filled in request order (the last value of a key wins);
    every occurrence of a key is then sent with that value -/
def lastWins (items : List Item) : List Item :=
  let kv : OMap Bytes := items.foldl (fun m it => m.insert it.1 it.2) OMap.empty
  items.filterMap fun it => (kv.get it.1).map fun v => (it.1, v)

structure BState where
  store : Store
  pairs : List KV                         -- accumulated RawBatchGet pairs
  trace : List (List Item × Bool)         -- every batch sent and whether it was served

def runBatches (recur : BState → List Item → BScript → Option (BState × BScript))
    (exec : BState → Region → List Item → BState) :
    BState → List (Region × List Item) → List Bool → BScript → Option (BState × BScript)
  | s, [], [], sc => some (s, sc)
  | s, (R, b) :: bs, true :: os, sc =>
    runBatches recur exec { exec s R b with trace := (exec s R b).trace ++ [(b, true)] } bs os sc
  | s, (_, b) :: bs, false :: os, sc =>
    match recur { s with trace := s.trace ++ [(b, false)] } b sc with
    | none => none
    | some (s1, sc1) => runBatches recur exec s1 bs os sc1
  | _, _, _, _ => none

/-- `sendBatchReq` / `sendBatchPut`; `none`: script exhausted or not matching the batches -/
def sendBatch (mk : Layout → List Item → List (Region × List Item)) (prep : List Item → List Item)
    (exec : BState → Region → List Item → BState) : Nat → BState → List Item → BScript → Option (BState × BScript)
  | 0, _, _, _ => none
  | _ + 1, _, _, [] => none
  | fuel + 1, s, items, e :: sc =>
    runBatches (sendBatch mk prep exec fuel) exec s (mk e.layout (prep items)) e.outs sc

def execGet (s : BState) (R : Region) (b : List Item) : BState :=
  { s with pairs := s.pairs ++ regionBatchGet s.store R (b.map (·.1)) }
def execPut (s : BState) (R : Region) (b : List Item) : BState :=
  { s with store := regionBatchPut s.store R b }
def execDelete (s : BState) (R : Region) (b : List Item) : BState :=
  { s with store := regionBatchDelete s.store R (b.map (·.1)) }

/-- `Client.BatchGet`: the pairs of all batches go into a Go map, the result is looked up positionally -/
def batchGet (m : Store) (sc : BScript) (keys : List Bytes) : Option (List (Option Bytes) × List (List Item × Bool)) :=
  match sendBatch mkKeyBatches id execGet (sc.length + 1) ⟨m, [], []⟩ (keys.map fun k => (k, [])) sc with
  | none => none
  | some (s, _) =>
    let keyToValue : OMap Bytes := s.pairs.foldl (fun acc p => acc.insert p.1 p.2) OMap.empty
    some (keys.map keyToValue.get, s.trace)

def batchPut (m : Store) (sc : BScript) (items : List Item) : Option (Store × List (List Item × Bool)) :=
  match sendBatch mkPutBatches lastWins execPut (sc.length + 1) ⟨m, [], []⟩ items sc with
  | none => none
  | some (s, _) => some (s.store, s.trace)

def batchDelete (m : Store) (sc : BScript) (keys : List Bytes) : Option (Store × List (List Item × Bool)) :=
  match sendBatch mkKeyBatches id execDelete (sc.length + 1) ⟨m, [], []⟩ (keys.map fun k => (k, [])) sc with
  | none => none
  | some (s, _) => some (s.store, s.trace)

end CGV.RawKV
