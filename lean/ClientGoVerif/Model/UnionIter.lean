/-
  C07 — executable model of
    internal/unionstore/union_iter.go   (UnionIter: NewUnionIter / updateCur / Next / Key / Value / Valid)
    internal/unionstore/union_store.go  (KVUnionStore.Get / Iter / IterReverse)
    txnkv/transaction/batch_getter.go   (BufferBatchGetter.BatchGet)
  over an ABSTRACT write buffer (the buffers themselves are C08's): the buffer is a sorted association list
  key ↦ value, the empty value being the tombstone, plus a stack of saved copies for the staging levels.
  An iterator of the buffer or of the snapshot is the list of entries it still has to yield
  (head = current entry, `[]` = `!Valid()`, `Next` = tail).

  Core only (linked into the driver cgv-c07).
-/
import ClientGoVerif.Spec.Overlay
namespace CGV.UnionIter
open CGV.Overlay

/-- `cmp := kv.CmpKey(dirtyKey, snapshotKey); if iter.reverse { cmp = -cmp }` -/
def cmpDir (rev : Bool) (a b : Bytes) : Ordering :=
  if rev then (Bytes.cmp a b).swap else Bytes.cmp a b

structure UIter where
  dirty : List KV        -- dirtyIt      (dirtyValid    = dirty ≠ [])
  snap : List KV         -- snapshotIt   (snapshotValid = snap ≠ [])
  curIsDirty : Bool
  isValid : Bool
  reverse : Bool
  deriving Repr, DecidableEq

/-- `updateCur`, one equation per branch of the Go loop; every `continue` has consumed a buffer entry -/
def updateCur (rev : Bool) (cur : Bool) : List KV → List KV → UIter
  | [], [] => ⟨[], [], cur, false, rev⟩                       -- !dirtyValid && !snapshotValid
  | [], s :: ss => ⟨[], s :: ss, false, true, rev⟩            -- !dirtyValid
  | d :: ds, [] =>                                            -- !snapshotValid: curIsDirty = true
    if d.2.isEmpty then updateCur rev true ds []              --   deleted: dirtyNext; continue
    else ⟨d :: ds, [], true, true, rev⟩
  | d :: ds, s :: ss =>                                       -- both valid
    match cmpDir rev d.1 s.1 with
    | .eq =>
      if d.2.isEmpty then updateCur rev cur ds ss             --   txn deleted the snapshot record: both next
      else ⟨d :: ds, ss, true, true, rev⟩                     --   snapshotNext; curIsDirty = true
    | .gt => ⟨d :: ds, s :: ss, false, true, rev⟩             --   record from snapshot comes first
    | .lt =>
      if d.2.isEmpty then updateCur rev cur ds (s :: ss)      --   "delete a record not exists?": dirtyNext
      else ⟨d :: ds, s :: ss, true, true, rev⟩

/-- `NewUnionIter` -/
def newUnionIter (dirtyIt snapshotIt : List KV) (reverse : Bool) : UIter :=
  updateCur reverse false dirtyIt snapshotIt

/-- `Next`: advance the side the current entry came from, then `updateCur` -/
def UIter.next (it : UIter) : UIter :=
  if !it.curIsDirty then updateCur it.reverse it.curIsDirty it.dirty it.snap.tail
  else updateCur it.reverse it.curIsDirty it.dirty.tail it.snap

/-- `Key()`/`Value()` -/
def UIter.cur? (it : UIter) : Option KV :=
  if !it.curIsDirty then it.snap.head? else it.dirty.head?

/-- `for it.Valid() { emit(it.Key(), it.Value()); it.Next() }`, at most `fuel` rounds -/
def collect : Nat → UIter → List KV
  | 0, _ => []
  | fuel + 1, it =>
    if it.isValid then
      match it.cur? with
      | some kv => kv :: collect fuel it.next
      | none => []
    else []

/-- everything a union iterator over the two cursors yields -/
def iterAll (rev : Bool) (dirtyIt snapshotIt : List KV) : List KV :=
  collect (dirtyIt.length + snapshotIt.length + 1) (newUnionIter dirtyIt snapshotIt rev)

/-! ### the store around the iterator -/

/-- `memBuffer.Iter(lo, hi)` / `IterReverse(hi, lo)` and the same calls on the snapshot: the entries inside
`[lo, hi)` (empty `hi` = unbounded), ascending or descending -/
def cursor (rev : Bool) (m : List KV) (lo hi : Bytes) : List KV :=
  let r := m.filter fun kv => inRange lo hi kv.1
  if rev then r.reverse else r

/-- `KVUnionStore.Iter` (rev = false) / `IterReverse` (rev = true), drained -/
def storeIter (snap buf : List KV) (lo hi : Bytes) (rev : Bool) : List KV :=
  iterAll rev (cursor rev buf lo hi) (cursor rev snap lo hi)

/-- `KVUnionStore.Get`; `none` = `ErrNotExist` -/
def unionGet (snap buf : List KV) (k : Bytes) : Option Bytes :=
  let r := match lookup buf k with        -- v, err := us.memBuffer.Get(k)
    | some v => some v
    | none => lookup snap k               -- IsErrNotFound(err): v, err = us.snapshot.Get(k)
  match r with
  | none => none                          -- err != nil
  | some v => if v.isEmpty then none else some v    -- v.IsValueEmpty() → ErrNotExist

/-! ### Go maps as sorted association lists -/

def mapSet (k v : Bytes) : List KV → List KV
  | [] => [(k, v)]
  | (k', v') :: r =>
    match Bytes.cmp k k' with
    | .lt => (k, v) :: (k', v') :: r
    | .eq => (k, v) :: r
    | .gt => (k', v') :: mapSet k v r

def mapErase (k : Bytes) (m : List KV) : List KV := m.filter fun kv => kv.1 ≠ k

/-- `MemDB.BatchGet`: `Len() == 0` → empty map; else every key that has an entry (tombstones included) -/
def bufBatchLoop (buf : List KV) : List Bytes → List KV → List KV
  | [], m => m
  | k :: ks, m =>
    match lookup buf k with
    | some v => bufBatchLoop buf ks (mapSet k v m)
    | none => bufBatchLoop buf ks m

def bufBatchGet (buf : List KV) (keys : List Bytes) : List KV :=
  if buf.isEmpty then [] else bufBatchLoop buf keys []

/-- the snapshot's `BatchGet`: keys without a (non-empty) value have no entry -/
def snapBatchLoop (snap : List KV) : List Bytes → List KV → List KV
  | [], m => m
  | k :: ks, m =>
    match visible (lookup snap k) with
    | some v => snapBatchLoop snap ks (mapSet k v m)
    | none => snapBatchLoop snap ks m

def snapBatchGet (snap : List KV) (keys : List Bytes) : List KV := snapBatchLoop snap keys []

/-- `for key, val := range storageValues { bufferValues[key] = val }` (the keys of a Go map are distinct, so
the order of the assignments does not matter) -/
def mergeInto : List KV → List KV → List KV
  | [], m => m
  | (k, v) :: r, m => mapSet k v (mergeInto r m)

/-- `BufferBatchGetter.BatchGet` as the property demands it (and as the repaired code does it): the key list
passed to the snapshot is computed against the COMPLETE buffer answer, the tombstones leave the result
afterwards.  -/
def batchGet (snap buf : List KV) (keys : List Bytes) : List KV :=
  let bufferValues := bufBatchGet buf keys
  if bufferValues.isEmpty then snapBatchGet snap keys else
  let shrinkKeys := keys.filter fun k => (lookup bufferValues k).isNone
  let bufferValues := bufferValues.filter fun kv => !kv.2.isEmpty
  mergeInto (snapBatchGet snap shrinkKeys) bufferValues

/-- the loop of batch_getter.go as it stands at the pinned commit: the tombstone is deleted from
`bufferValues` INSIDE the loop, so a second occurrence of the same key no longer finds it and the key goes to
the snapshot after all -/
def shrinkLoopAsIs : List Bytes → List KV → List Bytes → List KV × List Bytes
  | [], m, sk => (m, sk)
  | k :: ks, m, sk =>
    match lookup m k with
    | none => shrinkLoopAsIs ks m (sk ++ [k])
    | some v => if v.isEmpty then shrinkLoopAsIs ks (mapErase k m) sk else shrinkLoopAsIs ks m sk

def batchGetAsIs (snap buf : List KV) (keys : List Bytes) : List KV :=
  let bufferValues := bufBatchGet buf keys
  if bufferValues.isEmpty then snapBatchGet snap keys else
  let (bufferValues, shrinkKeys) := shrinkLoopAsIs keys bufferValues []
  mergeInto (snapBatchGet snap shrinkKeys) bufferValues

/-! ### the abstract write buffer -/

structure Buf where
  cur : List KV                  -- sorted; value `[]` = tombstone
  stages : List (List KV)        -- the content saved by each live `Staging()`, innermost first
  deriving Repr, DecidableEq

def Buf.empty : Buf := ⟨[], []⟩

/-- `Staging()` returns the new depth as handle -/
def Buf.staging (b : Buf) : Buf × Nat := (⟨b.cur, b.cur :: b.stages⟩, b.stages.length + 1)

/-- publish the innermost level: the writes stay, the undo boundary goes -/
def Buf.releaseTop (b : Buf) : Buf := ⟨b.cur, b.stages.tail⟩

/-- discard the innermost level: back to the content saved by its `Staging()` -/
def Buf.cleanupTop (b : Buf) : Buf :=
  match b.stages with
  | saved :: rest => ⟨saved, rest⟩
  | [] => b

/-- `Release(h)`: 0 is the no-effect handle; any handle but the innermost panics (`none`) -/
def Buf.release (h : Nat) (b : Buf) : Option Buf :=
  if h = 0 then some b
  else if h ≠ b.stages.length then none
  else some b.releaseTop

/-- `Cleanup(h)`: 0 and handles above the depth are ignored, handles below the depth panic (`none`) -/
def Buf.cleanup (h : Nat) (b : Buf) : Option Buf :=
  if h = 0 then some b
  else if h > b.stages.length then some b
  else if h < b.stages.length then none
  else some b.cleanupTop

def Buf.apply (b : Buf) : BOp → Buf
  | .set k v => if v.isEmpty then b else ⟨mapSet k v b.cur, b.stages⟩     -- ErrCannotSetNilValue
  | .del k => ⟨mapSet k [] b.cur, b.stages⟩
  | .staging => b.staging.1
  | .release => b.releaseTop      -- = Release(innermost handle), see `release_innermost`
  | .cleanup => b.cleanupTop      -- = Cleanup(innermost handle), see `cleanup_innermost`

def Buf.run (b : Buf) (ops : List BOp) : Buf := ops.foldl Buf.apply b

/-- `Checkpoint()` / `RevertToCheckpoint(cp)` at the abstract level: a saved copy of the content.
(On the real buffers a checkpoint is a position in the value log; see C08 and DESIGN §6 S10.) -/
def Buf.checkpoint (b : Buf) : List KV := b.cur
def Buf.revertTo (saved : List KV) (b : Buf) : Buf := ⟨saved, b.stages⟩

end CGV.UnionIter
