/-
  C07 — executable model of
    internal/unionstore/union_iter.go   (UnionIter: NewUnionIter / updateCur / Next / Key / Value / Valid)
    internal/unionstore/union_store.go  (KVUnionStore.Get / Iter / IterReverse)
    txnkv/transaction/batch_getter.go   (BufferBatchGetter.BatchGet)
  over an ABSTRACT write buffer (the buffers themselves are C08's): the buffer is a sorted association list
  key ↦ value, the empty value being the tombstone, plus a stack of saved copies for the staging levels.
  An iterator of the buffer or of the snapshot is the list of entries it still has to yield
  (head = current entry, `[]` = `!Valid()`, `Next` = tail).

  Core only (linked into the driver cgv-c07).
-/
import ClientGoVerif.Spec.Overlay
namespace CGV.UnionIter
open CGV.Overlay

/-- `cmp := kv.CmpKey(dirtyKey, snapshotKey); if iter.reverse { cmp = -cmp }` -/
def cmpDir (rev : Bool) (a b : Bytes) : Ordering :=
  if rev then (Bytes.cmp a b).swap else Bytes.cmp a b

structure UIter where
  dirty : List KV        -- dirtyIt      (dirtyValid    = dirty ≠ [])
  snap : List KV         -- snapshotIt   (snapshotValid = snap ≠ [])
  curIsDirty : Bool
  isValid : Bool
  reverse : Bool
  deriving Repr, DecidableEq

/-- `updateCur`, one equation per branch of the Go loop; every `continue` has consumed a buffer entry -/
def updateCur (rev : Bool) (cur : Bool) : List KV → List KV → UIter
  | [], [] => ⟨[], [], cur, false, rev⟩                       -- !dirtyValid && !snapshotValid
  | [], s :: ss => ⟨[], s :: ss, false, true, rev⟩            -- !dirtyValid
  | d :: ds, [] =>                                            -- !snapshotValid: curIsDirty = true
    if d.2.isEmpty then updateCur rev true ds []              --   deleted: dirtyNext; continue
    else ⟨d :: ds, [], true, true, rev⟩
  | d :: ds, s :: ss =>                                       -- both valid
    match cmpDir rev d.1 s.1 with
    | .eq =>
      if d.2.isEmpty then updateCur rev cur ds ss             --   txn deleted the snapshot record: both next
      else ⟨d :: ds, ss, true, true, rev⟩                     --   snapshotNext; curIsDirty = true
    | .gt => ⟨d :: ds, s :: ss, false, true, rev⟩             --   record from snapshot comes first
    | .lt =>
      if d.2.isEmpty then updateCur rev cur ds (s :: ss)      --   "delete a record not exists?": dirtyNext
      else ⟨d :: ds, s :: ss, true, true, rev⟩

/-- `NewUnionIter` -/
def newUnionIter (dirtyIt snapshotIt : List KV) (reverse : Bool) : UIter :=
  updateCur reverse false dirtyIt snapshotIt

/-- `Next`: advance the side the current entry came from, then `updateCur` -/
def UIter.next (it : UIter) : UIter :=
  if !it.curIsDirty then updateCur it.reverse it.curIsDirty it.dirty it.snap.tail
  else updateCur it.reverse it.curIsDirty it.dirty.tail it.snap

/-- `Key()`/`Value()` -/
def UIter.cur? (it : UIter) : Option KV :=
  if !it.curIsDirty then it.snap.head? else it.dirty.head?

/-- `for it.Valid() { emit(it.Key(), it.Value()); it.Next() }`, at most `fuel` rounds -/
def collect : Nat → UIter → List KV
  | 0, _ => []
  | fuel + 1, it =>
    if it.isValid then
      match it.cur? with
      | some kv => kv :: collect fuel it.next
      | none => []
    else []

/-- everything a union iterator over the two cursors yields -/
def iterAll (rev : Bool) (dirtyIt snapshotIt : List KV) : List KV :=
  collect (dirtyIt.length + snapshotIt.length + 1) (newUnionIter dirtyIt snapshotIt rev)

/-! ### the store around the iterator -/

/-- `memBuffer.Iter(lo, hi)` / `IterReverse(hi, lo)` and the same calls on the snapshot: the entries inside
`[lo, hi)` (empty `hi` = unbounded), ascending or descending -/
def cursor (rev : Bool) (m : List KV) (lo hi : Bytes) : List KV :=
  let r := m.filter fun kv => inRange lo hi kv.1
  if rev then r.reverse else r

/-- `KVUnionStore.Iter` (rev = false) / `IterReverse` (rev = true), drained -/
def storeIter (snap buf : List KV) (lo hi : Bytes) (rev : Bool) : List KV :=
  iterAll rev (cursor rev buf lo hi) (cursor rev snap lo hi)

/-- `KVUnionStore.Get`; `none` = `ErrNotExist` -/
def unionGet (snap buf : List KV) (k : Bytes) : Option Bytes :=
  let r := match lookup buf k with        -- v, err := us.memBuffer.Get(k)
    | some v => some v
    | none => lookup snap k               -- IsErrNotFound(err): v, err = us.snapshot.Get(k)
  match r with
  | none => none                          -- err != nil
  | some v => if v.isEmpty then none else some v    -- v.IsValueEmpty() → ErrNotExist

/-! ### Go maps as sorted association lists -/

def mapSet (k v : Bytes) : List KV → List KV
  | [] => [(k, v)]
  | (k', v') :: r =>
    match Bytes.cmp k k' with
    | .lt => (k, v) :: (k', v') :: r
    | .eq => (k, v) :: r
    | .gt => (k', v') :: mapSet k v r

/-- `MemDB.BatchGet`: `Len() == 0` → empty map; else every key that has an entry (tombstones included) -/
def bufBatchLoop (buf : List KV) : List Bytes → List KV → List KV
  | [], m => m
  | k :: ks, m =>
    match lookup buf k with
    | some v => bufBatchLoop buf ks (mapSet k v m)
    | none => bufBatchLoop buf ks m

def bufBatchGet (buf : List KV) (keys : List Bytes) : List KV :=
  if buf.isEmpty then [] else bufBatchLoop buf keys []

/-- the snapshot's `BatchGet`: keys without a (non-empty) value have no entry -/
def snapBatchLoop (snap : List KV) : List Bytes → List KV → List KV
  | [], m => m
  | k :: ks, m =>
    match visible (lookup snap k) with
    | some v => snapBatchLoop snap ks (mapSet k v m)
    | none => snapBatchLoop snap ks m

def snapBatchGet (snap : List KV) (keys : List Bytes) : List KV := snapBatchLoop snap keys []

/-- `for key, val := range storageValues { bufferValues[key] = val }` (the keys of a Go map are distinct, so
the order of the assignments does not matter) -/
def mergeInto : List KV → List KV → List KV
  | [], m => m
  | (k, v) :: r, m => mapSet k v (mergeInto r m)

/-- `BufferBatchGetter.BatchGet` (batch_getter.go; `BufferSnapshotBatchGetter.BatchGet` has the same body):
the key list for the snapshot is shrunk against the complete buffer answer, the tombstones leave the result
afterwards, then the snapshot's answer is merged in. -/
def batchGet (snap buf : List KV) (keys : List Bytes) : List KV :=
  let bufferValues := bufBatchGet buf keys                              -- b.buffer.BatchGet(ctx, keys)
  if bufferValues.isEmpty then snapBatchGet snap keys else              -- len(bufferValues) == 0
  let shrinkKeys := keys.filter fun k => (lookup bufferValues k).isNone -- for _, key := range keys { if !ok … }
  let bufferValues := bufferValues.filter fun kv => !kv.2.isEmpty       -- for key, val := range bufferValues { delete }
  mergeInto (snapBatchGet snap shrinkKeys) bufferValues                 -- for key, val := range storageValues

/-! ### the abstract write buffer

The content plus ONE stack of undo marks, newest first: a mark is a staging level (`Staging()`) or a checkpoint
(`Checkpoint()`), and remembers the content at the moment it was set.  On the real buffers both kinds of mark
are positions in the same value log (C08); the stack discipline below is what a log position can honour:
* `Release` forgets the innermost staging mark, nothing else (the log is not touched);
* `Cleanup` cuts the log back to the innermost staging mark: that mark and every newer one is gone;
* `RevertToCheckpoint` cuts the log back to the checkpoint: every newer mark is gone, the checkpoint stays;
  it is only meaningful while no staging level opened after the checkpoint is still open and the log has not
  been cut below it — otherwise `revert` refuses (the harness then does not call the real code either). -/

structure Mark where
  isStage : Bool
  saved : List KV
  deriving Repr, DecidableEq

structure Buf where
  cur : List KV                  -- sorted; value `[]` = tombstone
  marks : List Mark              -- newest first
  deriving Repr, DecidableEq

def Buf.empty : Buf := ⟨[], []⟩

def stageCount : List Mark → Nat
  | [] => 0
  | m :: r => (if m.isStage then 1 else 0) + stageCount r

def cpCount : List Mark → Nat
  | [] => 0
  | m :: r => (if m.isStage then 0 else 1) + cpCount r

/-- `len(stages)` -/
def Buf.depth (b : Buf) : Nat := stageCount b.marks

/-- `Staging()` returns the new depth as handle -/
def Buf.staging (b : Buf) : Buf × Nat := (⟨b.cur, ⟨true, b.cur⟩ :: b.marks⟩, b.depth + 1)

/-- `Checkpoint()`; the harness numbers the valid checkpoints from the oldest -/
def Buf.checkpoint (b : Buf) : Buf × Nat := (⟨b.cur, ⟨false, b.cur⟩ :: b.marks⟩, cpCount b.marks)

def dropFirstStage : List Mark → List Mark
  | [] => []
  | m :: r => if m.isStage then r else m :: dropFirstStage r

def cutAtStage : List Mark → Option (List KV × List Mark)
  | [] => none
  | m :: r => if m.isStage then some (m.saved, r) else cutAtStage r

def cutAtCp (i : Nat) : List Mark → Option (List KV × List Mark)
  | [] => none
  | m :: r =>
    if m.isStage then none
    else if cpCount r = i then some (m.saved, m :: r)
    else cutAtCp i r

/-- `n` times `dropFirstStage` -/
def dropStages : Nat → List Mark → List Mark
  | 0, ms => ms
  | n + 1, ms => dropStages n (dropFirstStage ms)

/-- publish the innermost level: the writes stay, the undo boundary goes -/
def Buf.releaseTop (b : Buf) : Buf := ⟨b.cur, dropFirstStage b.marks⟩

/-- discard the innermost level: back to the content saved by its `Staging()` -/
def Buf.cleanupTop (b : Buf) : Buf :=
  match cutAtStage b.marks with
  | some (saved, rest) => ⟨saved, rest⟩
  | none => b

/-- `Release(h)`: 0 is the no-effect handle; any handle but the innermost panics (`none`) -/
def Buf.release (h : Nat) (b : Buf) : Option Buf :=
  if h = 0 then some b
  else if h ≠ b.depth then none
  else some b.releaseTop

/-- `Cleanup(h)`: 0 and handles above the depth are ignored, handles below the depth panic (`none`) -/
def Buf.cleanup (h : Nat) (b : Buf) : Option Buf :=
  if h = 0 then some b
  else if h > b.depth then some b
  else if h < b.depth then none
  else some b.cleanupTop

/-- `RevertToCheckpoint(cp)` for the `i`-th valid checkpoint; `none` = not a valid checkpoint right now -/
def Buf.revert (i : Nat) (b : Buf) : Option Buf :=
  match cutAtCp i b.marks with
  | some (saved, marks) => some ⟨saved, marks⟩
  | none => none

def Buf.apply (b : Buf) : BOp → Buf
  | .set k v => if v.isEmpty then b else ⟨mapSet k v b.cur, b.marks⟩     -- ErrCannotSetNilValue
  | .del k => ⟨mapSet k [] b.cur, b.marks⟩
  | .staging => b.staging.1
  | .checkpoint => b.checkpoint.1
  | .release => b.releaseTop      -- = Release(innermost handle), see `innermost_handle`
  | .cleanup => b.cleanupTop      -- = Cleanup(innermost handle)
  | .revert i => match b.revert i with
    | some b' => b'
    | none => b                   -- refused: nothing happens

def Buf.run (b : Buf) (ops : List BOp) : Buf := ops.foldl Buf.apply b

end CGV.UnionIter
