/-
  C08 mechanism model: what the ART and the RBT buffer share — internal/unionstore/arena/arena.go (MemdbVlog) plus
  art.go / rbt.go `Set`, `setValue`, `trySwapValue`, `RevertVAddr`, `Staging/Release/Cleanup`, `Checkpoint/RevertToCheckpoint`,
  `GetSnapshotValue`, `SelectValueHistory`, `InspectKVInLog`, and the incremental `len`/`size`/`dirty` bookkeeping.
  Core-only, executable.

  Abstractions (tied to /repo only by the differential):
  * a vlog address is the 1-based index of its entry (0 = NullAddr); a MemDBCheckpoint is the number of entries.
    `CanModify(cp, addr)` is `addr > cp`.  The arena's block arithmetic (4 KiB first block, doubling) is not modelled.
  * a node/leaf is identified by its key (allocLeaf / allocNode allocate one node per key; nodes are never freed or moved);
    `nodes` is the list of all nodes ever allocated, in allocation order.
  * the radix-tree and red-black-tree algorithms (lookup, insert, rebalancing, iteration order) are NOT modelled:
    lookup is `find?` by key and iteration is "sort the live nodes".
  * the log is kept newest first: the entry at address `a` is the one with `a - 1` entries behind it.
  Where the two trees differ the model follows the branch stated at that place (see `write`).
-/
import ClientGoVerif.Spec.MemBuf
namespace CGV.MemBuf
open CGV

/-- MemdbVlogHdr + value: {NodeAddr, OldValue, value} -/
structure Entry where
  key : Bytes       -- NodeAddr (node identity = its key)
  old : Nat         -- OldValue address, 0 = NullAddr
  value : Bytes
  deriving DecidableEq, Repr

/-- artLeaf / memdbNode: key, vLogAddr/vptr, flags, delete mark -/
structure Node where
  key : Bytes
  vptr : Nat
  flags : Nat
  deleted : Bool
  deriving DecidableEq, Repr

structure VLog where
  nodes : List Node
  log : List Entry          -- newest first
  stages : List Nat         -- bottom first (Go: t.stages)
  lastCp : Nat              -- lastCheckpoint: newest checkpoint handed out by Checkpoint() (0 = zero value, protects nothing)
  len : Int
  size : Int
  dirty : Bool
  entryLimit : Nat
  bufLimit : Nat
  deriving Repr

namespace VLog

def init : VLog :=
  { nodes := [], log := [], stages := [], lastCp := 0, len := 0, size := 0, dirty := false,
    entryLimit := Gen.MemLimits.unlimitedSize, bufLimit := Gen.MemLimits.unlimitedSize }

/-- l.Checkpoint() -/
def checkpoint (m : VLog) : Nat := m.log.length

/-- the entry whose end address is `a` -/
def getEntry : List Entry → Nat → Option Entry
  | [], _ => none
  | e :: rest, a => if rest.length + 1 = a then some e else getEntry rest a

/-- GetValue(addr) -/
def getValue (log : List Entry) (a : Nat) : Bytes :=
  match getEntry log a with
  | some e => e.value
  | none => []

/-- `copy(oldVal, value)` at address `a` -/
def swapAt : List Entry → Nat → Bytes → List Entry
  | [], _, _ => []
  | e :: rest, a, v => if rest.length + 1 = a then { e with value := v } :: rest else e :: swapAt rest a v

/-- CanModify(cp, addr); `none` is the nil checkpoint -/
def canModify (cp : Option Nat) (a : Nat) : Bool :=
  match cp with
  | none => true
  | some c => a > c

/-- SelectValueHistory(addr, predicate): follow the OldValue links from `a` (links point to older entries) -/
def selectHist (p : Nat → Bytes → Bool) : List Entry → Nat → Option (Nat × Bytes)
  | [], _ => none
  | e :: rest, a =>
    if a = 0 then none
    else if rest.length + 1 = a then (if p a e.value then some (a, e.value) else selectHist p rest e.old)
    else selectHist p rest a

/-- GetSnapshotValue(addr, snap) -/
def getSnapshotValue (log : List Entry) (a : Nat) (snap : Nat) : Option Bytes :=
  (selectHist (fun addr _ => !canModify (some snap) addr) log a).map (·.2)

def findNode (m : VLog) (k : Bytes) : Option Node := m.nodes.find? (fun n => n.key = k)

/-- a node that has just been allocated by traverse(key, insert = true) and is not yet counted: modelled as "marked
    deleted" (RBT counts it in allocNode, ART in setValue; either way the write that allocates it counts it once) -/
def freshNode (k : Bytes) : Node := { key := k, vptr := 0, flags := 0, deleted := true }

/-- traverse(key, insert = true) -/
def ensureNode (nodes : List Node) (k : Bytes) : List Node :=
  if nodes.any (fun n => n.key = k) then nodes else nodes ++ [freshNode k]

def modifyNode (nodes : List Node) (k : Bytes) (f : Node → Node) : List Node :=
  nodes.map (fun n => if n.key = k then f n else n)

/-- traverse(key, insert = true) followed by an update of the node -/
def upsertNode (nodes : List Node) (k : Bytes) (f : Node → Node) : List Node := modifyNode (ensureNode nodes k) k f

/-- ART.Set + setValue + trySwapValue (RBT.Set + setValue).  `v = none`: flags only.
    Counting a key: RBT counts in allocNode and when `flags == 0 && vptr.IsNull() && isDeleted()`; ART marks a new leaf in
    newLeaf and counts in setValue when `isDeleted()`.  Both mean "the node is new or was marked deleted".
    In-place swap: only behind the top staging mark AND behind `lastCheckpoint` (the newest checkpoint handed out). -/
def writeCore (m : VLog) (k : Bytes) (v : Option Bytes) (ops : List Nat) : VLog :=
  let dirty0 := m.dirty || m.stages.isEmpty
  let n := (m.findNode k).getD (freshNode k)
  let isNew := n.deleted
  let len1 := if isNew then m.len + 1 else m.len
  let size1 := if isNew then m.size + (k.length : Int) else m.size
  let flags' := Spec.writeFlags n.flags v ops
  let dirty1 := dirty0 || KeyFlags.andPersistent flags' != 0
  match v with
  | none =>
    { m with nodes := upsertNode m.nodes k (fun n => { n with flags := flags', deleted := false }),
             len := len1, size := size1, dirty := dirty1 }
  | some x =>
    -- setValue / trySwapValue
    let oldVal := if n.vptr = 0 then [] else getValue m.log n.vptr
    let swap := n.vptr != 0 && canModify m.stages.getLast? n.vptr && decide (n.vptr > m.lastCp) && oldVal.length > 0 && oldVal.length == x.length
    if swap then
      { m with nodes := upsertNode m.nodes k (fun n => { n with flags := flags', deleted := false }),
               log := swapAt m.log n.vptr x, len := len1, size := size1, dirty := dirty1 }
    else
      { m with nodes := upsertNode m.nodes k (fun n => { n with flags := flags', deleted := false, vptr := m.log.length + 1 }),
               log := { key := k, old := n.vptr, value := x } :: m.log,
               len := len1, size := size1 + (x.length : Int) - (oldVal.length : Int), dirty := dirty1 }

def write (m : VLog) (k : Bytes) (v : Option Bytes) (ops : List Nat) : VLog × Out :=
  if k.length > Gen.MemLimits.maxKeyLen then (m, .err .keyTooLarge)
  else if Spec.entryTooLarge k v m.entryLimit then (m, .err .entryTooLarge)
  else
    let m' := m.writeCore k v ops
    if v.isSome && decide (m'.size > (m.bufLimit : Int)) then (m', .err .txnTooLarge) else (m', .ok)

/-- RevertVAddr(hdr) for the newest entry `e`; `rest` is the log behind it -/
def revertVAddr (e : Entry) (rest : List Entry) (nodes : List Node) (len size : Int) : List Node × Int × Int :=
  let size1 := size - (e.value.length : Int)
  if e.old = 0 then
    match nodes.find? (fun n => n.key = e.key) with
    | some n =>
      let kept := KeyFlags.andPersistent n.flags
      if kept = 0 then
        (nodes.map (fun n => if n.key = e.key then { n with vptr := 0, flags := 0, deleted := true } else n),
          len - 1, size1 - (e.key.length : Int))
      else
        (nodes.map (fun n => if n.key = e.key then { n with vptr := 0, flags := kept } else n), len, size1)
    | none => (nodes, len, size1)     -- "revert an invalid node" (unreachable: every entry's node exists)
  else
    (nodes.map (fun n => if n.key = e.key then { n with vptr := e.old } else n), len,
      size1 + ((getValue rest e.old).length : Int))

/-- MemdbVlog.RevertToCheckpoint + Truncate: walk back from the end until the cursor is at `cp`
    (truncateLastCheckpoint is applied in `revertTo`) -/
def revertLog (cp : Nat) : List Entry → List Node → Int → Int → List Entry × List Node × Int × Int
  | [], nodes, len, size => ([], nodes, len, size)
  | e :: rest, nodes, len, size =>
    if rest.length + 1 ≤ cp then (e :: rest, nodes, len, size)
    else
      let (nodes', len', size') := revertVAddr e rest nodes len size
      revertLog cp rest nodes' len' size'

def revertTo (m : VLog) (cp : Nat) : VLog :=
  let (log', nodes', len', size') := revertLog cp m.log m.nodes m.len m.size
  { m with log := log', nodes := nodes', len := len', size := size', lastCp := min m.lastCp cp }

def snapCheckpoint (m : VLog) : Nat := match m.stages.head? with | some c => c | none => m.checkpoint

def nodeValue (m : VLog) (n : Node) : Option Bytes := if n.vptr = 0 then none else some (getValue m.log n.vptr)

def itemOfNode (m : VLog) (n : Node) : Item := { key := n.key, flags := n.flags, value := m.nodeValue n }

def iterItems (m : VLog) (lo hi : Bytes) (withFlags : Bool) : List Item :=
  (m.nodes.filter (fun n => !n.deleted && inRange lo hi n.key && (withFlags || n.vptr != 0))).map m.itemOfNode

def snapItems (m : VLog) (lo hi : Bytes) : List Item :=
  m.nodes.filterMap (fun n =>
    if !n.deleted && inRange lo hi n.key then
      (getSnapshotValue m.log n.vptr m.snapCheckpoint).map (fun v => { key := n.key, flags := 0, value := some v })
    else none)

/-- InspectKVInLog(head, tail = end): newest first, skipping entries that are not their node's current value -/
def inspectLog (m : VLog) (head : Nat) : List Entry → List Item
  | [] => []
  | e :: rest =>
    if rest.length + 1 ≤ head then []
    else
      match m.nodes.find? (fun n => n.key = e.key) with
      | some n => if n.vptr = rest.length + 1 then { key := n.key, flags := n.flags, value := some e.value } :: inspectLog m head rest
                  else inspectLog m head rest
      | none => inspectLog m head rest

def step (m : VLog) : Op → VLog × Out
  | .set k v ops => if v.isEmpty then (m, .err .nilValue) else m.write k (some v) ops
  | .del k ops => m.write k (some []) ops
  | .upd k ops => ((m.write k none ops).1, .ok)
  | .get k =>
    match m.findNode k with
    | some n => if n.vptr = 0 then (m, .notFound) else (m, .val (getValue m.log n.vptr))
    | none => (m, .notFound)
  | .getFlags k =>
    match m.findNode k with
    | some n => if n.deleted then (m, .notFound) else (m, .flags n.flags)
    | none => (m, .notFound)
  | .iter lo hi rev wf => (m, .items (ordered rev (m.iterItems lo hi wf)))
  | .snapGet k =>
    match m.findNode k with
    | some n =>
      if n.vptr = 0 then (m, .notFound)
      else (match getSnapshotValue m.log n.vptr m.snapCheckpoint with | some v => (m, .val v) | none => (m, .notFound))
    | none => (m, .notFound)
  | .snapIter lo hi rev => (m, .items (ordered rev (m.snapItems lo hi)))
  | .len => (m, .num m.len)
  | .size => (m, .num m.size)
  | .dirty => (m, .bool m.dirty)
  | .staging => ({ m with stages := m.stages ++ [m.checkpoint] }, .num (m.stages.length + 1))
  | .release h =>
    if h = 0 then (m, .ok)
    else if h ≠ m.stages.length then (m, .refused)
    else
      let d := m.dirty || (h == 1 && m.stages.head? != some m.checkpoint)
      ({ m with stages := m.stages.dropLast, dirty := d }, .ok)
  | .cleanup h =>
    if h = 0 then (m, .ok)
    else if h > m.stages.length then (m, .ok)
    else if h < m.stages.length then (m, .refused)
    else
      match m.stages.getLast? with
      | some cp => ({ (m.revertTo cp) with stages := m.stages.dropLast }, .ok)
      | none => (m, .ok)
  | .checkpoint => ({ m with lastCp := m.checkpoint }, .num m.checkpoint)
  | .revert cp =>
    if cp ≤ m.checkpoint && (match m.stages.getLast? with | some c => decide (c ≤ cp) | none => true) then (m.revertTo cp, .ok)
    else (m, .refused)
  | .inspect h =>
    if h = 0 then (m, .refused)
    else match m.stages[h - 1]? with
      | some head => (m, .items (m.inspectLog head m.log))
      | none => (m, .refused)
  | .hist k p =>
    match m.findNode k with
    | some n =>
      if n.vptr = 0 then (m, .notFound)
      else (match selectHist (fun _ v => p.eval v) m.log n.vptr with
        | some x => (m, .val x.2)
        | none => (m, .noMatch))
    | none => (m, .notFound)
  | .setLimits e b => ({ m with entryLimit := e, bufLimit := b }, .ok)

/-! ## ART's invalidation counters (art.go WriteSeqNo / SnapshotSeqNo); RBT has none -/

structure Seq where
  write : Nat := 0
  snap : Nat := 0
  deriving DecidableEq, Repr

/-- effect of one API call on the counters, given the state BEFORE the call -/
def seqStep (q : Seq) (m : VLog) : Op → Seq
  | .set k v _ =>
    if v.isEmpty || k.length > Gen.MemLimits.maxKeyLen || k.length + v.length > m.entryLimit then q
    else { write := q.write + 1, snap := if m.stages.isEmpty then q.snap + 1 else q.snap }
  | .del k _ =>
    if k.length > Gen.MemLimits.maxKeyLen || k.length > m.entryLimit then q
    else { write := q.write + 1, snap := if m.stages.isEmpty then q.snap + 1 else q.snap }
  | .upd k _ =>
    if k.length > Gen.MemLimits.maxKeyLen then q
    else { write := q.write + 1, snap := if m.stages.isEmpty then q.snap + 1 else q.snap }
  | .release h =>
    if h = 0 || h ≠ m.stages.length then q
    else { write := q.write + 1, snap := if h = 1 then q.snap + 1 else q.snap }
  | .cleanup h =>
    if h = 0 || h ≠ m.stages.length then q
    else { write := q.write + 1, snap := if h = 1 then q.snap + 1 else q.snap }
  | .revert cp =>
    if cp ≤ m.checkpoint && (match m.stages.getLast? with | some c => decide (c ≤ cp) | none => true) then
      { write := q.write + 1, snap := if (match m.stages.head? with | some c => decide (c < cp) | none => true) then q.snap + 1 else q.snap }
    else q
  | _ => q

end VLog
end CGV.MemBuf
