/-
  Model/Percolator.lean — the executable monitor of the C04 request-stream rules and the history oracles
  of C01/C02/C03/C05/C06, over the trace of HUB.md.  Core-only (linked into cgv-hub).

  The monitor is an acceptor: `Monitor.step : MState → Ev → Except String MState`.  An `Ev` is the
  protocol-relevant projection of a trace event (parsed by Driver/Hub.lean).
-/
import ClientGoVerif.Model.Mvcc
namespace CGV.Perc
open CGV CGV.Mvcc

/-- how an RPC ended, as far as the *sender* can know and as far as the *store* is concerned -/
inductive Fate
  | answered          -- executed, response delivered
  | lostResp          -- executed, response lost
  | notExecuted       -- definite: region error / never reached the store and the client knows it (region error)
  | unknownNotExec    -- dropped before delivery: not executed, but the client cannot know
  deriving DecidableEq, Repr, Inhabited

/-- buffered write of a transaction as the API saw it -/
inductive BufOp | set | insert | delete | lockOnly
  deriving DecidableEq, Repr, Inhabited

structure BufEntry where
  key : Bytes
  value : Bytes := []             -- for set/insert
  hasValue : Bool := false        -- a set or delete was issued (delete = empty value)
  presumeNotExists : Bool := false
  newlyInserted : Bool := false   -- the key was inserted earlier in this transaction (insert-then-delete)
  locked : Bool := false          -- pessimistically locked by LockKeys
  deriving Repr, Inhabited

/-- the mutation `initKeysAndMutations` derives from one buffer entry (`none` = not sent at all).
    Mirrors txnkv/transaction/2pc.go; ops as kvrpcpb codes: put 0, del 1, lock 2, insert 4, checkNotExists 6 -/
def initOp (pessimisticTxn : Bool) (b : BufEntry) : Option Op :=
  if !b.hasValue then (if b.locked then some .lock else none)
  else if !b.value.isEmpty then (if b.presumeNotExists then some .insert else some .put)
  else if !pessimisticTxn && b.presumeNotExists then some .checkNotExists
  else if b.newlyInserted then (if b.locked then some .lock else none)
  else some .del

structure TxnM where
  startTS : Nat
  client : String
  pess : Bool := false
  causal : Bool := false
  primary : Option Bytes := none
  prewritten : List (Bytes × Op × Bytes) := []      -- acknowledged prewrites (key, op, value)
  prewriteUnacked : Bool := false                    -- some prewrite attempt has no positive acknowledgement yet for its keys
  attemptedKeys : List Bytes := []                   -- keys of every prewrite attempt
  minCommits : List Nat := []
  commitPointMaybe : Bool := false                   -- a primary commit was sent and not definitely refused
  primaryCommitted : Option Nat := none
  commitCallTSO : Option Nat := none                 -- max ts issued when Commit was called
  committedKeys : List Bytes := []
  ended : Bool := false                              -- owner's Commit/Rollback returned
  lastAdvise : Nat := 0
  buffer : List BufEntry := []
  statusAnswers : List (Nat × Bool) := []            -- (commitTS, rolledBack) answers of CheckTxnStatus on its primary
  ttlSeen : Option Nat := none                       -- ttl of a lock of this txn as reported in a KeyIsLocked error
  deriving Repr, Inhabited

structure MState where
  txns : List TxnM := []
  maxTSO : Nat := 0
  clientTSO : List (String × Nat) := []
  deriving Repr, Inhabited

def MState.find (m : MState) (ts : Nat) : Option TxnM := m.txns.find? (·.startTS == ts)
def MState.upd (m : MState) (t : TxnM) : MState :=
  if m.txns.any (·.startTS == t.startTS) then { m with txns := m.txns.map fun x => if x.startTS == t.startTS then t else x }
  else { m with txns := t :: m.txns }
def MState.get (m : MState) (ts : Nat) (client : String) : TxnM :=
  match m.find ts with
  | some t => t
  | none => { startTS := ts, client := client }

/-- protocol-relevant events -/
inductive Ev
  | tso (client : String) (ts : Nat)
  | begin_ (client : String) (startTS : Nat) (pess : Bool)
  | bufSet (client : String) (startTS : Nat) (key value : Bytes) (insert : Bool)
  | bufDelete (client : String) (startTS : Nat) (key : Bytes)
  | bufLock (client : String) (startTS : Nat) (keys : List Bytes)
  | commitCalled (client : String) (startTS : Nat)
  | ended (client : String) (startTS : Nat)
  | prewrite (client : String) (fate : Fate) (startTS : Nat) (primary : Bytes) (muts : List (Bytes × Op × Bytes))
      (minCommitReq : Nat) (ok : Bool) (minCommitResp : Nat) (tryOnePC : Bool) (async : Bool) (secondaries : List Bytes)
  | commit (client : String) (fate : Fate) (startTS commitTS : Nat) (keys : List Bytes) (ok : Bool) (definiteErr : Bool)
  | rollback (client : String) (fate : Fate) (startTS : Nat) (keys : List Bytes)
  | status (client : String) (fate : Fate) (primary : Bytes) (lockTS callerTS currentTS : Nat) (rollbackIfNotExist : Bool)
      (answered : Bool) (ttl commitTS : Nat) (isErr : Bool)
  | resolve (client : String) (fate : Fate) (startTS commitTS : Nat) (infos : List (Nat × Nat))
  | heartbeat (client : String) (fate : Fate) (primary : Bytes) (startTS advise : Nat)
  | lockSeen (client : String) (lockTS ttl : Nat)            -- a KeyIsLocked error delivered to `client`
  deriving Repr

def isGC (client : String) : Bool := client.startsWith "gc"

def check (c : Bool) (msg : String) : Except String Unit := if c then .ok () else .error msg

/-- expected mutation set of a transaction from its buffer -/
def expectedMuts (t : TxnM) : List (Bytes × Op × Bytes) :=
  t.buffer.filterMap fun b => (initOp t.pess b).map fun op => (b.key, op, if op == .put || op == .insert then b.value else [])

def sameMuts (a b : List (Bytes × Op × Bytes)) : Bool :=
  a.all (fun x => b.contains x) && b.all (fun x => a.contains x)

def bufUpd (buf : List BufEntry) (key : Bytes) (f : BufEntry → BufEntry) : List BufEntry :=
  if buf.any (·.key == key) then buf.map fun b => if b.key == key then f b else b
  else buf ++ [f { key := key }]

/-- the monitor: rule numbers follow DESIGN §4 C04 -/
def Monitor.step (m : MState) : Ev → Except String MState
  | .tso client ts =>
    .ok { m with maxTSO := max m.maxTSO ts,
                 clientTSO := (client, ts) :: m.clientTSO.filter (·.1 != client) }
  | .begin_ client startTS pess => .ok (m.upd { (m.get startTS client) with client := client, pess := pess })
  | .bufSet client startTS key value insert =>
    let t := m.get startTS client
    .ok (m.upd { t with buffer := bufUpd t.buffer key fun b =>
      { b with value := value, hasValue := true, presumeNotExists := b.presumeNotExists || insert,
               newlyInserted := b.newlyInserted || insert } })
  | .bufDelete client startTS key =>
    let t := m.get startTS client
    .ok (m.upd { t with buffer := bufUpd t.buffer key fun b => { b with value := [], hasValue := true } })
  | .bufLock client startTS keys =>
    let t := m.get startTS client
    .ok (m.upd { t with buffer := keys.foldl (fun buf k => bufUpd buf k fun b => { b with locked := true }) t.buffer })
  | .commitCalled client startTS =>
    .ok (m.upd { (m.get startTS client) with commitCallTSO := some m.maxTSO })
  | .ended client startTS => .ok (m.upd { (m.get startTS client) with ended := true })
  | .lockSeen client lockTS ttl =>
    .ok (m.upd { (m.get lockTS client) with ttlSeen := some ttl })
  | .prewrite client fate startTS primary muts minReq ok minResp tryOnePC _async _secondaries => do
    let t := m.get startTS client
    -- rule 8: one primary per commit
    check (t.primary.isNone || t.primary == some primary) "rule8 prewrites of one commit name different primaries"
    -- rule 8: one-phase commit only with a single prewrite request
    check (!tryOnePC || t.attemptedKeys.all (fun k => muts.any (·.1 == k))) "rule8 try_one_pc with more than one prewrite request"
    -- rule 7 (request side): min_commit_ts > start ts
    check (minReq == 0 || minReq > startTS) "rule7 min_commit_ts not above start_ts"
    let acked := fate == .answered && ok
    let t' := { t with
      primary := some primary
      attemptedKeys := t.attemptedKeys ++ (muts.map (·.1)).filter (fun k => !t.attemptedKeys.contains k)
      prewritten := if acked then t.prewritten ++ muts.filter (fun x => !t.prewritten.contains x) else t.prewritten
      minCommits := if acked && minResp > 0 then minResp :: t.minCommits else t.minCommits }
    .ok (m.upd t')
  | .commit client fate startTS commitTS keys ok definiteErr => do
    let t := m.get startTS client
    -- rule 7
    check (commitTS > startTS) "rule7 commit_ts not above start_ts"
    check (t.minCommits.all (· ≤ commitTS)) "rule7 commit_ts below a min_commit_ts returned by prewrite"
    match t.commitCallTSO with
    | some x => check (t.causal || commitTS > x) "rule7 commit_ts not above a timestamp issued before Commit was called"
    | none => pure ()
    -- rule 1: every key being committed was acknowledged prewritten, and so was every mutation of the transaction
    let prewrittenKeys := (t.prewritten.filter (fun x => x.2.1 != .checkNotExists)).map (·.1)
    check (keys.all fun k => prewrittenKeys.contains k) "rule1 commit of a key whose prewrite was not acknowledged"
    check (t.attemptedKeys.all fun k => t.prewritten.any (·.1 == k)) "rule1 commit before every prewrite was acknowledged"
    -- rule 9: union of prewritten mutations = buffered writes (only when the API-level buffer is known)
    check (t.buffer.isEmpty || sameMuts t.prewritten (expectedMuts t)) "rule9 prewritten mutations differ from the buffered writes"
    -- rule 8: the primary is one of the locked mutations
    match t.primary with
    | some p => check (prewrittenKeys.contains p) "rule8 primary is not one of the locked mutations"
    | none => .error "rule8 commit without any prewrite"
    let hasPrimary := match t.primary with | some p => keys.contains p | none => false
    -- rule 2: secondaries only after the primary's commit succeeded
    check (hasPrimary || t.primaryCommitted.isSome) "rule2 secondary committed before the primary commit succeeded"
    match t.primaryCommitted with
    | some c => check (c == commitTS) "rule2 secondaries committed at a different commit ts than the primary"
    | none => pure ()
    let executedOk := (fate == .answered || fate == .lostResp) && ok
    let maybe := hasPrimary && !(fate == .notExecuted || (fate == .answered && definiteErr))
    .ok (m.upd { t with
      commitPointMaybe := t.commitPointMaybe || maybe
      primaryCommitted := if hasPrimary && executedOk then some commitTS else t.primaryCommitted
      committedKeys := if executedOk then t.committedKeys ++ keys else t.committedKeys })
  | .rollback client _fate startTS _keys => do
    let t := m.get startTS client
    -- rule 3: the owner never rolls back once the primary commit may have taken effect
    check (!(t.client == client && t.commitPointMaybe)) "rule3 rollback sent after a primary commit that may have taken effect"
    .ok m
  | .status client _fate _primary lockTS _callerTS currentTS rollbackIfNotExist answered ttl commitTS isErr => do
    let t := m.get lockTS client
    -- rule 5: the resolver's notion of "now"
    if currentTS == maxU64 then
      check (isGC client || t.ttlSeen == some 0 || t.ttlSeen.isNone) "rule5 current_ts = max for a lock with non-zero ttl outside GC"
    else
      check (currentTS ≤ m.maxTSO) "rule5 current_ts beyond every timestamp the oracle has issued"
    if rollbackIfNotExist && !isGC client then
      match t.ttlSeen with
      | some ttl' => check (physical lockTS + ttl' ≤ physical m.maxTSO) "rule5 rollback_if_not_exist for a lock whose ttl has not elapsed"
      | none => pure ()
    let t' := if answered && !isErr then { t with statusAnswers := (commitTS, ttl == 0 && commitTS == 0) :: t.statusAnswers } else t
    .ok (m.upd t')
  | .resolve client _fate startTS commitTS infos => do
    -- rule 4: a resolver applies only the outcome the store reported for that transaction
    let one (s c : Nat) : Except String Unit :=
      let t := m.get s client
      if t.client == client && (t.primaryCommitted == some c && c > 0) then .ok ()      -- the owner resolving its own committed txn
      else if c > 0 then check (t.statusAnswers.any fun a => a.1 == c) s!"rule4 resolve of {s} with commit ts {c} never reported by the store"
      else check (t.statusAnswers.any fun a => a.2) s!"rule4 resolve-rollback of {s} never reported rolled back by the store"
    if infos.isEmpty then one startTS commitTS else infos.forM fun (s, c) => one s c
    .ok m
  | .heartbeat client _fate primary startTS advise => do
    let t := m.get startTS client
    -- rule 6
    check (t.primary.isNone || t.primary == some primary) "rule6 heartbeat does not name the primary"
    check (advise ≥ t.lastAdvise) "rule6 advise_ttl decreased"
    check (!t.ended) "rule6 heartbeat after the transaction ended"
    .ok (m.upd { t with lastAdvise := advise })

/-! ## history oracles -/

/-- outcome of a transaction as the final MVCC state shows it -/
inductive Outcome
  | none                      -- no trace of the transaction
  | committed (c : Nat)
  | rolledBack
  | pending                   -- only locks
  | mixed (why : String)
  deriving DecidableEq, Repr, Inhabited

/-- C02/C14 `atomicCheck`: all records of `T` over all keys are data records with one commit ts, or all rollbacks;
    `allowLocks = false` additionally demands that no lock of `T` remains -/
def outcomeOf (s : Store) (T : Nat) : Outcome :=
  let recs := s.kv.flatMap fun (_, e) => e.writes.filter (·.startTS == T)
  let locks := s.kv.filter fun (_, e) => match e.lock with | some l => l.startTS == T | none => false
  let datas := recs.filter (·.vt != .rollback)
  let rbs := recs.filter (·.vt == .rollback)
  if !datas.isEmpty && !rbs.isEmpty then .mixed "committed on one key and rolled back on another"
  else match datas with
    | d :: rest =>
      if rest.all (·.commitTS == d.commitTS) then
        (if locks.isEmpty then .committed d.commitTS else .mixed "committed with a lock left")
      else .mixed "two commit timestamps"
    | [] =>
      if !rbs.isEmpty then (if locks.isEmpty then .rolledBack else .mixed "rolled back with a lock left")
      else if locks.isEmpty then .none else .pending

/-- value visible at `ts` on key `k` (committed data only) -/
def visible (s : Store) (k : Bytes) (ts : Nat) : Option Bytes :=
  (firstVisible (getEntry s.kv k).writes ts).map (·.value)

end CGV.Perc
