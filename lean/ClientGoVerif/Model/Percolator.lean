/-
  Model/Percolator.lean — the executable monitor of the C04 request-stream rules and the history oracles
  of C01/C02/C03/C05/C06, over the trace of HUB.md.  Core-only (linked into cgv-hub).

  The monitor is an acceptor: `Monitor.step : MState → Ev → Except String MState`.  An `Ev` is the
  protocol-relevant projection of a trace event (parsed by Driver/Hub.lean).
-/
import ClientGoVerif.Model.Mvcc
namespace CGV.Perc
open CGV CGV.Mvcc

/-- how an RPC ended, as far as the *sender* can know and as far as the *store* is concerned -/
inductive Fate
  | answered          -- executed, response delivered
  | lostResp          -- executed, response lost
  | notExecuted       -- definite: region error / never reached the store and the client knows it (region error)
  | unknownNotExec    -- dropped before delivery: not executed, but the client cannot know
  deriving DecidableEq, Repr, Inhabited

/-- buffered write of a transaction as the API saw it -/
inductive BufOp | set | insert | delete | lockOnly
  deriving DecidableEq, Repr, Inhabited

structure BufEntry where
  key : Bytes
  value : Bytes := []             -- for set/insert
  hasValue : Bool := false        -- a set or delete was issued (delete = empty value)
  presumeNotExists : Bool := false
  newlyInserted : Bool := false   -- the key was inserted earlier in this transaction (insert-then-delete)
  locked : Bool := false          -- pessimistically locked by LockKeys
  lazyCheck : Bool := false       -- written with the "constraint check in prewrite" flag (deferred check of an unlocked key)
  deriving Repr, Inhabited

/-- the mutation `initKeysAndMutations` derives from one buffer entry (`none` = not sent at all).
    Mirrors txnkv/transaction/2pc.go; ops as kvrpcpb codes: put 0, del 1, lock 2, insert 4, checkNotExists 6 -/
def initOp (pessimisticTxn : Bool) (b : BufEntry) : Option Op :=
  if !b.hasValue then (if b.locked then some .lock else none)
  else if !b.value.isEmpty then (if b.presumeNotExists then some .insert else some .put)
  else if !pessimisticTxn && b.presumeNotExists then some .checkNotExists
  else if b.newlyInserted then (if b.locked then some .lock else none)
  else some .del

structure TxnM where
  startTS : Nat
  client : String
  pess : Bool := false
  causal : Bool := false
  primary : Option Bytes := none
  prewritten : List (Bytes × Op × Bytes) := []      -- acknowledged prewrites (key, op, value)
  prewriteUnacked : Bool := false                    -- some prewrite attempt has no positive acknowledgement yet for its keys
  attemptedKeys : List Bytes := []                   -- keys of every prewrite attempt
  minCommits : List Nat := []
  asyncAcks : Nat := 0                               -- acknowledged prewrites answered with min_commit_ts > 0 (async commit in effect)
  plainAcks : Nat := 0                               -- acknowledged prewrites answered with min_commit_ts = 0
  commitPointMaybe : Bool := false                   -- a primary commit was sent and not definitely refused
  primaryCommitted : Option Nat := none
  commitCallTSO : Option Nat := none                 -- max ts issued when Commit was called
  committedKeys : List Bytes := []
  ended : Bool := false                              -- owner's Commit/Rollback returned
  lastAdvise : Nat := 0
  beatsAfterEnd : Nat := 0                           -- heartbeats seen after the owner's Commit/Rollback returned
  buffer : List BufEntry := []
  statusAnswers : List (Nat × Bool) := []            -- (commitTS, rolledBack) answers of CheckTxnStatus on its primary
  ttlSeen : Option Nat := none                       -- smallest ttl of a lock of this txn reported in a KeyIsLocked error
  secMinCommits : List Nat := []                     -- min_commit_ts of async locks reported by CheckSecondaryLocks / by the primary's status
  secOutcomes : List Nat := []                       -- commit ts reported by CheckSecondaryLocks when a lock was missing (0 = rolled back)
  relaxLocks : Bool := false                         -- aggressive locking was used: lock-only mutations are not predicted (rule 9)
  statusTTLs : List (String × Nat) := []             -- resolver ↦ the ttl its latest answered CheckTxnStatus on the primary reported
  plockedKeys : List Bytes := []                     -- keys of pessimistic lock requests that were (or may have been) executed without a key error
  beats : Nat := 0                                   -- heartbeats executed for this transaction
  deriving Repr, Inhabited

structure MState where
  txns : List TxnM := []
  maxTSO : Nat := 0
  clientTSO : List (String × Nat) := []
  deriving Repr, Inhabited

def MState.find (m : MState) (ts : Nat) : Option TxnM := m.txns.find? (·.startTS == ts)
def MState.upd (m : MState) (t : TxnM) : MState :=
  if m.txns.any (·.startTS == t.startTS) then { m with txns := m.txns.map fun x => if x.startTS == t.startTS then t else x }
  else { m with txns := t :: m.txns }
def MState.get (m : MState) (ts : Nat) (client : String) : TxnM :=
  match m.find ts with
  | some t => t
  | none => { startTS := ts, client := client }

/-- protocol-relevant events -/
inductive Ev
  | tso (client : String) (ts : Nat)
  | begin_ (client : String) (startTS : Nat) (pess : Bool)
  | bufSet (client : String) (startTS : Nat) (key value : Bytes) (insert : Bool)
  | bufDelete (client : String) (startTS : Nat) (key : Bytes)
  | bufLock (client : String) (startTS : Nat) (keys : List Bytes)
  | commitCalled (client : String) (startTS : Nat)
  | ended (client : String) (startTS : Nat)
  | prewrite (client : String) (fate : Fate) (startTS : Nat) (primary : Bytes) (muts : List (Bytes × Op × Bytes))
      (minCommitReq : Nat) (ok : Bool) (minCommitResp : Nat) (tryOnePC : Bool) (async : Bool) (secondaries : List Bytes)
  | commit (client : String) (fate : Fate) (startTS commitTS : Nat) (keys : List Bytes) (ok : Bool) (definiteErr : Bool)
  | rollback (client : String) (fate : Fate) (startTS : Nat) (keys : List Bytes)
  | status (client : String) (fate : Fate) (primary : Bytes) (lockTS callerTS currentTS : Nat) (rollbackIfNotExist : Bool)
      (answered : Bool) (ttl commitTS : Nat) (isErr : Bool) (action : Nat)
  | resolve (client : String) (fate : Fate) (startTS commitTS : Nat) (infos : List (Nat × Nat))
  | heartbeat (client : String) (fate : Fate) (primary : Bytes) (startTS advise : Nat)
  | lockSeen (client : String) (lockTS ttl : Nat)            -- a KeyIsLocked error delivered to `client`
  | secAnswer (client : String) (startTS : Nat) (minCommits : List Nat) (missing : Bool) (commitTS : Nat)
      -- answer of CheckSecondaryLocks, or (missing = false) the async primary's min_commit_ts from CheckTxnStatus
  | relaxLocks (client : String) (startTS : Nat)            -- aggressive locking call seen for this transaction
  | bufLazy (client : String) (startTS : Nat) (key : Bytes)   -- the key was written with the constraint-check-in-prewrite flag
  | prewriteActs (client : String) (startTS : Nat) (acts : List (Bytes × Nat))
      -- the per-mutation pessimistic action of a prewrite request: 0 skip, 1 pessimistic check, 2 constraint check
  | secCheck (client : String) (startTS : Nat)              -- a CheckSecondaryLocks request (async-commit recovery) was sent by `client`
  | plock (client : String) (fate : Fate) (startTS : Nat) (primary : Bytes) (keys : List Bytes) (ok : Bool)
      -- a PessimisticLock request; ok = answered without a key error
  deriving Repr

def isGC (client : String) : Bool := client.startsWith "gc"

def check (c : Bool) (msg : String) : Except String Unit := if c then .ok () else .error msg

/-- expected mutation set of a transaction from its buffer -/
def expectedMuts (t : TxnM) : List (Bytes × Op × Bytes) :=
  t.buffer.filterMap fun b => (initOp t.pess b).map fun op => (b.key, op, if op == .put || op == .insert then b.value else [])

def sameMuts (a b : List (Bytes × Op × Bytes)) : Bool :=
  a.all (fun x => b.contains x) && b.all (fun x => a.contains x)

/-- rule 9 comparison; with aggressive locking the set of lock-only mutations depends on which locks the retries kept,
    which the monitor does not model: lock-only mutations are then left out on both sides -/
def mutsAgree (relax : Bool) (a b : List (Bytes × Op × Bytes)) : Bool :=
  if relax then sameMuts (a.filter (·.2.1 != .lock)) (b.filter (·.2.1 != .lock)) else sameMuts a b

def bufUpd (buf : List BufEntry) (key : Bytes) (f : BufEntry → BufEntry) : List BufEntry :=
  if buf.any (·.key == key) then buf.map fun b => if b.key == key then f b else b
  else buf ++ [f { key := key }]

/-- the checks (rule, verdict) an event must pass in state `m`; rule numbers follow DESIGN §4 C04 -/
def checksOf (m : MState) : Ev → List (Bool × String)
  | .prewrite client _fate startTS primary muts minReq _ok _minResp tryOnePC _async _secondaries =>
    let t := m.get startTS client
    [ (t.primary.isNone || t.primary == some primary, "rule8 prewrites of one commit name different primaries"),
      (!tryOnePC || t.attemptedKeys.all (fun k => muts.any (·.1 == k)), "rule8 try_one_pc with more than one prewrite request"),
      (minReq == 0 || minReq > startTS, "rule7 min_commit_ts not above start_ts"),
      -- rule 8: an async-commit primary lists exactly all other locked keys (when the buffered writes are known)
      (!(_async && muts.any (·.1 == primary)) || t.buffer.isEmpty || t.relaxLocks ||
        (let others := ((expectedMuts t).filter (fun x => x.2.1 != .checkNotExists && x.1 != primary)).map (·.1)
         others.all (fun k => _secondaries.contains k) && _secondaries.all (fun k => others.contains k)),
        "rule8 async-commit primary does not list exactly the other locked keys as secondaries") ]
  | .commit client _fate startTS commitTS keys _ok _definiteErr =>
    let t := m.get startTS client
    let prewrittenKeys := (t.prewritten.filter (fun x => x.2.1 != .checkNotExists)).map (·.1)
    let hasPrimary := match t.primary with | some p => keys.contains p | none => false
    [ (commitTS > startTS, "rule7 commit_ts not above start_ts"),
      (t.minCommits.all (· ≤ commitTS), "rule7 commit_ts below a min_commit_ts returned by prewrite"),
      (match t.commitCallTSO with | some x => t.causal || commitTS > x | none => true,
        "rule7 commit_ts not above a timestamp issued before Commit was called"),
      (keys.all fun k => prewrittenKeys.contains k, "rule1 commit of a key whose prewrite was not acknowledged"),
      (t.attemptedKeys.all fun k => t.prewritten.any (·.1 == k), "rule1 commit before every prewrite was acknowledged"),
      (t.buffer.isEmpty || mutsAgree t.relaxLocks t.prewritten (expectedMuts t), "rule9 prewritten mutations differ from the buffered writes"),
      (match t.primary with | some p => prewrittenKeys.contains p | none => false, "rule8 primary is not one of the locked mutations"),
      -- ("unless async commit": once every prewrite was acknowledged with a min_commit_ts the transaction is committed
      --  and the client commits primary and secondaries in the background in any order)
      (hasPrimary || t.primaryCommitted.isSome || (t.asyncAcks > 0 && t.plainAcks == 0),
        "rule2 secondary committed before the primary commit succeeded"),
      (match t.primaryCommitted with | some c => c == commitTS | none => true,
        "rule2 secondaries committed at a different commit ts than the primary") ]
  | .rollback client _fate startTS _keys =>
    let t := m.get startTS client
    [ (!(t.client == client && t.commitPointMaybe), "rule3 rollback sent after a primary commit that may have taken effect") ]
  | .status client _fate _primary lockTS _callerTS currentTS rollbackIfNotExist _answered _ttl _commitTS _isErr _action =>
    let t := m.get lockTS client
    [ (if currentTS == maxU64 then isGC client || t.ttlSeen == some 0 || t.ttlSeen.isNone else currentTS ≤ m.maxTSO,
        "rule5 current_ts beyond what the resolver's oracle has seen, or max for a live lock outside GC"),
      (!(rollbackIfNotExist && !isGC client) ||
        (match t.ttlSeen with | some ttl' => physical lockTS + ttl' ≤ physical m.maxTSO | none => true),
        "rule5 rollback_if_not_exist for a lock whose ttl has not elapsed") ]
  | .resolve client _fate startTS commitTS infos =>
    let one (s c : Nat) : Bool :=
      let t := m.get s client
      if t.client == client && (t.primaryCommitted == some c && c > 0) then true
      else if c > 0 then
        (t.statusAnswers.any fun a => a.1 == c) || t.secOutcomes.contains c ||
          -- async commit recovery with every lock present: commit ts = the largest min_commit_ts reported
          (!t.secMinCommits.isEmpty && !t.secOutcomes.contains 0 && c == t.secMinCommits.foldl max 0)
      else (t.statusAnswers.any fun a => a.2) || t.secOutcomes.contains 0
    [ (if infos.isEmpty then one startTS commitTS else infos.all fun (s, c) => one s c,
        "rule4 resolve with an outcome the store never reported for that transaction") ]
  | .heartbeat client _fate primary startTS advise =>
    let t := m.get startTS client
    [ (t.primary.isNone || t.primary == some primary, "rule6 heartbeat does not name the primary"),
      (advise ≥ t.lastAdvise, "rule6 advise_ttl decreased"),
      (!t.ended, s!"rule6 heartbeat after the transaction ended (#{t.beatsAfterEnd + 1})") ]
  | .prewriteActs client startTS acts =>
    -- rule 9, per-mutation action of a PESSIMISTIC transaction: a key it holds a pessimistic lock on is prewritten with the
    -- pessimistic check (the store verifies that lock), an unlocked key written with the lazy flag with the constraint
    -- check, any other key with neither (aggressive locking: lock state not modelled)
    let t := m.get startTS client
    [ (!t.pess || t.relaxLocks || t.buffer.isEmpty ||
        acts.all (fun (k, a) => match t.buffer.find? (·.key == k) with
          | some b => a == (if b.locked then 1 else if b.lazyCheck then 2 else 0)
          | none => true),
        "rule9 pessimistic action of a prewritten key does not follow its lock state (locked: pessimistic check; lazy: constraint check)") ]
  | .secCheck client startTS =>
    -- rule 5: async-commit recovery starts only after the ttl that THIS resolver's status check on the primary was shown
    -- has elapsed on a clock it can have seen (GC's batch resolution works below the safe point and is exempt)
    let t := m.get startTS client
    [ (isGC client ||
        (match t.statusTTLs.find? (·.1 == client) with
         | some (_, ttl) => ttl == 0 || physical startTS + ttl ≤ physical m.maxTSO
         | none => true),
        "rule5 async-commit recovery (CheckSecondaryLocks) before the ttl reported by the status check has elapsed") ]
  | .plock client _fate startTS primary keys _ok =>
    -- rule 8: the primary a pessimistic lock request names is locked by this request or was locked by an earlier one
    let t := m.get startTS client
    [ (keys.contains primary || t.plockedKeys.contains primary,
        "rule8 pessimistic lock request names a primary that is neither locked nor being locked") ]
  | _ => []

/-- the state after an accepted event -/
def applyEv (m : MState) : Ev → MState
  | .tso client ts =>
    { m with maxTSO := max m.maxTSO ts, clientTSO := (client, ts) :: m.clientTSO.filter (·.1 != client) }
  | .begin_ client startTS pess => m.upd { (m.get startTS client) with client := client, pess := pess }
  | .bufSet client startTS key value insert =>
    let t := m.get startTS client
    m.upd { t with buffer := bufUpd t.buffer key fun b =>
      { b with value := value, hasValue := true, presumeNotExists := b.presumeNotExists || insert,
               newlyInserted := b.newlyInserted || insert } }
  | .bufDelete client startTS key =>
    let t := m.get startTS client
    m.upd { t with buffer := bufUpd t.buffer key fun b => { b with value := [], hasValue := true } }
  | .bufLock client startTS keys =>
    let t := m.get startTS client
    m.upd { t with buffer := keys.foldl (fun buf k => bufUpd buf k fun b => { b with locked := true }) t.buffer }
  | .commitCalled client startTS => m.upd { (m.get startTS client) with commitCallTSO := some m.maxTSO }
  | .ended client startTS => m.upd { (m.get startTS client) with ended := true }
  | .lockSeen client lockTS ttl =>
    let t := m.get lockTS client
    m.upd { t with ttlSeen := some (match t.ttlSeen with | some x => min x ttl | none => ttl) }
  | .relaxLocks client startTS => m.upd { (m.get startTS client) with relaxLocks := true }
  | .secAnswer client startTS minCommits missing commitTS =>
    let t := m.get startTS client
    m.upd { t with secMinCommits := minCommits ++ t.secMinCommits,
                   secOutcomes := if missing then commitTS :: t.secOutcomes else t.secOutcomes }
  | .prewrite client fate startTS primary muts _minReq ok minResp _tryOnePC _async _secondaries =>
    let t := m.get startTS client
    let acked := fate == .answered && ok
    m.upd { t with
      primary := some primary
      attemptedKeys := t.attemptedKeys ++ (muts.map (·.1)).filter (fun k => !t.attemptedKeys.contains k)
      prewritten := if acked then t.prewritten ++ muts.filter (fun x => !t.prewritten.contains x) else t.prewritten
      minCommits := if acked && minResp > 0 then minResp :: t.minCommits else t.minCommits
      asyncAcks := if acked && minResp > 0 then t.asyncAcks + 1 else t.asyncAcks
      plainAcks := if acked && minResp == 0 then t.plainAcks + 1 else t.plainAcks }
  | .commit client fate startTS commitTS keys ok definiteErr =>
    let t := m.get startTS client
    let hasPrimary := match t.primary with | some p => keys.contains p | none => false
    let executedOk := (fate == .answered || fate == .lostResp) && ok
    let maybe := hasPrimary && !(fate == .notExecuted || (fate == .answered && definiteErr))
    -- an answered definite error of the primary commit settles every earlier primary commit whose outcome was lost:
    -- the request is idempotent, had an earlier one taken effect this one would have answered success
    let settled := hasPrimary && fate == .answered && definiteErr && !ok
    m.upd { t with
      commitPointMaybe := if settled then false else t.commitPointMaybe || maybe
      primaryCommitted := if hasPrimary && executedOk then some commitTS else t.primaryCommitted
      committedKeys := if executedOk then t.committedKeys ++ keys else t.committedKeys }
  | .rollback _ _ _ _ => m
  | .status client _fate _primary lockTS _callerTS _currentTS _rb answered ttl commitTS isErr action =>
    let t := m.get lockTS client
    if answered && !isErr then
      -- "rolled back" is what the actions NoAction / TTLExpireRollback / LockNotExistRollback (codes 0, 1, 2) say with ttl 0
      -- and no commit ts; MinCommitTSPushed carries a ttl; TTLExpirePessimisticRollback (4) and LockNotExistDoNothing (5) only
      -- say that the pessimistic lock asked about is gone / that nothing is at THIS key — nothing about the transaction
      m.upd { t with statusAnswers := (commitTS, ttl == 0 && commitTS == 0 && action ≤ 2) :: t.statusAnswers,
                     statusTTLs := (client, ttl) :: t.statusTTLs.filter (·.1 != client) }
    else m
  | .resolve _ _ _ _ _ => m
  | .heartbeat client _fate _primary startTS advise =>
    let t := m.get startTS client
    m.upd { t with lastAdvise := advise, beatsAfterEnd := if t.ended then t.beatsAfterEnd + 1 else t.beatsAfterEnd,
                   beats := if _fate == .answered || _fate == .lostResp then t.beats + 1 else t.beats }
  | .secCheck _ _ => m
  | .prewriteActs _ _ _ => m
  | .bufLazy client startTS key =>
    let t := m.get startTS client
    m.upd { t with buffer := bufUpd t.buffer key fun b => { b with lazyCheck := true } }
  | .plock client fate startTS _primary keys ok =>
    let t := m.get startTS client
    if (fate == .answered && ok) || fate == .lostResp || fate == .unknownNotExec then
      m.upd { t with plockedKeys := t.plockedKeys ++ keys.filter (fun k => !t.plockedKeys.contains k) }
    else m

/-- the monitor: an event is accepted iff all its checks hold; the first failing rule is reported -/
def Monitor.step (m : MState) (ev : Ev) : Except String MState :=
  match (checksOf m ev).find? (fun c => !c.1) with
  | some (_, msg) => .error msg
  | none => .ok (applyEv m ev)

/-! ## history oracles -/

/-- outcome of a transaction as the final MVCC state shows it -/
inductive Outcome
  | none                      -- no trace of the transaction
  | committed (c : Nat)
  | rolledBack
  | pending                   -- only locks
  | mixed (why : String)
  deriving DecidableEq, Repr, Inhabited

def recsOf (s : Store) (T : Nat) : List Write := s.kv.flatMap fun p => p.2.writes.filter (·.startTS == T)
def hasLockOf (s : Store) (T : Nat) : Bool :=
  s.kv.any fun p => match p.2.lock with | some l => l.startTS == T | none => false
def allSameCommit : List Write → Bool
  | [] => true
  | d :: rest => rest.all (·.commitTS == d.commitTS)

/-- C02/C14 `atomicCheck`: all records of `T` over all keys are data records with one commit ts, or all rollbacks;
    a lock of `T` next to records of `T` is reported as `mixed "… lock left"` -/
def outcomeOf (s : Store) (T : Nat) : Outcome :=
  let datas := (recsOf s T).filter (·.vt != .rollback)
  let rbs := (recsOf s T).filter (·.vt == .rollback)
  let locked := hasLockOf s T
  if !datas.isEmpty && !rbs.isEmpty then .mixed "committed on one key and rolled back on another"
  else if !datas.isEmpty then
    (if !allSameCommit datas then .mixed "two commit timestamps"
     else if locked then .mixed "committed with a lock left"
     else .committed ((datas.head?.map (·.commitTS)).getD 0))
  else if !rbs.isEmpty then (if locked then .mixed "rolled back with a lock left" else .rolledBack)
  else if locked then .pending else .none

/-- C03 `toldCheck`: a commit ts at which data of `T` is in the store (the outcome's, or — for a mixed outcome — the first
    data record's), none when no key carries a data record of `T` -/
def committedAtOf (s : Store) (T : Nat) : Option Nat :=
  match outcomeOf s T with
  | .committed c => some c
  | .mixed _ => ((s.kv.flatMap fun p => p.2.writes.filter fun w => w.startTS == T && w.vt != .rollback).head?).map (·.commitTS)
  | _ => none

/-- value visible at `ts` on key `k` (committed data only) -/
def visible (s : Store) (k : Bytes) (ts : Nat) : Option Bytes :=
  (firstVisible (getEntry s.kv k).writes ts).map (·.value)

/-- the commit ts of transaction `T` as its PRIMARY shows it (a data / lock record of `T` on the primary key) -/
def primaryCommitTS (s : Store) (primary : Bytes) (T : Nat) : Option Nat :=
  match txnCommitInfo (getEntry s.kv primary).writes T with
  | some w => if w.vt != .rollback then some w.commitTS else none
  | none => none

/-- C05: the value a snapshot at `ts` must see on `k` — committed data, and the value of a prewrite lock still on the key
    whose transaction's PRIMARY is committed at or below `ts` (such a transaction is committed; a reader resolves the lock
    or reads through it; nothing else can have committed on the key since the lock was written) -/
def visibleL (s : Store) (k : Bytes) (ts : Nat) : Option Bytes :=
  match (getEntry s.kv k).lock with
  | some l =>
    if l.op == .put || l.op == .del || l.op == .insert then
      match primaryCommitTS s l.primary l.startTS with
      | some c => if c ≤ ts then (if l.op == .del then none else some l.value) else visible s k ts
      | none => visible s k ts
    else visible s k ts
  | none => visible s k ts

def snapRangeL (s : Store) (lo hi : Bytes) (ts : Nat) : List (Bytes × Bytes) :=
  s.kv.filterMap fun p => if inRange lo hi p.1 then (visibleL s p.1 ts).map fun v => (p.1, v) else none

/-- C05: the pairs a snapshot scan of [lo, hi) at `ts` shows, in ascending key order (committed data only) -/
def snapRange (s : Store) (lo hi : Bytes) (ts : Nat) : List (Bytes × Bytes) :=
  s.kv.filterMap fun p => if inRange lo hi p.1 then (visible s p.1 ts).map fun v => (p.1, v) else none

end CGV.Perc
