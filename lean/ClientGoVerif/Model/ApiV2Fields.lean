/-
  The field walker of C15: what codec v2 does to ONE key placed in a key-bearing field, as a function of the
  catalogue row's OBSERVED classification (effect, role, empty-key behaviour).  This is the model of the per-field
  arms of `EncodeRequest` / `DecodeResponse` (`c.EncodeKey(r.Key)`, `c.encodeRange(...)`, `c.DecodeKey(...)`,
  `c.DecodeRegionRange(...)`, `c.DecodeBucketKeys(...)`); a row whose observed effect is `unchanged` / `error` / … gets exactly that action,
  so the transparency and isolation theorems below genuinely depend on the row satisfying the rule.
-/
import ClientGoVerif.Model.ApiV2
import ClientGoVerif.Model.ApiV2Catalogue
namespace CGV.ApiV2.Cat
open CGV CGV.ApiV2

/-- the codec's action on one key `x` in the field described by row `r` -/
def FieldRow.action (ks : Keyspace) (r : FieldRow) (x : Bytes) : Except Err Bytes :=
  match r.effect with
  | .prefixed =>
    if x.isEmpty then
      match r.empty with
      | .kend => .ok ks.endKey      -- `encodeRange`: empty end = end of the keyspace
      | .kstart => .ok ks.pfx       -- `EncodeKey(nil)` = the bare prefix
      | .empty => .ok []            -- "left empty to indicate it is not set" (Commit / Flush primary_key)
      | _ => .error .decode
    else .ok (encodeKey ks x)
  | .stripped => decodeKey ks x
  | .strippedRegion =>
    -- region bounds are decoded pairwise by `DecodeRegionRange`; alone (other bound empty) as probed:
    match r.role with
    | .start => match decodeRegionRange ks x [] with
      | .ok p => .ok p.1
      | .error e => .error e
    | .end_ => match decodeRegionRange ks [] x with
      | .ok p => .ok p.2
      | .error e => .error e
    -- region bucket keys (`BucketVersionNotMatch.keys` through `DecodeBucketKeys`): an inner bucket key is
    -- mem-decoded and stripped when it carries the prefix, otherwise it is not delivered
    | .key => match memDecode x with
      | .ok k => if Bytes.isPrefix ks.pfx k then .ok (k.drop ks.pfx.length) else .error .outOfBound
      | .error e => .error e
  | .unchanged => .ok x
  | _ => .error .decode

/-- repeated fields (`keys`, `secondaries`, `mutations[].key`, …): the action element-wise, first error wins -/
def FieldRow.actionAll (ks : Keyspace) (r : FieldRow) : List Bytes → Except Err (List Bytes)
  | [] => .ok []
  | x :: xs =>
    match r.action ks x with
    | .error e => .error e
    | .ok y =>
      match FieldRow.actionAll ks r xs with
      | .error e => .error e
      | .ok ys => .ok (y :: ys)

/-- a key sent through request field `rq` by a client of keyspace `a`, stored, and echoed back in response field
    `rp` to a client of keyspace `b` (pairs, lock infos, key errors carry the very bytes the store received) -/
def echo (a b : Keyspace) (rq rp : FieldRow) (k : Bytes) : Except Err Bytes :=
  match rq.action a k with
  | .ok w => rp.action b w
  | .error e => .error e

def echoAll (a b : Keyspace) (rq rp : FieldRow) (ks : List Bytes) : Except Err (List Bytes) :=
  match rq.actionAll a ks with
  | .ok ws => rp.actionAll b ws
  | .error e => .error e

end CGV.ApiV2.Cat
