/- line-protocol parsing/printing helpers shared by the stateful drivers (core-only) -/
import ClientGoVerif.Model.Bytes
namespace CGV

/-- "-" = empty list; otherwise comma separated -/
def splitList (s : String) : List String := if s == "-" then [] else s.splitOn ","

def parseNatList (s : String) : Option (List Nat) := (splitList s).mapM String.toNat?
/-- list of hex byte strings; an element "~" is the empty byte string -/
def parseHexList (s : String) : Option (List Bytes) :=
  (splitList s).mapM fun x => if x == "~" then some [] else parseHex x

def hexOrTilde (b : Bytes) : String := if b.isEmpty then "~" else Bytes.toHex b
def showList (l : List String) : String := if l.isEmpty then "-" else ",".intercalate l
def parseBool (s : String) : Option Bool := if s == "1" then some true else if s == "0" then some false else none
def showBool (b : Bool) : String := if b then "1" else "0"

end CGV
