/-
  Model of /repo/txnkv/rangetask/range_task.go (RunOnRange, rangeTaskWorker.run), delete_range.go
  (sendReqOnRange), /repo/tikv/gc.go (ResolveLocksForRange over scanLocksInOneRegionWithRange /
  batchResolveLocksInOneRegion) and /repo/tikv/kv.go (CheckVisibility).   (C14)   Core-only, executable.

  Conventions (as in the Go code):
  * a key is a `Bytes`; the EMPTY end key means +∞, the empty start key is the smallest key (= -∞);
  * a region layout is the list of its split points; the regions are (-∞,p1) [p1,p2) … [pn,+∞);
    nothing is assumed about the list (order, duplicates, empty entries): `regionEnd` is the least split
    point strictly above the key;
  * the layout may change between two loads: `layouts i` is the layout PD answers the i-th load with;
  * loops take fuel; `none` / `false` means "the Go loop has not returned yet" (continuous splitting in front of
    the cursor can keep the real loop running for ever; see `runOnRange_static_terminates`).
-/
import ClientGoVerif.Model.Bytes
import ClientGoVerif.Generated.RangeTaskConsts
namespace CGV.RangeTask
open CGV

abbrev Layout := List Bytes

/-- Go: `bytes.Compare(a, b) >= 0` -/
def geB (a b : Bytes) : Bool := !(Bytes.lt a b)

/-- End key of the region that contains `key` (`[]` = +∞): the least split point strictly above `key`. -/
def regionEnd : Layout → Bytes → Bytes
  | [], _ => []
  | p :: ps, key =>
    let r := regionEnd ps key
    if Bytes.lt key p && (r.isEmpty || Bytes.lt p r) then p else r

/-- Start key of the region that contains `key` (`[]` = -∞): the greatest split point not above `key`. -/
def regionStart : Layout → Bytes → Bytes
  | [], _ => []
  | p :: ps, key =>
    let r := regionStart ps key
    if Bytes.le p key && Bytes.le r p then p else r

/-- `BatchLoadRegionsFromKey(key, n+1)`: end key of the last of (at most) `n+1` consecutive regions
    starting with the one that contains `key`. -/
def batchEnd (l : Layout) : Nat → Bytes → Bytes
  | 0, key => regionEnd l key
  | n + 1, key =>
    let e := regionEnd l key
    if e.isEmpty then [] else batchEnd l n e

/-- a half-open key range `[s, e)`, `e = []` meaning unbounded -/
structure Task where
  s : Bytes
  e : Bytes
  deriving DecidableEq, Repr

/-- `k ∈ [t.s, t.e)` -/
def Task.memB (t : Task) (k : Bytes) : Bool := Bytes.le t.s k && (t.e.isEmpty || Bytes.lt k t.e)

/-- Common shape of the loop of `RunOnRange` (`next` = end of the batch of regions) and of
    `DeleteRangeTask.sendReqOnRange` (`next` = end of the located region):
    cut `[key, endKey)` at the boundaries delivered by `next`, the last piece is clipped to `endKey`.
    Returns the pieces and whether the loop has returned. -/
def splitLoop (next : Nat → Bytes → Bytes) (endKey : Bytes) : Nat → Nat → Bytes → List Task × Bool
  | 0, _, _ => ([], false)
  | fuel + 1, i, key =>
    let rangeEnd := next i key
    -- isLast := len(task.EndKey) == 0 || (len(endKey) > 0 && bytes.Compare(task.EndKey, endKey) >= 0)
    let isLast := rangeEnd.isEmpty || (!endKey.isEmpty && geB rangeEnd endKey)
    if isLast then ([⟨key, endKey⟩], true)
    else
      let r := splitLoop next endKey fuel (i + 1) rangeEnd
      (⟨key, rangeEnd⟩ :: r.1, r.2)

/-- the early exit of RunOnRange ("empty range task executed. ignored") and the loop-head test of sendReqOnRange -/
def emptyRange (s e : Bytes) : Bool := !e.isEmpty && geB s e

/-- `Runner.RunOnRange(startKey, endKey)` without failures: the sub-ranges pushed to the workers, in order.
    `regionsPerTask ≥ 1` (SetRegionsPerTask panics otherwise); `none` = fuel exhausted. -/
def runOnRange (layouts : Nat → Layout) (regionsPerTask fuel : Nat) (s e : Bytes) : Option (List Task) :=
  if emptyRange s e then some []
  else
    match splitLoop (fun i k => batchEnd (layouts i) (regionsPerTask - 1) k) e fuel 0 s with
    | (ts, true) => some ts
    | (_, false) => none

/-- `DeleteRangeTask.sendReqOnRange(r)`: the (StartKey, EndKey) of the DeleteRange requests that succeed -/
def deleteReqs (layouts : Nat → Layout) (fuel : Nat) (t : Task) : Option (List Task) :=
  if emptyRange t.s t.e then some []
  else
    match splitLoop (fun i k => regionEnd (layouts i) k) t.e fuel 0 t.s with
    | (rs, true) => some rs
    | (_, false) => none

/-- all requests of `DeleteRangeTask.Execute`: `dl j` is the layout sequence seen while handling the j-th sub-range -/
def deleteRangeReqsAux (dl : Nat → Nat → Layout) (fuel : Nat) : Nat → List Task → Option (List Task)
  | _, [] => some []
  | j, t :: ts =>
    match deleteReqs (dl j) fuel t, deleteRangeReqsAux dl fuel (j + 1) ts with
    | some a, some b => some (a ++ b)
    | _, _ => none

def deleteRangeReqs (layouts : Nat → Layout) (dl : Nat → Nat → Layout) (fuel : Nat) (s e : Bytes) : Option (List Task) :=
  match runOnRange layouts RangeTaskGen.defaultRegionsPerTask fuel s e with
  | some ts => deleteRangeReqsAux dl fuel 0 ts
  | none => none

/-- store content (a set of keys) after the given DeleteRange requests -/
def applyDeletes (keys : List Bytes) (reqs : List Task) : List Bytes :=
  keys.filter fun k => !reqs.any (·.memB k)

/-! ## result logic of RunOnRange / rangeTaskWorker.run -/

inductive Err | handler | canceled | load
  deriving DecidableEq, Repr

/-- what one worker goroutine did: the results of the handler calls it made, in order (`true` = the handler
    returned an error), and whether it found `ctx.Done()` when it took its next task. Which worker takes which
    task is scheduler nondeterminism and therefore an input. -/
structure WorkerTrace where
  outcomes : List Bool
  sawCancel : Bool

/-- `w.err` after `run` returned: the first handler error stops the worker (`cancel(); break`) -/
def workerErr : List Bool → Bool → Option Err
  | [], c => if c then some .canceled else none
  | true :: _, _ => some .handler
  | false :: r, c => workerErr r c

/-- number of handler calls the worker really made (nothing after its first failure) -/
def workerHandled : List Bool → Nat
  | [] => 0
  | true :: _ => 1
  | false :: r => workerHandled r + 1

/-- the error RunOnRange returns: a failed region load returns at once, otherwise the first worker (in
    creation order) whose `err` is set -/
def runResult (loadFailed : Bool) (ws : List WorkerTrace) : Option Err :=
  if loadFailed then some .load else ws.findSome? fun w => workerErr w.outcomes w.sawCancel

/-- one worker, the `failIdx`-th handler call fails: handled sub-ranges and result (deterministic) -/
def runSequential (tasks : List Task) (failIdx : Option Nat) : List Task × Option Err :=
  match failIdx with
  | some f => if f < tasks.length then (tasks.take (f + 1), some .handler) else (tasks, none)
  | none => (tasks, none)

/-! ## RunOnRange as a scheduled system: producer, task channel, workers, cancellation of the caller's context

  The producer loop pushes the sub-ranges in order into `taskCh` (capacity = concurrency) through
  `select { case taskCh <- task: ; case <-ctx.Done(): break Loop }`, closes the channel and waits; each worker pulls,
  tests `ctx.Done()` (⇒ `w.err = ctx.Err(); return`), calls the handler, and on a handler error sets `w.err`, cancels
  and leaves. RunOnRange returns the first non-nil `w.err`, else nil. Workers are interchangeable for the result
  class and the set of handled sub-ranges, so they are counted, not named. The schedule (which goroutine moves,
  which ready `select` case is taken, when the caller cancels) is the input `List RunEv`; an event that is not
  enabled is skipped, so every list is a schedule. -/

inductive RunEv
  | cancel             -- the caller's context is cancelled
  | push               -- producer: `case taskCh <- task` (closes the channel after the last sub-range)
  | abandon            -- producer: `case <-ctx.Done(): break Loop` (closes the channel, drops what was not pushed)
  | pull               -- an idle worker receives from the channel (or finds it closed and empty)
  | finish (fail : Bool) -- a busy worker's handler call returns (`fail` = with an error)
  deriving DecidableEq, Repr

structure RunSt where
  cap : Nat                 -- capacity of taskCh (= concurrency)
  pending : List Task       -- not yet pushed
  queue : List Task         -- in the channel
  handled : List Task       -- the handler was called on these
  closed : Bool
  abandoned : Bool          -- the producer left through ctx.Done() with sub-ranges not pushed
  cancelled : Bool          -- the runner's context is done
  idle : Nat
  busy : Nat
  okExit : Nat              -- workers that returned with w.err == nil
  errExit : Nat             -- workers that returned with w.err != nil
  deriving DecidableEq, Repr

def RunSt.init (tasks : List Task) (workers : Nat) : RunSt :=
  { cap := workers, pending := tasks, queue := [], handled := [], closed := tasks.isEmpty, abandoned := false,
    cancelled := false, idle := workers, busy := 0, okExit := 0, errExit := 0 }

def RunSt.step (st : RunSt) : RunEv → RunSt
  | .cancel => { st with cancelled := true }
  | .push =>
    if !st.closed && decide (st.queue.length < st.cap) then
      match st.pending with
      | t :: r => { st with pending := r, queue := st.queue ++ [t], closed := r.isEmpty }
      | [] => st
    else st
  | .abandon =>
    if st.cancelled && !st.closed then { st with pending := [], closed := true, abandoned := true } else st
  | .pull =>
    if st.idle = 0 then st else
    match st.queue with
    | t :: q =>
      if st.cancelled then { st with queue := q, idle := st.idle - 1, errExit := st.errExit + 1 }   -- w.err = ctx.Err()
      else { st with queue := q, idle := st.idle - 1, busy := st.busy + 1, handled := st.handled ++ [t] }
    | [] => if st.closed then { st with idle := st.idle - 1, okExit := st.okExit + 1 } else st
  | .finish fail =>
    if st.busy = 0 then st
    else if fail then { st with busy := st.busy - 1, errExit := st.errExit + 1, cancelled := true }
    else { st with busy := st.busy - 1, idle := st.idle + 1 }

def RunSt.run (st : RunSt) (sched : List RunEv) : RunSt := sched.foldl RunSt.step st

/-- RunOnRange has returned: channel closed, every worker gone -/
def RunSt.done (st : RunSt) : Bool := st.closed && st.idle == 0 && st.busy == 0

/-- `true` = RunOnRange returns nil: no worker kept an error and the producer did not leave its loop through
    `ctx.Done()` (since the repair in client-go: it then returns the context's error) -/
def RunSt.resultNil (st : RunSt) : Bool := st.errExit == 0 && !st.abandoned

/-- every sub-range was handed to the handler -/
def RunSt.complete (tasks : List Task) (st : RunSt) : Bool := tasks.all fun t => st.handled.contains t

/-! ## GC: ResolveLocksForRange -/

structure Lock where
  key : Bytes
  ts : Nat
  /-- the lock sits on the primary key of its own transaction -/
  primary : Bool
  deriving DecidableEq, Repr

/-- a lock the ScanLock request `[lo, hi)`, `MaxVersion = maxV` has to report -/
def eligible (maxV : Nat) (lo hi : Bytes) (l : Lock) : Bool :=
  Bytes.le lo l.key && (hi.isEmpty || Bytes.lt l.key hi) && decide (l.ts ≤ maxV)

/-- ScanLock on a population sorted by key: the first `limit` matching locks -/
def scan (pop : List Lock) (maxV : Nat) (lo hi : Bytes) (limit : Nat) : List Lock :=
  (pop.filter (eligible maxV lo hi)).take limit

/-- one ScanLock request as the harness can observe it -/
structure ScanRec where
  lo : Bytes
  hi : Bytes
  n : Nat
  deriving DecidableEq, Repr

structure ResolveOut where
  batches : List (List Lock)     -- what each handled batch removed from the store (see `touchedBy`)
  pop : List Lock                -- locks left in the store
  scans : List ScanRec           -- every ScanLock request (re-scans included)
  regions : Nat                  -- stat.CompletedRegions

/-- `reqEndKey := loc.EndKey; if len(endKey) > 0 && (len(reqEndKey) == 0 || endKey < reqEndKey) { reqEndKey = endKey }` -/
def reqEndOf (endKey locEnd : Bytes) : Bytes :=
  if !endKey.isEmpty && (locEnd.isEmpty || Bytes.lt endKey locEnd) then endKey else locEnd

/-- What handling the scanned batch `locks` removes from the store.
    * The forced status check of `BatchResolveLocks` (`getTxnStatus` with current ts = max, rollback-if-not-exist)
      rolls back the primary lock of every transaction that has a lock in the batch, wherever that primary lies.
    * The ResolveLock request (`withBatch`) carries the transactions' statuses, not keys: the store resolves every
      lock of these transactions in the addressed region (`inReg`), which contains the whole batch. -/
def touchedBy (locks : List Lock) (withBatch : Bool) (inReg : Lock → Bool) (l : Lock) : Bool :=
  (withBatch && (locks.contains l || (inReg l && locks.any (fun x => x.ts == l.ts)))) ||
  (l.primary && locks.any (fun x => x.ts == l.ts))

/-- state after handling a batch: `withBatch = false` when the resolve came back with a nil location
    (region error, the batch no longer lies in one region): only the status checks took effect -/
def resolved (st : ResolveOut) (key reqEnd : Bytes) (locks : List Lock) (limit : Nat) (withBatch : Bool)
    (inReg : Lock → Bool) : ResolveOut :=
  { batches := st.batches ++ [st.pop.filter (touchedBy locks withBatch inReg)],
    pop := st.pop.filter (fun l => !touchedBy locks withBatch inReg l),
    scans := st.scans ++ [⟨key, reqEnd, locks.length⟩],
    regions := if withBatch && decide (locks.length < limit) then st.regions + 1 else st.regions }

/-- the region the ResolveLock request of a batch ends up in: the one containing its first lock, under the layout
    at that time -/
def batchRegion (l : Layout) (locks : List Lock) (x : Lock) : Bool :=
  match locks.head? with
  | some f => Bytes.le (regionStart l f.key) x.key &&
      ((regionEnd l f.key).isEmpty || Bytes.lt x.key (regionEnd l f.key))
  | none => false

/-- `ResolveLocksForRange(maxV, key, endKey, limit)`.
    `layouts i` = layout seen by the i-th scan, `rl i` = layout when its batch is resolved.
    `retry i key locks` = the resolve of the i-th scanned batch came back with a nil location: scan again from
    the same key. It is an input (it depends on region changes racing with the loop).
    `none`: out of fuel, or the Go code would panic (`locks[len(locks)-1]` with `scanLimit = 0`). -/
def resolveLoop (layouts rl : Nat → Layout) (retry : Nat → Bytes → List Lock → Bool) (maxV : Nat) (endKey : Bytes)
    (limit : Nat) : Nat → Nat → Bytes → ResolveOut → Option ResolveOut
  | 0, _, _, _ => none
  | fuel + 1, i, key, st =>
    let locEnd := regionEnd (layouts i) key
    let reqEnd := reqEndOf endKey locEnd
    let locks := scan st.pop maxV key reqEnd limit
    if retry i key locks then
      resolveLoop layouts rl retry maxV endKey limit fuel (i + 1) key
        (resolved st key reqEnd locks limit false (batchRegion (rl i) locks))
    else
      let st' := resolved st key reqEnd locks limit true (batchRegion (rl i) locks)
      -- if len(locks) < int(scanLimit) { key = loc.EndKey } else { key = locks[len(locks)-1].Key }
      let next : Option Bytes :=
        if locks.length < limit then some locEnd
        else match locks.getLast? with
          | some l => some l.key
          | none => none
      match next with
      | none => none
      | some key' =>
        -- if len(key) == 0 || (len(endKey) != 0 && bytes.Compare(key, endKey) >= 0) { break }
        if key'.isEmpty || (!endKey.isEmpty && geB key' endKey) then some st'
        else resolveLoop layouts rl retry maxV endKey limit fuel (i + 1) key' st'

def resolveLocksForRange (layouts rl : Nat → Layout) (retry : Nat → Bytes → List Lock → Bool) (maxV : Nat)
    (startKey endKey : Bytes) (limit fuel : Nat) (pop : List Lock) : Option ResolveOut :=
  resolveLoop layouts rl retry maxV endKey limit fuel 0 startKey ⟨[], pop, [], 0⟩

/-- The resolve-locks phase of GC with one worker: the sub-ranges are handled one after the other on the same
    store. `layouts j`, `rl j`, `retry j` are the inputs of the loop for the j-th sub-range.
    (With several workers the loops interleave; that is not modelled — the harness audits it.) -/
def gcResolveAll (layouts rl : Nat → Nat → Layout) (retry : Nat → Nat → Bytes → List Lock → Bool) (maxV limit fuel : Nat) :
    Nat → List Task → List Lock → Option (List Lock)
  | _, [], pop => some pop
  | j, t :: ts, pop =>
    match resolveLocksForRange (layouts j) (rl j) (retry j) maxV t.s t.e limit fuel pop with
    | some out => gcResolveAll layouts rl retry maxV limit fuel (j + 1) ts out.pop
    | none => none

/-! ## CheckVisibility -/

inductive Vis | ok | abortedByGC | pdTimeout
  deriving DecidableEq, Repr

/-- `KVStore.CheckVisibility(ts)`; `fresh` = the cached safe point is younger than
    `GcStateCacheInterval - gcCPUTimeInaccuracyBound` -/
def checkVisibility (fresh : Bool) (cachedTxnSafePoint ts : Nat) : Vis :=
  if !fresh then .pdTimeout
  else if ts < cachedTxnSafePoint then .abortedByGC
  else .ok

/-- a snapshot read (Get / BatchGet / one scan batch): the RPC result `v` is handed out only after the check -/
def snapshotRead {α : Type} (fresh : Bool) (cachedTxnSafePoint ts : Nat) (v : α) : Except Vis α :=
  match checkVisibility fresh cachedTxnSafePoint ts with
  | .ok => .ok v
  | e => .error e

/-! ## layouts as the driver / harness describe them -/

/-- base layout plus the splits scheduled at or before load `i` -/
def layoutAt (base : Layout) (splits : List (Nat × Bytes)) (i : Nat) : Layout :=
  base ++ (splits.filter (fun p => p.1 ≤ i)).map (·.2)

end CGV.RangeTask
