/-
  Model of /repo/internal/latch/latch.go and the thread structure of scheduler.go (C17).
  Core-only, executable.

  * `Slot` = Go `latch` (`queue` of nodes, newest first; `count`; `waiting`), `Node` = Go `node`
    (`value` is `holder`), `Lock` = Go `Lock`.  Locks are named by a `LockId` (the Go pointer).
  * The atomic steps are exactly the critical sections of the code: `acquireSlot` (with the embedded
    `latch.recycle` when `count >= latchListCount`), `releaseSlot`, `recycleSlot` (one iteration of
    `Latches.recycle`).  `acquire`, `release`, `recycleAll` are the loops of the code over those steps.
  * `Lock.phase` is the program counter of the thread that currently owns the lock (client thread
    inside `LatchesScheduler.Lock`, or the scheduler goroutine inside `wakeup`/`release`):
    it says which step that thread performs next; it is not a field of the Go struct.
  * Ghost fields (never read by the steps, never printed by the driver's dump): `Node.pubs` (commit
    timestamps published on this node by `releaseSlot` since the node was created; a node removed by
    `recycle` takes them with it) and `State.published` (every (key, commitTS) ever published).
  * The slot hash (murmur3 & mask), `latchListCount`, `expireDuration` and the TSO shift are parameters
    (`Cfg`): the harness reports the real values, the theorems hold for all of them.
-/
import ClientGoVerif.Model.Bytes
import ClientGoVerif.Generated.LatchCommit
namespace CGV.Latch
open CGV

abbrev Key := Bytes
abbrev LockId := Nat

structure Cfg where
  slotOf : Key → Nat
  /-- `latchListCount` -/
  listCount : Int
  /-- `expireDuration` in milliseconds -/
  expireMs : Nat
  /-- `physicalShiftBits` of package oracle -/
  shift : Nat

/-- pointwise update of a total map -/
def upd {α : Type} (f : Nat → α) (i : Nat) (v : α) : Nat → α := fun j => if j = i then v else f j

structure Node where
  key : Key
  maxCommitTS : Nat
  holder : Option LockId
  pubs : List Nat

structure Slot where
  queue : List Node
  count : Int
  waiting : List LockId

inductive Phase
  /-- inside the loop of `acquire` (first call by the client, or continuing after a success) -/
  | acquiring
  /-- `acquire` returned `acquireLocked`: the lock sits in a `waiting` list, its thread is blocked -/
  | waiting
  /-- returned by a `releaseSlot` in a wake-up list: the scheduler is going to call `acquire` on it -/
  | woken
  /-- `Lock()` has returned (success or stale); the caller will `UnLock` -/
  | acquired
  /-- inside the loop of `release` -/
  | releasing
  | done
  deriving DecidableEq, Repr

structure Lock where
  keys : List Key
  requiredSlots : List Nat
  acquiredCount : Nat
  startTS : Nat
  commitTS : Nat
  isStale : Bool
  phase : Phase

structure State where
  slots : Nat → Slot
  locks : Nat → Option Lock
  nlocks : Nat
  published : List (Key × Nat)

def emptySlot : Slot := { queue := [], count := 0, waiting := [] }

def init : State := { slots := fun _ => emptySlot, locks := fun _ => none, nlocks := 0, published := [] }

inductive AcqRes | success | locked | stale
  deriving DecidableEq, Repr

def AcqRes.str : AcqRes → String
  | .success => "success" | .locked => "locked" | .stale => "stale"

/-! ## list helpers (the Go linked list) -/

/-- `findNode` -/
def findNode (q : List Node) (k : Key) : Option Node := q.find? (fun n => n.key == k)

/-- apply `f` to the node `findNode` returns (the first one with that key) -/
def updNode (k : Key) (f : Node → Node) : List Node → List Node
  | [] => []
  | n :: q => if n.key == k then f n :: q else n :: updNode k f q

/-- `tsoSub(currentTS, maxCommitTS) >= expireDuration`: both are times with millisecond resolution,
    `time.Time.Sub` saturates, so the comparison is the one on the physical parts. -/
def expired (cfg : Cfg) (currentTS maxCommitTS : Nat) : Bool :=
  decide (maxCommitTS >>> cfg.shift + cfg.expireMs ≤ currentTS >>> cfg.shift)

/-- the node is dropped by `latch.recycle(currentTS)` -/
def recyclable (cfg : Cfg) (currentTS : Nat) (n : Node) : Bool :=
  expired cfg currentTS n.maxCommitTS && n.holder.isNone

/-- `latch.recycle` -/
def Slot.recycle (cfg : Cfg) (currentTS : Nat) (sl : Slot) : Slot :=
  let q := sl.queue.filter (fun n => !recyclable cfg currentTS n)
  { sl with queue := q, count := sl.count - ((sl.queue.length - q.length : Nat) : Int) }

/-- the merge sort stands for `sort.Sort(bytesSlice(keys))` -/
def sortKeys (keys : List Key) : List Key := keys.mergeSort Bytes.le

/-! ## the steps -/

/-- `genLock` (plus: a lock without keys has nothing to acquire) -/
def genLock (cfg : Cfg) (s : State) (startTS : Nat) (keys : List Key) : State :=
  let ks := sortKeys keys
  let lk : Lock := { keys := ks, requiredSlots := ks.map cfg.slotOf, acquiredCount := 0, startTS := startTS,
                     commitTS := 0, isStale := false, phase := if ks.isEmpty then .acquired else .acquiring }
  { s with locks := upd s.locks s.nlocks (some lk), nlocks := s.nlocks + 1 }

/-- phase after one more slot has been acquired -/
def phaseAfterSuccess (lk : Lock) : Phase :=
  if lk.acquiredCount + 1 < lk.requiredSlots.length then .acquiring else .acquired

/-- one iteration of `Latches.recycle`; also the body of the recycling at the head of `acquireSlot` -/
def recycleSlot (cfg : Cfg) (s : State) (i : Nat) (ts : Nat) : State :=
  { s with slots := upd s.slots i ((s.slots i).recycle cfg ts) }

/-- head of `acquireSlot`: `if latch.count >= latchListCount { latch.recycle(lock.startTS) }` -/
def preRecycle (cfg : Cfg) (s : State) (slotID : Nat) (startTS : Nat) : State :=
  if (s.slots slotID).count ≥ cfg.listCount then recycleSlot cfg s slotID startTS else s

/-- rest of `acquireSlot` (same critical section): look the key up, take it / report stale / queue up -/
def acquireCore (s : State) (l : LockId) (lk : Lock) (key : Key) (slotID : Nat) : State × AcqRes :=
  let sl := s.slots slotID
  match findNode sl.queue key with
  | none =>
    let sl' := { sl with queue := { key := key, maxCommitTS := 0, holder := some l, pubs := [] } :: sl.queue,
                         count := sl.count + 1 }
    let lk' := { lk with acquiredCount := lk.acquiredCount + 1, phase := phaseAfterSuccess lk }
    ({ s with slots := upd s.slots slotID sl', locks := upd s.locks l (some lk') }, .success)
  | some n =>
    if n.maxCommitTS > lk.startTS then
      let lk' := { lk with isStale := true, phase := .acquired }
      ({ s with locks := upd s.locks l (some lk') }, .stale)
    else match n.holder with
      | none =>
        let sl' := { sl with queue := updNode key (fun n => { n with holder := some l }) sl.queue }
        let lk' := { lk with acquiredCount := lk.acquiredCount + 1, phase := phaseAfterSuccess lk }
        ({ s with slots := upd s.slots slotID sl', locks := upd s.locks l (some lk') }, .success)
      | some _ =>
        let sl' := { sl with waiting := sl.waiting ++ [l] }
        let lk' := { lk with phase := .waiting }
        ({ s with slots := upd s.slots slotID sl', locks := upd s.locks l (some lk') }, .locked)

/-- the critical section `acquireSlot`; `none` = the Go code would panic / the call is not legal in this phase -/
def acquireSlot (cfg : Cfg) (s : State) (l : LockId) : Option (State × AcqRes) :=
  match s.locks l with
  | none => none
  | some lk =>
    if lk.phase ≠ .acquiring ∧ lk.phase ≠ .woken then none else
    match lk.keys[lk.acquiredCount]?, lk.requiredSlots[lk.acquiredCount]? with
    | some key, some slotID => some (acquireCore (preRecycle cfg s slotID lk.startTS) l lk key slotID)
    | _, _ => none

/-- one step of `acquire(l)`: the `IsStale` test at its head (only a woken lock can be stale here),
    otherwise one `acquireSlot` -/
def acquireStep (cfg : Cfg) (s : State) (l : LockId) : Option (State × AcqRes) :=
  match s.locks l with
  | none => none
  | some lk =>
    if lk.phase ≠ .acquiring ∧ lk.phase ≠ .woken then none
    else if lk.isStale then
      some ({ s with locks := upd s.locks l (some { lk with phase := .acquired }) }, .stale)
    else acquireSlot cfg s l

/-- `waiting.keys[waiting.acquiredCount] == key` -/
def awaits (s : State) (key : Key) (w : LockId) : Bool :=
  match s.locks w with
  | some lkw => lkw.keys[lkw.acquiredCount]? == some key
  | none => false

/-- `UnLock` after `SetCommitTS(commitTS)` (0 when the transaction did not commit): the scheduler
    goroutine takes the lock from `unlockCh` and enters `release` -/
def unlock (s : State) (l : LockId) (commitTS : Nat) : Option State :=
  match s.locks l with
  | none => none
  | some lk =>
    if lk.phase ≠ .acquired then none else
    let lk' := { lk with commitTS := commitTS, phase := if lk.acquiredCount = 0 then .done else .releasing }
    some { s with locks := upd s.locks l (some lk') }

/-- the critical section `releaseSlot`; result: the lock to wake up -/
def releaseSlot (s : State) (l : LockId) : Option (State × Option LockId) :=
  match s.locks l with
  | none => none
  | some lk =>
    if lk.phase ≠ .releasing then none else
    if lk.acquiredCount = 0 then none else
    let i := lk.acquiredCount - 1
    match lk.keys[i]?, lk.requiredSlots[i]? with
    | some key, some slotID =>
      let sl := s.slots slotID
      match findNode sl.queue key with
      | none => none                                   -- nil dereference
      | some n =>
        if n.holder ≠ some l then none else            -- panic("releaseSlot wrong")
        let m := max n.maxCommitTS lk.commitTS
        let lk' := { lk with acquiredCount := i, phase := if i = 0 then .done else .releasing }
        let pub := (key, lk.commitTS) :: s.published
        match sl.waiting.find? (awaits s key) with
        | none =>
          let q := updNode key (fun n => { n with maxCommitTS := m, holder := none, pubs := lk.commitTS :: n.pubs }) sl.queue
          some ({ s with slots := upd s.slots slotID { sl with queue := q },
                         locks := upd s.locks l (some lk'), published := pub }, none)
        | some w =>
          match s.locks w with
          | none => none
          | some lkw =>
            let waiting' := sl.waiting.erase w
            if m > lkw.startTS then
              let q := updNode key (fun n => { n with maxCommitTS := m, holder := some w, pubs := lk.commitTS :: n.pubs }) sl.queue
              let lkw' := { lkw with acquiredCount := lkw.acquiredCount + 1, isStale := true, phase := .woken }
              some ({ s with slots := upd s.slots slotID { sl with queue := q, waiting := waiting' },
                             locks := upd (upd s.locks l (some lk')) w (some lkw'), published := pub }, some w)
            else
              let q := updNode key (fun n => { n with maxCommitTS := m, holder := none, pubs := lk.commitTS :: n.pubs }) sl.queue
              let lkw' := { lkw with phase := .woken }
              some ({ s with slots := upd s.slots slotID { sl with queue := q, waiting := waiting' },
                             locks := upd (upd s.locks l (some lk')) w (some lkw'), published := pub }, some w)
    | _, _ => none

/-! ## the loops of the code (method granularity; used by the driver) -/

def acquireLoop (cfg : Cfg) : Nat → State → LockId → Option (State × AcqRes)
  | 0, _, _ => none
  | fuel + 1, s, l =>
    match s.locks l with
    | none => none
    | some lk =>
      if lk.acquiredCount < lk.requiredSlots.length then
        match acquireSlot cfg s l with
        | some (s', .success) => acquireLoop cfg fuel s' l
        | r => r
      else some (s, .success)

/-- `acquire` -/
def acquire (cfg : Cfg) (s : State) (l : LockId) : Option (State × AcqRes) :=
  match s.locks l with
  | none => none
  | some lk =>
    if lk.isStale then acquireStep cfg s l
    else if lk.phase ≠ .acquiring ∧ lk.phase ≠ .woken then none
    else acquireLoop cfg (lk.keys.length + 1) s l

def releaseLoop : Nat → State → LockId → List LockId → Option (State × List LockId)
  | 0, _, _, _ => none
  | fuel + 1, s, l, acc =>
    match s.locks l with
    | none => none
    | some lk =>
      if lk.acquiredCount > 0 then
        match releaseSlot s l with
        | some (s', some w) => releaseLoop fuel s' l (acc ++ [w])
        | some (s', none) => releaseLoop fuel s' l acc
        | none => none
      else some (s, acc)

/-- `SetCommitTS` + `UnLock` + `release`: returns the wake-up list -/
def release (s : State) (l : LockId) (commitTS : Nat) : Option (State × List LockId) :=
  match unlock s l commitTS with
  | none => none
  | some s1 =>
    match s1.locks l with
    | none => none
    | some lk => releaseLoop (lk.keys.length + 1) s1 l []

/-- `Latches.recycle` over `n` slots -/
def recycleAll (cfg : Cfg) (s : State) (n : Nat) (ts : Nat) : State :=
  (List.range n).foldl (fun s i => recycleSlot cfg s i ts) s

/-! ## interleavings -/

inductive Action
  | genLock (startTS : Nat) (keys : List Key)
  | acquire (l : LockId)
  | unlock (l : LockId) (commitTS : Nat)
  | releaseSlot (l : LockId)
  | recycle (slot : Nat) (ts : Nat)

/-- one atomic step of some thread.  `genLock` carries the restriction of the property to distinct keys
    (a request with a duplicate key blocks on itself in the code). -/
def step (cfg : Cfg) (s : State) : Action → Option State
  | .genLock ts keys => if keys.Nodup then some (genLock cfg s ts keys) else none
  | .acquire l => (acquireStep cfg s l).map (·.1)
  | .unlock l c => unlock s l c
  | .releaseSlot l => (releaseSlot s l).map (·.1)
  | .recycle i ts => some (recycleSlot cfg s i ts)

/-- a step performed on behalf of lock `l` (progress of a request, as opposed to a new arrival or the recycler) -/
def Action.lockStep : Action → Option LockId
  | .acquire l => some l
  | .unlock l _ => some l
  | .releaseSlot l => some l
  | _ => none

inductive Reachable (cfg : Cfg) : State → Prop
  | init : Reachable cfg init
  | step {s s' : State} (a : Action) : Reachable cfg s → step cfg s a = some s' → Reachable cfg s'

/-! ## observations used by the properties and the driver -/

/-- the key the lock tries next -/
def Lock.nextKey (lk : Lock) : Option Key := lk.keys[lk.acquiredCount]?

/-- `lk` holds key `k`: it is one of the first `acquiredCount` keys -/
def Lock.holds (lk : Lock) (k : Key) : Prop := ∃ j, j < lk.acquiredCount ∧ lk.keys[j]? = some k

def Lock.holdsB (lk : Lock) (k : Key) : Bool := (lk.keys.take lk.acquiredCount).contains k

/-- success and not stale: what `Lock()` returning with `!IsStale()` means, until the unlock starts releasing -/
def Lock.fullyAcquired (lk : Lock) : Prop := lk.acquiredCount = lk.keys.length ∧ lk.isStale = false

def Lock.fullyAcquiredB (lk : Lock) : Bool := lk.acquiredCount == lk.keys.length && !lk.isStale

/-- the node of key `k` (in the slot the key hashes to) -/
def nodeOf (cfg : Cfg) (s : State) (k : Key) : Option Node := findNode (s.slots (cfg.slotOf k)).queue k

/-- the node of `k` exists and has a holder -/
def HasHolder (cfg : Cfg) (s : State) (k : Key) : Prop :=
  ∃ n h, nodeOf cfg s k = some n ∧ n.holder = some h

/-- some lock sits in a pending wake-up list for `k` (returned by a `releaseSlot`, its `acquire` not yet run),
    it is not stale, and the node of `k` (if it still exists) would not make it stale -/
def HasWoken (cfg : Cfg) (s : State) (k : Key) : Prop :=
  ∃ w lkw, s.locks w = some lkw ∧ lkw.phase = .woken ∧ lkw.isStale = false ∧ lkw.nextKey = some k ∧
    ∀ n, nodeOf cfg s k = some n → n.maxCommitTS ≤ lkw.startTS

/-- blocked lock `a` waits for lock `b`: the node of the key `a` is blocked on is held by `b` -/
def WaitsFor (cfg : Cfg) (s : State) (a b : LockId) : Prop :=
  ∃ lk k n, s.locks a = some lk ∧ lk.phase = .waiting ∧ lk.nextKey = some k ∧
    nodeOf cfg s k = some n ∧ n.holder = some b

/-- a non-empty chain of the wait-for relation -/
inductive WaitChain (cfg : Cfg) (s : State) : LockId → LockId → Prop
  | single {a b : LockId} : WaitsFor cfg s a b → WaitChain cfg s a b
  | cons {a b c : LockId} : WaitsFor cfg s a b → WaitChain cfg s b c → WaitChain cfg s a c

/-! ## the way `KVTxn.Commit` uses the scheduler

  `lock := TxnLatches().Lock(startTS, keys)`; `defer TxnLatches().UnLock(lock)`; `if lock.IsStale() { return
  ErrWriteConflictInLatch }`; `err = committer.execute(ctx)`; `if err == nil { lock.SetCommitTS(commitTS) }`.
  As a program of the lock: take acquire steps (the first call by the client thread, after a wake-up by the
  scheduler goroutine) until `Lock` returns; then unlock — with commit ts 0 when stale or when the commit failed —
  and the scheduler releases slot by slot.  Whether the unlock also happens on the stale early return is read
  from the source on every run (`Gen.commitUnlockOnEveryExit`). -/

/-- the next step of the thread(s) serving lock `lk` inside `Commit`; `none`: blocked, finished, or (if the source
    did not defer the unlock before the stale return) returned without unlocking -/
def nextAction (l : LockId) (lk : Lock) (commitTS : Nat) : Option Action :=
  match lk.phase with
  | .acquiring => some (.acquire l)
  | .woken => some (.acquire l)
  | .acquired =>
    if lk.isStale then
      (if Gen.commitUnlockOnEveryExit then some (.unlock l 0) else none)
    else some (.unlock l commitTS)
  | .releasing => some (.releaseSlot l)
  | .waiting => none
  | .done => none

/-- run the steps of lock `l` until it blocks or is finished -/
def driveLock (cfg : Cfg) : Nat → State → LockId → Nat → State
  | 0, s, _, _ => s
  | fuel + 1, s, l, commitTS =>
    match s.locks l with
    | none => s
    | some lk =>
      match nextAction l lk commitTS with
      | none => s
      | some a =>
        match step cfg s a with
        | none => s
        | some s' => driveLock cfg fuel s' l commitTS

/-- `Commit` of the transaction whose lock request is `l` (already generated), running alone:
    `commitTS` = 0 when the commit itself fails -/
def commitTxn (cfg : Cfg) (s : State) (l : LockId) (commitTS : Nat) : State :=
  match s.locks l with
  | none => s
  | some lk => driveLock cfg (3 * lk.keys.length + 4) s l commitTS

/-- a sequence of transactions (start ts, write set, commit ts), each committing after the previous returned -/
def commitSeq (cfg : Cfg) : State → List (Nat × List Key × Nat) → State
  | s, [] => s
  | s, (startTS, keys, commitTS) :: rest =>
    commitSeq cfg (commitTxn cfg (genLock cfg s startTS keys) s.nlocks commitTS) rest

/-- no node has an owner and nobody is queued -/
def LatchesFree (s : State) : Prop :=
  (∀ i n, n ∈ (s.slots i).queue → n.holder = none) ∧ ∀ i, (s.slots i).waiting = []

/-- every request is finished -/
def AllDone (s : State) : Prop := ∀ l lk, s.locks l = some lk → lk.phase = .done

end CGV.Latch
