/-
  C10 — read-timestamp validation (`RegionRequestSender.validateReadTS`, /repo/internal/locate/region_request.go, and
  `pdOracle.ValidateReadTS`, /repo/oracle/oracles/pd.go).  Core-only, executable.

  SPEC side: which requests are "timestamped reads" is decided from the SHAPE of the request (the Go package of the request
  struct and its top-level uint64 timestamp-like fields, reported by the harness through reflection), not from the
  implementation's switch.  The command enumeration (`Gen.cmdTypes`) and the table of `Request.GetStartTS`
  (`Gen.startTsTable`) are regenerated from the Go source on every run.
-/
import ClientGoVerif.Model.Retry
import ClientGoVerif.Generated.ValidateConsts
namespace CGV.Validate
open CGV

structure Shape where
  pkg : String
  fields : List String
  deriving DecidableEq, Repr

/-- field names that hold the version a snapshot READ is performed at -/
def readVersionFields : List String := ["Version", "MaxVersion"]
/-- a transaction's own start timestamp: a request carrying one is a transactional (write / bookkeeping) command -/
def startTsFields : List String := ["StartTs", "StartVersion"]
/-- the other timestamp-like fields of today's requests (none of them is a snapshot read version) -/
def otherTsFields : List String :=
  ["CommitVersion", "CommitTs", "MinCommitTs", "MaxCommitTs", "ForUpdateTs", "CurrentTs", "CallerStartTs", "LockTs",
   "SafePoint", "MaxTs", "CacheIfMatchVersion"]

/-- every timestamp-like field is one the spec has classified (a new one must be classified, it never passes silently) -/
def knownShape (s : Shape) : Bool :=
  s.fields.all fun f => readVersionFields.contains f || startTsFields.contains f || otherTsFields.contains f

/-- SPEC: the request is a timestamped read — its timestamp is a snapshot read version: a `Version`/`MaxVersion` field with
    no transaction start ts next to it, or the `StartTs` of a coprocessor request -/
def mustValidate (s : Shape) : Bool :=
  if s.pkg == "coprocessor" then s.fields.contains "StartTs"
  else s.fields.any (readVersionFields.contains ·) && !s.fields.any (startTsFields.contains ·)

/-- the same classification on a row of `Request.GetStartTS` (request accessor, getter) -/
def mustValidateGetter (accessor getter : String) : Bool :=
  getter == "GetVersion" || getter == "GetMaxVersion" || accessor == "Cop" || accessor == "BatchCop"

def knownGetters : List String := ["GetVersion", "GetMaxVersion", "GetStartVersion", "GetStartTs", "GetLockTs"]

/-- the verdict table of `pdOracle.ValidateReadTS` on the harness' timestamp classes: a ts ahead of PD's TSO,
    MaxInt64 ≤ ts < MaxUint64 (`maxint`, `maxu1`), and MaxUint64 on a stale read are refused -/
def oracleRefuses (ts : String) (stale : Bool) : Bool :=
  ts == "ahead" || ts == "maxint" || ts == "maxu1" || (ts == "max" && stale)

/-- what the sender must do before anything is sent: refuse iff validation is on, the request is a timestamped read and the
    oracle refuses its timestamp -/
def mustRefuse (validate : Bool) (s : Shape) (ts : String) (stale : Bool) : Bool :=
  validate && mustValidate s && oracleRefuses ts stale

/-- the model sender (Model/Retry.lean) for such a request -/
def senderCfg (base : Retry.Cfg) (validate : Bool) (s : Shape) (ts : String) (stale : Bool) : Retry.Cfg :=
  { base with tsInvalid := mustRefuse validate s ts stale }

/-- commands that carry no timestamp `Request.GetStartTS` can read (the sender validates nothing for them) -/
def noStartTsCmds : List String :=
  ["CmdGC", "CmdDeleteRange", "CmdRawGet", "CmdRawBatchGet", "CmdRawPut", "CmdRawBatchPut", "CmdRawDelete", "CmdRawBatchDelete",
   "CmdRawDeleteRange", "CmdRawScan", "CmdRawGetKeyTTL", "CmdGetKeyTTL", "CmdRawCompareAndSwap", "CmdRawChecksum",
   "CmdUnsafeDestroyRange", "CmdRegisterLockObserver", "CmdCheckLockObserver", "CmdRemoveLockObserver", "CmdPhysicalScanLock",
   "CmdStoreSafeTS", "CmdLockWaitInfo", "CmdGetHealthFeedback", "CmdBroadcastTxnStatus", "CmdMPPTask", "CmdMPPConn",
   "CmdMPPCancel", "CmdMPPAlive", "CmdMvccGetByKey", "CmdSplitRegion", "CmdDebugGetRegionProperties", "CmdCompact",
   "CmdGetTiFlashSystemTable", "CmdEmpty"]

/-- the commands whose read timestamp must be validated -/
def validatedCmds : List String :=
  ["CmdGet", "CmdScan", "CmdBatchGet", "CmdScanLock", "CmdBufferBatchGet", "CmdCop", "CmdCopStream", "CmdBatchCop"]

def namesOf (v : Nat) : List String := (Gen.cmdTypes.filter (·.2 == v)).map (·.1)

def rowOf (v : Nat) : Option (String × String × String) :=
  Gen.startTsTable.find? fun r => (namesOf v).contains r.1

/-- `valcmds`: the binary's named command types (value, has a request builder) must be exactly the enumeration in the source -/
def checkEnumeration (seen : List (Nat × Bool)) : Option String :=
  let vals := (Gen.cmdTypes.map (·.2)).eraseDups
  match vals.find? (fun v => !(seen.map (·.1)).contains v) with
  | some v => some s!"command {v} of the source is unknown to the binary's CmdType.String"
  | none =>
    match seen.find? (fun p => !vals.contains p.1) with
    | some p => some s!"command {p.1} is not a CmdType constant of the source"
    | none =>
      match seen.find? (fun p => !p.2) with
      | some p => some s!"no request builder for command {p.1}"
      | none => none

end CGV.Validate
