/-
  C06, client side: the lock bookkeeping of a pessimistic KVTxn (txnkv/transaction/txn.go) —
  lockKeys, StartAggressiveLocking / RetryAggressiveLocking / CancelAggressiveLocking / DoneAggressiveLocking,
  cleanupAggressiveLockingRedundantLocks, filterAggressiveLockedKeys, tempLockBufferEntry.trySkipLockingOnRetry,
  Rollback / rollbackPessimisticLocks / Commit — as a total, deterministic state machine.  Everything the environment
  decides is an INPUT of the op (the answer of the store to the PessimisticLock request, the error class of the call,
  `mayAggressiveLockingLastLockedKeysExpire`), so the model can be replayed next to the real code line by line
  (Driver/C06Agg.lean, harness/c06agg).

  The model is of the code that exists, not of the intention.  It follows the REPAIRED lockKeys: the entry that
  filterAggressiveLockedKeys takes out of lastRetryUnnecessaryLocks for a key that is requested again (`relockedEntries`) is
  put back when the call ends without recording the key in currentLockedKeys and without rolling it back — the request
  succeeded with LockOnlyIfExists and "not found" (the key is skipped), or the single key failed with write conflict / key
  exists ("no need to do pessimistic rollback").  Before the repair the entry was dropped and the store kept the lock of the
  previous attempt (known findings C06-aggressive-lock-only-if-exists-leak, C06-aggressive-relock-key-exists-leak).

  Keys are `Nat` ids (the harness maps id n to the byte key "k%02d", so the order of ids is the byte order of keys).

  Facts of the code the model relies on (each visible in txn.go):
  * exitAggressiveLockingIfInapplicable: a LockKeys call with more than one input key leaves aggressive locking through
    DoneAggressiveLocking first, so inside aggressive locking a call has at most ONE key; then allKeys = keys = [k] whenever a
    request is sent and `lockedCnt -= len(allKeys) - len(keys)` subtracts 0.
  * lockedCnt ≠ 0 implies the committer exists, so Rollback's `txn.committer != nil` is implied by `lockedCnt != 0`.
  * the membuffer is only used for key FLAGS here (locked, locked-value-exists, presume-key-not-exists, need-check-exists).
  Core-only: this file is linked into the executable driver.
-/
namespace CGV.AggLock

abbrev Key := Nat

/-- tempLockBufferEntry, as far as the code consults it -/
structure Entry where
  key : Key
  hasRV : Bool
  hasCE : Bool
  /-- Value.Exists (false also when the response carried no value entry: Go's zero value) -/
  exist : Bool
  /-- Value.LockedWithConflictTS (0 = none) -/
  lwc : Nat
deriving DecidableEq, Repr, Inhabited

/-- LockCtx options -/
structure Opts where
  rv : Bool := false
  ce : Bool := false
  loie : Bool := false
deriving DecidableEq, Repr, Inhabited

/-- class of the error a PessimisticLock call ends with (what lockKeys distinguishes: write conflict and key exists mean
    "certainly not locked", anything else "may be locked") -/
inductive Err | wc | ke | dl | to | other
deriving DecidableEq, Repr, Inhabited

/-- the store's answer for one key of the request -/
structure KeyAns where
  key : Key
  /-- this request newly placed the transaction's lock on the key -/
  acq : Bool := false
  /-- existence as reported in the response (Existence / ¬NotFound) -/
  exist : Bool := true
  /-- LockedWithConflictTs of the response (force-lock mode), 0 = locked normally -/
  lwc : Nat := 0
deriving DecidableEq, Repr, Inhabited

structure LockIn where
  keys : List Key
  o : Opts := {}
  /-- lockCtx.ForUpdateTS -/
  fu : Nat := 0
  /-- value of mayAggressiveLockingLastLockedKeysExpire() during the call -/
  mayExpire : Bool := false
  /-- error class of the request, if one is sent -/
  err : Option Err := none
  ans : List KeyAns := []
deriving DecidableEq, Repr, Inhabited

inductive Op
  | start | retry | cancel | done | rollback | commit
  | lock (i : LockIn)
  /-- memBuffer.UpdateFlags(k, SetPresumeKeyNotExists): what a pessimistic INSERT does before it locks the key -/
  | pne (k : Key)
deriving DecidableEq, Repr, Inhabited

inductive Res
  | ok | panic | closed
  | errStore (e : Err)
  | errKeyExists | errLoieNoRV | errLoieNoPrimary | errAggSanity | errLwcSanity | errPending
deriving DecidableEq, Repr, Inhabited

structure State where
  /-- txn.valid = false -/
  closed : Bool := false
  /-- aggressiveLockingContext ≠ nil -/
  inAgg : Bool := false
  current : List Entry := []
  lastRetry : List Entry := []
  /-- membuffer keys with the flag `locked`, each with its flag `locked value exists` -/
  flagged : List (Key × Bool) := []
  /-- flagPresumeKNE / flagNeedCheckExists -/
  pne : List Key := []
  needChk : List Key := []
  lockedCnt : Int := 0
  /-- committer.primaryKey (none also when there is no committer yet) -/
  primary : Option Key := none
  aAssigned : Bool := false
  aLastAssigned : Bool := false
  aPrimary : Option Key := none
  aLastPrimary : Option Key := none
  /-- keys on which the STORE holds a pessimistic lock of this transaction -/
  store : List Key := []
  -- what the last op did (cleared when an op starts)
  res : Res := .ok
  /-- keys of the PessimisticLock request sent -/
  req : List Key := []
  /-- keys for which a PessimisticRollback was sent (synchronously or in the background) -/
  rb : List Key := []
  /-- keys committed by Commit -/
  cm : List Key := []
deriving Repr, Inhabited

def init : State := {}

/-! ### finite maps as lists -/

def keysOf (l : List Entry) : List Key := l.map (·.key)
def findE (l : List Entry) (k : Key) : Option Entry := l.find? (fun e => e.key == k)
def eraseE (l : List Entry) (k : Key) : List Entry := l.filter (fun e => e.key != k)
def upsertE (l : List Entry) (e : Entry) : List Entry := e :: eraseE l e.key
def eraseAllE (l : List Entry) (ks : List Key) : List Entry := l.filter (fun e => !ks.contains e.key)

def fkeys (l : List (Key × Bool)) : List Key := l.map (·.1)
def findF (l : List (Key × Bool)) (k : Key) : Option (Key × Bool) := l.find? (fun e => e.1 == k)
def eraseF (l : List (Key × Bool)) (k : Key) : List (Key × Bool) := l.filter (fun e => e.1 != k)
def upsertF (l : List (Key × Bool)) (e : Key × Bool) : List (Key × Bool) := e :: eraseF l e.1

def minus (a b : List Key) : List Key := a.filter (fun k => !b.contains k)

def insertKey (k : Key) : List Key → List Key
  | [] => [k]
  | x :: xs => if k < x then k :: x :: xs else if k = x then x :: xs else x :: insertKey k xs

/-- deduplicateKeys: sorted, without duplicates -/
def normKeys (l : List Key) : List Key := l.foldr insertKey []

/-! ### aggressive locking: start / retry / cancel / done -/

/-- cleanupAggressiveLockingRedundantLocks (with an empty lastRetryUnnecessaryLocks every update below is the identity,
    like the early return of the code) -/
def cleanup (s : State) : State :=
  { s with rb := s.rb ++ keysOf s.lastRetry,
           store := minus s.store (keysOf s.lastRetry),
           lockedCnt := s.lockedCnt - s.lastRetry.length }

/-- `txn.aggressiveLockingContext = nil` -/
def exitAgg (s : State) : State :=
  { s with inAgg := false, current := [], lastRetry := [],
           aAssigned := false, aLastAssigned := false, aPrimary := none, aLastPrimary := none }

/-- the `locked value exists` flag DoneAggressiveLocking gives a key -/
def entryValExists (e : Entry) : Bool := !((e.hasCE || e.hasRV) && !e.exist)

def flagAll (f : List (Key × Bool)) (es : List Entry) : List (Key × Bool) :=
  es.foldl (fun f e => upsertF f (e.key, entryValExists e)) f

def doneCore (s : State) : State :=
  let s1 := cleanup s
  exitAgg { s1 with flagged := flagAll s1.flagged s1.current, needChk := minus s1.needChk (keysOf s1.current) }

/-- `if assignedPrimaryKey || lastAssignedPrimaryKey { resetPrimary(false) }` -/
def cancelPrim (s : State) : State :=
  if s.aAssigned || s.aLastAssigned then { s with primary := none } else s

def cancelCore (s : State) : State :=
  let s2 := cancelPrim (cleanup s)
  exitAgg { s2 with rb := s2.rb ++ keysOf s2.current,
                    store := minus s2.store (keysOf s2.current),
                    lockedCnt := s2.lockedCnt - s2.current.length }

/-- `if assignedPrimaryKey { …; resetPrimary(true) }` -/
def retryPrim (s : State) : State :=
  if s.aAssigned then { s with aAssigned := false, aLastAssigned := true, primary := none } else s

def retryCore (s : State) : State :=
  let s2 := retryPrim (cleanup s)
  { s2 with aLastPrimary := s2.aPrimary, aPrimary := none, lastRetry := s2.current, current := [] }

def startStep (s : State) : State :=
  if s.inAgg then { s with res := .panic }
  else { s with inAgg := true, current := [], lastRetry := [],
                aAssigned := false, aLastAssigned := false, aPrimary := none, aLastPrimary := none }

def retryStep (s : State) : State := if s.inAgg then retryCore s else { s with res := .panic }
def cancelStep (s : State) : State := if s.inAgg then cancelCore s else { s with res := .panic }
def doneStep (s : State) : State := if s.inAgg then doneCore s else { s with res := .panic }

/-! ### the end of the transaction -/

/-- rollbackPessimisticLocks + close -/
def releaseFlagged (s : State) : State :=
  if s.lockedCnt = 0 then { s with closed := true }
  else { s with closed := true, rb := s.rb ++ fkeys s.flagged, store := minus s.store (fkeys s.flagged) }

def rollbackStep (s : State) : State :=
  if s.inAgg then
    if s.current.isEmpty then releaseFlagged (cancelCore s)
    else { s with closed := true, res := .errPending }     -- "…when aggressive locking is pending": closed, nothing released
  else releaseFlagged s

/-- Commit of a transaction that only holds locks: every flagged key becomes an Op_Lock mutation, is prewritten and
    committed (no failure is modelled: the locks are there and nobody else can take them) -/
def commitFlagged (s : State) : State :=
  { s with closed := true, cm := fkeys s.flagged, store := minus s.store (fkeys s.flagged) }

def commitStep (s : State) : State :=
  if s.inAgg then
    if s.current.isEmpty then commitFlagged (cancelCore s)
    else { s with closed := true, res := .errPending }
  else commitFlagged s

/-! ### lockKeys -/

structure Look where
  locked : Bool
  valueExist : Bool
  inLast : Bool

/-- first loop of lockKeys: the flags of the membuffer, overridden by the aggressive-locking buffers -/
def look (s : State) (k : Key) : Look :=
  let base : Look := match findF s.flagged k with
    | some e => ⟨true, e.2, false⟩
    | none => ⟨false, false, false⟩
  if s.inAgg then
    match findE s.current k with
    | some e => ⟨true, e.exist, false⟩
    | none =>
      match findE s.lastRetry k with
      | some e => ⟨true, e.exist, true⟩
      | none => base
  else base

/-- `locked && checkKeyExists && valueExist` for some input key: ErrKeyExist without any request -/
def earlyKE (s : State) (ks : List Key) : Bool :=
  ks.any fun k => (look s k).locked && s.needChk.contains k && (look s k).valueExist

def needLock (s : State) (ks : List Key) : List Key :=
  ks.filter fun k => !(look s k).locked || (look s k).inLast

/-- selectPrimaryForPessimisticLock (inside aggressive locking the call has one key: whether or not it equals the last
    primary, it is the one selected) -/
def selectPrimary (s : State) (keys : List Key) : State :=
  match keys with
  | [] => s
  | k :: _ => if s.inAgg then { s with primary := some k, aAssigned := true, aPrimary := some k }
              else { s with primary := some k }

def ansOf (i : LockIn) (k : Key) : KeyAns :=
  match i.ans.find? (fun a => a.key == k) with
  | some a => a
  | none => { key := k }

/-- is there an entry for the key in lockCtx.Values after the response (pessimistic.go: normal result — only with
    ReturnValues / CheckExistence; locked with conflict — always) -/
def hasEntry (i : LockIn) (a : KeyAns) : Bool := i.o.rv || i.o.ce || a.lwc != 0

/-- `valExists` of lockKeys' second loop -/
def valExists (i : LockIn) (a : KeyAns) : Bool := !(hasEntry i a && !a.exist)

/-- `lockCtx.LockOnlyIfExists && !valExists`: the key is skipped -/
def skipKey (i : LockIn) (k : Key) : Bool := i.o.loie && !valExists i (ansOf i k)

def mkEntry (i : LockIn) (a : KeyAns) (k : Key) : Entry :=
  { key := k, hasRV := i.o.rv, hasCE := i.o.ce, exist := hasEntry i a && a.exist, lwc := a.lwc }

/-- trySkipLockingOnRetry: `none` = lock again, `some e'` = skip, with the entry as it is changed -/
def trySkip (e : Entry) (rv ce : Bool) : Option Entry :=
  if e.lwc = 0 && ((!e.hasRV && rv) || (!rv && !e.hasCE && ce)) then none
  else
    let e1 : Entry := { e with lwc := 0 }
    let e2 : Entry := if rv then e1 else { e1 with hasRV := false }
    some (if ce then e2 else { e2 with hasCE := false, exist := true })

def recordKey (i : LockIn) (s : State) (k : Key) : State :=
  let a := ansOf i k
  if skipKey i k then s
  else if s.inAgg then { s with current := upsertE s.current (mkEntry i a k) }
  else { s with flagged := upsertF s.flagged (k, valExists i a), needChk := s.needChk.filter (fun x => x != k) }

/-- "pessimistic lock request … returns LockedWithConflictTS not greater than requested ForUpdateTS" -/
def lwcErr (s : State) (i : LockIn) (keys : List Key) : Bool :=
  s.inAgg && keys.any fun k => !skipKey i k && (ansOf i k).lwc != 0 && decide ((ansOf i k).lwc ≤ i.fu)

/-- unsetPrimaryKeyIfNeeded -/
def unsetPrimary (s : State) (i : LockIn) : State :=
  match s.primary with
  | some p => if hasEntry i (ansOf i p) && !(ansOf i p).exist then { s with primary := none } else s
  | none => s

def lockOk (s : State) (i : LockIn) (keys : List Key) (al : Bool) : State :=
  let s2 := if al && i.o.loie then unsetPrimary s i else s
  let s3 := keys.foldl (recordKey i) s2
  if lwcErr s i keys then { s3 with res := .errLwcSanity }
  else { s3 with lockedCnt := s3.lockedCnt + ((keys.length : Int) - ((keys.filter (skipKey i)).length : Int)) }

/-- UnmarkPresumeKeyNotExists for the keys of the failed request -/
def unmark (s : State) (keys : List Key) : State :=
  let un := keys.filter fun k => s.pne.contains k
  { s with pne := minus s.pne un, needChk := minus s.needChk un }

/-- "If there is only 1 key and lock fails, no need to do pessimistic rollback" -/
def needRollback (keys : List Key) (e : Err) : Bool := decide (keys.length > 1) || (e != .wc && e != .ke)

/-- asyncPessimisticRollback of the call's keys; they leave currentLockedKeys -/
def rollbackCall (s : State) (keys : List Key) : State :=
  { s with rb := s.rb ++ keys, store := minus s.store keys,
           current := if s.inAgg then eraseAllE s.current keys else s.current }

def lockFail (s : State) (keys : List Key) (al : Bool) (e : Err) : State :=
  let s2 := unmark s keys
  let s3 := if needRollback keys e then rollbackCall s2 keys else s2
  let s4 := if al then { s3 with primary := none } else s3
  { s4 with res := .errStore e }

/-- the request is sent: the store takes the locks its answer says it took -/
def lockSend (s : State) (i : LockIn) (keys : List Key) (al : Bool) : State :=
  let s1 := { s with req := keys, store := s.store ++ keys.filter fun k => (ansOf i k).acq }
  match i.err with
  | some e => lockFail s1 keys al e
  | none => lockOk s1 i keys al

/-- `delete(lastRetryUnnecessaryLocks, key)` -/
def takeOut (s : State) (k : Key) : State := { s with lastRetry := eraseE s.lastRetry k }

/-- `canTrySkip && lastResult.trySkipLockingOnRetry(…)`: the changed entry if the key can be skipped -/
def skipDecision (s : State) (e : Entry) (i : LockIn) : Option Entry :=
  if !s.aAssigned || s.aLastPrimary == s.aPrimary then trySkip e i.o.rv i.o.ce else none

/-- the request for the one key `k` whose entry `e` filterAggressiveLockedKeys took out of lastRetryUnnecessaryLocks
    (`relockedEntries`): when the call ends without recording the key in currentLockedKeys and without rolling it back —
    success with the key skipped (LockOnlyIfExists, not found), or write conflict / key exists for the single key — the
    entry is put back, as it was recorded in the previous attempt -/
def lockResend (s : State) (i : LockIn) (k : Key) (al : Bool) (e : Entry) : State :=
  match i.err with
  | some er =>
    if needRollback [k] er then lockSend s i [k] al
    else { lockSend s i [k] al with lastRetry := upsertE (lockSend s i [k] al).lastRetry e }
  | none =>
    if skipKey i k then { lockSend s i [k] al with lastRetry := upsertE (lockSend s i [k] al).lastRetry e }
    else lockSend s i [k] al

/-- the key could be skipped; it is, unless the locks of the previous attempt may have expired -/
def aggSkip (s : State) (i : LockIn) (k : Key) (al : Bool) (e e' : Entry) : State :=
  if i.mayExpire then lockResend (takeOut s k) i k al e
  else { takeOut s k with current := upsertE s.current e' }

/-- the key is in lastRetryUnnecessaryLocks -/
def lockAggFound (s : State) (i : LockIn) (k : Key) (al : Bool) (e : Entry) : State :=
  if i.fu < e.lwc then { s with res := .errAggSanity }
  else
    match skipDecision s e i with
    | some e' => aggSkip s i k al e e'
    | none => lockResend (takeOut s k) i k al e

/-- filterAggressiveLockedKeys for the one key of the call, then the request if it is still needed -/
def lockAgg (s : State) (i : LockIn) (k : Key) (al : Bool) : State :=
  match findE s.lastRetry k with
  | none => lockSend s i [k] al
  | some e => lockAggFound s i k al e

/-- exitAggressiveLockingIfInapplicable -/
def preLock (s : State) (i : LockIn) : State :=
  if s.inAgg && decide (i.keys.length > 1) then doneCore s else s

/-- `if txn.committer.primaryKey == nil { selectPrimaryForPessimisticLock(keys) }` -/
def selPrim (s : State) (keys : List Key) : State := if s.primary.isNone then selectPrimary s keys else s

/-- after the primary is settled: inside aggressive locking the one key goes through filterAggressiveLockedKeys -/
def lockGo (s : State) (i : LockIn) (keys : List Key) (al : Bool) : State :=
  if s.inAgg then
    match keys with
    | [k] => lockAgg s i k al
    | _ => lockSend s i keys al       -- not reachable: inside aggressive locking a call has one key
  else lockSend s i keys al

def lockStep (s : State) (i : LockIn) : State :=
  let s0 := preLock s i
  let keys := needLock s0 i.keys
  if earlyKE s0 i.keys then { s0 with res := .errKeyExists }
  else if keys.isEmpty then s0
  else if i.o.loie && !i.o.rv then { s0 with res := .errLoieNoRV }
  else if i.o.loie && s0.primary.isNone && decide (keys.length > 1) then { s0 with res := .errLoieNoPrimary }
  else lockGo (selPrim s0 (normKeys keys)) i (normKeys keys) s0.primary.isNone

def pneStep (s : State) (k : Key) : State :=
  { s with pne := if s.pne.contains k then s.pne else k :: s.pne,
           needChk := if s.needChk.contains k then s.needChk else k :: s.needChk }

def clearOut (s : State) : State := { s with res := .ok, req := [], rb := [], cm := [] }

def step (s : State) (op : Op) : State :=
  let s := clearOut s
  if s.closed then { s with res := .closed } else
  match op with
  | .start => startStep s
  | .retry => retryStep s
  | .cancel => cancelStep s
  | .done => doneStep s
  | .rollback => rollbackStep s
  | .commit => commitStep s
  | .lock i => lockStep s i
  | .pne k => pneStep s k

def run (s : State) (ops : List Op) : State := ops.foldl step s

/-! ### the property's vocabulary -/

/-- what the proofs assume about the answers of the store to one PessimisticLock request (per request, one region):
    * a LockOnlyIfExists request does not lock a key it reports as not existing;
    * a locked-with-conflict ts is greater than the request's for-update ts;
    * a request answered with write conflict / key exists has locked none of its keys. -/
def wfLock (i : LockIn) : Bool :=
  i.ans.all (fun a => (!(i.o.loie && !a.exist) || !a.acq) && (a.lwc == 0 || decide (i.fu < a.lwc))) &&
  (match i.err with
   | some .wc => i.ans.all (fun a => !a.acq)
   | some .ke => i.ans.all (fun a => !a.acq)
   | _ => true)

/-- the key of lastRetryUnnecessaryLocks a one-key call inside aggressive locking is about -/
def relock (s : State) (i : LockIn) : Option Key :=
  match i.keys with
  | [k] => if s.inAgg && (findE s.lastRetry k).isSome then some k else none
  | _ => none

/-- the situation in which the repaired lockKeys puts the entry back (and in which the code leaked before the repair): a
    LockKeys call inside aggressive locking for a key of lastRetryUnnecessaryLocks whose request is answered so that
    lockKeys neither registers the key in currentLockedKeys nor rolls it back — (a) success with LockOnlyIfExists and
    "not found" (the key is skipped), (b) write conflict / key exists for the single key.  Only used for statistics. -/
def relockFallsThrough (s : State) (i : LockIn) : Bool :=
  match relock s i with
  | some k =>
    (match i.err with
     | none => skipKey i k
     | some .wc => true
     | some .ke => true
     | some _ => false)
  | none => false

/-- Commit / Rollback are not called inside an aggressive-locking stage that holds keys -/
def endOk (s : State) : Bool := !(s.inAgg && !s.current.isEmpty)

/-- what the partial theorems require of one op in the state it is applied to: the store's contract for the answers of a
    lock call, no Commit / Rollback inside an aggressive-locking stage that holds keys (which the code answers with an
    error and a closed transaction) -/
def okStep (s : State) (op : Op) : Bool :=
  match op with
  | .lock i => wfLock i
  | .rollback => endOk s
  | .commit => endOk s
  | _ => true

/-- the store's contract alone -/
def wfStep (op : Op) : Bool :=
  match op with
  | .lock i => wfLock i
  | _ => true

/-- evaluated along the run: every op is applied in a state where it is `okStep` (ops after the end are no-ops) -/
def Admissible : State → List Op → Bool
  | _, [] => true
  | s, op :: ops => (s.closed || okStep s op) && Admissible (step s op) ops

def WellFormed (ops : List Op) : Bool := ops.all wfStep



/-- the keys the client still knows it has to release -/
def tracked (s : State) : List Key := keysOf s.current ++ keysOf s.lastRetry ++ fkeys s.flagged

/-- locks the store holds that the client will never release: every lock once the transaction is over, before that the
    locks outside the three sets -/
def leaked (s : State) : List Key :=
  if s.closed then s.store else s.store.filter fun k => !(tracked s).contains k

end CGV.AggLock
