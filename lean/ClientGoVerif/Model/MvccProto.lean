/- wire/op-line protocol of the MVCC model: canonical rendering of answers and `exec` (one command per op line); shared by the C12 driver and the hub judge -/
import ClientGoVerif.Model.Mvcc
import ClientGoVerif.Model.Proto
namespace CGV.MvccProto
open CGV CGV.Mvcc

def kerrStr : KErr → String
  | .locked k p s f ttl sz t => s!"locked({hexOrTilde k},{hexOrTilde p},{s},{f},{ttl},{sz},{t.code})"
  | .alreadyExist k => s!"exist({hexOrTilde k})"
  | .conflict s ct cc k f => s!"conflict({s},{ct},{cc},{hexOrTilde k},{showBool f})"
  | .deadlock k t => s!"deadlock({hexOrTilde k},{t})"
  | .retryable => "retryable"
  | .abort _ => "abort"
  | .alreadyCommitted c => s!"committed({c})"
  | .alreadyRollbacked s k => s!"rolledback({s},{hexOrTilde k})"
  | .commitTsExpired s a k m => s!"expired({s},{a},{hexOrTilde k},{m})"
  | .txnNotFound s p => s!"notfound({s},{hexOrTilde p})"
  | .assertionFailed s k a es ec =>
    let ac := match a with | .none => 0 | .exist => 1 | .notExist => 2
    s!"assert({s},{hexOrTilde k},{ac},{es},{ec})"

def pairStr : Pair → String
  | .kv k v c => s!"{hexOrTilde k}={hexOrTilde v}@{c}"
  | .err e => s!"E:{kerrStr e}"

def optBytes : Option Bytes → String
  | none => "~" | some v => hexOrTilde v

def parseAssertion : String → Option Assertion
  | "0" => some .none | "1" => some .exist | "2" => some .notExist | _ => none
def parseAction : String → Option PAction
  | "0" => some .skip | "1" => some .doCheck | "2" => some .doNotCheck | _ => none

/-- mutation token `op:key:value:assertion:action` -/
def parseMut (s : String) : Option (Mutation × PAction) :=
  match s.splitOn ":" with
  | [op, k, v, a, act] => do
    let op ← op.toNat? >>= Op.ofCode
    let k ← if k == "~" then some [] else parseHex k
    let v ← if v == "~" then some [] else parseHex v
    let a ← parseAssertion a
    let act ← parseAction act
    pure ({ op := op, key := k, value := v, assertion := a }, act)
  | _ => none

def parseMuts (s : String) : Option (List (Mutation × PAction)) := (splitList s).mapM parseMut

def hx (s : String) : Option Bytes := if s == "~" then some [] else parseHex s

def parsePairs (s : String) : Option (List (Nat × Nat)) :=
  (splitList s).mapM fun x => match x.splitOn ":" with
    | [a, b] => do pure ((← a.toNat?), (← b.toNat?))
    | _ => none

def lockStr (l : Lock) : String :=
  s!"L({l.startTS},{hexOrTilde l.primary},{hexOrTilde l.value},{l.op.code},{l.ttl},{l.forUpdateTS},{l.txnSize},{l.minCommitTS})"
def writeStr (w : Write) : String := s!"W({w.vt.code},{w.startTS},{w.commitTS},{hexOrTilde w.value})"

def dumpEntry (e : Entry) : String :=
  let l := match e.lock with | some l => lockStr l | none => "L-"
  l ++ " " ++ showList (e.writes.map writeStr)

def dumpAll (s : Store) : String :=
  showList (s.kv.map fun (k, e) => hexOrTilde k ++ "→" ++ dumpEntry e)

def plRespStr (r : PLResp) : String :=
  if r.panic then "panic" else
  let res := r.results.map fun x => match x with
    | .normal v e => s!"N({optBytes v},{showBool e})"
    | .lockedWithConflict v e c => s!"C({optBytes v},{showBool e},{c})"
    | .failed => "F"
  -- the response carries wire KeyErrors: AlreadyRollbacked has no wire form of its own (Abort)
  let wire (e : KErr) : String := match e with | .alreadyRollbacked .. => "abort" | e => kerrStr e
  s!"errs={showList (r.errors.map wire)} res={showList res} vals={showList (r.values.map optBytes)} nf={showList (r.notFounds.map showBool)}"

/-- executes one raw command; returns new store and the canonical answer -/
def exec (s : Store) (w : List String) : Option (Store × String) :=
  match w with
  | ["get", k, ts, si, rs] => do
    let k ← hx k; let ts ← ts.toNat?; let si ← parseBool si; let rs ← parseNatList rs
    match getValue (getEntry s.kv k) k ts si rs with
    | .ok none => pure (s, "ok ~ 0")
    | .ok (some wr) => pure (s, s!"ok {hexOrTilde wr.value} {wr.commitTS}")
    | .error e => pure (s, s!"err {kerrStr e}")
  | ["bget", ks, ts, si, rs] => do
    let ks ← parseHexList ks; let ts ← ts.toNat?; let si ← parseBool si; let rs ← parseNatList rs
    pure (s, showList ((batchGet s ks ts si rs).map pairStr))
  | ["scan", a, b, lim, ts, si, rs] => do
    let a ← hx a; let b ← hx b; let lim ← lim.toNat?; let ts ← ts.toNat?; let si ← parseBool si; let rs ← parseNatList rs
    pure (s, showList ((scan s a b lim ts si rs).map pairStr))
  | ["rscan", a, b, lim, ts, si, rs] => do
    let a ← hx a; let b ← hx b; let lim ← lim.toNat?; let ts ← ts.toNat?; let si ← parseBool si; let rs ← parseNatList rs
    pure (s, showList ((reverseScan s a b lim ts si rs).map pairStr))
  | ["prewrite", p, st, fu, ttl, mc, sz, ao, rs, ms] => do
    let p ← hx p; let st ← st.toNat?; let fu ← fu.toNat?; let ttl ← ttl.toNat?; let mc ← mc.toNat?
    let sz ← sz.toNat?; let ao ← parseBool ao; let rs ← parseNatList rs; let ms ← parseMuts ms
    let allSkip := ms.all fun x => x.2 == .skip
    let req : PrewriteReq := {
      mutations := ms.map (·.1), primary := p, startTS := st, forUpdateTS := fu, ttl := ttl,
      minCommitTS := mc, txnSize := sz, actions := if allSkip then [] else ms.map (·.2), assertOn := ao, resolved := rs }
    let (s', errs) := prewrite s req
    pure (s', showList (errs.map fun e => match e with | some e => kerrStr e | none => "nil"))
  | ["plock", p, st, fu, ttl, mc, flags, ms] => do
    let p ← hx p; let st ← st.toNat?; let fu ← fu.toNat?; let ttl ← ttl.toNat?; let mc ← mc.toNat?
    let ms ← parseMuts ms
    let has (c : Char) := flags.toList.contains c
    let req : PLReq := {
      mutations := ms.map (·.1), primary := p, startTS := st, forUpdateTS := fu, ttl := ttl, minCommitTS := mc,
      returnValues := has 'r', checkExistence := has 'c', lockOnlyIfExists := has 'e',
      wakeUp := if has 'f' then .forceLock else .normal, noWait := has 'n' }
    let (s', r) := pessimisticLock s req
    pure (s', plRespStr r)
  | ["prollback", a, b, ks, st, fu] => do
    let a ← hx a; let b ← hx b; let ks ← parseHexList ks; let st ← st.toNat?; let fu ← fu.toNat?
    pure (pessimisticRollback s a b ks st fu, "ok")
  | ["commit", ks, st, ct] => do
    let ks ← parseHexList ks; let st ← st.toNat?; let ct ← ct.toNat?
    let (s', e) := commit s ks st ct
    pure (s', match e with | none => "ok" | some e => s!"err {kerrStr e}")
  | ["rollback", ks, st] => do
    let ks ← parseHexList ks; let st ← st.toNat?
    let (s', e) := rollback s ks st
    pure (s', match e with | none => "ok" | some e => s!"err {kerrStr e}")
  | ["cleanup", k, st, cur] => do
    let k ← hx k; let st ← st.toNat?; let cur ← cur.toNat?
    let (s', e) := cleanup s k st cur
    pure (s', match e with | none => "ok" | some e => s!"err {kerrStr e}")
  | ["status", p, lt, cs, cur, rb, rp] => do
    let p ← hx p; let lt ← lt.toNat?; let cs ← cs.toNat?; let cur ← cur.toNat?; let rb ← parseBool rb; let rp ← parseBool rp
    let (s', r) := checkTxnStatus s p lt cs cur rb rp
    pure (s', match r.err with
      | some e => s!"err {kerrStr e}"
      | none => s!"ok ttl={r.ttl} commit={r.commitTS} action={r.action.code}")
  | ["heartbeat", k, st, adv] => do
    let k ← hx k; let st ← st.toNat?; let adv ← adv.toNat?
    let (s', r) := heartBeat s k st adv
    pure (s', match r with | .ok t => s!"ok {t}" | .error e => s!"err {kerrStr e}")
  | ["scanlock", a, b, mx] => do
    let a ← hx a; let b ← hx b; let mx ← mx.toNat?
    pure (s, showList ((scanLock s a b mx).map fun (k, p, t) => s!"{hexOrTilde k}/{hexOrTilde p}/{t}"))
  | ["resolve", a, b, st, ct] => do
    let a ← hx a; let b ← hx b; let st ← st.toNat?; let ct ← ct.toNat?
    pure (resolveLock s a b st ct, "ok")
  | ["bresolve", a, b, infos] => do
    let a ← hx a; let b ← hx b; let infos ← parsePairs infos
    pure (batchResolveLock s a b infos, "ok")
  | ["gc", a, b, sp] => do
    let a ← hx a; let b ← hx b; let sp ← sp.toNat?
    let (s', blocked) := gc s a b sp
    pure (s', match blocked with | none => "ok" | some _ => "err locked")
  | ["delrange", a, b] => do
    let a ← hx a; let b ← hx b
    pure (deleteRange s a b, "ok")
  | ["dump", k] => do
    let k ← hx k
    pure (s, dumpEntry (getEntry s.kv k))
  | _ => none


end CGV.MvccProto
