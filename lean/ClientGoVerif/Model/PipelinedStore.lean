/-
  C16 at the store: what the range task of a pipelined transaction does to the MVCC store (Model/Mvcc.lean).
  The resolve handler of buildPipelinedResolveHandler sends one region-wide ResolveLock(start_ts, commit_ts) per visited
  region; the store executes it on the region's key range (mocktikv handleKvResolveLock: region start / end key).
  Core-only; not linked into a driver (the theorems of Props/C16.lean use it).
-/
import ClientGoVerif.Model.Pipelined
import ClientGoVerif.Model.Mvcc
namespace CGV.Pipelined
open CGV

/-- the store after the range task has visited the regions `rs` (in order) for transaction `T` with outcome `C`
    (`C = 0`: rollback): an unbounded region end is the empty end key of `Mvcc.inRange` -/
def resolveRegionsStore (s : Mvcc.Store) (rs : List Region) (T C : Nat) : Mvcc.Store :=
  rs.foldl (fun s r => Mvcc.resolveLock s r.1 (r.2.getD []) T C) s

/-- transaction `T` holds the lock of the key -/
def lockedBy (s : Mvcc.Store) (T : Nat) (k : Bytes) : Prop :=
  ∃ l, (Mvcc.getEntry s.kv k).lock = some l ∧ l.startTS = T

end CGV.Pipelined
