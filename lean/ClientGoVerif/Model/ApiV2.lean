/-
  Model of /repo/internal/apicodec/codec_v2.go (C15): keyspace prefix, key / range / region-key codec.
  Core-only, executable.  Region keys compose with `Codec.encodeBytes` (C19 model of util/codec).
  `Uint32(prefix)+1` is modelled by its arithmetic meaning (mod 2^32); tied by the differential.
-/
import ClientGoVerif.Model.Bytes
import ClientGoVerif.Model.Codec
import ClientGoVerif.Generated.ApiV2Consts
namespace CGV.ApiV2
open CGV

inductive Mode | raw | txn
  deriving DecidableEq, Repr

/-- a codec instance: `NewCodecV2(mode, meta)`; `NewCodecV2` rejects `id > maxKeyspaceID` -/
structure Keyspace where
  mode : Mode
  id : Nat
  deriving DecidableEq, Repr

def Keyspace.valid (ks : Keyspace) : Bool := ks.id ≤ Gen.maxKeyspaceID

def modeByte : Mode → Nat
  | .raw => Gen.rawModePrefix
  | .txn => Gen.txnModePrefix

/-- `codec.prefix`: mode byte, then the low `keyspacePrefixLen-1` bytes of the id, big endian (`getIDByte`) -/
def Keyspace.pfx (ks : Keyspace) : Bytes :=
  UInt8.ofNat (modeByte ks.mode) :: Codec.be (Gen.keyspacePrefixLen - 1) ks.id

/-- `binary.BigEndian.Uint32(codec.prefix)` -/
def Keyspace.pfxVal (ks : Keyspace) : Nat := Codec.fromBE 0 ks.pfx

/-- `codec.endKey`: `PutUint32(endKey, prefixVal+1)` (uint32 arithmetic) -/
def Keyspace.endKey (ks : Keyspace) : Bytes :=
  Codec.be Gen.keyspacePrefixLen ((ks.pfxVal + 1) % 2 ^ (8 * Gen.keyspacePrefixLen))

inductive Err | outOfBound | decode
  deriving DecidableEq, Repr

def Err.str : Err → String
  | .outOfBound => "oob" | .decode => "decode"

/-- `EncodeKey`: `append(c.prefix, key...)` -/
def encodeKey (ks : Keyspace) (key : Bytes) : Bytes := ks.pfx ++ key

/-- `DecodeKey`: empty input yields (nil, nil); wrong prefix is `errKeyOutOfBound` -/
def decodeKey (ks : Keyspace) (e : Bytes) : Except Err Bytes :=
  if e.isEmpty then .ok []
  else if Bytes.isPrefix ks.pfx e then .ok (e.drop ks.pfx.length)
  else .error .outOfBound

/-- `encodeRange(start, end, false)`: empty end = end of the keyspace -/
def encodeRangeFwd (ks : Keyspace) (s e : Bytes) : Bytes × Bytes :=
  (encodeKey ks s, if e.isEmpty then ks.endKey else encodeKey ks e)

/-- `encodeRange(start, end, reverse)`: for a reverse scan `start` is the upper and `end` the lower bound;
    `end, start = c.encodeRange(end, start, false); return start, end` -/
def encodeRange (ks : Keyspace) (s e : Bytes) (reverse : Bool) : Bytes × Bytes :=
  if reverse then
    let (e', s') := encodeRangeFwd ks e s
    (s', e')
  else encodeRangeFwd ks s e

/-- `DecodeRange` -/
def decodeRange (ks : Keyspace) (es ee : Bytes) : Except Err (Bytes × Bytes) :=
  if Bytes.cmp es ks.endKey != .lt || (!ee.isEmpty && Bytes.cmp ee ks.pfx != .gt) then .error .outOfBound
  else
    .ok (if Bytes.isPrefix ks.pfx es then es.drop ks.pfx.length else [],
         if Bytes.isPrefix ks.pfx ee then ee.drop ks.pfx.length else [])

/-- `memComparableCodec.decodeKey`: `codec.DecodeBytes`, the unconsumed suffix is dropped -/
def memDecode (b : Bytes) : Except Err Bytes :=
  match Codec.decodeBytes b with
  | .ok (v, _) => .ok v
  | .error _ => .error .decode

/-- `EncodeRegionKey` -/
def encodeRegionKey (ks : Keyspace) (key : Bytes) : Bytes := Codec.encodeBytes (encodeKey ks key)

/-- `DecodeRegionKey` -/
def decodeRegionKey (ks : Keyspace) (e : Bytes) : Except Err Bytes :=
  match memDecode e with
  | .ok k => decodeKey ks k
  | .error x => .error x

/-- `EncodeRegionRange` -/
def encodeRegionRange (ks : Keyspace) (s e : Bytes) : Bytes × Bytes :=
  let (a, b) := encodeRangeFwd ks s e
  (Codec.encodeBytes a, Codec.encodeBytes b)

/-- `DecodeRegionRange`: empty bounds stay empty, others are mem-decoded first -/
def decodeRegionRange (ks : Keyspace) (es ee : Bytes) : Except Err (Bytes × Bytes) :=
  match (if es.isEmpty then .ok [] else memDecode es), (if ee.isEmpty then .ok [] else memDecode ee) with
  | .error x, _ => .error x
  | .ok _, .error x => .error x
  | .ok s, .ok e => decodeRange ks s e

/-- the `EpochNotMatch.CurrentRegions` loop of `decodeRegionError`: regions outside the keyspace are skipped,
    undecodable ones fail the whole response -/
def decodeRegions (ks : Keyspace) : List (Bytes × Bytes) → Except Err (List (Bytes × Bytes))
  | [] => .ok []
  | (s, e) :: rest =>
    match decodeRegionRange ks s e with
    | .ok r => (decodeRegions ks rest).map (r :: ·)
    | .error .outOfBound => decodeRegions ks rest
    | .error x => .error x

/-- `len(ks) > 0 && len(ks[0]) == 0` -/
def headEmpty : List Bytes → Bool
  | a :: _ => a.isEmpty
  | [] => false

/-- `DecodeBucketKeys` (region buckets from PD): the loop over `keys` with index `i`, `n = len(keys)`, `acc = ks` -/
def decodeBucketKeysAux (ks : Keyspace) (n : Nat) : Nat → List Bytes → List Bytes → Except Err (List Bytes)
  | _, [], acc => .ok acc
  | i, key :: rest, acc =>
    match (if key.isEmpty then (.ok [] : Except Err Bytes) else memDecode key) with
    | .error e => .error e
    | .ok k =>
      if i == 0 && Bytes.cmp k ks.pfx == .lt then
        decodeBucketKeysAux ks n (i + 1) rest (acc ++ [[]])
      else if i + 1 == n && (k.isEmpty || Bytes.cmp k ks.endKey != .lt) then
        decodeBucketKeysAux ks n (i + 1) rest (acc ++ [[]])
      else if Bytes.isPrefix ks.pfx k then
        let raw := k.drop ks.pfx.length
        if raw.isEmpty && headEmpty acc then
          decodeBucketKeysAux ks n (i + 1) rest acc
        else decodeBucketKeysAux ks n (i + 1) rest (acc ++ [raw])
      else decodeBucketKeysAux ks n (i + 1) rest acc

def decodeBucketKeys (ks : Keyspace) (keys : List Bytes) : Except Err (List Bytes) :=
  decodeBucketKeysAux ks keys.length 0 keys []

/-! ## the property's own vocabulary (logical ranges; empty end = +∞) -/

/-- `k ∈ [s, e)` with `e = []` meaning unbounded -/
def inRange (k s e : Bytes) : Bool := Bytes.le s k && (e.isEmpty || Bytes.lt k e)

/-- reverse-scan range: `s` is the exclusive upper bound (`[]` = +∞), `e` the inclusive lower bound -/
def inRangeRev (k s e : Bytes) : Bool := Bytes.le e k && (s.isEmpty || Bytes.lt k s)

/-- plain half-open interval of encoded keys (no empty-end convention) -/
def inInterval (x lo hi : Bytes) : Bool := Bytes.le lo x && Bytes.lt x hi

/-- wire form of a region bound as PD / TiKV report it: empty stays empty (unbounded), anything else is the
    memcomparable encoding -/
def encRegionBound (x : Bytes) : Bytes := if x.isEmpty then [] else Codec.encodeBytes x

/-- membership of an encoded key in a region `[rs, re)` given in encoded space (`re = []` = +∞) -/
def inRegion (x rs re : Bytes) : Bool := Bytes.le rs x && (re.isEmpty || Bytes.lt x re)

end CGV.ApiV2
