/-
  C08, third model layer: the PATH logic of the radix tree — internal/unionstore/art/art.go `search`, `recursiveInsert`,
  `expandLeafIfNeeded`, `expandNode`, art_node.go `match`, `matchDeep`, `setPrefix`, `longestCommonPrefix`, `minimumLeafNode`,
  and the in-order traversal of art_iterator.go (`baseIter.next` / `prev` over the whole tree).  Core-only, executable.

  A functional tree instead of arena addresses:
  * a leaf holds its full key;
  * an inner node holds `plen` (nodeBase.prefixLen, the FULL length of the compressed prefix), `pfx` (nodeBase.prefix cut to
    its valid part, i.e. the first min(plen, maxInNodePrefixLen) bytes — longer prefixes are only known through the leaves
    below), `inp` (the in-place leaf: the key that ends at this node) and `kids` (the children by byte, ascending).
  * `kids` is the ABSTRACT map of the node containers: that node4/16/48/256 with `findChild` / `addChild` / `replaceChild` and
    their iteration order implement exactly a sorted association list, and that the node kind is determined by the number of
    children, is the content of Model/ArtNode.lean + Proofs/ArtNode.lean (`artnode_*`); the dump therefore prints the kind
    as `kindFor (number of children)`.
  * mutation through `prevNode.replaceChild` becomes "the recursive call returns the new subtree".
  Leaves are never removed from the tree (RevertVAddr only marks them), so there is no delete path.
  NOT modelled here: iterator seek with bounds (`baseIter.seek`, the end-address logic of `Iterator.init`), the
  lastTraversedNode cache, the allocator.
-/
import ClientGoVerif.Model.Bytes
import ClientGoVerif.Model.ArtNode
import ClientGoVerif.Generated.MemLimits
namespace CGV.ArtTree
open CGV

/-- maxInNodePrefixLen -/
def maxPfx : Nat := Gen.MemLimits.maxInNodePrefixLen

/-- longestCommonPrefix of two byte strings (both already cut at the common depth) -/
def lcp : Bytes → Bytes → Nat
  | a :: as, b :: bs => if a = b then lcp as bs + 1 else 0
  | _, _ => 0

mutual
  inductive Tree where
    | leaf (key : Bytes)
    | node (plen : Nat) (pfx : Bytes) (inp : Option Bytes) (kids : Kids)
  inductive Kids where
    | nil
    | cons (c : UInt8) (t : Tree) (rest : Kids)
end

/-- `t.root` after the lazy initialisation: an empty node4 without prefix -/
def Tree.empty : Tree := .node 0 [] none .nil

mutual
  /-- minimumLeafNode: the in-place leaf if there is one, else down the FIRST child -/
  def minLeafT : Tree → Option Bytes
    | .leaf k => some k
    | .node _ _ (some x) _ => some x
    | .node _ _ none kids => minLeafK kids
  def minLeafK : Kids → Option Bytes
    | .nil => none
    | .cons _ t _ => minLeafT t
end

def Kids.length : Kids → Nat
  | .nil => 0
  | .cons _ _ rest => rest.length + 1

/-- nodeBase.matchDeep: the mismatch index of `key[depth:]` against the node's prefix; beyond the in-node bytes it compares
    with the minimum leaf below the node -/
def matchDeep (plen : Nat) (pfx : Bytes) (node : Tree) (key : Bytes) (depth : Nat) : Nat :=
  let m := lcp (key.drop depth) pfx
  if m < maxPfx || plen ≤ maxPfx then m
  else
    match minLeafT node with
    | some lk => lcp (lk.drop (depth + maxPfx)) (key.drop (depth + maxPfx)) + maxPfx
    | none => m

/-- the full prefix as expandNode reads it: the in-node bytes when they are all there, else `[depth, depth+plen)` of the
    minimum leaf's key -/
def fullPrefix (plen : Nat) (pfx : Bytes) (node : Tree) (depth : Nat) : Bytes :=
  if plen ≤ maxPfx then pfx
  else match minLeafT node with
    | some lk => (lk.drop depth).take plen
    | none => pfx

/-- addChild(c, inplace, child) on a node under construction: `valid = false` puts the leaf in place -/
def addEntry (s : Option Bytes × Kids) (valid : Bool) (c : UInt8) (t : Tree) (leafKey : Bytes) : Option Bytes × Kids :=
  if valid then
    (s.1, match s.2 with
      | .nil => .cons c t .nil
      | .cons c' t' rest => if c < c' then .cons c t (.cons c' t' rest) else .cons c' t' (.cons c t rest))
  else (some leafKey, s.2)

mutual
  /-- ART.search from the node `t` reached at `depth` -/
  def searchT : Tree → Bytes → Nat → Option Bytes
    | .leaf k, key, _ => if k = key then some k else none
    | .node plen pfx inp kids, key, depth =>
      -- `prefixLen < min(node.prefixLen, maxInNodePrefixLen)`: only the in-node bytes are compared (optimistic)
      if plen > 0 && decide (lcp (key.drop depth) pfx < min plen maxPfx) then none
      else
        let d := depth + plen
        if d < key.length then searchK kids (key.getD d 0) key (d + 1)
        else
          match inp with
          | some x => if x = key then some x else none
          | none => none
  def searchK : Kids → UInt8 → Bytes → Nat → Option Bytes
    | .nil, _, _, _ => none
    | .cons c t rest, b, key, d => if c = b then searchT t key d else searchK rest b key d
end

mutual
  /-- ART.recursiveInsert from the node `t` reached at `depth`; returns the subtree that takes `t`'s place -/
  def insertT : Tree → Bytes → Nat → Tree
    | .leaf l, key, depth =>
      -- expandLeafIfNeeded: `leaf1.match(depth-1, key)`
      if l.drop (depth - 1) = key.drop (depth - 1) then .leaf l
      else
        let n := lcp (l.drop depth) (key.drop depth)
        let d := depth + n
        let s1 := addEntry (none, .nil) (decide (d < l.length)) (l.getD d 0) (.leaf l) l
        let s2 := addEntry s1 (decide (d < key.length)) (key.getD d 0) (.leaf key) key
        .node n ((key.drop depth).take (min n maxPfx)) s2.1 s2.2
    | .node plen pfx inp kids, key, depth =>
      let mis := matchDeep plen pfx (.node plen pfx inp kids) key depth
      if plen > 0 && decide (mis < plen) then
        -- expandNode: a new node4 with the common part; the old node keeps the rest of its prefix
        let full : Bytes := fullPrefix plen pfx (.node plen pfx inp kids) depth
        let nodeChar := full.getD mis 0
        let rest := plen - mis - 1
        let old : Tree := .node rest ((full.drop (mis + 1)).take (min rest maxPfx)) inp kids
        let s1 := addEntry (none, .nil) true nodeChar old []
        let s2 := addEntry s1 (decide (depth + mis < key.length)) (key.getD (depth + mis) 0) (.leaf key) key
        .node mis ((key.drop depth).take (min mis maxPfx)) s2.1 s2.2
      else
        let d := depth + plen
        if d < key.length then .node plen pfx inp (insertK kids (key.getD d 0) key (d + 1))
        else
          match inp with
          | some x => .node plen pfx (some x) kids      -- "key is drained, return the leaf"
          | none => .node plen pfx (some key) kids
  def insertK : Kids → UInt8 → Bytes → Nat → Kids
    | .nil, b, key, _ => .cons b (.leaf key) .nil
    | .cons c t rest, b, key, d =>
      if c = b then .cons c (insertT t key d) rest
      else if b < c then .cons b (.leaf key) (.cons c t rest)
      else .cons c t (insertK rest b key d)
end

def optKey : Option Bytes → List Bytes
  | some x => [x]
  | none => []

mutual
  /-- the leaves in the order `baseIter.next` visits them: in-place leaf first, then the children by ascending byte -/
  def keysT : Tree → List Bytes
    | .leaf k => [k]
    | .node _ _ inp kids => optKey inp ++ keysK kids
  def keysK : Kids → List Bytes
    | .nil => []
    | .cons _ t rest => keysT t ++ keysK rest
end

/-- ART.Set/… : insert from the root at depth 0 -/
def insert (t : Tree) (key : Bytes) : Tree := insertT t key 0
def search (t : Tree) (key : Bytes) : Option Bytes := searchT t key 0
def keys (t : Tree) : List Bytes := keysT t

mutual
  /-- canonical structure dump (compared with the dump of the real tree) -/
  def dumpT : Tree → String
    | .leaf k => "L(" ++ Bytes.toHex k ++ ")"
    | .node plen pfx inp kids =>
      "N" ++ toString (ArtNode.kindFor kids.length) ++ "(" ++ toString plen ++ "," ++ Bytes.toHex pfx ++ "," ++
        (match inp with | some x => Bytes.toHex x | none => "~") ++ ")[" ++ dumpK kids ++ "]"
  def dumpK : Kids → String
    | .nil => ""
    | .cons c t rest => Bytes.toHex [c] ++ ":" ++ dumpT t ++ " " ++ dumpK rest
end

end CGV.ArtTree
