/-
  C15, end-to-end vocabulary: one physical ordered key-value store shared by clients of several keyspaces.
  A client only ever talks to the store through the codec (`encodeKey`, `encodeRange`); `view` is what a client of a
  keyspace can observe.  The "unprefixed client" of the property text is the same operations on the logical map.
-/
import ClientGoVerif.Model.ApiV2
namespace CGV.ApiV2
open CGV

/-- a key-value map (physical: wire keys; logical: user keys) -/
abbrev KvMap := Bytes → Option Bytes

def KvMap.put (m : KvMap) (k v : Bytes) : KvMap := fun y => if y = k then some v else m y
def KvMap.del (m : KvMap) (k : Bytes) : KvMap := fun y => if y = k then none else m y
/-- delete the plain interval `[lo, hi)` of physical keys (what the store does with an encoded range) -/
def KvMap.delInterval (m : KvMap) (lo hi : Bytes) : KvMap := fun y => if inInterval y lo hi then none else m y
/-- logical DeleteRange `[s, e)` with `e = []` meaning unbounded (what the API promises) -/
def KvMap.delRange (m : KvMap) (s e : Bytes) : KvMap := fun k => if inRange k s e then none else m k

/-- the logical map a client bound to keyspace `ks` sees in the physical store `σ` -/
def view (ks : Keyspace) (σ : KvMap) : KvMap := fun k => σ (encodeKey ks k)

/-- client operations, as they reach the store through codec v2 -/
def ksPut (ks : Keyspace) (σ : KvMap) (k v : Bytes) : KvMap := σ.put (encodeKey ks k) v
def ksDelete (ks : Keyspace) (σ : KvMap) (k : Bytes) : KvMap := σ.del (encodeKey ks k)
def ksDeleteRange (ks : Keyspace) (σ : KvMap) (s e : Bytes) : KvMap :=
  σ.delInterval (encodeRange ks s e false).1 (encodeRange ks s e false).2

/-- every stored physical key is a well-formed API-v2 key (TiKV in API-v2 mode rejects anything else) -/
def KvMap.wellFormed (σ : KvMap) : Prop := ∀ x, σ x ≠ none → Gen.keyspacePrefixLen ≤ x.length

end CGV.ApiV2
