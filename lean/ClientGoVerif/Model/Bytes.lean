/-
  Common conventions: byte strings, hex, lexicographic order, line-protocol helpers.
  Core-only (no Mathlib): this file is linked into the executable drivers.
-/
namespace CGV

abbrev Bytes := List UInt8

/-- three-way lexicographic comparison, the model of Go's `bytes.Compare` -/
def Bytes.cmp : Bytes → Bytes → Ordering
  | [], [] => .eq
  | [], _ :: _ => .lt
  | _ :: _, [] => .gt
  | a :: as, b :: bs =>
    if a < b then .lt else if b < a then .gt else Bytes.cmp as bs

def Bytes.lt (a b : Bytes) : Bool := Bytes.cmp a b == .lt
def Bytes.le (a b : Bytes) : Bool := Bytes.cmp a b != .gt

/-- `a` is a prefix of `b` -/
def Bytes.isPrefix : Bytes → Bytes → Bool
  | [], _ => true
  | _ :: _, [] => false
  | a :: as, b :: bs => a == b && Bytes.isPrefix as bs

def hexDigit (n : Nat) : Char :=
  if n < 10 then Char.ofNat (48 + n) else Char.ofNat (87 + n)

def Bytes.toHex (b : Bytes) : String :=
  if b.isEmpty then "-" else
  String.ofList (b.flatMap fun c => [hexDigit (c.toNat / 16), hexDigit (c.toNat % 16)])

def hexVal (c : Char) : Option Nat :=
  if '0' ≤ c ∧ c ≤ '9' then some (c.toNat - 48)
  else if 'a' ≤ c ∧ c ≤ 'f' then some (c.toNat - 87)
  else if 'A' ≤ c ∧ c ≤ 'F' then some (c.toNat - 55)
  else none

def parseHexChars : List Char → Option Bytes
  | [] => some []
  | [_] => none
  | a :: b :: rest => do
    let x ← hexVal a
    let y ← hexVal b
    let r ← parseHexChars rest
    pure (UInt8.ofNat (x * 16 + y) :: r)

/-- "-" denotes the empty byte string (so that every field is a non-empty token) -/
def parseHex (s : String) : Option Bytes :=
  if s == "-" then some [] else parseHexChars s.toList

def words (line : String) : List String :=
  (line.splitOn " ").filter (· ≠ "") |>.map fun s => (s.trimAscii).toString

def ordStr : Ordering → String
  | .lt => "lt" | .eq => "eq" | .gt => "gt"

/-- generic stdin loop: one op line in, one result line out -/
partial def lineLoop {σ : Type} (step : σ → String → σ × String) (h : IO.FS.Stream) (out : IO.FS.Stream) (s : σ) : IO Unit := do
  let line ← h.getLine
  if line.isEmpty then
    out.flush
    return ()
  let l := (line.trimAscii).toString
  if l.isEmpty || l.startsWith "#" then
    out.putStrLn l
    lineLoop step h out s
  else
    let (s', o) := step s l
    out.putStrLn o
    out.flush          -- one answer per line even into a pipe (the store server is used interactively)
    lineLoop step h out s'

def runDriver {σ : Type} (init : σ) (step : σ → String → σ × String) : IO Unit := do
  lineLoop step (← IO.getStdin) (← IO.getStdout) init

end CGV
