/-
  Model of the batched-RPC multiplexer of /repo/internal/client (C18).  Core-only, executable.

  What is modelled, branch by branch:
  * `batchCommandsEntry`           -> `Entry`  (res channel of size 1, `canceled`, `requestID`, `pri`, `forwardedHost`)
  * `batchConn.batchCommandsCh`    -> `State.ch`   (FIFO of entry handles)
  * `PriorityQueue` (container/heap on `prioritySlice`) -> `State.heap` + `heapPush/heapPop/heapRemove/takeN/cleanLoop`
  * `batchCommandsBuilder.buildWithLimit` (id allocation, canceled entries skipped, high-priority rule) -> `buildLoop`
  * `batchConn.getClientAndSend`   -> `flush`  (round robin, `available()`, tryLock, "no available connections")
  * `batchCommandsClient.send`     -> `sendGroup` (`batched.Store`, `failRequestsByIDs` when `Send` fails)
  * one iteration of `batchRecvLoop` per response -> `recv1` (dispatch by id, unknown id = outdated, canceled = dropped)
  * `recreateStreamingClient`      -> `kill` (epoch CAS: the winner fails the pending requests of ITS forwarded host,
                                       the loser only re-creates the stream)
  * the caller's `select` in `sendBatchRequest` -> `cancel`, `timeout`, `wake`, `close`
  * the recover/restart path of `batchSendLoop`      -> `panicRecover` (the builder and its id allocator are kept)
  An entry is identified by its handle = index in `State.entries` (pointer identity in Go).
  Ghost fields (no counterpart in the code; only written, never read by the transitions): `Entry.ncomp`, `Entry.nret`,
  `Entry.got`, `Slot.gen`, `Stream.gen`, `Stream.sib`, `State.allocLog`, `State.respLog`, `State.wireLog`, `State.loserSeen`.
-/
import ClientGoVerif.Generated.BatchMuxConsts
namespace CGV.BatchMux

inductive Err | canceled | timeout | closed | stream | sendfail | noconn
  deriving DecidableEq, Repr

def Err.str : Err → String
  | .canceled => "canceled" | .timeout => "timeout" | .closed => "closed"
  | .stream => "stream" | .sendfail => "sendfail" | .noconn => "noconn"

/-- state of `entry.res` (buffered channel of size 1) plus `entry.err` -/
inductive Chan
  | fresh                -- nothing sent, not closed
  | full (p : Nat)       -- a response is buffered
  | taken                -- the caller received the buffered response
  | closed (e : Err)     -- `close(res)` with `entry.err = e`
  deriving DecidableEq, Repr

inductive Ret | resp (p : Nat) | err (e : Err)
  deriving DecidableEq, Repr

structure Entry where
  payload : Nat
  pri : Nat
  fwd : Nat                       -- 0 = no forwarding, k > 0 = forwarded host k
  canceled : Bool := false
  chan : Chan := .fresh
  reqId : Nat := 0                -- `requestID` (0 = not assigned)
  ret : Option Ret := none        -- what `sendBatchRequest` returned (none = still blocked in `select`)
  -- ghost
  ncomp : Nat := 0                -- number of `res <- resp` / `close(res)` performed on this entry
  nret : Nat := 0                 -- number of times the caller returned
  got : Option (Nat × Nat) := none  -- (request id, payload) of the response put into `res`
  deriving Repr

structure Item where             -- one request of a built group: RequestIds[i], entries[i] (and its forwarded host)
  id : Nat
  h : Nat
  fwd : Nat
  req : Nat                      -- ghost: the payload of the request appended to `Requests` together with this id
  deriving Repr, DecidableEq

structure Slot where             -- one pair of `batchCommandsClient.batched`
  cid : Nat
  id : Nat
  h : Nat
  fwd : Nat                      -- = entry.forwardedHost
  gen : Nat                      -- ghost: generation of the stream the request was sent on
  deriving Repr, DecidableEq

structure Stream where
  cid : Nat
  fwd : Nat
  gen : Nat                      -- ghost: number of re-creations
  lep : Nat                      -- the `epoch` local variable of this stream's batchRecvLoop
  sendFail : Bool := false       -- next `Send` on this stream fails (input)
  sib : Bool := false            -- ghost: a sibling stream of the same connection won the epoch CAS since this
                                 -- stream was created / last re-created (only then can its local epoch be stale)
  deriving Repr

structure Client where
  limit : Nat                    -- maxConcurrencyRequestLimit
  sent : Int := 0
  epoch : Nat := 0
  recreating : Bool := false
  deriving Repr

structure State where
  idAlloc : Nat := 0
  entries : List Entry := []
  ch : List Nat := []
  heap : List Nat := []
  built : List Item := []        -- the builder's groups (`RequestIds`, `entries`) between buildWithLimit and send
  breqs : List Nat := []         -- `Requests` of the builder's groups (payloads), a slice PARALLEL to `built`
  sending : Option Nat := none   -- getClientAndSend is between buildWithLimit and the last `send` on this client
  clients : List Client := []
  index : Nat := 0
  nfwd : Nat := 0                -- forwarded hosts are 1..nfwd
  streams : List Stream := []
  table : List Slot := []
  closed : Bool := false
  cancelOnNoConn : Bool := true  -- global MaxConcurrencyRequestLimit == default
  outdated : Nat := 0
  dropped : Nat := 0             -- responses for canceled entries
  -- ghost history
  allocLog : List (Nat × Nat) := []        -- (id, handle), newest first
  respLog : List (Nat × Nat) := []         -- (id, payload) of every response received
  wireLog : List (Nat × Nat) := []         -- (id, request payload) of every request handed to `Send` successfully
  loserSeen : Bool := false
  deriving Repr

/-- `const highTaskPriority` of client_batch.go (regenerated on every run) -/
def highTaskPriority : Nat := Gen.c18_highTaskPriority

/-! ## entries -/

def priOf (es : List Entry) (h : Nat) : Nat :=
  match es[h]? with | some e => e.pri | none => 0

def isCanceled (es : List Entry) (h : Nat) : Bool :=
  match es[h]? with | some e => e.canceled | none => false

/-- `entry.response(resp)`: `res <- resp` -/
def Entry.respond (e : Entry) (id p : Nat) : Entry :=
  { e with chan := (if e.chan = .fresh then .full p else e.chan), ncomp := e.ncomp + 1,
           got := (if e.chan = .fresh then some (id, p) else e.got) }

/-- `entry.error(err)`: `close(res)` -/
def Entry.fail (e : Entry) (err : Err) : Entry :=
  { e with chan := (if e.chan = .fresh then .closed err else e.chan), ncomp := e.ncomp + 1 }

/-- the caller leaves `select` through ctx.Done / timer / closed: `canceled = 1`, return the error -/
def Entry.abandon (e : Entry) (err : Err) : Entry :=
  match e.ret with
  | some _ => e
  | none => { e with canceled := true, ret := some (.err err), nret := e.nret + 1 }

/-- the caller leaves `select` through `<-entry.res` -/
def Entry.wake (e : Entry) : Entry :=
  match e.ret with
  | some _ => e
  | none =>
    match e.chan with
    | .full p => { e with chan := .taken, ret := some (.resp p), nret := e.nret + 1 }
    | .closed err => { e with ret := some (.err err), nret := e.nret + 1 }
    | _ => e

def updAt (es : List Entry) (h : Nat) (f : Entry → Entry) : List Entry :=
  es.mapIdx fun i e => if i = h then f e else e

def updIn (es : List Entry) (hs : List Nat) (f : Entry → Entry) : List Entry :=
  es.mapIdx fun i e => if hs.contains i then f e else e

/-! ## container/heap on prioritySlice -/

def swap (l : List Nat) (i j : Nat) : List Nat :=
  if h : i < l.length ∧ j < l.length then (l.set i l[j]).set j l[i] else l

/-- `Less(i, j) = ps[i].priority() > ps[j].priority()` -/
def less (pri : Nat → Nat) (l : List Nat) (i j : Nat) : Bool :=
  match l[i]?, l[j]? with
  | some a, some b => pri a > pri b
  | _, _ => false

/-- heap.up -/
def up (pri : Nat → Nat) : Nat → List Nat → Nat → List Nat
  | 0, l, _ => l
  | f + 1, l, j =>
    let i := (j - 1) / 2
    if i = j ∨ ¬ less pri l j i then l else up pri f (swap l i j) i

/-- heap.down(i0, n); returns the list and the final index -/
def down (pri : Nat → Nat) : Nat → List Nat → Nat → Nat → List Nat × Nat
  | 0, l, i, _ => (l, i)
  | f + 1, l, i, n =>
    let j1 := 2 * i + 1
    if j1 ≥ n then (l, i) else
    let j := if j1 + 1 < n ∧ less pri l (j1 + 1) j1 then j1 + 1 else j1
    if ¬ less pri l j i then (l, i) else down pri f (swap l i j) j n

def heapPush (pri : Nat → Nat) (l : List Nat) (x : Nat) : List Nat :=
  up pri (l.length + 1) (l ++ [x]) l.length

/-- heap.Pop: swap(0, n-1); down(0, n-1); remove last -/
def heapPop (pri : Nat → Nat) (l : List Nat) : Option (Nat × List Nat) :=
  if l.length = 0 then none else
  let n := l.length - 1
  let l1 := (down pri (l.length + 1) (swap l 0 n) 0 n).1
  match l1.getLast? with
  | some x => some (x, l1.dropLast)
  | none => none

/-- heap.Remove(i) -/
def heapRemove (pri : Nat → Nat) (l : List Nat) (i : Nat) : Option (Nat × List Nat) :=
  if i ≥ l.length then none else
  let n := l.length - 1
  let l1 :=
    if n ≠ i then
      let l0 := swap l i n
      let (l2, i') := down pri (l.length + 1) l0 i n
      if i' > i then l2 else up pri (l.length + 1) l2 i
    else l
  match l1.getLast? with
  | some x => some (x, l1.dropLast)
  | none => none

def popN (pri : Nat → Nat) : Nat → List Nat → List Nat → List Nat × List Nat
  | 0, hp, acc => (acc.reverse, hp)
  | k + 1, hp, acc =>
    match heapPop pri hp with
    | some (x, hp') => popN pri k hp' (x :: acc)
    | none => (acc.reverse, hp)

/-- `PriorityQueue.Take(n, cb)`: (items handed to the callback in order, remaining queue) -/
def takeN (pri : Nat → Nat) (n : Nat) (hp : List Nat) : List Nat × List Nat :=
  if n = 0 then ([], hp)
  else if n ≥ hp.length then (hp, [])
  else popN pri n hp []

/-- `PriorityQueue.clean()` -/
def cleanLoop (pri : Nat → Nat) (canc : Nat → Bool) : Nat → Nat → List Nat → List Nat
  | 0, _, hp => hp
  | f + 1, i, hp =>
    match hp[i]? with
    | none => hp
    | some x =>
      if canc x then
        match heapRemove pri hp i with
        | some (_, hp') => cleanLoop pri canc f i hp'
        | none => hp
      else cleanLoop pri canc f (i + 1) hp

def highest (pri : Nat → Nat) (hp : List Nat) : Nat :=
  match hp with | [] => 0 | x :: _ => pri x

/-! ## builder -/

structure BuildSt where
  idAlloc : Nat
  count : Nat
  items : List Item       -- newest first
  deriving Repr

/-- the `build` closure of buildWithLimit over the items handed over by `Take` -/
def buildItems (es : List Entry) : BuildSt → List Nat → BuildSt
  | st, [] => st
  | st, h :: rest =>
    match es[h]? with
    | none => buildItems es st rest
    | some e =>
      if e.canceled then buildItems es st rest
      else
        buildItems es { idAlloc := st.idAlloc + 1,
                        count := (if e.pri < highTaskPriority then st.count + 1 else st.count),
                        items := { id := st.idAlloc + 1, h := h, fwd := e.fwd, req := e.payload } :: st.items } rest

/-- `for (count < limit && Len() > 0) || hasHighPriorityTask() { Take(n, build) }` -/
def buildLoop (es : List Entry) (limit : Nat) : Nat → List Nat → BuildSt → List Nat × BuildSt
  | 0, hp, st => (hp, st)
  | f + 1, hp, st =>
    if (st.count < limit ∧ hp.length > 0) ∨ highest (priOf es) hp ≥ highTaskPriority then
      let n := if limit = 0 then 1 else limit
      let (tk, hp') := takeN (priOf es) n hp
      buildLoop es limit f hp' (buildItems es st tk)
    else (hp, st)

/-! ## clients and streams -/

/-- `batchCommandsClient.available()` -/
def Client.available (c : Client) : Nat :=
  if c.sent > 0 then (if (c.limit : Int) > c.sent then ((c.limit : Int) - c.sent).toNat else 0) else c.limit

/-- round robin of getClientAndSend: returns the final `index` and the chosen client (if any) -/
def chooseClient (cs : List Client) (hasHigh : Bool) : Nat → Nat → Nat × Option Nat
  | 0, idx => (idx, none)
  | k + 1, idx =>
    let idx' := (idx + 1) % cs.length
    match cs[idx']? with
    | none => (idx', none)
    | some c =>
      if (hasHigh ∨ c.available > 0) ∧ ¬ c.recreating then (idx', some idx')
      else chooseClient cs hasHigh k idx'

def findStream (ss : List Stream) (cid fwd : Nat) : Option Stream :=
  ss.find? fun s => s.cid = cid ∧ s.fwd = fwd

def updClient (cs : List Client) (cid : Nat) (f : Client → Client) : List Client :=
  cs.mapIdx fun i c => if i = cid then f c else c

def clientEpoch (cs : List Client) (cid : Nat) : Nat :=
  match cs[cid]? with | some c => c.epoch | none => 0

/-- `initBatchClient`: create the stream (and its recv loop, which reads the current epoch) if missing -/
def ensureStream (s : State) (cid fwd : Nat) : State :=
  match findStream s.streams cid fwd with
  | some _ => s
  | none => { s with streams := s.streams ++ [{ cid := cid, fwd := fwd, gen := 0, lep := clientEpoch s.clients cid }] }

/-- fail the entries of the given slots: `failRequest` = batched.Delete, sent--, entry.error -/
def failSlots (s : State) (cid : Nat) (dead : Slot → Bool) (err : Err) : State :=
  let gone := s.table.filter fun sl => sl.cid = cid ∧ dead sl
  { s with table := s.table.filter (fun sl => ¬ (sl.cid = cid ∧ dead sl)),
           entries := updIn s.entries (gone.map (·.h)) (·.fail err),
           clients := updClient s.clients cid fun c => { c with sent := c.sent - gone.length } }

/-- the loop of `send` that publishes the group: `entry.requestID.Store`, `batched.Store`, `sent.Add(1)` -/
def track (s : State) (cid fwd gen : Nat) : State :=
  let grp := s.built.filter (·.fwd = fwd)
  { s with
    built := s.built.filter (¬ ·.fwd = fwd),
    breqs := ((s.built.zip s.breqs).filter (¬ ·.1.fwd = fwd)).map (·.2),
    table := s.table ++ grp.map (fun it => { cid := cid, id := it.id, h := it.h, fwd := fwd, gen := gen }),
    entries := s.entries.mapIdx (fun i e => match grp.find? (·.h = i) with | some it => { e with reqId := it.id } | none => e),
    clients := updClient s.clients cid fun c => { c with sent := c.sent + grp.length } }

/-- `batchCommandsClient.send(forwardedHost, group)` for the items of `built` with this forwarded host -/
def sendGroup (s : State) (cid fwd : Nat) : State :=
  let grp := s.built.filter (·.fwd = fwd)
  -- the BatchCommandsRequest of this group: the i-th request id travels with the i-th request
  let batch := ((s.built.zip s.breqs).filter (·.1.fwd = fwd)).map fun x => (x.1.id, x.2)
  if grp.isEmpty then s else
  let s := ensureStream s cid fwd
  let st := findStream s.streams cid fwd
  let gen := match st with | some x => x.gen | none => 0
  let sf := match st with | some x => x.sendFail | none => false
  let s := track s cid fwd gen
  if sf then failSlots s cid (fun sl => (grp.map (·.id)).contains sl.id) .sendfail
  else { s with wireLog := batch.reverse ++ s.wireLog }

def sendAll (s : State) (cid : Nat) : Nat → State
  | 0 => sendGroup s cid 0
  | k + 1 => sendGroup (sendAll s cid k) cid (k + 1)

/-- first half of `getClientAndSend`: choose the connection (tryLockForSend) and `buildWithLimit` -/
def flushBegin (s : State) : State :=
  if s.sending.isSome then s else
  let hasHigh := highest (priOf s.entries) s.heap ≥ highTaskPriority
  let (idx, pick) := chooseClient s.clients hasHigh s.clients.length s.index
  let s := { s with index := idx }
  match pick with
  | none =>
    if s.cancelOnNoConn then
      -- reqBuilder.cancel(err): entry.error for everything queued, queue reset
      { s with entries := updIn s.entries s.heap (·.fail .noconn), heap := [] }
    else s
  | some cid =>
    let avail := match s.clients[cid]? with | some c => c.available | none => 0
    let (hp, bst) := buildLoop s.entries avail (s.heap.length + 1) s.heap { idAlloc := s.idAlloc, count := 0, items := [] }
    { s with heap := hp, idAlloc := bst.idAlloc, built := bst.items.reverse, breqs := bst.items.reverse.map (·.req),
             sending := some cid,
             allocLog := bst.items.map (fun it => (it.id, it.h)) ++ s.allocLog }

/-- second half of `getClientAndSend`: `send` for the direct group and every forwarding group, unlockForSend.
    Between the two halves (`send` may block in initBatchClient/waitConnReady for as long as the dial time-out) callers
    can cancel or time out, responses can arrive, other connections' streams can break. -/
def flushEnd (s : State) : State :=
  match s.sending with
  | none => s
  | some cid => { sendAll s cid s.nfwd with sending := none }

/-- `getClientAndSend` without anything happening in between -/
def flush (s : State) : State := flushEnd (flushBegin s)

/-! ## receive loop -/

def findSlot (t : List Slot) (cid id : Nat) : Option Slot :=
  t.find? fun sl => sl.cid = cid ∧ sl.id = id

/-- one (request id, response) pair of a BatchCommandsResponse received by a recv loop of client `cid` -/
def recv1 (cid : Nat) (s : State) (r : Nat × Nat) : State :=
  let s := { s with respLog := r :: s.respLog }
  match findSlot s.table cid r.1 with
  | none => { s with outdated := s.outdated + 1 }
  | some sl =>
    let canc := isCanceled s.entries sl.h
    { s with
      entries := if canc then s.entries else updAt s.entries sl.h (·.respond r.1 r.2),
      dropped := if canc then s.dropped + 1 else s.dropped,
      table := s.table.filter (fun x => ¬ (x.cid = cid ∧ x.id = r.1)),
      clients := updClient s.clients cid fun c => { c with sent := c.sent - 1 } }

def recv (s : State) (cid fwd : Nat) (rs : List (Nat × Nat)) : State :=
  if s.closed then s else
  match findStream s.streams cid fwd with
  | none => s
  | some _ => rs.foldl (recv1 cid) s

/-- does the recv loop of stream (cid, fwd) win the epoch CAS of recreateStreamingClient? -/
def killWins (s : State) (cid fwd : Nat) : Bool :=
  match findStream s.streams cid fwd with
  | some st => st.lep = clientEpoch s.clients cid
  | none => false

/-- `Recv` fails on stream (cid, fwd): recreateStreamingClient (atomic: lockForRecreate … unlockForRecreate) -/
def kill (s : State) (cid fwd : Nat) : State :=
  if s.closed then s else
  match findStream s.streams cid fwd with
  | none => s
  | some st =>
    if st.lep = clientEpoch s.clients cid then
      let s := failSlots s cid (fun sl => sl.fwd = fwd) .stream
      { s with
        clients := updClient s.clients cid (fun c => { c with epoch := c.epoch + 1 }),
        streams := s.streams.map fun x =>
          if x.cid = cid ∧ x.fwd = fwd then { x with gen := x.gen + 1, lep := x.lep + 1, sib := false }
          else if x.cid = cid then { x with sib := true } else x }
    else
      { s with
        loserSeen := true,
        streams := s.streams.map fun x =>
          if x.cid = cid ∧ x.fwd = fwd then { x with gen := x.gen + 1, lep := clientEpoch s.clients cid, sib := false } else x }

/-! ## steps -/

inductive Op
  | submit (payload pri fwd : Nat)
  | fetch (max : Nat)
  | breset
  | flush
  | recv (cid fwd : Nat) (rs : List (Nat × Nat))
  | kill (cid fwd : Nat)
  | cancel (h : Nat)
  | timeout (h : Nat)
  | wake (h : Nat)
  | close
  | sendfail (cid fwd : Nat) (b : Bool)
  | lockrec (cid : Nat) (b : Bool)
  | setlimit (cid : Nat) (limit : Nat)
  | cfgcancel (b : Bool)
  | panicRecover            -- batchSendLoop panics, recovers and restarts itself
  | flushBegin              -- getClientAndSend up to and including buildWithLimit
  | flushEnd                -- the sends of getClientAndSend
  deriving Repr

def fetchLoop (pri : Nat → Nat) (max : Nat) : Nat → List Nat → List Nat → List Nat × List Nat
  | 0, ch, hp => (ch, hp)
  | f + 1, ch, hp =>
    match ch with
    | [] => (ch, hp)
    | x :: rest => if hp.length < max then fetchLoop pri max f rest (heapPush pri hp x) else (ch, hp)

/-- `fetchAllPendingRequests`: block on the head, then take more while `len < maxBatchSize` -/
def fetch (s : State) (max : Nat) : State :=
  match s.ch with
  | [] => s
  | x :: rest =>
    let (ch, hp) := fetchLoop (priOf s.entries) max rest.length rest (heapPush (priOf s.entries) s.heap x)
    { s with ch := ch, heap := hp }

def submit (s : State) (payload pri fwd : Nat) : State :=
  let f := if fwd ≤ s.nfwd then fwd else 0
  if s.closed then
    { s with entries := s.entries ++ [{ payload := payload, pri := pri, fwd := f, ret := some (.err .closed), nret := 1 }] }
  else
    { s with entries := s.entries ++ [{ payload := payload, pri := pri, fwd := f }], ch := s.ch ++ [s.entries.length] }

def closeAll (s : State) : State :=
  { s with closed := true, entries := s.entries.mapIdx fun _ e => e.abandon .closed }

def step (s : State) : Op → State
  | .submit p pri fwd => submit s p pri fwd
  | .fetch max => fetch s max
  | .breset => { s with heap := cleanLoop (priOf s.entries) (isCanceled s.entries) (s.heap.length + 1) 0 s.heap }
  | .flush => flush s
  | .recv cid fwd rs => recv s cid fwd rs
  | .kill cid fwd => kill s cid fwd
  | .cancel h => { s with entries := updAt s.entries h (·.abandon .canceled) }
  | .timeout h => { s with entries := updAt s.entries h (·.abandon .timeout) }
  | .wake h => { s with entries := updAt s.entries h Entry.wake }
  | .close => closeAll s
  | .sendfail cid fwd b =>
    { s with streams := s.streams.map fun x => if x.cid = cid ∧ x.fwd = fwd then { x with sendFail := b } else x }
  | .lockrec cid b => { s with clients := updClient s.clients cid fun c => { c with recreating := b } }
  | .setlimit cid l => { s with clients := updClient s.clients cid fun c => { c with limit := l } }
  | .cfgcancel b => { s with cancelOnNoConn := b }
  -- the deferred recover of batchSendLoop only counts the panic and starts a new loop goroutine: the request builder
  -- (id allocator, queued entries) and every in-flight table stay as they are
  | .panicRecover => s
  | .flushBegin => flushBegin s
  | .flushEnd => flushEnd s

def init (nclients limit nfwd : Nat) : State :=
  { clients := List.replicate nclients { limit := limit }, nfwd := nfwd }

def run (s : State) (ops : List Op) : State := ops.foldl step s

end CGV.BatchMux
