/-
  Model/MvccFull.lean — profile `full`: the MVCC store with the commands the in-repo mock lacks and the client
  nevertheless speaks (DESIGN Appendix A): async-commit prewrite, one-phase commit, CheckTxnStatus on async primaries,
  CheckSecondaryLocks, max_ts tracking.  The store the real client runs against in the `full` checks IS this model
  (Driver/Full.lean serves it over the line protocol), so the store-side theorems apply to those runs directly.

  The base store (`Mvcc.Store`) is untouched; async-commit data of a lock lives in a side table keyed by (key, start ts).
  The rules are assumptions about TiKV (Appendix A) and are listed as such in the evidence of every check using them.
-/
import ClientGoVerif.Model.MvccRpc
namespace CGV.MvccFull
open CGV CGV.Mvcc CGV.MvccProto CGV.MvccRpc

structure AsyncInfo where
  key : Bytes
  startTS : Nat
  minCommitTS : Nat
  secondaries : List Bytes        -- non-empty only on the primary
  deriving Repr, Inhabited

structure FStore where
  base : Store := {}
  maxTS : Nat := 0
  async : List AsyncInfo := []
  overlapped : List (Bytes × Nat) := []   -- (key, start ts): rolled back there, but the marker's version is a commit record's
  deriving Repr, Inhabited

/-- Overlapped rollback (TiKV: `has_overlapped_rollback` / protected rollback).  In this profile the store chooses
    commit timestamps itself (async commit, 1PC), so a commit ts can equal another transaction's start ts: a rollback
    marker and a commit record then compete for one version.  The commit record always stays; that the other
    transaction is rolled back on the key is remembered in `overlapped`.  `repairOverlap old new` is applied after every
    base-store step: it puts back a data record that a marker replaced, and notes a marker that a data record replaced. -/
def repairOverlap (old new : List (Bytes × Entry)) : List (Bytes × Entry) × List (Bytes × Nat) :=
  new.foldl (fun (acc : List (Bytes × Entry) × List (Bytes × Nat)) p =>
    let (k, e) := p
    let oe := getEntry old k
    -- data records of the old entry whose version now holds a rollback marker of another transaction
    let lost := oe.writes.filter fun w => w.vt != .rollback &&
      e.writes.any fun w' => w'.commitTS == w.commitTS && w'.vt == .rollback && w'.startTS != w.startTS
    -- rollback markers of the old entry whose version now holds a data record
    let covered := oe.writes.filter fun w => w.vt == .rollback &&
      e.writes.any fun w' => w'.commitTS == w.commitTS && w'.vt != .rollback
    let marks := (lost.filterMap fun w => (e.writes.find? fun w' => w'.commitTS == w.commitTS).map fun w' => (k, w'.startTS))
      ++ covered.map fun w => (k, w.startTS)
    let writes' := lost.foldl (fun ws w => putWrite ws w) e.writes
    (acc.1 ++ [(k, { e with writes := writes' })], acc.2 ++ marks)) ([], [])

def FStore.settle (f : FStore) (newBase : Store) : FStore :=
  let (kv', marks) := repairOverlap f.base.kv newBase.kv
  { f with base := { newBase with kv := kv' }, overlapped := marks ++ f.overlapped }

def FStore.bump (f : FStore) (ts : Nat) : FStore := if ts == maxU64 then f else { f with maxTS := max f.maxTS ts }

def asyncOf (f : FStore) (key : Bytes) (startTS : Nat) : Option AsyncInfo :=
  f.async.find? fun a => a.key == key && a.startTS == startTS

/-- is the lock currently on `key` an async-commit lock of `startTS`? -/
def isAsyncLock (f : FStore) (key : Bytes) (startTS : Nat) : Bool :=
  match (getEntry f.base.kv key).lock with
  | some l => l.startTS == startTS && l.op != .pessimisticLock && (asyncOf f key startTS).isSome
  | none => false

structure FPrewriteExtra where
  useAsync : Bool := false
  tryOnePC : Bool := false
  secondaries : List Bytes := []
  maxCommitTS : Nat := 0
  deriving Repr, Inhabited

structure FPrewriteResp where
  errs : List (Option KErr) := []
  minCommitTS : Nat := 0
  onePCCommitTS : Nat := 0
  deriving Repr

/-- turn the lock writes of an accepted prewrite into committed records (one-phase commit) -/
def onePCActs (acts : List Act) (startTS commitTS : Nat) : List Act :=
  acts.flatMap fun a => match a with
    | .putLock k l => commitLock l k startTS commitTS
    | other => [other]

/-- the commit ts of the transaction's own commit record on one of the requested keys, if any -/
def ownCommitTS (f : FStore) (r : PrewriteReq) : Option Nat :=
  r.mutations.findSome? fun m =>
    match txnCommitInfo (getEntry f.base.kv m.key).writes r.startTS with
    | some c => if c.vt != .rollback then some c.commitTS else none
    | none => none

/-- the ordinary path of a prewrite (no commit record of the transaction on the requested keys) -/
def fprewriteFresh (f : FStore) (r : PrewriteReq) (x : FPrewriteExtra) : FStore × FPrewriteResp :=
  let (errs0, acts) := prewriteLoop f.base r r.mutations 0 [] []
  -- a transaction rolled back on a key by an overlapped rollback is rejected like one with a visible marker
  let rolled := r.mutations.find? fun m => f.overlapped.contains (m.key, r.startTS)
  let errs := match rolled with
    | some m => [some (KErr.alreadyRollbacked r.startTS m.key)]
    | none => errs0
  if errs.any Option.isSome then (f, { errs := errs })
  else if !(x.useAsync || x.tryOnePC) then
    ({ f with base := { f.base with kv := applyBatch f.base.kv acts } }, { errs := errs })
  else
    let m := max (max r.minCommitTS (r.startTS + 1)) (max (r.forUpdateTS + 1) (f.maxTS + 1))
    if x.maxCommitTS != 0 && m > x.maxCommitTS then
      -- cannot honour the bound: fall back to ordinary 2PC locks, answer min_commit_ts = 0
      ({ f with base := { f.base with kv := applyBatch f.base.kv acts } }, { errs := errs })
    else if x.tryOnePC then
      (f.settle { f.base with kv := applyBatch f.base.kv (onePCActs acts r.startTS m) },
       { errs := errs, onePCCommitTS := m })
    else
      -- async commit: every lock carries min_commit_ts = m, the primary also the secondaries
      let acts' := acts.map fun a => match a with
        | .putLock k l => Act.putLock k { l with minCommitTS := m }
        | other => other
      let infos := acts.filterMap fun a => match a with
        | .putLock k _ => some ({ key := k, startTS := r.startTS, minCommitTS := m,
                                  secondaries := if k == r.primary then x.secondaries else [] } : AsyncInfo)
        | _ => none
      let keep := f.async.filter fun a => !(infos.any fun i => i.key == a.key && i.startTS == a.startTS)
      ({ f with base := { f.base with kv := applyBatch f.base.kv acts' }, async := infos ++ keep },
       { errs := errs, minCommitTS := m })

/-- Prewrite.  A repeated prewrite of a transaction that is ALREADY committed on a requested key (the answer of an
    async-commit / one-phase prewrite was lost and the client retries, possibly re-grouped after a split) is idempotent
    (TiKV `check_committed_record_on_err`): nothing is written and the answer is success carrying that commit ts as
    min_commit_ts (and as one_pc_commit_ts when the retry still asks for one-phase commit). -/
def fprewrite (f : FStore) (r : PrewriteReq) (x : FPrewriteExtra) : FStore × FPrewriteResp :=
  match ownCommitTS f r with
  | some c => (f, { errs := r.mutations.map fun _ => none, minCommitTS := c, onePCCommitTS := if x.tryOnePC then c else 0 })
  | none => fprewriteFresh f r x

structure FStatusResp where
  base : StatusResp := {}
  asyncPrimary : Option AsyncInfo := none      -- lock_info of an async-commit primary (use_async_commit, secondaries, min_commit_ts)
  deriving Repr

def fcheckTxnStatus (f : FStore) (primary : Bytes) (lockTS callerStartTS currentTS : Nat)
    (rollbackIfNotExist resolvingPessimistic forceSyncCommit : Bool) : FStore × FStatusResp :=
  let f := (f.bump callerStartTS).bump currentTS
  if isAsyncLock f primary lockTS && !forceSyncCommit then
    match (getEntry f.base.kv primary).lock with
    | some l => (f, { base := { ttl := l.ttl, action := .noAction }, asyncPrimary := asyncOf f primary lockTS })
    | none => (f, {})
  else
    let (s', r) := checkTxnStatus f.base primary lockTS callerStartTS currentTS rollbackIfNotExist resolvingPessimistic
    (f.settle s', { base := r })

structure SecLock where
  key : Bytes
  minCommitTS : Nat
  useAsync : Bool
  deriving Repr

structure FSecResp where
  locks : List SecLock := []
  commitTS : Nat := 0
  deriving Repr

/-- CheckSecondaryLocks -/
def fcheckSecondaryLocks (f : FStore) (keys : List Bytes) (startTS : Nat) : FStore × FSecResp :=
  let go := keys.foldl (fun (acc : List Act × List SecLock × Option Nat) k =>
    let (acts, locks, missing) := acc
    match missing with
    | some _ => acc
    | none =>
      let e := getEntry f.base.kv k
      match e.lock.filter (·.startTS == startTS) with
      | some l =>
        if l.op == .pessimisticLock then
          (acts ++ rollbackLock k startTS, locks, some 0)
        else
          let mc := match asyncOf f k startTS with | some a => a.minCommitTS | none => l.minCommitTS
          (acts, locks ++ [{ key := k, minCommitTS := mc, useAsync := (asyncOf f k startTS).isSome }], none)
      | none =>
        match txnCommitInfo e.writes startTS with
        | some c => if c.vt != .rollback then (acts, locks, some c.commitTS) else (acts, locks, some 0)
        | none => (acts ++ [rollbackMarker k startTS], locks, some 0)) ([], [], none)
  let (acts, locks, missing) := go
  let f' := f.settle { f.base with kv := applyBatch f.base.kv acts }
  match missing with
  | some c => (f', { locks := [], commitTS := c })
  | none => (f', { locks := locks })

/-- commit in the full profile: below an async lock's min_commit_ts the commit is refused like any other lock -/
def fcommit (f : FStore) (keys : List Bytes) (startTS commitTS : Nat) : FStore × Option KErr :=
  let (s', e) := commit f.base keys startTS commitTS
  (f.settle s', e)

/-! ### the serving step: command tokens in, wire answer out (superset of MvccRpc.rpcExec) -/

def secLockStr (l : SecLock) : String := s!"{hexOrTilde l.key}:{l.minCommitTS}:{showBool l.useAsync}"

def frpcExec (f : FStore) (rstart rend : Bytes) (w : List String) : Option (FStore × String) :=
  match w with
  | ["prewrite", p, st, fu, ttl, mc, sz, ao, rs, ms, asyncT, onepcT, secT, maxT] => do
    let p ← hx p; let st ← st.toNat?; let fu ← fu.toNat?; let ttl ← ttl.toNat?; let mc ← mc.toNat?
    let sz ← sz.toNat?; let ao ← parseBool ao; let rs ← parseNatList rs; let ms ← parseMuts ms
    let sec ← (tokVal "secondaries=" secT) >>= parseHexList
    let maxc ← (tokVal "maxcommit=" maxT) >>= String.toNat?
    let allSkip := ms.all fun x => x.2 == .skip
    let req : PrewriteReq := {
      mutations := ms.map (·.1), primary := p, startTS := st, forUpdateTS := fu, ttl := ttl,
      minCommitTS := mc, txnSize := sz, actions := if allSkip then [] else ms.map (·.2), assertOn := ao, resolved := rs }
    let (f', r) := fprewrite ((f.bump st).bump fu) req
      { useAsync := asyncT == "async=1", tryOnePC := onepcT == "onepc=1", secondaries := sec, maxCommitTS := maxc }
    pure (f', s!"errs={showList ((prewriteWire r.errs).map wireErr)} mincommit={r.minCommitTS} onepc={r.onePCCommitTS}")
  | ["status", p, lt, cs, cur, rb, rp, force] => do
    let p ← hx p; let lt ← lt.toNat?; let cs ← cs.toNat?; let cur ← cur.toNat?
    let rb ← parseBool rb; let rp ← parseBool rp; let force ← (tokVal "force=" force) >>= parseBool
    let (f', r) := fcheckTxnStatus f p lt cs cur rb rp force
    pure (f', match r.base.err with
      | some e => s!"err {wireErr e}"
      | none =>
        let a := match r.asyncPrimary with
          | some a => s!" async=1 mincommit={a.minCommitTS} secondaries={showList (a.secondaries.map hexOrTilde)}"
          | none => " async=0 mincommit=0 secondaries=-"
        s!"ok ttl={r.base.ttl} commit={r.base.commitTS} action={r.base.action.code}{a}")
  | ["checksecondary", ks, st] => do
    let ks ← parseHexList ks; let st ← st.toNat?
    let (f', r) := fcheckSecondaryLocks f ks st
    pure (f', s!"ok locks={showList (r.locks.map secLockStr)} commit={r.commitTS}")
  | "get" :: _k :: ts :: _ => do
    let ts ← ts.toNat?
    let (s', a) ← rpcExec f.base rstart rend w
    pure ({ (f.bump ts) with base := s' }, a)
  | "bget" :: _ks :: ts :: _ => do
    let ts ← ts.toNat?
    let (s', a) ← rpcExec f.base rstart rend w
    pure ({ (f.bump ts) with base := s' }, a)
  | "scan" :: _ :: _ :: _ :: ts :: _ => do
    let ts ← ts.toNat?
    let (s', a) ← rpcExec f.base rstart rend w
    pure ({ (f.bump ts) with base := s' }, a)
  | "rscan" :: _ :: _ :: _ :: ts :: _ => do
    let ts ← ts.toNat?
    let (s', a) ← rpcExec f.base rstart rend w
    pure ({ (f.bump ts) with base := s' }, a)
  | "plock" :: _p :: st :: fu :: _ => do
    let st ← st.toNat?; let fu ← fu.toNat?
    let (s', a) ← rpcExec f.base rstart rend w
    pure (((f.bump st).bump fu).settle s', a)
  | _ => do
    let (s', a) ← rpcExec f.base rstart rend w
    pure (f.settle s', a)

end CGV.MvccFull
