-- GENERATED from /repo by the facts extractor on every run — do not edit
namespace CGV.Gen
def c18_highTaskPriority : Nat := 10
end CGV.Gen
