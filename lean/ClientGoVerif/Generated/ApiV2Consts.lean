-- GENERATED from /repo by the facts extractor on every run — do not edit
namespace CGV.Gen
def rawModePrefix : Nat := 114
def txnModePrefix : Nat := 120
def keyspacePrefixLen : Nat := 4
def maxKeyspaceID : Nat := 16777215
end CGV.Gen
