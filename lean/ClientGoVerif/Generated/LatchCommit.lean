-- GENERATED from /repo by the facts extractor on every run — do not edit
namespace CGV.Gen
/-- KVTxn.Commit defers TxnLatches().UnLock(lock) right after Lock, before any return -/
def commitUnlockOnEveryExit : Bool := true
end CGV.Gen
