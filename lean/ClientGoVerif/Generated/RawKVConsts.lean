-- GENERATED from /repo by the facts extractor on every run — do not edit
namespace CGV.Gen
def rawBatchPutSize : Nat := 16384
def rawBatchPairCount : Nat := 512
end CGV.Gen
