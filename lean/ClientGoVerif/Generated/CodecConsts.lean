-- GENERATED from /repo by the facts extractor on every run — do not edit
namespace CGV.Gen
def encGroupSize : Nat := 8
def encMarker : Nat := 255
def encPad : Nat := 0
def signMask : Nat := 9223372036854775808
def negativeTagEnd : Nat := 8
def positiveTagStart : Nat := 247
end CGV.Gen
