-- GENERATED from /repo by the facts extractor on every run — do not edit
namespace CGV.Gen
-- internal/locate/replica_selector.go: storeSelectionScore bits, probe threshold; kv.ReplicaReadType values
def flagNotAttempted : Nat := 1
def flagNormalPeer : Nat := 2
def flagPreferLeader : Nat := 4
def flagLabelMatches : Nat := 8
def flagNotSlow : Nat := 16
def leaderBusyProbeThreshold : Nat := 2
def replicaReadLeader : Nat := 0
def replicaReadFollower : Nat := 1
def replicaReadMixed : Nat := 2
def replicaReadLearner : Nat := 3
def replicaReadPreferLeader : Nat := 4
end CGV.Gen
