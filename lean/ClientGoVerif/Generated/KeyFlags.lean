-- GENERATED from /repo by the facts extractor on every run — do not edit
namespace CGV.Gen.KeyFlags
def flagPresumeKNE : Nat := 1
def flagKeyLocked : Nat := 2
def flagNeedLocked : Nat := 4
def flagKeyLockedValExist : Nat := 8
def flagNeedCheckExists : Nat := 16
def flagPrewriteOnly : Nat := 32
def flagIgnoredIn2PC : Nat := 64
def flagReadable : Nat := 128
def flagNewlyInserted : Nat := 256
def flagAssertExist : Nat := 512
def flagAssertNotExist : Nat := 1024
def flagNeedConstraintCheckInPrewrite : Nat := 2048
def flagPreviousPresumeKNE : Nat := 4096
def flagKeyLockedInShareMode : Nat := 8192
def persistentFlags : Nat := 10250
def SetPresumeKeyNotExists : Nat := 1
def DelPresumeKeyNotExists : Nat := 2
def SetKeyLocked : Nat := 4
def DelKeyLocked : Nat := 8
def SetNeedLocked : Nat := 16
def DelNeedLocked : Nat := 32
def SetKeyLockedValueExists : Nat := 64
def DelNeedCheckExists : Nat := 256
def SetKeyLockedValueNotExists : Nat := 128
def SetPrewriteOnly : Nat := 512
def SetIgnoredIn2PC : Nat := 1024
def SetReadable : Nat := 2048
def SetNewlyInserted : Nat := 4096
def SetAssertExist : Nat := 8192
def SetAssertNotExist : Nat := 16384
def SetAssertUnknown : Nat := 32768
def SetAssertNone : Nat := 65536
def SetNeedConstraintCheckInPrewrite : Nat := 131072
def DelNeedConstraintCheckInPrewrite : Nat := 262144
def SetPreviousPresumeKNE : Nat := 524288
def SetKeyLockedInShareMode : Nat := 1048576
def SetKeyLockedInExclusiveMode : Nat := 2097152
/-- kv.FlagsOp value ↦ the statements of its `case` in kv.ApplyFlagsOps, in order: (true, m) is `origin |= m`, (false, m) is `origin &= ^m` -/
def opTable : List (Nat × List (Bool × Nat)) := [
  (1, [(true, 17)]),
  (2, [(false, 17)]),
  (4, [(true, 2)]),
  (8, [(false, 2)]),
  (16, [(true, 4)]),
  (32, [(false, 4)]),
  (64, [(true, 8), (false, 2048)]),
  (256, [(false, 16)]),
  (128, [(false, 8), (false, 2048)]),
  (512, [(true, 32)]),
  (1024, [(true, 64)]),
  (2048, [(true, 128)]),
  (4096, [(true, 256)]),
  (8192, [(false, 1024), (true, 512)]),
  (16384, [(false, 512), (true, 1024)]),
  (32768, [(true, 1024), (true, 512)]),
  (65536, [(false, 512), (false, 1024)]),
  (131072, [(true, 2048)]),
  (262144, [(false, 2048)]),
  (524288, [(true, 4096)]),
  (1048576, [(true, 8192)]),
  (2097152, [(false, 8192)])
]
/-- op names in table order (documentation / driver) -/
def opNames : List String := ["SetPresumeKeyNotExists", "DelPresumeKeyNotExists", "SetKeyLocked", "DelKeyLocked", "SetNeedLocked", "DelNeedLocked", "SetKeyLockedValueExists", "DelNeedCheckExists", "SetKeyLockedValueNotExists", "SetPrewriteOnly", "SetIgnoredIn2PC", "SetReadable", "SetNewlyInserted", "SetAssertExist", "SetAssertNotExist", "SetAssertUnknown", "SetAssertNone", "SetNeedConstraintCheckInPrewrite", "DelNeedConstraintCheckInPrewrite", "SetPreviousPresumeKNE", "SetKeyLockedInShareMode", "SetKeyLockedInExclusiveMode"]
end CGV.Gen.KeyFlags
