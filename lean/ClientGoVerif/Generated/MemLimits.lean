-- GENERATED from /repo by the facts extractor on every run — do not edit
namespace CGV.Gen.MemLimits
def maxKeyLen : Nat := 65535
def maxInNodePrefixLen : Nat := 20
def initBlockSize : Nat := 4096
def maxBlockSize : Nat := 134217728
def vlogHdrSize : Nat := 20
def unlimitedSize : Nat := 18446744073709551615
end CGV.Gen.MemLimits
