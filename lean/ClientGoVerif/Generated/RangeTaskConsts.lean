-- GENERATED from /repo by the facts extractor on every run — do not edit
namespace CGV.RangeTaskGen
def defaultRegionsPerTask : Nat := 128
def resolvedCacheSize : Nat := 2048
end CGV.RangeTaskGen
