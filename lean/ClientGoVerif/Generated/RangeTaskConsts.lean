-- GENERATED from /repo by the facts extractor on every run — do not edit
namespace CGV.RangeTaskGen
def defaultRegionsPerTask : Nat := 128
def resolvedCacheSize : Nat := 2048
def gcStateCacheSeconds : Nat := 100
def gcInaccuracySeconds : Nat := 10
end CGV.RangeTaskGen
