-- GENERATED from /repo by the facts extractor on every run — do not edit
namespace CGV.Gen
def MinFlushKeys : Nat := 10000
def MinFlushMemSize : Nat := 16777216
def ForceFlushMemSizeThreshold : Nat := 134217728
end CGV.Gen
