-- GENERATED from /repo by the facts extractor on every run — do not edit
namespace CGV.Gen
def defaultRegionsPerBatch : Nat := 128
end CGV.Gen
