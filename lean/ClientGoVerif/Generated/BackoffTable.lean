-- GENERATED from /repo by the facts extractor on every run — do not edit
namespace CGV.Gen
def noJitter : Int := 1
def fullJitter : Int := 2
def equalJitter : Int := 3
def decorrJitter : Int := 4
def txnLockFastName : String := "txnLockFast"
def maxRecordBackoffErrCount : Nat := 3
def defBackoffLockFast : Int := 10
def defBackOffWeight : Int := 2
/-- (name, base, cap, jitter, error class) per `NewConfig(...)` of config/retry/config.go, in source order;
    error class = name of the first config with the same error expression -/
def backoffTable : List (String × Int × Int × Int × String) := [
  ("tikvRPC", 100, 2000, 3, "tikvRPC"),
  ("tiflashRPC", 100, 2000, 3, "tiflashRPC"),
  ("txnLock", 100, 3000, 3, "txnLock"),
  ("pdRPC", 500, 3000, 3, "pdRPC"),
  ("regionMiss", 2, 500, 1, "regionMiss"),
  ("regionScheduling", 2, 500, 1, "regionMiss"),
  ("tikvServerBusy", 2000, 10000, 3, "tikvServerBusy"),
  ("tikvDiskFull", 500, 5000, 1, "tikvDiskFull"),
  ("regionRecoveryInProgress", 100, 10000, 3, "regionRecoveryInProgress"),
  ("tiflashServerBusy", 2000, 10000, 3, "tiflashServerBusy"),
  ("txnNotFound", 2, 500, 1, "txnLock"),
  ("staleCommand", 2, 1000, 1, "staleCommand"),
  ("maxTsNotSynced", 2, 500, 1, "maxTsNotSynced"),
  ("commitTSLag", 2, 500, 1, "commitTSLag"),
  ("regionNotInitialized", 2, 1000, 1, "regionNotInitialized"),
  ("isWitness", 1000, 10000, 3, "isWitness"),
  ("txnLockFast", 2, 3000, 3, "txnLock")
]
/-- `isSleepExcluded` : name ↦ max excluded limit -/
def isSleepExcluded : List (String × Int) := [("tikvServerBusy", 600000)]
end CGV.Gen
