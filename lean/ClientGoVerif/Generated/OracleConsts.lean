-- GENERATED from /repo by the facts extractor on every run — do not edit
namespace CGV.Gen
def physicalShiftBits : Nat := 18
def minAllowedAdaptiveUpdateTSInterval : Nat := 500000000
def adaptiveUpdateTSIntervalShrinkingPreserve : Nat := 100000000
def adaptiveUpdateTSIntervalBlockRecoverThreshold : Nat := 200000000
def adaptiveUpdateTSIntervalRecoverPerSecond : Nat := 20000000
def adaptiveUpdateTSIntervalDelayBeforeRecovering : Nat := 300000000000
def commitTSLagBase : Nat := 2
def commitTSLagCap : Nat := 500
def commitTSLagJitter : Nat := 1
def noJitter : Nat := 1
end CGV.Gen
