-- GENERATED from /repo by the facts extractor on every run — do not edit
namespace CGV.Gen
def maxReplicaAttempt : Nat := 10
def jitterNo : Nat := 1
def jitterFull : Nat := 2
def jitterEqual : Nat := 3
def jitterDecorr : Nat := 4
/-- (name, base, cap, jitter) of every retry.BoXxx config referenced by internal/locate's sender files -/
def senderBackoffs : List (String × Nat × Nat × Nat) := [
  ("isWitness", 1000, 10000, 3),
  ("regionNotInitialized", 2, 1000, 1),
  ("maxTsNotSynced", 2, 500, 1),
  ("pdRPC", 500, 3000, 3),
  ("regionMiss", 2, 500, 1),
  ("regionRecoveryInProgress", 100, 10000, 3),
  ("regionScheduling", 2, 500, 1),
  ("staleCommand", 2, 1000, 1),
  ("tiflashRPC", 100, 2000, 3),
  ("tiflashServerBusy", 2000, 10000, 3),
  ("tikvDiskFull", 500, 5000, 1),
  ("tikvRPC", 100, 2000, 3),
  ("tikvServerBusy", 2000, 10000, 3)]
/-- config/retry/config.go isSleepExcluded: (name, max excluded sleep in ms) -/
def sleepExcluded : List (String × Nat) := [("tikvServerBusy", 600000)]
end CGV.Gen
