import ClientGoVerif.Proofs.BatchMuxOwn
/-!
  C18 — batched RPC multiplexing returns each caller its own response, exactly once.

  All theorems quantify over the number of connections, the concurrency limit, the number of forwarded hosts and over
  ALL sequences of steps of the table protocol `CGV.BatchMux.step` (submit, fetch, builder reset, getClientAndSend,
  received responses with arbitrary — unknown, duplicate — ids and payloads, stream failures with and without epoch-CAS
  win, cancellation, time-out, wake-up, close, …).  They are consequences of one invariant over reachable states
  (`reach_inv`: accounting `InvF`, ids/entries `InvB`, epochs/generations `InvG`, id history `InvL`), proved preserved
  by every step.  The model is tied to /repo by the differential of `./check C18` (harness/c18).
-/
namespace CGV.Props.C18
open CGV.BatchMux

/-- every state reachable from an initial state -/
abbrev reach (n limit nfwd : Nat) (ops : List Op) : State := run (init n limit nfwd) ops

/-- Request ids are allocated strictly increasing (`allocLog` is newest first), are positive, never exceed the
    allocator, hence are never reused; and the ids that are built or in flight at any moment are pairwise distinct, so
    `batched.Store(id, entry)` never overwrites a pending entry. -/
theorem ids_unique_monotone (n limit nfwd : Nat) (ops : List Op) :
    let s := reach n limit nfwd ops
    (s.allocLog.map (·.1)).Pairwise (· > ·) ∧ (s.allocLog.map (·.1)).Nodup ∧
    (∀ p ∈ s.allocLog, 0 < p.1 ∧ p.1 ≤ s.idAlloc) ∧ (ids s).Nodup ∧ (∀ id ∈ ids s, id ≤ s.idAlloc) := by
  obtain ⟨hF, _, _, hL⟩ := reach_inv n limit nfwd ops
  exact ⟨hL.mono, hL.mono.imp (fun h => Nat.ne_of_gt h), hL.le, hF.1.idnodup, hF.1.idle⟩

/-- Every pending entry is in exactly one place (submission channel, priority queue, the builder's group between
    buildWithLimit and send, or in-flight table — never two), the builder's groups are empty unless getClientAndSend is
    between buildWithLimit and its sends, and every in-flight slot belongs to a live stream (connection, forwarded host)
    of its connection. -/
theorem pending_entry_in_one_place (n limit nfwd : Nat) (ops : List Op) :
    let s := reach n limit nfwd ops
    (s.ch ++ s.heap ++ s.built.map (·.h) ++ s.table.map (·.h)).Nodup ∧
    (s.sending = none → s.built = []) ∧
    ∀ sl ∈ s.table, (findStream s.streams sl.cid sl.fwd).isSome := by
  obtain ⟨hF, _, hG, _⟩ := reach_inv n limit nfwd ops
  exact ⟨hF.1.nodup, hF.2, hG.live⟩

/-- Each entry's completion channel is written or closed at most once (`ncomp` counts `res <- resp` and `close(res)`),
    and each caller returns at most once. -/
theorem at_most_one_completion (n limit nfwd : Nat) (ops : List Op) (h : Nat) (e : Entry)
    (he : (reach n limit nfwd ops).entries[h]? = some e) : e.ncomp ≤ 1 ∧ e.nret ≤ 1 := by
  have ok := (reach_inv n limit nfwd ops).1.1.eok h e he
  constructor
  · by_cases hc : e.chan = .fresh
    · rw [(ok.fresh0 hc).1]; exact Nat.zero_le _
    · rw [ok.used1 hc]; exact Nat.le_refl _
  · by_cases hr : e.ret = none
    · rw [ok.ret0 hr]; exact Nat.zero_le _
    · rw [ok.ret1 hr]; exact Nat.le_refl _

/-- FULL `own_response_only`.  (1) What a caller returns, and what is buffered in its channel, is the payload a receive
    step put into THIS entry's channel (`got`); a fresh channel has received nothing.  (2) That payload arrived in a
    response carrying exactly the request id this entry was sent with, (3) it was really received, and (4) no other
    entry was ever sent with that id — so a caller never gets another call's response. -/
theorem own_response_only (n limit nfwd : Nat) (ops : List Op) (h : Nat) (e : Entry)
    (he : (reach n limit nfwd ops).entries[h]? = some e) :
    (∀ p, e.ret = some (.resp p) → ∃ id, e.got = some (id, p)) ∧
    (∀ p, e.chan = .full p → ∃ id, e.got = some (id, p)) ∧
    (e.chan = .fresh → e.got = none) ∧
    (∀ id p, e.got = some (id, p) →
      e.reqId = id ∧ 0 < id ∧ (id, p) ∈ (reach n limit nfwd ops).respLog ∧
      ∀ (h' : Nat) (e' : Entry), (reach n limit nfwd ops).entries[h']? = some e' → e'.reqId = id → h' = h) := by
  obtain ⟨hF, hB, _, _⟩ := reach_inv n limit nfwd ops
  have ok := hF.1.eok h e he
  refine ⟨ok.retp, ok.full, fun hc => (ok.fresh0 hc).2, ?_⟩
  intro id p hg
  obtain ⟨h1, h2, h3⟩ := hB.got_ok h e id p he hg
  refine ⟨h1, h2, h3, ?_⟩
  intro h' e' he' hr
  exact (hB.req_inj h h' e e' he he' (h1.trans hr.symm) (by omega)).symm

/-- What went on the wire under an id is the payload of the one entry that was sent with that id. -/
theorem wire_carries_own_payload (n limit nfwd : Nat) (ops : List Op) (id q : Nat)
    (hq : (id, q) ∈ (reach n limit nfwd ops).wireLog) :
    0 < id ∧ ∃ (h : Nat) (e : Entry), (reach n limit nfwd ops).entries[h]? = some e ∧ e.reqId = id ∧ e.payload = q ∧
      ∀ (h' : Nat) (e' : Entry), (reach n limit nfwd ops).entries[h']? = some e' → e'.reqId = id → h' = h := by
  obtain ⟨_, hB, _, _⟩ := reach_inv n limit nfwd ops
  obtain ⟨hp, h, e, he, h1, h2⟩ := hB.wire_ok id q hq
  refine ⟨hp, h, e, he, h1, h2, ?_⟩
  intro h' e' he' hr
  exact (hB.req_inj h h' e e' he he' (h1.trans hr.symm) (by omega)).symm

/-- the server answers an id it has received with `f` of the payload it received under that id (it may also send
    anything under ids it never received) -/
def AnswersById (f : Nat → Nat) (s : State) : Prop :=
  ∀ id p q, (id, p) ∈ s.respLog → (id, q) ∈ s.wireLog → p = f q

/-- End to end: against a server that answers by id, a caller whose request went on the wire and who returns a response
    returns `f` of ITS OWN payload. -/
theorem answer_is_for_own_request (f : Nat → Nat) (n limit nfwd : Nat) (ops : List Op) (h : Nat) (e : Entry) (p : Nat)
    (hs : AnswersById f (reach n limit nfwd ops))
    (he : (reach n limit nfwd ops).entries[h]? = some e)
    (hw : (e.reqId, e.payload) ∈ (reach n limit nfwd ops).wireLog)
    (hr : e.ret = some (.resp p)) : p = f e.payload := by
  obtain ⟨h1, _, _, h4⟩ := own_response_only n limit nfwd ops h e he
  obtain ⟨id, hg⟩ := h1 p hr
  obtain ⟨hid, _, hresp, _⟩ := h4 id p hg
  exact hs id p e.payload hresp (hid ▸ hw)

def demoOps : List Op := [.submit 1 0 0, .submit 2 0 1, .fetch 8, .flush]

/-- non-vacuity: an echo server (`f q = 2q+1`) answers both requests, out of order and on the "wrong" stream, plus junk
    for an unknown id; entry 0 went on the wire and returned a response -/
example :
    let s := reach 1 100 1 (demoOps ++ [.recv 0 0 [(1, 3), (77, 0)], .recv 0 1 [(2, 5), (2, 5)], .wake 0, .wake 1])
    (∀ r ∈ s.respLog, ∀ w ∈ s.wireLog, r.1 = w.1 → r.2 = 2 * w.2 + 1) ∧
    (s.entries.map (·.ret)) = [some (.resp 3), some (.resp 5)] ∧
    (s.entries.map (fun e => decide ((e.reqId, e.payload) ∈ s.wireLog))) = [true, true] := by decide

/-- A response for a canceled / timed-out entry is dropped: the entry is untouched (its caller has already returned),
    the slot is retired. -/
theorem late_response_dropped (n limit nfwd : Nat) (ops : List Op) (cid : Nat) (r : Nat × Nat) (sl : Slot)
    (hf : findSlot (reach n limit nfwd ops).table cid r.1 = some sl)
    (hc : isCanceled (reach n limit nfwd ops).entries sl.h = true) :
    (recv1 cid (reach n limit nfwd ops) r).entries = (reach n limit nfwd ops).entries ∧
    findSlot (recv1 cid (reach n limit nfwd ops) r).table cid r.1 = none ∧
    (∃ e, (reach n limit nfwd ops).entries[sl.h]? = some e ∧ e.canceled = true ∧ e.ret ≠ none ∧ e.chan = .fresh) := by
  obtain ⟨hF, _, _, _⟩ := reach_inv n limit nfwd ops
  obtain ⟨hm, _, _⟩ := findSlot_spec hf
  refine ⟨?_, ?_, ?_⟩
  · unfold recv1; simp only [hf, hc, if_true]
  · exact recv1_table_none _ _ _
  · obtain ⟨e, he, hcc⟩ := isCanceled_spec hc
    have hloc : sl.h ∈ locs (reach n limit nfwd ops) := by
      simp only [locs, List.mem_append, List.mem_map]; exact Or.inr ⟨sl, hm, rfl⟩
    obtain ⟨e', he', hfr⟩ := hF.1.fresh sl.h hloc
    rw [he] at he'; injection he' with he'; subst he'
    exact ⟨e, he, hcc, (hF.1.eok _ _ he).canc hcc, hfr⟩

/-- non-vacuity of `late_response_dropped` -/
example :
    let s := reach 1 100 0 [.submit 1 0 0, .fetch 8, .flush, .cancel 0]
    (findSlot s.table 0 1).isSome ∧ (s.table.all fun sl => isCanceled s.entries sl.h) = true := by decide

/-- A response under an unknown id (never sent, already answered, already failed) only counts as outdated; and after a
    response for an id has been processed, a second response for the same id is such an unknown id. -/
theorem unknown_and_duplicate_ids_ignored (s : State) (cid : Nat) (r : Nat × Nat) :
    (findSlot s.table cid r.1 = none →
      (recv1 cid s r).entries = s.entries ∧ (recv1 cid s r).table = s.table ∧ (recv1 cid s r).outdated = s.outdated + 1) ∧
    findSlot (recv1 cid s r).table cid r.1 = none ∧
    (recv1 cid (recv1 cid s r) r).entries = (recv1 cid s r).entries ∧
    (recv1 cid (recv1 cid s r) r).outdated = (recv1 cid s r).outdated + 1 := by
  have hnone := recv1_table_none s cid r
  refine ⟨?_, hnone, ?_, ?_⟩
  · intro h; rw [recv1_none h]; exact ⟨rfl, rfl, rfl⟩
  · rw [recv1_none hnone]
  · rw [recv1_none hnone]

/-- FULL `fail_then_recreate` for a stream without a re-created sibling: in every reachable open state, when stream
    (cid, fwd) breaks and no sibling stream of the same connection has won the epoch CAS since this stream was created or
    last re-created (`sib = false`), the break wins the CAS, EVERY entry pending on that stream is failed with the stream
    error EXACTLY ONCE, and none of them is left in the table when the stream has been re-created.  This is the
    statement the seeded change c18-2 (dropped `*epoch++`) violates. -/
theorem break_fails_stream (n limit nfwd : Nat) (ops : List Op) (cid fwd : Nat) (st : Stream)
    (hc : (reach n limit nfwd ops).closed = false)
    (hst : findStream (reach n limit nfwd ops).streams cid fwd = some st) (hs : st.sib = false) :
    killWins (reach n limit nfwd ops) cid fwd = true ∧
    (∀ sl ∈ (reach n limit nfwd ops).table, sl.cid = cid → sl.fwd = fwd →
        ∃ e, (kill (reach n limit nfwd ops) cid fwd).entries[sl.h]? = some e ∧ e.chan = .closed .stream ∧ e.ncomp = 1) ∧
    (∀ sl ∈ (kill (reach n limit nfwd ops) cid fwd).table, ¬ (sl.cid = cid ∧ sl.fwd = fwd)) := by
  obtain ⟨hF, _, hG, _⟩ := reach_inv n limit nfwd ops
  have hw := hG.wins hst hs
  obtain ⟨h1, h2⟩ := kill_winner hF.1 cid fwd hc hw
  refine ⟨hw, ?_, h2⟩
  intro sl hm a b
  obtain ⟨e, he, hch⟩ := h1 sl hm a b
  have hF' : InvF (step (reach n limit nfwd ops) (.kill cid fwd)) := hF.step _
  have ok := hF'.1.eok sl.h e he
  exact ⟨e, he, hch, ok.used1 (by rw [hch]; simp)⟩

/-- non-vacuity: the SAME stream breaks a second time with a fresh pending entry and still has `sib = false` -/
example :
    let s := reach 1 100 0 [.submit 1 0 0, .fetch 8, .flush, .kill 0 0, .submit 2 0 0, .fetch 8, .flush]
    s.closed = false ∧ (findStream s.streams 0 0).map (·.sib) = some false ∧ s.table.length = 1 := by decide

/-- With a single stream per connection (no forwarded hosts) a break ALWAYS wins the CAS, at the first, second, …
    break alike: no stream is ever marked as having a re-created sibling and the loser branch is never taken. -/
theorem single_stream_never_loses (n limit : Nat) (ops : List Op) :
    (reach n limit 0 ops).loserSeen = false ∧ ∀ st ∈ (reach n limit 0 ops).streams, st.sib = false := by
  obtain ⟨_, _, hG, _⟩ := reach_inv n limit 0 ops
  have h0 : (run (init n limit 0) ops).nfwd = 0 := run_nfwd ops _
  refine ⟨?_, hG.nosib h0⟩
  cases hl : (run (init n limit 0) ops).loserSeen
  · rfl
  · have := hG.loser hl; rw [h0] at this; exact absurd this (Nat.lt_irrefl 0)

/-- "no entry of an old stream generation survives a re-creation": every in-flight slot was sent on the current
    generation of its stream -/
def OnCurrentGeneration (s : State) : Prop :=
  ∀ sl ∈ s.table, (findStream s.streams sl.cid sl.fwd).map (·.gen) = some sl.gen

/-- FULL `fail_then_recreate`: as long as no recv loop has taken the "another stream already handles this epoch" branch
    (`loserSeen = false`), no entry of an old stream generation survives a re-creation. -/
theorem fail_then_recreate (n limit nfwd : Nat) (ops : List Op)
    (h : (reach n limit nfwd ops).loserSeen = false) : OnCurrentGeneration (reach n limit nfwd ops) :=
  (reach_inv n limit nfwd ops).2.2.1.gen h

/-- … and with one stream per connection (no forwarding) that is unconditional: however often the stream breaks, no
    entry of an old generation survives. -/
theorem fail_then_recreate_single_stream (n limit : Nat) (ops : List Op) : OnCurrentGeneration (reach n limit 0 ops) :=
  fail_then_recreate n limit 0 ops (single_stream_never_loses n limit ops).1

/-- non-vacuity: three breaks of the only stream, each with a fresh pending entry, then one more in flight -/
example :
    let s := reach 1 100 0 [.submit 1 0 0, .fetch 8, .flush, .kill 0 0, .submit 2 0 0, .fetch 8, .flush, .kill 0 0,
                            .submit 3 0 0, .fetch 8, .flush, .kill 0 0, .submit 4 0 0, .fetch 8, .flush]
    (s.table.map (·.gen)) = [3] ∧ (s.streams.map (·.gen)) = [3] ∧ (s.entries.map (·.ncomp)) = [1, 1, 1, 0] := by decide

/-- THE SIBLING-STALE-EPOCH OBSERVATION, as a lemma (this is what justifies the exception in the harness oracle
    `pending-entry-survives-recreate`).  In a reachable open state, if the break of stream (cid, fwd) does NOT win the
    epoch CAS then (1) a sibling stream of the same connection has won the CAS since this stream was created / last
    re-created (`sib = true`), which requires forwarding (`nfwd > 0`); (2) the break changes neither the table nor any
    entry: the survivors are exactly the entries pending on that stream, all of them, un-failed; (3) afterwards the
    stream is in sync again (`sib = false`), so its NEXT break fails its entries (`break_fails_stream`). -/
theorem stale_epoch_survivors (n limit nfwd : Nat) (ops : List Op) (cid fwd : Nat) (st : Stream)
    (hc : (reach n limit nfwd ops).closed = false)
    (hst : findStream (reach n limit nfwd ops).streams cid fwd = some st)
    (hl : killWins (reach n limit nfwd ops) cid fwd = false) :
    st.sib = true ∧ 0 < nfwd ∧
    (kill (reach n limit nfwd ops) cid fwd).table = (reach n limit nfwd ops).table ∧
    (kill (reach n limit nfwd ops) cid fwd).entries = (reach n limit nfwd ops).entries ∧
    (findStream (kill (reach n limit nfwd ops) cid fwd).streams cid fwd).map (·.sib) = some false := by
  obtain ⟨_, _, hG, _⟩ := reach_inv n limit nfwd ops
  obtain ⟨hm, _, _⟩ := findStream_spec hst
  have hsib : st.sib = true := by
    cases hs : st.sib
    · rw [hG.wins hst hs] at hl; cases hl
    · rfl
  have hn : 0 < (run (init n limit nfwd) ops).nfwd := ((hG.lep st hm).2 hsib).2
  rw [run_nfwd] at hn
  obtain ⟨h1, h2⟩ := kill_loser_unchanged _ cid fwd hl
  refine ⟨hsib, hn, h1, h2, ?_⟩
  have hG' := hG.step (.kill cid fwd)
  -- after the break the stream exists and its flag is clear
  unfold killWins at hl
  rw [hst] at hl
  have hne : ¬ st.lep = clientEpoch (run (init n limit nfwd) ops).clients cid := by simpa using hl
  unfold kill
  simp only [hc, Bool.false_eq_true, if_false, hst, hne]
  rw [findStream_map]
  · rw [hst]
    obtain ⟨_, a, b⟩ := findStream_spec hst
    simp [a, b]
  · intro x; split <;> exact ⟨rfl, rfl⟩

/-- non-vacuity: the direct stream is re-created, then the forwarded stream breaks with a pending entry -/
example :
    let s := reach 1 100 1 (demoOps ++ [.kill 0 0])
    s.closed = false ∧ killWins s 0 1 = false ∧ (findStream s.streams 0 1).isSome ∧ s.table.length = 1 := by decide

/-- The UNCONDITIONAL statement (for every reachable state, with forwarding) is false for the model of the code that
    exists — exactly the case described by `stale_epoch_survivors`: one direct and one forwarded request in flight, the
    direct stream breaks (epoch 0→1, only direct entries are failed), then the forwarded stream breaks: its entry stays
    in `batched` on a dead stream.  Reproduced on the real code by the differential (fixed corpus case 1); the callers
    return at their own time-out, so the property text is not violated — reported as an observation. -/
theorem fail_then_recreate_unconditional_refuted :
    ¬ (∀ (n limit nfwd : Nat) (ops : List Op), OnCurrentGeneration (reach n limit nfwd ops)) := by
  intro h
  have := h 1 100 1 (demoOps ++ [.kill 0 0, .kill 0 1])
  revert this
  unfold OnCurrentGeneration
  decide

/-- No entry is silently dropped: at any time every submitted entry has returned to its caller, or has a completion
    waiting in its channel, or is still queued / in flight (channel, priority queue, in-flight table); after `close`
    every caller has returned. -/
theorem every_submitted_completes_or_pending (n limit nfwd : Nat) (ops : List Op) :
    let s := reach n limit nfwd ops
    (∀ (h : Nat) (e : Entry), s.entries[h]? = some e →
        e.ret ≠ none ∨ chanDone e ∨ h ∈ s.ch ++ s.heap ++ s.built.map (·.h) ++ s.table.map (·.h)) ∧
    (s.closed = true → ∀ (h : Nat) (e : Entry), s.entries[h]? = some e → e.ret ≠ none) := by
  have hF := (reach_inv n limit nfwd ops).1
  refine ⟨?_, hF.1.closed_ret⟩
  intro h e he
  rcases hF.1.nodrop h e he with h1 | h1 | h1
  · exact Or.inl h1
  · exact Or.inr (Or.inl h1)
  · exact Or.inr (Or.inr h1)

/-- PAIRING of the outgoing batch, explicitly: in every reachable state — in particular at every moment between
    buildWithLimit and the sends, whatever was canceled meanwhile — the `Requests` slice is parallel to the
    `RequestIds`/`entries` slices: the i-th request is the request (payload) of the entry registered for the i-th id. -/
theorem batch_pairing (n limit nfwd : Nat) (ops : List Op) (i : Nat) (it : Item)
    (hi : (reach n limit nfwd ops).built[i]? = some it) :
    ∃ q, (reach n limit nfwd ops).breqs[i]? = some q ∧
      ∀ (e : Entry), (reach n limit nfwd ops).entries[it.h]? = some e → e.payload = q := by
  obtain ⟨_, hB, _, _⟩ := reach_inv n limit nfwd ops
  refine ⟨it.req, ?_, hB.item_req it (List.mem_of_getElem? hi)⟩
  rw [hB.paired, List.getElem?_map, hi]; rfl

/-- … and therefore, for EVERY pattern of cancellations (any subset, any position, any order) between buildWithLimit
    and the sends of a getClientAndSend, whatever goes on the wire under an id is the payload of the one entry sent with
    that id, and (against a store answering by id) every caller that returns a response returns the answer to ITS OWN
    request.  (Instances of `wire_carries_own_payload` / `answer_is_for_own_request`, spelled out for this window; the
    seeded change c18-4 — `Requests` truncated instead of compacted — breaks exactly the pairing.) -/
theorem cancel_between_build_and_send (f : Nat → Nat) (n limit nfwd : Nat) (ops after : List Op) (cs : List Nat) :
    let s := reach n limit nfwd (ops ++ [.flushBegin] ++ cs.map .cancel ++ [.flushEnd] ++ after)
    (∀ id q, (id, q) ∈ s.wireLog → ∃ (h : Nat) (e : Entry), s.entries[h]? = some e ∧ e.reqId = id ∧ e.payload = q ∧
        ∀ (h' : Nat) (e' : Entry), s.entries[h']? = some e' → e'.reqId = id → h' = h) ∧
    (AnswersById f s → ∀ (h : Nat) (e : Entry) (p : Nat), s.entries[h]? = some e → (e.reqId, e.payload) ∈ s.wireLog →
        e.ret = some (.resp p) → p = f e.payload) := by
  intro s
  refine ⟨fun id q hq => (wire_carries_own_payload n limit nfwd _ id q hq).2, ?_⟩
  intro hs h e p he hw hr
  exact answer_is_for_own_request f n limit nfwd _ h e p hs he hw hr

/-- non-vacuity: three requests in one batch, the FIRST and the MIDDLE caller cancel while the send waits, the echoing
    store answers all three ids; the last caller gets the echo of its own payload, nobody else gets anything -/
example :
    let s := reach 1 100 0 ([.submit 5 0 0, .submit 6 0 0, .submit 7 0 0, .fetch 8] ++ [.flushBegin] ++
               [0, 1].map .cancel ++ [.flushEnd] ++ [.recv 0 0 [(1, 11), (2, 13), (3, 15)], .wake 0, .wake 1, .wake 2])
    s.wireLog = [(3, 7), (2, 6), (1, 5)] ∧
    (s.entries.map (·.ret)) = [some (.err .canceled), some (.err .canceled), some (.resp 15)] := by decide

end CGV.Props.C18
