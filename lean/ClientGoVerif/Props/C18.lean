import ClientGoVerif.Proofs.BatchMuxIds
/-!
  C18 — batched RPC multiplexing returns each caller its own response, exactly once.

  All theorems quantify over the number of connections, the concurrency limit, the number of forwarded hosts and over
  ALL sequences of steps of the table protocol `CGV.BatchMux.step` (submit, fetch, builder reset, getClientAndSend,
  received responses with arbitrary ids and payloads, stream failures, cancellation, time-out, wake-up, close, …).
  The model is tied to /repo by the differential of `./check C18` (harness/c18).
-/
namespace CGV.Props.C18
open CGV.BatchMux

/-- every state reachable from an initial state -/
def reach (n limit nfwd : Nat) (ops : List Op) : State := run (init n limit nfwd) ops

/-- Request ids are allocated strictly increasing (`allocLog` is newest first), are positive, never exceed the
    allocator, hence are never reused; and the ids that are built or in flight at any moment are pairwise distinct, so
    `batched.Store(id, entry)` never overwrites a pending entry. -/
theorem ids_unique_monotone (n limit nfwd : Nat) (ops : List Op) :
    let s := reach n limit nfwd ops
    (s.allocLog.map (·.1)).Pairwise (· > ·) ∧ (s.allocLog.map (·.1)).Nodup ∧
    (∀ p ∈ s.allocLog, 0 < p.1 ∧ p.1 ≤ s.idAlloc) ∧ (ids s).Nodup ∧ (∀ id ∈ ids s, id ≤ s.idAlloc) := by
  have hL := (InvL.init n limit nfwd).run ops
  have hF := (InvF.init n limit nfwd).run ops
  exact ⟨hL.mono, hL.mono.imp (fun h => Nat.ne_of_gt h), hL.le, hF.1.idnodup, hF.1.idle⟩

/-- Each entry's completion channel is written or closed at most once (`ncomp` counts `res <- resp` and `close(res)`),
    and each caller returns at most once. -/
theorem at_most_one_completion (n limit nfwd : Nat) (ops : List Op) (h : Nat) (e : Entry)
    (he : (reach n limit nfwd ops).entries[h]? = some e) : e.ncomp ≤ 1 ∧ e.nret ≤ 1 := by
  have ok := ((InvF.init n limit nfwd).run ops).1.eok h e he
  constructor
  · by_cases hc : e.chan = .fresh
    · rw [(ok.fresh0 hc).1]; exact Nat.zero_le _
    · rw [ok.used1 hc]; exact Nat.le_refl _
  · by_cases hr : e.ret = none
    · rw [ok.ret0 hr]; exact Nat.zero_le _
    · rw [ok.ret1 hr]; exact Nat.le_refl _

/-- PROVED PART of `own_response_only`: a payload a caller returns (and a payload buffered in its channel) is the
    payload that a receive step put into THIS entry's channel (`got`), recorded together with the id it arrived under;
    an entry with a fresh channel has received nothing. -/
theorem own_response_only_partial (n limit nfwd : Nat) (ops : List Op) (h : Nat) (e : Entry)
    (he : (reach n limit nfwd ops).entries[h]? = some e) :
    (∀ p, e.ret = some (.resp p) → ∃ id, e.got = some (id, p)) ∧
    (∀ p, e.chan = .full p → ∃ id, e.got = some (id, p)) ∧
    (e.chan = .fresh → e.got = none) := by
  have ok := ((InvF.init n limit nfwd).run ops).1.eok h e he
  exact ⟨ok.retp, ok.full, fun hc => (ok.fresh0 hc).2⟩

/-- FULL statement of `own_response_only` (NOT proved in Lean; validated by the differential and by the `audit`/`bb`
    property ops on the real code): the response delivered to an entry arrived under the id the entry was sent with,
    was really received, and no other entry was ever sent with that id. -/
def OwnResponseOnly : Prop :=
  ∀ (n limit nfwd : Nat) (ops : List Op) (h : Nat) (e : Entry) (id p : Nat),
    (reach n limit nfwd ops).entries[h]? = some e → e.got = some (id, p) →
      e.reqId = id ∧ (id, p) ∈ (reach n limit nfwd ops).respLog ∧
      ∀ (h' : Nat) (e' : Entry), (reach n limit nfwd ops).entries[h']? = some e' → e'.reqId = id → h' = h

/-- PROVED PART of `fail_then_recreate`: when the recv loop of stream (cid, fwd) wins the epoch CAS of
    recreateStreamingClient, every entry pending on that stream is completed with the stream error and none of them
    is left in the table when the stream has been re-created. -/
theorem fail_then_recreate_partial (n limit nfwd : Nat) (ops : List Op) (cid fwd : Nat)
    (hc : (reach n limit nfwd ops).closed = false) (hw : killWins (reach n limit nfwd ops) cid fwd = true) :
    (∀ sl ∈ (reach n limit nfwd ops).table, sl.cid = cid → sl.fwd = fwd →
        ∃ e, (kill (reach n limit nfwd ops) cid fwd).entries[sl.h]? = some e ∧ e.chan = .closed .stream) ∧
    (∀ sl ∈ (kill (reach n limit nfwd ops) cid fwd).table, ¬ (sl.cid = cid ∧ sl.fwd = fwd)) :=
  kill_winner ((InvF.init n limit nfwd).run ops).1 cid fwd hc hw

def demoOps : List Op := [.submit 1 0 0, .submit 2 0 1, .fetch 8, .flush]

/-- non-vacuity: a reachable open state in which stream (0,1) wins the CAS and has a pending entry -/
example : (reach 1 100 1 demoOps).closed = false ∧ killWins (reach 1 100 1 demoOps) 0 1 = true ∧
    (reach 1 100 1 demoOps).table.any (fun sl => sl.cid = 0 ∧ sl.fwd = 1) = true := by decide

/-- FULL statement of `fail_then_recreate`: no entry of an old stream generation survives a re-creation, i.e. every
    in-flight slot was sent on the current generation of its stream. -/
def FailThenRecreate : Prop :=
  ∀ (n limit nfwd : Nat) (ops : List Op), ∀ sl ∈ (reach n limit nfwd ops).table,
    (findStream (reach n limit nfwd ops).streams sl.cid sl.fwd).map (·.gen) = some sl.gen

/-- The full statement is FALSE for the model of the code that exists: a stream whose recv loop loses the epoch CAS
    (its local epoch is stale because a sibling stream of the same connection was re-created earlier) is re-created
    WITHOUT failing its pending entries.  Counterexample: one direct and one forwarded request in flight, the direct
    stream fails (epoch 0→1, only direct entries are failed), then the forwarded stream fails: the forwarded entry
    stays in `batched` on a dead stream.  The differential reproduces exactly this on the real code (fixed corpus case 1). -/
theorem fail_then_recreate_full_refuted : ¬ FailThenRecreate := by
  intro h
  have := h 1 100 1 (demoOps ++ [.kill 0 0, .kill 0 1])
  revert this
  decide

/-- No entry is silently dropped: at any time every submitted entry has returned to its caller, or has a completion
    waiting in its channel, or is still queued / in flight (channel, priority queue, in-flight table); after `close`
    every caller has returned. -/
theorem every_submitted_completes_or_pending (n limit nfwd : Nat) (ops : List Op) :
    let s := reach n limit nfwd ops
    (∀ (h : Nat) (e : Entry), s.entries[h]? = some e → e.ret ≠ none ∨ chanDone e ∨ h ∈ s.ch ++ s.heap ++ s.table.map (·.h)) ∧
    (s.closed = true → ∀ (h : Nat) (e : Entry), s.entries[h]? = some e → e.ret ≠ none) := by
  have hF := (InvF.init n limit nfwd).run ops
  refine ⟨?_, hF.1.closed_ret⟩
  intro h e he
  rcases hF.1.nodrop h e he with h1 | h1 | h1
  · exact Or.inl h1
  · exact Or.inr (Or.inl h1)
  · refine Or.inr (Or.inr ?_)
    simpa [locs, hF.2, reach] using h1

end CGV.Props.C18
