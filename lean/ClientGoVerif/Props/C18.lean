import ClientGoVerif.Model.BatchMux
namespace CGV.Props.C18
theorem placeholder : True := trivial
end CGV.Props.C18
