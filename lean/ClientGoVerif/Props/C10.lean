/-
  C10 — request send: bounded retries, flag discipline.  Property theorems about ALL event sequences accepted by the
  accounting model `CGV.Retry` (Model/Retry.lean).  `run (init c) es = some s` means: starting from the initial state of
  configuration `c` (replicas, back-off budget, command class, ts verdict, leader-hint allowance) every event of `es`
  was allowed by `stepAllowed`.  That the real retry loop only produces accepted sequences is the checked tie
  (harness/c10), not a theorem.  Replica scoring is not modelled.
-/
import ClientGoVerif.Proofs.Retry
import ClientGoVerif.Proofs.Selector
import ClientGoVerif.Model.Validate
namespace CGV.Props.C10
open CGV CGV.Retry

/-- The lexicographic measure (2·remaining back-off steps + [no back-off owed], Σ remaining attempts + 2·free leader-hint
    redirects left + 2·[a refill is possible]) strictly decreases
    on every allowed non-final step of every accepted run. -/
theorem rank_decreases (c : Cfg) (es : List Ev) (s : State) (e : Ev)
    (hrun : run (init c) es = some s) (hal : stepAllowed s e = true) (hnf : isFinal e = false) :
    Prod.Lex (· < ·) (· < ·) (rank (step s e)) (rank s) :=
  rank_decreases_inv s e (inv_run es _ _ (inv_init c) hrun) hal hnf

/-- TERMINATION, full statement (no exclusion of leader-hint cycles): every accepted run sends at most
    `#replicas·maxReplicaAttempt + #replicas + 1 + (number of back-offs in the run)` RPCs — there is no unbounded run without
    back-off — and the back-offs are bounded by the budget: `⌈budget/minStep⌉ + ⌈max(excludedLimit, budget)/minStep⌉`; hence
    explicit bounds on RPCs and on all events. -/
theorem attempts_bounded (c : Cfg) (es : List Ev) (s : State) (hrun : run (init c) es = some s) :
    countSends es ≤ c.n * maxAtt + c.n + 1 + (es.filter isBackoff).length ∧
    (es.filter isBackoff).length ≤ backoffBound c ∧
    countSends es ≤ sendBound c ∧ es.length ≤ eventBound c := by
  have hi := inv_init c
  have h1 := run_count2 phiSend isSend isBackoff phiSend_step es _ _ hi hrun
  have h2 := run_count2 bumpOk isBump isSend bumpOk_step es _ _ hi hrun
  have h3 := run_count rank1 isBackoff rank1_step es _ _ hi hrun
  have h4 := run_count phiFin isFinal phiFin_step es _ _ hi hrun
  have e1 : phiSend (init c) = c.n * maxAtt + c.n + 1 := by
    simp [phiSend, init, remAtt_replicate, freeLeft, bumpOk, owedFlag]
  have e2 : bumpOk (init c) = 0 := rfl
  have e3 := rank1_init c
  have e4 : phiFin (init c) = 1 := rfl
  have hl := length_split es
  unfold countSends sendBound eventBound
  refine ⟨by omega, by omega, by omega, by omega⟩

/-- the same bound through the executable oracle the driver evaluates -/
theorem bounded_oracle (c : Cfg) (es : List Ev) (s : State) (hrun : run (init c) es = some s) :
    propBounded c es = true := by
  have := attempts_bounded c es s hrun
  unfold propBounded
  exact (Bool.and_eq_true _ _).mpr ⟨decide_eq_true this.2.2.1, decide_eq_true this.2.2.2⟩

/-- An ok result directly follows an RPC that a store answered ok and carries that RPC's response object; a store
    region-error result carries the last RPC's response object and that RPC was answered with a region error
    (`propGenuine`, see `genuineFrom`). -/
theorem never_fabricates_success (c : Cfg) (es : List Ev) (s : State) (hrun : run (init c) es = some s) :
    propGenuine es = true :=
  genuine_run es (init c) s none none ⟨by simp [init], by simp [init, isRegErr]⟩ hrun

/-- explicit form: in an accepted run `pre ++ [result ok b]` the event before the result is a send answered `ok`
    and `b` (returned payload is that response) holds -/
theorem ok_result_follows_ok_rpc (c : Cfg) (pre : List Ev) (b : Bool) (s : State)
    (hrun : run (init c) (pre ++ [.result .ok b]) = some s) :
    b = true ∧ ∃ p st rr sr rt px a f pre', pre = pre' ++ [.send p st rr sr rt px a .ok f] := by
  have h := never_fabricates_success c _ s hrun
  -- walk the oracle along `pre`
  have key : ∀ (pre : List Ev) (prev : Option Ev) (last : Option Resp),
      genuineFrom prev last (pre ++ [.result .ok b]) = true →
      b = true ∧ ((pre = [] ∧ prevIsOkSend prev = true) ∨
        ∃ p st rr sr rt px a f pre', pre = pre' ++ [.send p st rr sr rt px a .ok f]) := by
    intro pre
    induction pre with
    | nil =>
      intro prev last hg
      simp only [List.nil_append, genuineFrom, Bool.and_eq_true] at hg
      refine ⟨hg.1.1, Or.inl ⟨rfl, ?_⟩⟩
      cases prev with
      | none => simp at hg
      | some pe =>
        cases pe with
        | send p1 p2 p3 p4 p5 p6 p7 r f => cases r <;> simp_all [prevIsOkSend]
        | bump q a => simp at hg
        | backoff k ms => simp at hg
        | result k b => simp at hg
    | cons e t ih =>
      intro prev last hg
      simp only [List.cons_append, genuineFrom, Bool.and_eq_true] at hg
      obtain ⟨hb, hrest⟩ := ih _ _ hg.2
      refine ⟨hb, Or.inr ?_⟩
      rcases hrest with ⟨ht, hp⟩ | ⟨p, st, rr, sr, rt, px, a, f, pre', ht⟩
      · subst ht
        cases e with
        | send p1 p2 p3 p4 p5 p6 p7 r f =>
          cases r <;> simp [prevIsOkSend] at hp
          exact ⟨p1, p2, p3, p4, p5, p6, p7, f, [], rfl⟩
        | bump q a => simp [prevIsOkSend] at hp
        | backoff k ms => simp [prevIsOkSend] at hp
        | result k b => simp [prevIsOkSend] at hp
      · exact ⟨p, st, rr, sr, rt, px, a, f, e :: pre', by rw [ht]; rfl⟩
  obtain ⟨hb, hrest⟩ := key pre none none h
  refine ⟨hb, ?_⟩
  rcases hrest with ⟨_, hp⟩ | hx
  · simp [prevIsOkSend] at hp
  · exact hx

/-- every retry path switches peer or consumes back-off budget: after an answer whose handler owes a back-off (RPC error,
    NotLeader without leader, MaxTimestampNotSynced, DiskFull, …: before ANY further RPC; ServerIsBusy: before the next RPC
    to the SAME store) no such RPC follows before a back-off of that config (`propBackoffDiscipline`) -/
theorem backoff_discipline (c : Cfg) (es : List Ev) (s : State) (hrun : run (init c) es = some s) :
    propBackoffDiscipline c.n c.shortRead es = true :=
  discipline_run c.n c.shortRead es (init c) s rfl rfl hrun

/-- no RPC of a write command is flagged replica read or stale read -/
theorem write_never_replica_or_stale (c : Cfg) (es : List Ev) (s : State) (hrun : run (init c) es = some s) :
    propWriteFlags c es = true :=
  writeFlags_run c es (init c) s rfl hrun

/-- the first RPC of a call does not carry the retry marker, every later one does -/
theorem retry_marked (c : Cfg) (es : List Ev) (s : State) (hrun : run (init c) es = some s) :
    propRetryMarked es = true :=
  retryMarked_run es (init c) s hrun

/-- with validation enabled, a read whose timestamp the oracle rejects is never sent -/
theorem invalid_ts_not_sent (c : Cfg) (es : List Ev) (s : State) (hts : c.tsInvalid = true)
    (hrun : run (init c) es = some s) : countSends es = 0 :=
  noSend_run es (init c) s hts hrun

theorem tsvalid_oracle (c : Cfg) (es : List Ev) (s : State) (hrun : run (init c) es = some s) :
    propTsValid c es = true := by
  unfold propTsValid
  cases h : c.tsInvalid with
  | false => rfl
  | true => simp [invalid_ts_not_sent c es s h hrun]

/-- an accepted run ends with an error only when some back-off would be refused (budget spent) or ts validation failed;
    after the final event nothing more is accepted -/
theorem error_only_after_budget (c : Cfg) (es : List Ev) (s : State) (b : Bool) (k : ResKind)
    (hrun : run (init c) es = some s) (hal : stepAllowed s (.result k b) = true)
    (herr : k = .errBudget ∨ k = .errTs ∨ k = .errOther) :
    (k = .errBudget ∧ budgetSpent s = true) ∨ (k = .errTs ∧ c.tsInvalid = true ∧ countSends es = 0) := by
  have hc := cfg_run es _ _ hrun
  rcases herr with rfl | rfl | rfl
  · left
    simp only [stepAllowed, Bool.and_eq_true] at hal
    exact ⟨rfl, hal.2.1.2⟩
  · right
    simp only [stepAllowed, Bool.and_eq_true] at hal
    have ht : c.tsInvalid = true := by
      have := hal.2.1.1
      rw [hc] at this; exact this
    exact ⟨rfl, ht, invalid_ts_not_sent c es s ht hrun⟩
  · simp [stepAllowed] at hal

/-! ## non-vacuity: accepted runs exist for every shape the hypotheses mention -/

def cfgRead : Cfg := { n := 3, maxSleep := 2000, isWrite := false, tsInvalid := false, hints := 1, shortRead := false }
def cfgBadTs : Cfg := { n := 3, maxSleep := 2000, isWrite := false, tsInvalid := true, hints := 0, shortRead := false }
def cfgWrite : Cfg := { n := 3, maxSleep := 100, isWrite := true, tsInvalid := false, hints := 0, shortRead := false }

/-- a run with a retry, a leader hint, a back-off and a genuine ok result -/
def demoRun : List Ev :=
  [.send 1 1 false false false 0 1 (.nlhint 2) "nl2", .send 2 2 false false true 0 1 .rpcerr "rpcerr", .backoff "tikvRPC" 60,
   .send 2 2 false false true 0 2 .ok "ok", .result .ok true]

example : (run (init cfgRead) demoRun).isSome = true := by decide
/-- ten RPCs exhaust replica 1, a leader hint naming it refills it once (`bump`), the eleventh RPC is legal, a refill needs a
    leader-hint reply first -/
def demoHint : List Ev :=
  [.send 1 1 false false false 0 0 .regionerr "stale"] ++ List.replicate 8 (.send 1 1 false false true 0 0 .regionerr "stale") ++
  [.send 1 1 false false true 0 10 (.nlhint 1) "nl1", .bump 1 9, .send 1 1 false false true 0 10 (.nlhint 1) "nl1"]
example : (run (init cfgRead) (demoHint ++ [.result .regionStore true])).isSome = true := by decide
/-- leader hints pointing at each other: three redirects (one per replica) are followed at once, the fourth owes a back-off -/
def demoCycle : List Ev :=
  [.send 1 1 false false false 0 0 (.nlhint 2) "nl2", .send 2 2 false false true 0 0 (.nlhint 1) "nl1",
   .send 1 1 false false true 0 0 (.nlhint 2) "nl2", .send 2 2 false false true 0 0 (.nlhint 1) "nl1"]
example : run (init cfgRead) (demoCycle ++ [.send 1 1 false false true 0 0 (.nlhint 2) "nl2"]) = none := by decide
example : (run (init cfgRead) (demoCycle ++ [.backoff "regionScheduling" 2, .send 1 1 false false true 0 0 (.nlhint 2) "nl2"])).isSome = true := by
  decide
example : run (init cfgRead) (demoHint.take 10 ++ [.send 1 1 false false true 0 0 .ok "ok"]) = none := by decide
example : (run (init cfgBadTs) [.result .errTs false]).isSome = true := by decide
example : (run (init cfgWrite) [.send 1 1 false false false 0 1 .rpcerr "rpcerr", .backoff "tikvRPC" 100, .result .errBudget false]).isSome = true := by
  decide
-- and the model does reject what the property forbids
example : run (init cfgWrite) [.send 1 1 true false false 0 1 .ok "ok"] = none := by decide
example : run (init cfgRead) [.send 1 1 false false false 0 1 .rpcerr "rpcerr", .send 1 1 false false false 0 2 .ok "ok"] = none := by decide
example : run (init cfgBadTs) [.send 1 1 false false false 0 1 .ok "ok"] = none := by decide
example : run (init cfgRead) [.send 1 1 false false false 0 1 .rpcerr "rpcerr", .result .ok true] = none := by decide
-- a busy store is not re-sent to without a tikvServerBusy back-off; another store may be tried at once
example : run (init cfgWrite) [.send 1 1 false false false 0 1 .regionerr "busydl", .send 1 1 false false true 0 2 .ok "ok"] = none := by decide
example : (run (init cfgWrite) [.send 1 1 false false false 0 1 .regionerr "busydl", .send 2 2 false false true 0 1 .regionerr "stale",
    .backoff "tikvServerBusy" 1500, .send 1 1 false false true 0 2 .ok "ok", .result .ok true]).isSome = true := by decide
example : run (init cfgRead) [.send 1 1 false false false 0 1 .regionerr "maxts", .send 1 1 false false true 0 2 .ok "ok"] = none := by decide

end CGV.Props.C10

/-
  Replica selector (Model/Selector.lean: the v2 selector of replica_selector.go without forwarding).  Theorems hold for
  EVERY selector state and every store-cache observation; `next s t` = (choice set, selector after the observed choice `t`
  was charged).  The tie (harness/c10 `sel`/`selend` lines) checks on every attempt of the real sender that its choice is in
  the model's set and that flags and selector state agree.
-/
namespace CGV.Props.C10.Selector
open CGV CGV.Selector

/-- the chosen replica is a candidate: it exists, its attempts are not exhausted, its store is not known unreachable and
    its store epoch is not stale — for every member of the choice set -/
theorem chosen_is_candidate (s : Sel) (t i : Nat) (h : i ∈ (next s t).1) :
    ∃ r, s.reps[i]? = some r ∧ r.attempts < maxAtt ∧ r.live ≠ 1 ∧ r.stale = false :=
  next_ok s t i h

/-- a leader read goes to the leader and nowhere else, unless the leader is exhausted / unreachable / timed out / answered
    NotLeader / suspected, or a busy threshold diverts a read from a busy-looking leader -/
theorem leader_read_goes_to_leader (s : Sel) (t : Nat) (hrl : s.readLeader = true) (hv : s.valid = true ∨ s.invRetry = true)
    (hl : leaderStrat s = true) (hb : busyDivert s = false) : (next s t).1 = [s.leaderIdx] := by
  rw [next_set]
  have hc : (!s.invRetry && !s.valid) = false := by
    rcases hv with h | h <;> simp [h]
  rw [hc]
  have h1 : leaderStrat (pre s) = true := hl
  have h2 : busyDivert (pre s) = false := hb
  simp only [Bool.false_eq_true, if_false, pathOf, hrl, if_true, nextLeaderPath, h1, h2]
  rfl

/-- a stale read whose first attempt failed (second call of `next`) goes to a leader that was not tried yet, as a plain
    leader read: StaleRead and ReplicaRead are both cleared -/
theorem stale_read_falls_back_to_leader (s : Sel) (t : Nat) (hrl : s.readLeader = false) (hst : s.stale = true)
    (ha : s.selAtt = 1) (hv : s.valid = true) (hl : leaderStrat s = true) (h0 : leaderIs s (fun r => r.attempts < 1) = true) :
    (next s t).1 = [s.leaderIdx] ∧ ((next s s.leaderIdx).2.sr = false ∧ (next s s.leaderIdx).2.rr = false) := by
  have hvia : viaLeader (pre s) = true := by
    have h1 : leaderStrat (pre s) = true := hl
    have h2 : leaderIs (pre s) (fun r => r.attempts < 1) = true := h0
    have h3 : (pre s).stale = true := hst
    have h4 : (pre s).selAtt = 2 := by show s.selAtt + 1 = 2; omega
    simp only [viaLeader, h1, h2, h3, h4, beq_self_eq_true, Bool.and_self]
  have hp : ∀ t, pathOf s t = ([s.leaderIdx], { pre s with sr := false, rr := false }) := by
    intro t
    simp only [pathOf, hrl, Bool.false_eq_true, if_false, nextMixedPath, hvia, if_true]
    rfl
  have hc : (!s.invRetry && !s.valid) = false := by simp [hv]
  constructor
  · rw [next_set, hc, hp]; rfl
  · have := charge_flags { pre s with sr := false, rr := false } s.leaderIdx
    unfold next
    rw [hc, hp]
    simp only [Bool.false_eq_true, if_false, List.contains_cons, List.contains_nil, beq_self_eq_true, Bool.or_false, if_true]
    obtain ⟨h1, h2, _⟩ := flags_with _ _ _ _ this
    exact ⟨h2, h1⟩

/-- outside leader reads a non-leader replica is tried at most twice, and a second time only if it answered
    DataIsNotReady before (then `useReplica` decides whether it goes out as replica read instead of stale read) -/
theorem not_ready_replica_at_most_twice (s : Sel) (t i : Nat) (hrl : s.readLeader = false) (hi : i ∈ (next s t).1)
    (hne : i ≠ s.leaderIdx) :
    ∃ r, s.reps[i]? = some r ∧ r.attempts < 2 ∧ (r.attempts = 1 → r.dataNotReady = true) := by
  rw [next_set] at hi
  split at hi
  · simp at hi
  · simp only [pathOf, hrl, Bool.false_eq_true, if_false] at hi
    unfold nextMixedPath at hi
    have hli : (pre s).leaderIdx = s.leaderIdx := rfl
    have key : i ∈ (mixedPick (pre s)).1 → ∃ r, s.reps[i]? = some r ∧ r.attempts < 2 ∧ (r.attempts = 1 → r.dataNotReady = true) := by
      intro hm
      rcases mixedNext_mem (mixedStrat (pre s)) (pre s) i hm with h | ⟨r, hr, hc⟩
      · exact absurd (h.trans hli) hne
      · obtain ⟨h1, h2⟩ := isCand_attempts _ _ _ hc
        exact ⟨r, hr, h1, fun h => (h2 h).1⟩
    split at hi
    · simp only [List.mem_singleton] at hi; exact absurd (hi.trans hli) hne
    · split at hi
      · simp at hi
      · split at hi
        · exact key hi
        · exact key hi

/-- FLAG DISCIPLINE at full strength: the flags of every request that leaves (`ReplicaRead`, `StaleRead`, busy threshold)
    are the decision table `flagRule` applied to the flags the request came with -/
theorem flag_table (s : Sel) (t : Nat) (h : (next s t).1.contains t = true) :
    flagsOf (next s t).2 = applyRule s (flagRule s t) := by
  have hset := next_set s t
  unfold next at h ⊢
  split
  · rename_i hc; rw [if_pos hc] at h; simp at h
  · rename_i hc
    rw [if_neg hc] at h
    split
    · rename_i hc2
      rw [charge_flags]
      apply pathOf_flags
      intro he; rw [he] at hc2; simp at hc2
    · rename_i hc2
      rw [if_neg hc2] at h
      exact absurd h hc2

/-- consequence for writes (not read-only, not a stale read): outside leader reads both flags are cleared, on a leader
    read the selector does not touch them -/
theorem write_flags (s : Sel) (t : Nat) (hw : s.readOnly = false) (hst : s.stale = false) (h : (next s t).1.contains t = true) :
    (s.readLeader = false → (next s t).2.rr = false ∧ (next s t).2.sr = false) ∧
    (s.readLeader = true → (next s t).2.rr = s.rr ∧ (next s t).2.sr = s.sr) := by
  have ht := flag_table s t h
  have hro : (pre s).readOnly = false := hw
  constructor
  · intro hrl
    have hv : viaLeader (pre s) = false := by
      have : (pre s).stale = false := hst
      simp [viaLeader, this]
    simp only [flagRule, hrl, Bool.false_eq_true, if_false, hv, hst, hw, Bool.false_and, applyRule] at ht
    obtain ⟨h1, h2, _⟩ := flags_with _ _ _ _ ht
    exact ⟨h1, h2⟩
  · intro hrl
    have hbd : busyDivert (pre s) = false := by simp [busyDivert, hro]
    simp only [flagRule, hrl, if_true, hbd, Bool.false_eq_true, if_false, hro, Bool.and_false, Bool.false_and] at ht
    have hk : flagsOf (next s t).2 = applyRule s .keep := by
      split at ht <;> exact ht
    obtain ⟨h1, h2, _⟩ := flags_with _ _ _ _ hk
    exact ⟨h1, h2⟩

/-- every replica's own attempt counter stays ≤ maxReplicaAttempt along every run (any choices out of the choice sets or
    not, any answers, any store-cache observations), starting from fresh counters -/
theorem attempts_never_exceed_max (s : Sel) (os : List Obs) (h0 : ∀ r ∈ s.reps, r.attempts = 0) :
    ∀ r ∈ (runSel s os).reps, r.attempts ≤ maxAtt := by
  have hi : AttInv s := by
    intro a ha
    obtain ⟨r, hr, rfl⟩ := List.mem_map.mp ha
    rw [h0 r hr]; exact Nat.zero_le _
  intro r hr
  exact attInv_run os s hi r.attempts (List.mem_map.mpr ⟨r, hr, rfl⟩)

/-- when no candidate is left the selector has invalidated the region (or kept it only because a replica timed out, for a
    fast retry); in both cases the sender gets no RPC context and returns a region error -/
theorem no_candidate_invalidates (s : Sel) (t : Nat) (h : (next s t).1 = []) :
    (next s t).2.valid = false ∨ (next s t).2.reps.any (·.deadline) = true :=
  next_empty s t h

/-- an invalidated region is never sent to again (no loop), except for the single retry on the leader that
    `onRegionNotFound` grants -/
theorem invalid_region_no_choice (s : Sel) (t : Nat) (hv : s.valid = false) (hr : s.invRetry = false) : (next s t).1 = [] := by
  rw [next_set]; simp [hv, hr]

/-! the PRIORITIES of the score (they depend on the regenerated bit values: a changed weight re-opens these proofs) -/

/-- a replica on a store that is not slow always outranks one on a slow store -/
theorem score_prefers_not_slow (st : Strat) (la lb : Bool) (a b : Rep) (ha : a.slow = false) (hb : b.slow = true) :
    score st lb b < score st la a := by
  have key : ∀ tl pl lo lbl la lb l1 n1 f1 l2 n2 f2 : Bool,
      scoreB tl pl lo lbl lb true l2 n2 f2 < scoreB tl pl lo lbl la false l1 n1 f1 := by decide
  simp only [score, ha, hb]
  exact key ..

/-- among replicas of equal slowness, one whose labels match outranks one whose labels do not -/
theorem score_prefers_label_match (st : Strat) (la lb : Bool) (a b : Rep) (hs : a.slow = b.slow) (hl : st.labels = true)
    (ha : a.label = true) (hb : b.label = false) : score st lb b < score st la a := by
  have key : ∀ tl pl lo la lb sl n1 f1 n2 f2 : Bool,
      scoreB tl pl lo true lb sl false n2 f2 < scoreB tl pl lo true la sl true n1 f1 := by decide
  simp only [score, hs, hl, ha, hb]
  exact key ..

/-- with equal slowness and label match, the leader outranks a follower when the mode prefers it (prefer-leader on a healthy
    store, or mixed/prefer-leader with labels), and a follower outranks the leader in plain follower / learner reads -/
theorem score_leader_preference (st : Strat) (a b : Rep) (hs : a.slow = false) (hs' : b.slow = false) (hl : a.label = b.label) :
    ((st.preferLeader = true ∨ (st.tryLeader = true ∧ st.labels = true)) → score st false b < score st true a) ∧
    ((st.preferLeader = false ∧ st.tryLeader = false ∧ st.learnerOnly = false) → a.attempts = 0 → b.attempts = 0 →
      score st true a < score st false b) := by
  have k1 : ∀ tl pl lo lbl l n1 f1 n2 f2 : Bool, (pl = true ∨ (tl = true ∧ lbl = true)) →
      scoreB tl pl lo lbl false false l n2 f2 < scoreB tl pl lo lbl true false l n1 f1 := by decide
  have k2 : ∀ lbl l n1 n2 : Bool,
      scoreB false false false lbl true false l n1 true < scoreB false false false lbl false false l n2 true := by decide
  constructor
  · intro h
    simp only [score, hs, hs', hl]
    exact k1 _ _ _ _ _ _ _ _ _ h
  · intro ⟨h1, h2, h3⟩ h4 h5
    simp only [score, hs, hs', hl, h1, h2, h3, h4, h5, beq_self_eq_true]
    exact k2 ..

/-- all else equal, a replica that was not attempted yet outranks one that was -/
theorem score_prefers_fresh (st : Strat) (l : Bool) (a b : Rep) (hs : a.slow = b.slow) (hl : a.label = b.label)
    (hn : a.learner = b.learner) (ha : a.attempts = 0) (hb : b.attempts ≠ 0) : score st l b < score st l a := by
  have key : ∀ tl pl lo lbl l sl lab n : Bool,
      scoreB tl pl lo lbl l sl lab n false < scoreB tl pl lo lbl l sl lab n true := by decide
  have hb' : (b.attempts == 0) = false := by simpa using hb
  simp only [score, hs, hl, hn, ha, hb', beq_self_eq_true]
  exact key ..

/-! non-vacuity and the model/expectation disagreement on stale reads -/

def rep0 : Rep := {}
def selLeader : Sel := { reps := [rep0, rep0, rep0], readLeader := true, reqType := 0, stale := false, readOnly := true, rr := false, sr := false }
def selStale : Sel := { reps := [rep0, rep0, rep0], readLeader := false, reqType := 2, stale := true, readOnly := true, rr := false, sr := true }

example : (next selLeader 0).1 = [0] := by decide
-- mixed read: the three replicas tie, the choice set is all of them; a follower read excludes the leader from the top score
example : (next { selStale with stale := false, sr := false } 1).1 = [0, 1, 2] := by decide
example : (next { selStale with stale := false, sr := false, reqType := 1, rr := true } 1).1 = [1, 2] := by decide
-- stale read: first attempt on replica 1 as stale read, DataIsNotReady, second attempt on the leader as plain leader read
example : (let s1 := stepSel selStale ⟨1, "dnr", false, [rep0, rep0, rep0]⟩
           ((next s1 0).1, (next s1 0).2.sr, (next s1 0).2.rr)) = ([0], false, false) := by decide
/-- DISAGREEMENT with the expectation "a stale read is never sent twice to the same not-ready replica": with an unreachable
    leader (never attempted → `canSendReplicaRead` false) replica 1 gets the stale read again after both followers
    answered DataIsNotReady -/
example : (let down : List Rep := [{ live := 1 }, rep0, rep0]
           let s1 := stepSel (refreshInputs selStale down) ⟨1, "dnr", false, down⟩
           let s2 := stepSel s1 ⟨2, "dnr", false, down⟩
           ((next s2 1).1, (next s2 1).2.sr, (next s2 1).2.rr)) = ([1, 2], true, false) := by decide

end CGV.Props.C10.Selector

/-
  Read-timestamp validation (Model/Validate.lean).  Which request is a timestamped read is a SPEC over the request's shape;
  the command enumeration and the table of `Request.GetStartTS` are regenerated from the Go source, so a new command, a new
  timestamp getter or a changed row re-opens these proofs.
-/
namespace CGV.Props.C10.Validate
open CGV CGV.Validate

/-- the model sender never emits a timestamped read whose timestamp the oracle model refuses: with validation on, every
    accepted run of the sender for such a request contains no RPC at all (it can only end with the validator's error) -/
theorem timestamped_read_never_sent (base : Retry.Cfg) (sh : Shape) (ts : String) (stale : Bool)
    (hm : mustValidate sh = true) (ho : oracleRefuses ts stale = true)
    (es : List Retry.Ev) (st : Retry.State) (hrun : Retry.run (Retry.init (senderCfg base true sh ts stale)) es = some st) :
    Retry.countSends es = 0 := by
  apply CGV.Props.C10.invalid_ts_not_sent _ es st _ hrun
  simp [senderCfg, mustRefuse, hm, ho]

/-- and nothing is refused that need not be: validation off, not a timestamped read, or a timestamp the oracle accepts -/
theorem refuses_only_invalid_reads (validate : Bool) (sh : Shape) (ts : String) (stale : Bool)
    (h : mustRefuse validate sh ts stale = true) : validate = true ∧ mustValidate sh = true ∧ oracleRefuses ts stale = true := by
  simpa [mustRefuse, Bool.and_eq_true, and_assoc] using h

/-- over the regenerated table of `Request.GetStartTS`, the commands whose timestamp is a snapshot read version are exactly
    Get, Scan, BatchGet, ScanLock, BufferBatchGet, Cop, CopStream, BatchCop -/
theorem validated_commands :
    (Gen.startTsTable.filter fun r => mustValidateGetter r.2.1 r.2.2).map (·.1) = validatedCmds := by decide

/-- every timestamp getter `Request.GetStartTS` uses is one the spec has classified -/
theorem getters_known : Gen.startTsTable.all (fun r => knownGetters.contains r.2.2) = true := by decide

/-- the command enumeration of the source is covered: every CmdType constant either has a row in `Request.GetStartTS` or is
    in the explicit list of commands without a readable timestamp (a new command must be classified) -/
theorem enumeration_classified :
    Gen.cmdTypes.all (fun c => (Gen.startTsTable.map (·.1)).contains c.1 || noStartTsCmds.contains c.1) = true := by decide

/-- the shape rule and the getter rule agree on today's read requests (shapes as reported by reflection) -/
example : mustValidate ⟨"kvrpcpb", ["Version"]⟩ = true ∧ mustValidate ⟨"kvrpcpb", ["MaxVersion"]⟩ = true ∧
    mustValidate ⟨"coprocessor", ["CacheIfMatchVersion", "StartTs"]⟩ = true ∧
    mustValidate ⟨"kvrpcpb", ["CommitTs", "StartTs", "Version"]⟩ = false ∧ mustValidate ⟨"kvrpcpb", ["MaxTs"]⟩ = false ∧
    mustValidate ⟨"kvrpcpb", ["StartVersion"]⟩ = false := by decide
example : mustRefuse true ⟨"kvrpcpb", ["MaxVersion"]⟩ "ahead" false = true ∧ mustRefuse true ⟨"kvrpcpb", ["Version"]⟩ "max" false = false ∧
    mustRefuse false ⟨"kvrpcpb", ["Version"]⟩ "ahead" false = false := by decide
example : (Retry.run (Retry.init (senderCfg ⟨3, 100, false, false, 0, false⟩ true ⟨"kvrpcpb", ["MaxVersion"]⟩ "ahead" false))
    [.result .errTs false]).isSome = true := by decide

end CGV.Props.C10.Validate

