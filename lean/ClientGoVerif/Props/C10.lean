/-
  C10 — request send: bounded retries, flag discipline.  Property theorems about ALL event sequences accepted by the
  accounting model `CGV.Retry` (Model/Retry.lean).  `run (init c) es = some s` means: starting from the initial state of
  configuration `c` (replicas, back-off budget, command class, ts verdict, leader-hint allowance) every event of `es`
  was allowed by `stepAllowed`.  That the real retry loop only produces accepted sequences is the checked tie
  (harness/c10), not a theorem.  Replica scoring is not modelled.
-/
import ClientGoVerif.Proofs.Retry
namespace CGV.Props.C10
open CGV CGV.Retry

/-- The lexicographic measure (remaining back-off steps, Σ remaining attempts + 2·hint refills left) strictly decreases
    on every allowed non-final step of every accepted run. -/
theorem rank_decreases (c : Cfg) (es : List Ev) (s : State) (e : Ev)
    (hrun : run (init c) es = some s) (hal : stepAllowed s e = true) (hnf : isFinal e = false) :
    Prod.Lex (· < ·) (· < ·) (rank (step s e)) (rank s) :=
  rank_decreases_inv s e (inv_run es _ _ (inv_init c) hrun) hal hnf

/-- Every accepted run sends at most `#replicas · maxReplicaAttempt + hints` RPCs and has at most
    `#replicas · maxReplicaAttempt + 2·hints + ⌈budget / minStep⌉ + ⌈max(excludedLimit, budget) / minStep⌉ + 1` events. -/
theorem attempts_bounded (c : Cfg) (es : List Ev) (s : State) (hrun : run (init c) es = some s) :
    countSends es ≤ c.n * maxAtt + c.hints ∧
    es.length ≤ c.n * maxAtt + 2 * c.hints + (ceilDiv c.maxSleep minStep + ceilDiv (max exclLimitMax c.maxSleep) minStep) + 1 := by
  have hi := inv_init c
  have h1 := run_count phiSend isSend phiSend_step es _ _ hi hrun
  have h2 := run_count (fun s => s.credit) isBump credit_step es _ _ hi hrun
  have h3 := run_count rank1 isBackoff rank1_step es _ _ hi hrun
  have h4 := run_count phiFin isFinal phiFin_step es _ _ hi hrun
  have e1 : phiSend (init c) = c.n * maxAtt + c.hints := by simp [phiSend, init, remAtt_replicate]
  have e2 : (init c).credit = c.hints := rfl
  have e3 := rank1_init c
  have e4 : phiFin (init c) = 1 := rfl
  have hl := length_split es
  unfold countSends
  unfold backoffBound at e3
  constructor
  · omega
  · omega

/-- the same bound through the executable oracle the driver evaluates -/
theorem bounded_oracle (c : Cfg) (es : List Ev) (s : State) (hrun : run (init c) es = some s) :
    propBounded c es = true := by
  have := attempts_bounded c es s hrun
  unfold propBounded sendBound eventBound backoffBound
  exact (Bool.and_eq_true _ _).mpr ⟨decide_eq_true (by omega), decide_eq_true (by omega)⟩

/-- An ok result directly follows an RPC that a store answered ok and carries that RPC's response object; a store
    region-error result carries the last RPC's response object and that RPC was answered with a region error
    (`propGenuine`, see `genuineFrom`). -/
theorem never_fabricates_success (c : Cfg) (es : List Ev) (s : State) (hrun : run (init c) es = some s) :
    propGenuine es = true :=
  genuine_run es (init c) s none none ⟨by simp [init], by simp [init, isRegErr]⟩ hrun

/-- explicit form: in an accepted run `pre ++ [result ok b]` the event before the result is a send answered `ok`
    and `b` (returned payload is that response) holds -/
theorem ok_result_follows_ok_rpc (c : Cfg) (pre : List Ev) (b : Bool) (s : State)
    (hrun : run (init c) (pre ++ [.result .ok b]) = some s) :
    b = true ∧ ∃ p st rr sr rt px a pre', pre = pre' ++ [.send p st rr sr rt px a .ok] := by
  have h := never_fabricates_success c _ s hrun
  -- walk the oracle along `pre`
  have key : ∀ (pre : List Ev) (prev : Option Ev) (last : Option Resp),
      genuineFrom prev last (pre ++ [.result .ok b]) = true →
      b = true ∧ ((pre = [] ∧ prevIsOkSend prev = true) ∨
        ∃ p st rr sr rt px a pre', pre = pre' ++ [.send p st rr sr rt px a .ok]) := by
    intro pre
    induction pre with
    | nil =>
      intro prev last hg
      simp only [List.nil_append, genuineFrom, Bool.and_eq_true] at hg
      refine ⟨hg.1.1, Or.inl ⟨rfl, ?_⟩⟩
      cases prev with
      | none => simp at hg
      | some pe =>
        cases pe with
        | send p1 p2 p3 p4 p5 p6 p7 r => cases r <;> simp_all [prevIsOkSend]
        | bump q a => simp at hg
        | backoff k ms => simp at hg
        | result k b => simp at hg
    | cons e t ih =>
      intro prev last hg
      simp only [List.cons_append, genuineFrom, Bool.and_eq_true] at hg
      obtain ⟨hb, hrest⟩ := ih _ _ hg.2
      refine ⟨hb, Or.inr ?_⟩
      rcases hrest with ⟨ht, hp⟩ | ⟨p, st, rr, sr, rt, px, a, pre', ht⟩
      · subst ht
        cases e with
        | send p1 p2 p3 p4 p5 p6 p7 r =>
          cases r <;> simp [prevIsOkSend] at hp
          exact ⟨p1, p2, p3, p4, p5, p6, p7, [], rfl⟩
        | bump q a => simp [prevIsOkSend] at hp
        | backoff k ms => simp [prevIsOkSend] at hp
        | result k b => simp [prevIsOkSend] at hp
      · exact ⟨p, st, rr, sr, rt, px, a, e :: pre', by rw [ht]; rfl⟩
  obtain ⟨hb, hrest⟩ := key pre none none h
  refine ⟨hb, ?_⟩
  rcases hrest with ⟨_, hp⟩ | hx
  · simp [prevIsOkSend] at hp
  · exact hx

/-- no RPC of a write command is flagged replica read or stale read -/
theorem write_never_replica_or_stale (c : Cfg) (es : List Ev) (s : State) (hrun : run (init c) es = some s) :
    propWriteFlags c es = true :=
  writeFlags_run c es (init c) s rfl hrun

/-- the first RPC of a call does not carry the retry marker, every later one does -/
theorem retry_marked (c : Cfg) (es : List Ev) (s : State) (hrun : run (init c) es = some s) :
    propRetryMarked es = true :=
  retryMarked_run es (init c) s hrun

/-- with validation enabled, a read whose timestamp the oracle rejects is never sent -/
theorem invalid_ts_not_sent (c : Cfg) (es : List Ev) (s : State) (hts : c.tsInvalid = true)
    (hrun : run (init c) es = some s) : countSends es = 0 :=
  noSend_run es (init c) s hts hrun

theorem tsvalid_oracle (c : Cfg) (es : List Ev) (s : State) (hrun : run (init c) es = some s) :
    propTsValid c es = true := by
  unfold propTsValid
  cases h : c.tsInvalid with
  | false => rfl
  | true => simp [invalid_ts_not_sent c es s h hrun]

/-- an accepted run ends with an error only when some back-off would be refused (budget spent) or ts validation failed;
    after the final event nothing more is accepted -/
theorem error_only_after_budget (c : Cfg) (es : List Ev) (s : State) (b : Bool) (k : ResKind)
    (hrun : run (init c) es = some s) (hal : stepAllowed s (.result k b) = true)
    (herr : k = .errBudget ∨ k = .errTs ∨ k = .errOther) :
    (k = .errBudget ∧ budgetSpent s = true) ∨ (k = .errTs ∧ c.tsInvalid = true ∧ countSends es = 0) := by
  have hc := cfg_run es _ _ hrun
  rcases herr with rfl | rfl | rfl
  · left
    simp only [stepAllowed, Bool.and_eq_true] at hal
    exact ⟨rfl, hal.2.1.2⟩
  · right
    simp only [stepAllowed, Bool.and_eq_true] at hal
    have ht : c.tsInvalid = true := by
      have := hal.2.1.1
      rw [hc] at this; exact this
    exact ⟨rfl, ht, invalid_ts_not_sent c es s ht hrun⟩
  · simp [stepAllowed] at hal

/-! ## non-vacuity: accepted runs exist for every shape the hypotheses mention -/

def cfgRead : Cfg := { n := 3, maxSleep := 2000, isWrite := false, tsInvalid := false, hints := 1 }
def cfgBadTs : Cfg := { n := 3, maxSleep := 2000, isWrite := false, tsInvalid := true, hints := 0 }
def cfgWrite : Cfg := { n := 3, maxSleep := 100, isWrite := true, tsInvalid := false, hints := 0 }

/-- a run with a retry, a leader hint, a back-off and a genuine ok result -/
def demoRun : List Ev :=
  [.send 1 1 false false false 0 1 (.nlhint 2), .send 2 2 false false true 0 1 .rpcerr, .backoff "tikvRPC" 60,
   .send 2 2 false false true 0 2 .ok, .result .ok true]

example : (run (init cfgRead) demoRun).isSome = true := by decide
/-- ten RPCs exhaust replica 1, a leader hint naming it refills it once (`bump`), the eleventh RPC is legal, a second
    refill is not (the allowance `hints = 1` is used up) -/
def demoHint : List Ev :=
  [.send 1 1 false false false 0 0 .regionerr] ++ List.replicate 8 (.send 1 1 false false true 0 0 .regionerr) ++
  [.send 1 1 false false true 0 10 (.nlhint 1), .bump 1 9, .send 1 1 false false true 0 10 (.nlhint 1)]
example : (run (init cfgRead) (demoHint ++ [.result .regionStore true])).isSome = true := by decide
example : run (init cfgRead) (demoHint ++ [.bump 1 9]) = none := by decide
example : run (init cfgRead) (demoHint.take 10 ++ [.send 1 1 false false true 0 0 .ok]) = none := by decide
example : (run (init cfgBadTs) [.result .errTs false]).isSome = true := by decide
example : (run (init cfgWrite) [.send 1 1 false false false 0 1 .rpcerr, .backoff "tikvRPC" 100, .result .errBudget false]).isSome = true := by
  decide
-- and the model does reject what the property forbids
example : run (init cfgWrite) [.send 1 1 true false false 0 1 .ok] = none := by decide
example : run (init cfgRead) [.send 1 1 false false false 0 1 .rpcerr, .send 1 1 false false false 0 2 .ok] = none := by decide
example : run (init cfgBadTs) [.send 1 1 false false false 0 1 .ok] = none := by decide
example : run (init cfgRead) [.send 1 1 false false false 0 1 .rpcerr, .result .ok true] = none := by decide

end CGV.Props.C10
