/-
  C09 — region lookups contain their keys, cover ranges without gaps and do not regress.
  All theorems are about the executable model `ClientGoVerif.Model.Region` (tied to /repo by the differential of
  `./check C09`).  "contains" is the code's own predicate `contains(startKey, endKey, key)` (empty end key = +∞);
  `Region.contains_iff_has` relates it to the interval reading for well-formed regions.
  The cache `c` is ARBITRARY in every lookup theorem (in particular every state reachable by inserts, invalidation,
  reload marks, GC rounds, epoch-not-match handling), PD is an arbitrary list of regions unless stated otherwise.
-/
import ClientGoVerif.Proofs.RegionConv
namespace CGV.Props.C09
open CGV CGV.Region

/-! ## lookups by key / by end key / by id -/

/-- LocateKey: the returned location contains the key — for every cache state and every PD answer -/
theorem lookup_contains_key (c c' : Cache) (pd : PD) (key : Bytes) (r : Region)
    (h : locateKey c pd key = (c', .ok r)) : r.contains key = true := by
  unfold locateKey at h
  cases hf : findRegionByKey c pd key false with
  | mk c1 res =>
    rw [hf] at h
    cases res with
    | error x => simp [Except.map] at h
    | ok e =>
      simp only [Except.map, Prod.mk.injEq, Except.ok.injEq] at h
      rw [← h.2]
      exact findRegionByKey_spec (isEnd := false) (fun e he => by simpa [inRegion] using loadRegion_contains he) hf

def pd2 : PD := [⟨⟨1, [], some [103], 1, 0⟩, 1, [1, 2, 3]⟩, ⟨⟨2, [103], none, 1, 0⟩, 1, [1, 2, 3]⟩]

/-- LocateEndKey (as of /repo f67ac70), full strength: whenever it answers, the location contains the key by its end
    (start < key <= end); the empty key is the point at +∞ and is contained exactly by a region with an unbounded end.
    Every cache state.  Assumed of PD: its regions are well-formed (start < end); nothing else — that the walk of
    `findLastRegion` reaches a region with an empty end key is not assumed: if PD never returns one the model runs out
    of fuel / PD rounds and answers an error, for which nothing is claimed.
    (Before f67ac70 this was FALSE for the empty key: the first region came back — finding S9.) -/
theorem lookup_contains_end_key (fuel : Nat) (c c' : Cache) (pd : PD) (key : Bytes) (r : Region)
    (hwf : ∀ p ∈ pd, p.r.wf)
    (h : locateEndKey fuel c pd key = (c', .ok r)) : r.containsByEnd key = true := by
  unfold locateEndKey at h
  by_cases hk : key.isEmpty = true
  · simp only [hk, if_true] at h
    cases hf : findLastRegion fuel c pd with
    | mk c1 res =>
      rw [hf] at h
      cases res with
      | error x => simp [Except.map] at h
      | ok e =>
        simp only [Except.map, Prod.mk.injEq, Except.ok.injEq] at h
        rw [← h.2]
        unfold Region.containsByEnd
        simp only [hk, if_true]
        exact findLastRegion_spec hf
  · simp only [hk, Bool.false_eq_true, if_false] at h
    have hk' : key ≠ [] := by intro h0; simp [h0] at hk
    cases hf : findRegionByKey c pd key true with
    | mk c1 res =>
      rw [hf] at h
      cases res with
      | error x => simp [Except.map] at h
      | ok e =>
        simp only [Except.map, Prod.mk.injEq, Except.ok.injEq] at h
        rw [← h.2]
        exact findRegionByKey_spec (isEnd := true)
          (fun e he => by simpa [inRegion] using loadRegion_containsByEnd hwf hk' he) hf

/-- the former S9 scenario: two regions, cold cache, LocateEndKey("") now answers the LAST region; and a non-empty key -/
example : (∀ p ∈ pd2, p.r.wf) ∧
    (locateEndKey 8 Cache.empty pd2 []).2 = .ok ⟨2, [103], none, 1, 0⟩ ∧
    (locateEndKey 8 Cache.empty pd2 [103]).2 = .ok ⟨1, [], some [103], 1, 0⟩ := by
  refine ⟨?_, rfl, rfl⟩
  intro p hp; simp [pd2] at hp; rcases hp with rfl | rfl <;> simp [Region.wf] <;> decide

/-! ## multi-region lookups -/

/-- LocateKeyRange: whenever it answers, the locations cover every key of [startKey, endKey) (empty endKey = +∞, so
    the last region of the key space is included) — for every cache state and EVERY PD behaviour: the only facts used
    are the containment checks and `regionsHaveGapInRanges` that the code itself performs. -/
theorem range_lookup_gap_free (fuel : Nat) (c c' : Cache) (pd : PD) (startKey endKey : Bytes) (ls : List Region)
    (h : locateKeyRange fuel c pd startKey endKey = (c', .ok ls)) : Covers ls startKey endKey :=
  locateKeyRangeLoop_spec h (covUpTo_init startKey endKey)

/-- the answer is not vacuous: three regions, the middle one missing from the cache -/
example : ∃ c' ls, locateKeyRange 20 (locateKey Cache.empty pd2 [97]).1 pd2 [98] [] = (c', .ok ls) ∧ ls.length = 2 :=
  ⟨_, _, rfl, rfl⟩

/-- sorted, pairwise disjoint request ranges with start < end; only the last one may be unbounded -/
abbrev ValidRanges := ValidRangesP

/-- full statement for BatchLocateKeyRanges: for every index sorted by start key (every reachable cache is, see
    `reachable_sorted`), every PD behaviour and every sorted list of request ranges, the returned locations cover every
    requested range.  Proved below up to a bound on the number of request ranges (`batch_lookup_gap_free_partial`). -/
def batch_lookup_gap_free : Prop :=
  ∀ (fuel : Nat) (c c' : Cache) (pd : PD) (ranges : List KeyRange) (ls : List Region),
    Sorted c.sorted → ValidRanges ranges →
    batchLocateKeyRanges fuel c pd ranges = (c', .ok ls) → ∀ kr ∈ ranges, Covers ls kr.start kr.end_

/-- BatchLocateKeyRanges (merger as of /repo 5462de8): whenever it answers, the locations cover every requested range
    (unbounded ends and the last region included) — for every index that is sorted by start key (overlapping stale
    entries, invalidated and need-reload entries allowed), EVERY PD behaviour (only the code's own gap check is used),
    any number of uncached holes and PD rounds, provided the call has at most 16 * defaultRegionsPerBatch request
    ranges (the size of one PD request).
    What remains for the full statement: with more ranges than that, step 2 sends only a prefix of the uncached
    ranges per round and `rangesAfterKey` trusts the end key of the last returned region for the ranges it did not
    send; a PD answer containing a region beyond the ranges it was asked for could then skip an unsent range.  That
    needs an assumption on PD's answers (only regions intersecting the request) and is not proved. -/
theorem batch_lookup_gap_free_partial (fuel : Nat) (c c' : Cache) (pd : PD) (ranges : List KeyRange)
    (ls : List Region) (hs : Sorted c.sorted) (hv : ValidRanges ranges)
    (hn : ranges.length ≤ 16 * limitPerBatch)
    (h : batchLocateKeyRanges fuel c pd ranges = (c', .ok ls)) :
    ∀ kr ∈ ranges, Covers ls kr.start kr.end_ := by
  unfold batchLocateKeyRanges at h
  have hA := (batchStep1_spec (fuel := fuel) (c := c) (st := ⟨none, [], []⟩) hv
    (by intro l hl; cases hl)).2
  have hS := batchStep1_si (fuel := fuel) hs (st := ⟨none, [], []⟩) hv
    (by intro kr _; exact ⟨by simp [StartsSorted], by intro x hx; cases hx⟩)
    (by simp [StartsSorted]) (by intro l hl; cases hl) (by simp [ValidRangesP]) (by intro u hu; cases hu)
  change ∀ kr ∈ ranges, ServedBy (batchStep1 fuel c ranges).cached (batchStep1 fuel c ranges).uncached kr at hA
  change StartsSorted ((batchStep1 fuel c ranges).cached.map (·.r)) ∧
    ValidRangesP (batchStep1 fuel c ranges).uncached ∧
    (batchStep1 fuel c ranges).uncached.length ≤ 0 + ranges.length at hS
  simp only at h
  generalize batchStep1 fuel c ranges = st at h hA hS
  cases hb : batchStep2 fuel c pd st.uncached ⟨none, st.cached.map (·.r), []⟩ with
  | mk c1 res =>
    rw [hb] at h
    cases res with
    | error x => simp at h
    | ok m' =>
      simp only [Prod.mk.injEq, Except.ok.injEq] at h
      obtain ⟨_, rfl⟩ := h
      obtain ⟨hinv, _, hcovU⟩ := batchStep2_spec hb (mergerInv_init hS.1) hS.2.1 (by omega)
      obtain ⟨hb1, hb2⟩ := build_covers hinv
      intro kr hkr k hk1 hk2
      rcases hA kr hkr k hk1 hk2 with ⟨ce, hce, hcc⟩ | ⟨u, hu', hu1, hu2⟩
      · exact hb2 ce.r (List.mem_map.mpr ⟨ce, hce, rfl⟩) k hcc
      · obtain ⟨l, hl, hlc⟩ := hcovU u hu' k hu1 hu2
        exact ⟨l, hb1 l hl, hlc⟩

/-- BatchLocateKeyRanges without the bound on the number of request ranges, under PD's contract `PDWithin`
    (every region PD returns for a batch scan starts before the end of one of the requested ranges — PD does not
    answer with regions lying entirely beyond what it was asked for): whenever the call answers, the locations cover
    every requested range.  Any sorted index, any number of uncached holes, PD rounds and ranges per call; PD may still
    truncate its answers at the limit and return stale descriptions. -/
theorem batch_lookup_gap_free_pd_contract_partial (fuel : Nat) (c c' : Cache) (pd : PD) (ranges : List KeyRange)
    (ls : List Region) (hs : Sorted c.sorted) (hv : ValidRanges ranges) (hpd : PDWithin pd)
    (h : batchLocateKeyRanges fuel c pd ranges = (c', .ok ls)) :
    ∀ kr ∈ ranges, Covers ls kr.start kr.end_ := by
  unfold batchLocateKeyRanges at h
  have hA := (batchStep1_spec (fuel := fuel) (c := c) (st := ⟨none, [], []⟩) hv
    (by intro l hl; cases hl)).2
  have hS := batchStep1_si (fuel := fuel) hs (st := ⟨none, [], []⟩) hv
    (by intro kr _; exact ⟨by simp [StartsSorted], by intro x hx; cases hx⟩)
    (by simp [StartsSorted]) (by intro l hl; cases hl) (by simp [ValidRangesP]) (by intro u hu; cases hu)
  change ∀ kr ∈ ranges, ServedBy (batchStep1 fuel c ranges).cached (batchStep1 fuel c ranges).uncached kr at hA
  change StartsSorted ((batchStep1 fuel c ranges).cached.map (·.r)) ∧
    ValidRangesP (batchStep1 fuel c ranges).uncached ∧
    (batchStep1 fuel c ranges).uncached.length ≤ 0 + ranges.length at hS
  simp only at h
  generalize batchStep1 fuel c ranges = st at h hA hS
  cases hb : batchStep2 fuel c pd st.uncached ⟨none, st.cached.map (·.r), []⟩ with
  | mk c1 res =>
    rw [hb] at h
    cases res with
    | error x => simp at h
    | ok m' =>
      simp only [Prod.mk.injEq, Except.ok.injEq] at h
      obtain ⟨_, rfl⟩ := h
      obtain ⟨hinv, _, hcovU⟩ := batchStep2_spec_pd hpd hb (mergerInv_init hS.1) hS.2.1
      obtain ⟨hb1, hb2⟩ := build_covers hinv
      intro kr hkr k hk1 hk2
      rcases hA kr hkr k hk1 hk2 with ⟨ce, hce, hcc⟩ | ⟨u, hu', hu1, hu2⟩
      · exact hb2 ce.r (List.mem_map.mpr ⟨ce, hce, rfl⟩) k hcc
      · obtain ⟨l, hl, hlc⟩ := hcovU u hu' k hu1 hu2
        exact ⟨l, hb1 l hl, hlc⟩

/-- non-vacuity of `PDWithin`: it holds for the one-region layout -/
example : PDWithin [⟨⟨1, [], none, 0, 0⟩, 1, [1, 2, 3]⟩] :=
  pdWithin_of_starts_nil (by intro p hp; simp at hp; subst hp; rfl)

def pd3 : PD :=
  [⟨⟨1, [], some [103], 1, 0⟩, 1, [1, 2, 3]⟩, ⟨⟨2, [103], some [116], 2, 0⟩, 1, [1, 2, 3]⟩, ⟨⟨3, [116], none, 1, 0⟩, 1, [1, 2, 3]⟩]

/-- the cache after `LocateKey("u")` on a cold cache: only the last region [t, +∞) -/
def warmLast : Cache := (locateKey Cache.empty pd3 [117]).1

/-- the S8 scenario on the repaired merger: with [t,+∞) cached and the rest not, the ranges [a,b), [u,+∞) now come
    back as [-∞,g) followed by the cached [t,+∞) -/
theorem s8_regression :
    (batchLocateKeyRanges 20 warmLast pd3 [⟨[97], [98]⟩, ⟨[117], []⟩]).2 =
      .ok [⟨1, [], some [103], 1, 0⟩, ⟨3, [116], none, 1, 0⟩] := rfl

/-- the hypotheses of `batch_lookup_gap_free_partial` hold in the S8 scenario -/
example : Sorted warmLast.sorted ∧ ValidRanges [⟨[97], [98]⟩, ⟨[117], []⟩] ∧
    ([⟨[97], [98]⟩, ⟨[117], []⟩] : List KeyRange).length ≤ 16 * limitPerBatch := by
  refine ⟨?_, ⟨by decide, by decide, Or.inl rfl⟩, by decide⟩
  have : warmLast.sorted = [⟨⟨3, [116], none, 1, 0⟩, true, false, 1, [1, 2, 3], false⟩] := rfl
  rw [this]; simp [Sorted]

/-! ## no regression -/

/-- an answer older (version or conf-version) than the newest description cached for the same region id is refused
    and changes nothing -/
theorem no_regression_same_id (c : Cache) (n : Entry) (old : VerID)
    (h : latestGet c.latest n.r.id = some old) (ho : old.ver > n.r.ver ∨ old.confVer > n.r.confVer) :
    insertRegionToCache c n = (c, false) :=
  insert_stale_latest h ho

/-- an answer older than a cached region that starts inside its range is refused and changes nothing -/
theorem no_regression_inside (c : Cache) (n e : Entry) (he : e ∈ c.sorted)
    (hin : Bytes.le n.r.start e.r.start = true ∧ (n.r.endKey = [] ∨ Bytes.lt e.r.start n.r.endKey = true))
    (hv : e.r.ver > n.r.ver) : insertRegionToCache c n = (c, false) := by
  apply insert_stale_inside he _ hv
  unfold inRangeStart
  rcases hin.2 with h | h <;> simp [hin.1, h]

/-- whatever an insert removes from the index started inside the new region's range and was not newer than it;
    everything else is still there -/
theorem no_regression (c c' : Cache) (n : Entry) (ok : Bool) (hwf : n.r.wf)
    (h : insertRegionToCache c n = (c', ok)) (e : Entry) (he : e ∈ c.sorted) (hgone : e ∉ c'.sorted) :
    ok = true ∧ inRangeStart n.r e = true ∧ e.r.ver ≤ n.r.ver ∧ n ∈ c'.sorted := by
  rcases insert_spec h with ⟨_, rfl⟩ | ⟨hok, heq, hver⟩
  · exact absurd he hgone
  · by_cases hin : inRangeStart n.r e = true
    · exact ⟨hok, hin, hver e he hin, by rw [heq]; exact self_mem_insertSorted _ _⟩
    · exfalso
      apply hgone
      rw [heq]
      apply mem_insertSorted_of_mem
      · simp [List.mem_filter, he, hin]
      · intro hs
        apply hin
        unfold inRangeStart
        rw [hs, le_refl]
        unfold Region.wf at hwf
        unfold Region.endKey
        cases hend : n.r.end_ with
        | none => simp
        | some x => simp [hend] at hwf; simp [hwf]

example : (⟨⟨2, [103], some [116], 2, 0⟩, true, false, 1, [1], false⟩ : Entry).r.wf := by simp [Region.wf]; decide

/-! ## grouping -/

/-- GroupKeysByRegion (nil filter): every key got a location that contains it and sits in the group of that
    location's VerID; the groups have distinct VerIDs and together hold exactly as many keys as were given
    (so, for distinct keys, each key is in exactly one group). -/
theorem grouping_partition (c c' : Cache) (pd : PD) (keys : List Bytes) (g : List (VerID × List Bytes))
    (locs : List Region) (h : groupKeysByRegion c pd keys = (c', .ok (g, locs))) :
    (∀ k ∈ keys, ∃ l ∈ locs, l.contains k = true ∧ ∃ ks, (l.verID, ks) ∈ g ∧ k ∈ ks) ∧
    (g.map (·.2.length)).sum = keys.length ∧ (g.map (·.1)).Nodup := by
  unfold groupKeysByRegion at h
  have := groupKeysLoop_spec (done := []) h (by intro k hk; cases hk) (by simp)
  refine ⟨?_, by simpa [groupTotal] using this.2.1, this.2.2⟩
  intro k hk
  obtain ⟨l, hl, hc, hg⟩ := this.1 k (by simpa using hk)
  exact ⟨l, by simpa using hl, hc, hg⟩

/-- the index stays strictly sorted by start key (unique start keys) under inserts -/
theorem index_sorted (c c' : Cache) (n : Entry) (ok : Bool) (h : insertRegionToCache c n = (c', ok))
    (hs : Sorted c.sorted) : Sorted c'.sorted :=
  insert_sorted h hs

/-- ListRegionIDsInKeyRange: whenever it answers, the regions it walked through cover every key of [startKey, endKey]
    (end inclusive) — every cache state, every PD behaviour -/
theorem list_region_ids_cover (fuel : Nat) (c c' : Cache) (pd : PD) (startKey endKey : Bytes) (ls : List Region)
    (h : listRegionIDs fuel c pd startKey endKey [] = (c', .ok ls)) :
    ∀ k, Bytes.le startKey k = true → Bytes.le k endKey = true → ∃ l ∈ ls, l.contains k = true :=
  listRegionIDs_spec h (covUpTo_init startKey [])

/-! ## every operation sequence: the reachable caches -/

/-- after ANY sequence of API operations (lookups of all kinds answered by arbitrary, changing or stale PD states,
    invalidation, need-reload marks, leader updates, epoch-not-match handling, GC rounds) the cache is well-formed:
    the index is strictly sorted by start key and latestVersions is keyed consistently -/
theorem reachable_cache_wf (ops : List Op) : CacheWF (ops.foldl applyOp Cache.empty) :=
  reachable_wf (reachable_applyOps ops Reachable.empty)

/-- non-overlap is NOT an invariant of the code and is therefore not assumed anywhere: a wider stale entry that starts
    earlier survives the insert of a newer region inside it -/
theorem overlap_reachable : ∃ c : Cache, Reachable c ∧ ∃ a ∈ c.sorted, ∃ b ∈ c.sorted, a ≠ b ∧
    a.r.contains [110] = true ∧ b.r.contains [110] = true := by
  let a : Entry := ⟨⟨1, [97], some [122], 1, 0⟩, true, false, 1, [1], false⟩
  let b : Entry := ⟨⟨2, [109], some [122], 2, 0⟩, true, false, 1, [1], false⟩
  refine ⟨(insertRegionToCache (insertRegionToCache Cache.empty a).1 b).1,
    Reachable.insert b (Reachable.insert a Reachable.empty), a, ?_, b, ?_, ?_, ?_, ?_⟩
  · decide
  · decide
  · decide
  · decide
  · decide

/-- BatchLocateKeyRanges after any operation sequence (see `batch_lookup_gap_free_partial` for what is assumed) -/
theorem batch_lookup_gap_free_reachable (ops : List Op) (fuel : Nat) (c' : Cache) (pd : PD) (ranges : List KeyRange)
    (ls : List Region) (hv : ValidRanges ranges) (hn : ranges.length ≤ 16 * limitPerBatch)
    (h : batchLocateKeyRanges fuel (ops.foldl applyOp Cache.empty) pd ranges = (c', .ok ls)) :
    ∀ kr ∈ ranges, Covers ls kr.start kr.end_ :=
  batch_lookup_gap_free_partial fuel _ c' pd ranges ls (reachable_cache_wf ops).1 hv hn h

/-- LocateRegionByID after any operation sequence: the location has the id that was asked for -/
theorem lookup_by_id (ops : List Op) (c' : Cache) (pd : PD) (id : Nat) (r : Region)
    (h : locateRegionByID (ops.foldl applyOp Cache.empty) pd id = (c', .ok r)) : r.id = id :=
  locateRegionByID_id (reachable_cache_wf ops).2 h

/-- a location answered by LocateKey is a VALID entry of the index or a fresh PD answer (any cache) -/
theorem lookup_valid_or_fresh (c c' : Cache) (pd : PD) (key : Bytes) (r : Region)
    (h : locateKey c pd key = (c', .ok r)) :
    (∃ e ∈ c.sorted, e.valid = true ∧ e.r = r) ∨ (∃ lr, loadRegion pd key false = .ok lr ∧ lr.r = r) := by
  unfold locateKey at h
  cases hf : findRegionByKey c pd key false with
  | mk c1 res =>
    rw [hf] at h
    cases res with
    | error x => simp [Except.map] at h
    | ok e =>
      simp only [Except.map, Prod.mk.injEq, Except.ok.injEq] at h
      rcases findRegionByKey_origin hf with ⟨hm, hv⟩ | hl
      · exact Or.inl ⟨e, hm, hv, h.2⟩
      · exact Or.inr ⟨e, hl, h.2⟩

/-- a stale region is never returned after invalidate: if LocateKey on a cache in which VerID `v` was invalidated
    answers a region with that VerID, the answer is a fresh PD answer, not the invalidated entry -/
theorem no_stale_after_invalidate (c c' : Cache) (v : VerID) (pd : PD) (key : Bytes) (r : Region)
    (h : locateKey (c.invalidate v) pd key = (c', .ok r)) (hv : r.verID = v) :
    ∃ lr, loadRegion pd key false = .ok lr ∧ lr.r = r := by
  rcases lookup_valid_or_fresh _ _ _ _ _ h with ⟨e, hm, hval, rfl⟩ | hl
  · have := invalidate_marks c v e hm hv
    rw [this] at hval; cases hval
  · exact hl

/-- the multi-region lookups only take valid entries without the need-reload flag from the cache -/
theorem range_lookups_use_valid_entries (c : Cache) :
    (∀ k b e, tryFindRegionByKey c k b = some e → e ∈ c.sorted ∧ e.valid = true ∧ e.reload = false) ∧
    (∀ s e limit, ∀ x ∈ scanRegionsFromCache c s e limit, x.valid = true ∧ x.reload = false) :=
  ⟨fun _ _ _ h => tryFind_valid h, fun s e limit => scan_valid c s e limit⟩

/-- a successful insert evicts exactly the entries whose start key lies in the new region's range: the new index is
    the new entry plus the old entries starting outside that range -/
theorem insert_evicts_exactly (c c' : Cache) (n : Entry) (hwf : n.r.wf)
    (h : insertRegionToCache c n = (c', true)) (e : Entry) :
    e ∈ c'.sorted ↔ e = n ∨ (e ∈ c.sorted ∧ inRangeStart n.r e = false) := by
  rcases insert_spec h with ⟨hf, _⟩ | ⟨_, heq, _⟩
  · cases hf
  · rw [heq]
    constructor
    · intro he
      rcases mem_insertSorted he with he | he
      · exact Or.inl he
      · simp only [List.mem_filter, Bool.not_eq_eq_eq_not, Bool.not_true] at he
        exact Or.inr he
    · rintro (rfl | ⟨he, hin⟩)
      · exact self_mem_insertSorted _ _
      · apply mem_insertSorted_of_mem
        · simp [List.mem_filter, he, hin]
        · intro hs
          have : inRangeStart n.r e = true := by
            unfold inRangeStart
            rw [hs, le_refl]
            unfold Region.wf at hwf
            unfold Region.endKey
            cases hend : n.r.end_ with
            | none => simp
            | some x => simp [hend] at hwf; simp [hwf]
          rw [this] at hin; cases hin

/-- non-vacuity: a successful insert with a well-formed region -/
example : (⟨⟨2, [103], some [116], 2, 0⟩, true, false, 1, [1], false⟩ : Entry).r.wf ∧
    (insertRegionToCache Cache.empty ⟨⟨2, [103], some [116], 2, 0⟩, true, false, 1, [1], false⟩).2 = true := by
  refine ⟨by simp [Region.wf]; decide, rfl⟩

/-! ## convergence once the topology is quiet

  `pd` is the fixed layout that PD and the stores agree on (`QuietPD`: total, well-formed, disjoint, distinct ids).
  The cache is any sorted index that is not ahead of it (`ConvInv` = `Sorted` + `NotAhead`: entries are well-formed
  descriptions whose versions/epochs do not exceed those of the current regions they touch — which holds for whatever
  was loaded from earlier PD states as long as versions grow with every split and merge; this is an assumption about
  the history, not proved here, and exercised by the `conv` op of the differential).  A request `attempt` is: LocateKey,
  send, and — unless the location is exactly the store's current region — a region error handled by one of the three
  feedback paths (InvalidateCachedRegion, needReloadOnAccess as set by OnSendFail(scheduleReload), OnRegionEpochNotMatch
  with the store's current regions overlapping the stale one). -/

/-- converges_when_quiet, single key: whatever the feedback path, at most ONE attempt is rejected; the attempt after it
    is accepted, and from then on the key is `Settled`: found in the cache as PD's current region -/
theorem converges_when_quiet (c : Cache) (pd : PD) (k : Bytes) (fb : Feedback) (n : Nat)
    (hq : QuietPD pd) (hi : ConvInv c pd) :
    ∃ c' failed, attempts (n + 2) c pd k fb 0 = (c', some failed) ∧ failed ≤ 1 ∧ Settled c' pd k ∧ ConvInv c' pd :=
  attempts_bound hq hi k fb n

/-- a settled key is served with PD's current region from the cache alone — the answer does not depend on what PD would
    say (no PD round trip), the cache is not modified, and every further attempt is accepted: the situation is stable -/
theorem settled_is_served_from_cache (c : Cache) (pd : PD) (k : Bytes) (h : Settled c pd k) :
    ∃ p, pd.getRegion k = some p ∧ (∀ pd', locateKey c pd' k = (c, .ok p.r)) ∧ ∀ fb, attempt c pd k fb = (c, true) :=
  settled_served h

/-- being settled survives everything the quiet situation does to the cache for OTHER keys: inserting any current
    region (what lookups, reloads and epoch-not-match handling of other keys do) keeps the key settled -/
theorem settled_is_stable (c : Cache) (pd : PD) (k : Bytes) (hq : QuietPD pd) (hi : ConvInv c pd)
    (h : Settled c pd k) (q : PdRegion) (hqm : q ∈ pd) :
    Settled (insertRegionToCache c q.toEntry).1 pd k ∧ ConvInv (insertRegionToCache c q.toEntry).1 pd :=
  ⟨insert_keeps_settled hq hi h hqm rfl rfl rfl, insert_convInv hq hi hqm rfl⟩

/-- converges_when_quiet, several keys (e.g. one key per current region that a range request touches): driving the
    keys one after the other costs at most ONE rejected attempt per key in total, and at the end ALL of them are settled
    simultaneously — driving one key never unsettles another -/
theorem converges_when_quiet_keys (c : Cache) (pd : PD) (keys : List Bytes) (fb : Feedback) (n : Nat)
    (hq : QuietPD pd) (hi : ConvInv c pd) :
    (∀ k ∈ keys, Settled (driveKeys n pd fb keys c 0).1 pd k) ∧ (driveKeys n pd fb keys c 0).2 ≤ keys.length ∧
      ConvInv (driveKeys n pd fb keys c 0).1 pd := by
  have := driveKeys_spec hq n fb keys hi 0 [] (by intro k hk; cases hk)
  exact ⟨fun k hk => this.2.1 k (by simpa using hk), by simpa using this.2.2, this.1⟩

/-- non-vacuity: a two-region layout is quiet, the empty cache and a cache holding the stale unsplit region satisfy the
    invariant, and the stale cache really needs one rejected attempt -/
example : QuietPD pd2 ∧ ConvInv Cache.empty pd2 ∧
    (attempts 3 (insertRegionToCache Cache.empty ⟨⟨1, [], none, 0, 0⟩, true, false, 1, [1, 2, 3], false⟩).1 pd2 [104]
      Feedback.invalidate 0).2 = some 1 := by
  refine ⟨⟨?_, ?_, ?_, ?_⟩, ⟨by simp [Cache.empty, Sorted], ?_⟩, rfl⟩
  · intro k
    rcases le_total [103] k with h | h
    · refine ⟨⟨⟨2, [103], none, 1, 0⟩, 1, [1, 2, 3]⟩, ?_⟩
      have h1 : Bytes.lt k [103] = false := by
        cases hl : Bytes.lt k [103] with
        | false => rfl
        | true => rw [le_iff_not_lt, hl] at h; cases h
      simp [PD.getRegion, pd2, List.find?, Region.contains, Region.endKey, h, h1, nil_le]
    · refine ⟨⟨⟨1, [], some [103], 1, 0⟩, 1, [1, 2, 3]⟩, ?_⟩
      simp [PD.getRegion, pd2, List.find?, Region.contains, Region.endKey, h, nil_le]
  · intro p hp; simp [pd2] at hp; rcases hp with rfl | rfl <;> simp [Region.wf] <;> decide
  · intro p hp q hq; simp [pd2] at hp hq
    rcases hp with rfl | rfl <;> rcases hq with rfl | rfl <;> simp <;> decide
  · intro p hp q hq; simp [pd2] at hp hq
    rcases hp with rfl | rfl <;> rcases hq with rfl | rfl <;> simp
  · exact ⟨(by intro e he; cases he), (by intro e he; cases he), (by intro e he; cases he), (by intro x hx; cases hx),
      (by intro e he; cases he)⟩

end CGV.Props.C09
