/-
  C09 — region lookups contain their keys, cover ranges without gaps and do not regress.
  All theorems are about the executable model `ClientGoVerif.Model.Region` (tied to /repo by the differential of
  `./check C09`).  "contains" is the code's own predicate `contains(startKey, endKey, key)` (empty end key = +∞);
  `Region.contains_iff_has` relates it to the interval reading for well-formed regions.
  The cache `c` is ARBITRARY in every lookup theorem (in particular every state reachable by inserts, invalidation,
  reload marks, GC rounds, epoch-not-match handling), PD is an arbitrary list of regions unless stated otherwise.
-/
import ClientGoVerif.Proofs.Region
namespace CGV.Props.C09
open CGV CGV.Region

/-! ## lookups by key / by end key / by id -/

/-- LocateKey: the returned location contains the key — for every cache state and every PD answer -/
theorem lookup_contains_key (c c' : Cache) (pd : PD) (key : Bytes) (r : Region)
    (h : locateKey c pd key = (c', .ok r)) : r.contains key = true := by
  unfold locateKey at h
  cases hf : findRegionByKey c pd key false with
  | mk c1 res =>
    rw [hf] at h
    cases res with
    | error x => simp [Except.map] at h
    | ok e =>
      simp only [Except.map, Prod.mk.injEq, Except.ok.injEq] at h
      rw [← h.2]
      exact findRegionByKey_spec (isEnd := false) (fun e he => by simpa [inRegion] using loadRegion_contains he) hf

def pd2 : PD := [⟨⟨1, [], some [103], 1, 0⟩, 1, [1, 2, 3]⟩, ⟨⟨2, [103], none, 1, 0⟩, 1, [1, 2, 3]⟩]

/-- LocateEndKey (as of /repo f67ac70), full strength: whenever it answers, the location contains the key by its end
    (start < key <= end); the empty key is the point at +∞ and is contained exactly by a region with an unbounded end.
    Every cache state.  Assumed of PD: its regions are well-formed (start < end); nothing else — that the walk of
    `findLastRegion` reaches a region with an empty end key is not assumed: if PD never returns one the model runs out
    of fuel / PD rounds and answers an error, for which nothing is claimed.
    (Before f67ac70 this was FALSE for the empty key: the first region came back — finding S9.) -/
theorem lookup_contains_end_key (fuel : Nat) (c c' : Cache) (pd : PD) (key : Bytes) (r : Region)
    (hwf : ∀ p ∈ pd, p.r.wf)
    (h : locateEndKey fuel c pd key = (c', .ok r)) : r.containsByEnd key = true := by
  unfold locateEndKey at h
  by_cases hk : key.isEmpty = true
  · simp only [hk, if_true] at h
    cases hf : findLastRegion fuel c pd with
    | mk c1 res =>
      rw [hf] at h
      cases res with
      | error x => simp [Except.map] at h
      | ok e =>
        simp only [Except.map, Prod.mk.injEq, Except.ok.injEq] at h
        rw [← h.2]
        unfold Region.containsByEnd
        simp only [hk, if_true]
        exact findLastRegion_spec hf
  · simp only [hk, Bool.false_eq_true, if_false] at h
    have hk' : key ≠ [] := by intro h0; simp [h0] at hk
    cases hf : findRegionByKey c pd key true with
    | mk c1 res =>
      rw [hf] at h
      cases res with
      | error x => simp [Except.map] at h
      | ok e =>
        simp only [Except.map, Prod.mk.injEq, Except.ok.injEq] at h
        rw [← h.2]
        exact findRegionByKey_spec (isEnd := true)
          (fun e he => by simpa [inRegion] using loadRegion_containsByEnd hwf hk' he) hf

/-- the former S9 scenario: two regions, cold cache, LocateEndKey("") now answers the LAST region; and a non-empty key -/
example : (∀ p ∈ pd2, p.r.wf) ∧
    (locateEndKey 8 Cache.empty pd2 []).2 = .ok ⟨2, [103], none, 1, 0⟩ ∧
    (locateEndKey 8 Cache.empty pd2 [103]).2 = .ok ⟨1, [], some [103], 1, 0⟩ := by
  refine ⟨?_, rfl, rfl⟩
  intro p hp; simp [pd2] at hp; rcases hp with rfl | rfl <;> simp [Region.wf] <;> decide

/-! ## multi-region lookups -/

/-- LocateKeyRange: whenever it answers, the locations cover every key of [startKey, endKey) (empty endKey = +∞, so
    the last region of the key space is included) — for every cache state and EVERY PD behaviour: the only facts used
    are the containment checks and `regionsHaveGapInRanges` that the code itself performs. -/
theorem range_lookup_gap_free (fuel : Nat) (c c' : Cache) (pd : PD) (startKey endKey : Bytes) (ls : List Region)
    (h : locateKeyRange fuel c pd startKey endKey = (c', .ok ls)) : Covers ls startKey endKey :=
  locateKeyRangeLoop_spec h (covUpTo_init startKey endKey)

/-- the answer is not vacuous: three regions, the middle one missing from the cache -/
example : ∃ c' ls, locateKeyRange 20 (locateKey Cache.empty pd2 [97]).1 pd2 [98] [] = (c', .ok ls) ∧ ls.length = 2 :=
  ⟨_, _, rfl, rfl⟩

/-- sorted, pairwise disjoint request ranges with start < end; only the last one may be unbounded -/
abbrev ValidRanges := ValidRangesP

/-- full statement for BatchLocateKeyRanges: the locations cover every requested range (any cache state, any PD).
    Not proved in this generality; see `batch_lookup_gap_free_partial`.  (Before /repo commit 5462de8 it was FALSE:
    the merger dropped a cached region with an unbounded end key — finding S8; `s8_regression` below is that
    scenario on the repaired merger.) -/
def batch_lookup_gap_free : Prop :=
  ∀ (fuel : Nat) (c c' : Cache) (pd : PD) (ranges : List KeyRange) (ls : List Region),
    ValidRanges ranges →
    batchLocateKeyRanges fuel c pd ranges = (c', .ok ls) → ∀ kr ∈ ranges, Covers ls kr.start kr.end_

/-- BatchLocateKeyRanges (merger as of /repo 5462de8): whenever it answers, the locations cover every requested range
    (unbounded ends and the last region included), for every cache state and EVERY PD behaviour, provided
    (1) the cached regions gathered by step 1 have non-decreasing start keys (true when the index holds no overlapping
        stale entry), and
    (2) step 1 leaves at most one uncached range to be loaded from PD (any number of PD rounds for it).
    This contains the S8 shape (cached head, one uncached hole, cached unbounded tail, several request ranges).
    Several uncached ranges at once (multi-range gap check + rangesAfterKey over several ranges) are covered by the
    differential only. -/
theorem batch_lookup_gap_free_partial (fuel : Nat) (c c' : Cache) (pd : PD) (ranges : List KeyRange)
    (ls : List Region) (hv : ValidRanges ranges)
    (hs : StartsSorted ((batchStep1 fuel c ranges).cached.map (·.r)))
    (hu : (batchStep1 fuel c ranges).uncached.length ≤ 1)
    (h : batchLocateKeyRanges fuel c pd ranges = (c', .ok ls)) :
    ∀ kr ∈ ranges, Covers ls kr.start kr.end_ := by
  unfold batchLocateKeyRanges at h
  have hA := (batchStep1_spec (fuel := fuel) (c := c) (st := ⟨none, [], []⟩) hv
    (by intro l hl; cases hl)).2
  change ∀ kr ∈ ranges, ServedBy (batchStep1 fuel c ranges).cached (batchStep1 fuel c ranges).uncached kr at hA
  simp only at h
  generalize batchStep1 fuel c ranges = st at h hs hu hA
  have hinit := mergerInv_init hs
  -- in both cases: an invariant-carrying merger whose merged part covers the uncached range (if any)
  have key : ∃ m', ls = m'.build ∧ MergerInv (st.cached.map (·.r)) m' ∧
      ∀ u ∈ st.uncached, Covers m'.merged u.start u.end_ := by
    cases hU : st.uncached with
    | nil =>
      rw [hU, batchStep2_nil] at h
      simp only [Prod.mk.injEq, Except.ok.injEq] at h
      exact ⟨_, h.2.symm, hinit, by intro u hu'; cases hu'⟩
    | cons u rest =>
      cases rest with
      | cons u2 rest2 => rw [hU] at hu; simp at hu
      | nil =>
        rw [hU] at h
        cases hb : batchStep2 fuel c pd [u] ⟨none, st.cached.map (·.r), []⟩ with
        | mk c1 res =>
          rw [hb] at h
          cases res with
          | error x => simp at h
          | ok m' =>
            simp only [Prod.mk.injEq, Except.ok.injEq] at h
            have hb' : batchStep2 fuel c pd [⟨u.start, u.end_⟩] ⟨none, st.cached.map (·.r), []⟩ = (c1, .ok m') := hb
            have := batchStep2_single hb' hinit (covUpTo_init u.start u.end_)
            refine ⟨m', h.2.symm, this.1, ?_⟩
            intro u' hu'
            simp only [List.mem_singleton] at hu'
            subst hu'
            exact this.2
  obtain ⟨m', rfl, hinv, hcovU⟩ := key
  obtain ⟨hb1, hb2⟩ := build_covers hinv
  intro kr hkr k hk1 hk2
  rcases hA kr hkr k hk1 hk2 with ⟨ce, hce, hcc⟩ | ⟨u, hu', hu1, hu2⟩
  · exact hb2 ce.r (List.mem_map.mpr ⟨ce, hce, rfl⟩) k hcc
  · obtain ⟨l, hl, hlc⟩ := hcovU u hu' k hu1 hu2
    exact ⟨l, hb1 l hl, hlc⟩

def pd3 : PD :=
  [⟨⟨1, [], some [103], 1, 0⟩, 1, [1, 2, 3]⟩, ⟨⟨2, [103], some [116], 2, 0⟩, 1, [1, 2, 3]⟩, ⟨⟨3, [116], none, 1, 0⟩, 1, [1, 2, 3]⟩]

/-- the cache after `LocateKey("u")` on a cold cache: only the last region [t, +∞) -/
def warmLast : Cache := (locateKey Cache.empty pd3 [117]).1

/-- the S8 scenario on the repaired merger: with [t,+∞) cached and the rest not, the ranges [a,b), [u,+∞) now come
    back as [-∞,g) followed by the cached [t,+∞) -/
theorem s8_regression :
    (batchLocateKeyRanges 20 warmLast pd3 [⟨[97], [98]⟩, ⟨[117], []⟩]).2 =
      .ok [⟨1, [], some [103], 1, 0⟩, ⟨3, [116], none, 1, 0⟩] := rfl

/-- the hypotheses of `batch_lookup_gap_free_partial` hold in the S8 scenario -/
example : ValidRanges [⟨[97], [98]⟩, ⟨[117], []⟩] ∧
    StartsSorted ((batchStep1 20 warmLast [⟨[97], [98]⟩, ⟨[117], []⟩]).cached.map (·.r)) ∧
    (batchStep1 20 warmLast [⟨[97], [98]⟩, ⟨[117], []⟩]).uncached.length ≤ 1 := by
  refine ⟨⟨by decide, by decide, Or.inl rfl⟩, ?_, by decide⟩
  have : (batchStep1 20 warmLast [⟨[97], [98]⟩, ⟨[117], []⟩]).cached.map (·.r) = [⟨3, [116], none, 1, 0⟩] := rfl
  rw [this]; simp [StartsSorted]

/-! ## no regression -/

/-- an answer older (version or conf-version) than the newest description cached for the same region id is refused
    and changes nothing -/
theorem no_regression_same_id (c : Cache) (n : Entry) (old : VerID)
    (h : latestGet c.latest n.r.id = some old) (ho : old.ver > n.r.ver ∨ old.confVer > n.r.confVer) :
    insertRegionToCache c n = (c, false) :=
  insert_stale_latest h ho

/-- an answer older than a cached region that starts inside its range is refused and changes nothing -/
theorem no_regression_inside (c : Cache) (n e : Entry) (he : e ∈ c.sorted)
    (hin : Bytes.le n.r.start e.r.start = true ∧ (n.r.endKey = [] ∨ Bytes.lt e.r.start n.r.endKey = true))
    (hv : e.r.ver > n.r.ver) : insertRegionToCache c n = (c, false) := by
  apply insert_stale_inside he _ hv
  unfold inRangeStart
  rcases hin.2 with h | h <;> simp [hin.1, h]

/-- whatever an insert removes from the index started inside the new region's range and was not newer than it;
    everything else is still there -/
theorem no_regression (c c' : Cache) (n : Entry) (ok : Bool) (hwf : n.r.wf)
    (h : insertRegionToCache c n = (c', ok)) (e : Entry) (he : e ∈ c.sorted) (hgone : e ∉ c'.sorted) :
    ok = true ∧ inRangeStart n.r e = true ∧ e.r.ver ≤ n.r.ver ∧ n ∈ c'.sorted := by
  rcases insert_spec h with ⟨_, rfl⟩ | ⟨hok, heq, hver⟩
  · exact absurd he hgone
  · by_cases hin : inRangeStart n.r e = true
    · exact ⟨hok, hin, hver e he hin, by rw [heq]; exact self_mem_insertSorted _ _⟩
    · exfalso
      apply hgone
      rw [heq]
      apply mem_insertSorted_of_mem
      · simp [List.mem_filter, he, hin]
      · intro hs
        apply hin
        unfold inRangeStart
        rw [hs, le_refl]
        unfold Region.wf at hwf
        unfold Region.endKey
        cases hend : n.r.end_ with
        | none => simp
        | some x => simp [hend] at hwf; simp [hwf]

example : (⟨⟨2, [103], some [116], 2, 0⟩, true, false, 1, [1]⟩ : Entry).r.wf := by simp [Region.wf]; decide

/-! ## grouping -/

/-- GroupKeysByRegion (nil filter): every key got a location that contains it and sits in the group of that
    location's VerID; the groups have distinct VerIDs and together hold exactly as many keys as were given
    (so, for distinct keys, each key is in exactly one group). -/
theorem grouping_partition (c c' : Cache) (pd : PD) (keys : List Bytes) (g : List (VerID × List Bytes))
    (locs : List Region) (h : groupKeysByRegion c pd keys = (c', .ok (g, locs))) :
    (∀ k ∈ keys, ∃ l ∈ locs, l.contains k = true ∧ ∃ ks, (l.verID, ks) ∈ g ∧ k ∈ ks) ∧
    (g.map (·.2.length)).sum = keys.length ∧ (g.map (·.1)).Nodup := by
  unfold groupKeysByRegion at h
  have := groupKeysLoop_spec (done := []) h (by intro k hk; cases hk) (by simp)
  refine ⟨?_, by simpa [groupTotal] using this.2.1, this.2.2⟩
  intro k hk
  obtain ⟨l, hl, hc, hg⟩ := this.1 k (by simpa using hk)
  exact ⟨l, by simpa using hl, hc, hg⟩

/-- the index stays strictly sorted by start key (unique start keys) under inserts -/
theorem index_sorted (c c' : Cache) (n : Entry) (ok : Bool) (h : insertRegionToCache c n = (c', ok))
    (hs : Sorted c.sorted) : Sorted c'.sorted :=
  insert_sorted h hs

end CGV.Props.C09
