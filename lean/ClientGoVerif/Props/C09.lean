import ClientGoVerif.Model.Region
namespace CGV.Props.C09
theorem placeholder : True := trivial
end CGV.Props.C09
