/-
  C05 — snapshot reads are stable and identical across access paths.  The judge compares every recorded snapshot
  read (get / batch get / scan / reverse scan, cold and warm cache, any batch size, splits in between) with
  `Perc.visible` of the model store; the model's own access paths are proved equal here, a scan is proved independent
  of the region layout it is assembled over (any number of split points), and a served read is proved to stay the
  snapshot at its timestamp in every later store state (`Proofs/MvccSI.lean`).
-/
import ClientGoVerif.Proofs.MvccStable
import ClientGoVerif.Proofs.MvccScanSplit
import ClientGoVerif.Proofs.MvccSI
import ClientGoVerif.Proofs.MvccPhantom
namespace CGV.Props.C05
open CGV CGV.Mvcc

theorem scan_eq_gets (s : Store) (a b : Bytes) (limit ts : Nat) (si : Bool) (rs : List Nat) :
    scan s a b limit ts si rs =
      ((s.kv.filter fun p => inRange a b p.1).filterMap fun p => pairOf p.1 p.2 ts si rs).take limit :=
  Mvcc.scan_eq_gets s a b limit ts si rs

theorem reverse_scan_is_mirror (s : Store) (a b : Bytes) (limit ts : Nat) (si : Bool) (rs : List Nat)
    (hl : (s.kv.filter fun p => inRange a b p.1).length ≤ limit) :
    reverseScan s a b limit ts si rs = (scan s a b limit ts si rs).reverse :=
  reverseScan_mirror s a b limit ts si rs hl

/-- batch get = the per-key gets of the requested keys, in request order, absent keys omitted -/
theorem batch_get_eq_gets (s : Store) (keys : List Bytes) (ts : Nat) (si : Bool) (rs : List Nat) :
    batchGet s keys ts si rs = keys.filterMap fun k =>
      match getValue (getEntry s.kv k) k ts si rs with
      | .ok none => none
      | .ok (some w) => some (.kv k w.value w.commitTS)
      | .error e => some (.err e) := rfl

theorem read_is_newest_le (e : Entry) (k : Bytes) (ts : Nat) (rs : List Nat) (hd : Desc e.writes) :
    NewestLE e.writes ts (newestData e.writes ts) := newestData_spec e.writes ts hd

/-- lock classification: a lock of a later transaction, a Lock-type or pessimistic lock, or a lock the reader was told
    is resolved never blocks; any other lock at or below the snapshot does -/
theorem lock_classification (l : Lock) (ts : Nat) (k : Bytes) (rs : List Nat) (hmax : ts ≠ maxU64) :
    (l.check ts k rs = .ok ts ↔ (ts < l.startTS ∨ l.op = .lock ∨ l.op = .pessimisticLock ∨ l.startTS ∈ rs)) := by
  unfold Lock.check
  by_cases h1 : ts < l.startTS
  · simp [h1]
  · by_cases h2 : l.op = .lock
    · simp [h2]
    · by_cases h3 : l.op = .pessimisticLock
      · simp [h3]
      · by_cases h4 : l.startTS ∈ rs
        · simp [h1, h2, h3, h4, hmax]
        · simp [h1, h2, h3, h4, hmax]

theorem read_stable (e : Entry) (acts : List Act) (ts : Nat)
    (h : ∀ a ∈ acts, match a with
      | .putWrite _ w => ts < w.commitTS
      | .delWrite _ _ => False
      | _ => True) :
    firstVisible (acts.foldl entryAct e).writes ts = firstVisible e.writes ts := Mvcc.read_stable e acts ts h

/-- a scan does not depend on the region layout: region by region over ANY chain of split points = the whole range -/
theorem scan_independent_of_region_layout (s : Store) (a : Bytes) (ms : List Bytes) (b : Bytes) (limit ts : Nat)
    (si : Bool) (rs : List Nat) (hs : KvSorted s.kv) (hc : ChainOK a ms b) (hl : s.kv.length ≤ limit) :
    scanChain s a ms b limit ts si rs = scan s a b limit ts si rs :=
  scanChain_eq_scan s a ms b limit ts si rs hs hc hl

/-- with a limit: the first `limit` pairs of the two halves' concatenation -/
theorem scan_split_with_limit (s : Store) (a m b : Bytes) (ts : Nat) (si : Bool) (rs : List Nat) (limit : Nat)
    (hs : KvSorted s.kv) (ham : Bytes.le a m = true) (hmb : b.isEmpty = true ∨ Bytes.le m b = true) (hm : m.isEmpty = false) :
    scan s a b limit ts si rs =
      (((s.kv.filter fun p => inRange a m p.1).filterMap fun p => pairOf p.1 p.2 ts si rs) ++
        ((s.kv.filter fun p => inRange m b p.1).filterMap fun p => pairOf p.1 p.2 ts si rs)).take limit :=
  scan_split s a m b ts si rs limit hs ham hmb hm

example : ChainOK [0x61] [[0x63], [0x66]] [] := by simp [ChainOK, Bytes.le, Bytes.cmp]

/-- stable: once served, a read at `ts` is what every later state shows at `ts` (see Props/C01 for the guard) -/
theorem snapshot_read_stable_every_run (ts : Nat) (k : Bytes) (s : Store) (cs : List Cmd) (rs : List Nat) (v : Option Write)
    (hs : SInv s) (hok : OkAll s cs) (hts : ts ≠ maxU64)
    (hserved : getValue (getEntry s.kv k) k ts true rs = .ok v) (hg : SIGuardAll ts k rs s cs) :
    firstVisible (getEntry (runAll s cs).kv k).writes ts = v :=
  served_read_is_snapshot ts k s cs rs v hs hok hts hserved hg

/-- no phantoms: two store states that answer every single key alike at `ts` answer every range scan at `ts` alike —
    keys present in only one of them make no difference -/
theorem scan_determined_by_point_reads (s s' : Store) (a b : Bytes) (limit ts : Nat) (si : Bool) (rs : List Nat)
    (hs : KvSorted s.kv) (hs' : KvSorted s'.kv) (hv : ∀ k, view s' ts si rs k = view s ts si rs k) :
    scan s' a b limit ts si rs = scan s a b limit ts si rs :=
  scan_determined_by_views s s' a b limit ts si rs hs hs' hv

/-- repeatable range reads over every run (keys created or collected in between included) -/
theorem range_scan_stable_every_run (ts : Nat) (s : Store) (cs : List Cmd) (a b : Bytes) (limit : Nat) (rs : List Nat)
    (hs : SInv s) (hok : OkAll s cs) (hg : ∀ k, GuardAll (fun e lab => lab.keepsReads ts e) k s cs) :
    scan (runAll s cs) a b limit ts false rs = scan s a b limit ts false rs :=
  scan_stable_over_runs ts s cs a b limit rs hs hok hg

end CGV.Props.C05
