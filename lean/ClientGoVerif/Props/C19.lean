import ClientGoVerif.Model.Codec
namespace CGV.Props.C19
theorem placeholder : True := trivial
end CGV.Props.C19
