/-
  C19 — memory-comparable key and number encodings: order-preserving, invertible, prefix-free, strict decoders.
  Property theorems only (helper lemmas: Proofs/Bytes, Proofs/CodecBytes, Proofs/CodecNum, Proofs/CodecCmpVarint).
  Value domains: `U64 v` = v < 2^64, `I64 v` = -2^63 ≤ v < 2^63 (what a Go uint64 / int64 can hold).
-/
import ClientGoVerif.Proofs.CodecBytes
import ClientGoVerif.Proofs.CodecCmpVarint
namespace CGV.Props.C19
open CGV CGV.Codec

/-! ## 1. decode ∘ encode = id, and the unconsumed suffix is returned untouched (all 9 encodings) -/

theorem roundtrip_bytes (d rest : Bytes) : decodeBytes (encodeBytes d ++ rest) = .ok (d, rest) :=
  decode_encode_bytes d rest
theorem roundtrip_uint (v : Nat) (rest : Bytes) (h : U64 v) : decodeUint (encodeUint v ++ rest) = .ok (v, rest) :=
  decode_encode_uint v rest h
theorem roundtrip_uintDesc (v : Nat) (rest : Bytes) (h : U64 v) :
    decodeUintDesc (encodeUintDesc v ++ rest) = .ok (v, rest) := decode_encode_uintDesc v rest h
theorem roundtrip_int (v : Int) (rest : Bytes) (h : I64 v) : decodeInt (encodeInt v ++ rest) = .ok (v, rest) :=
  decode_encode_int v rest h
theorem roundtrip_intDesc (v : Int) (rest : Bytes) (h : I64 v) :
    decodeIntDesc (encodeIntDesc v ++ rest) = .ok (v, rest) := decode_encode_intDesc v rest h
theorem roundtrip_uvarint (v : Nat) (rest : Bytes) (h : U64 v) :
    decodeUvarint (encodeUvarint v ++ rest) = .ok (v, rest) := decode_encode_uvarint v rest h
theorem roundtrip_varint (v : Int) (rest : Bytes) (h : I64 v) :
    decodeVarint (encodeVarint v ++ rest) = .ok (v, rest) := decode_encode_varint v rest h
theorem roundtrip_cmpUvarint (v : Nat) (rest : Bytes) (h : U64 v) :
    decodeCmpUvarint (encodeCmpUvarint v ++ rest) = .ok (v, rest) := decode_encode_cuvarint v rest h
theorem roundtrip_cmpVarint (v : Int) (rest : Bytes) (h : I64 v) :
    decodeCmpVarint (encodeCmpVarint v ++ rest) = .ok (v, rest) := decode_encode_cvarint v rest h

/-! ## 2. byte order of encodings = order of values (reversed for the descending forms) -/

theorem order_bytes (a b : Bytes) : Bytes.cmp (encodeBytes a) (encodeBytes b) = Bytes.cmp a b :=
  encodeBytes_cmp a b
theorem order_uint (a b : Nat) (ha : U64 a) (hb : U64 b) :
    Bytes.cmp (encodeUint a) (encodeUint b) = compare a b :=
  cmp_of_strictMono_nat encodeUint U64 encodeUint_lt a b ha hb
/-- descending unsigned: strictly larger value ⇒ strictly smaller encoding -/
theorem order_uintDesc (a b : Nat) (ha : U64 a) (hb : U64 b) (h : a < b) :
    Bytes.cmp (encodeUintDesc b) (encodeUintDesc a) = .lt := encodeUintDesc_gt a b ha hb h
theorem order_int (a b : Int) (ha : I64 a) (hb : I64 b) :
    Bytes.cmp (encodeInt a) (encodeInt b) = compare a b :=
  cmp_of_strictMono_int encodeInt I64 encodeInt_lt a b ha hb
theorem order_cmpUvarint (a b : Nat) (ha : U64 a) (hb : U64 b) :
    Bytes.cmp (encodeCmpUvarint a) (encodeCmpUvarint b) = compare a b :=
  cmp_of_strictMono_nat encodeCmpUvarint U64 encodeCmpUvarint_lt a b ha hb
theorem order_cmpVarint (a b : Int) (ha : I64 a) (hb : I64 b) :
    Bytes.cmp (encodeCmpVarint a) (encodeCmpVarint b) = compare a b :=
  cmp_of_strictMono_int encodeCmpVarint I64 encodeCmpVarint_lt a b ha hb
/-- descending integers: strictly larger value ⇒ strictly smaller encoding -/
theorem order_intDesc (a b : Int) (ha : I64 a) (hb : I64 b) (h : a < b) :
    Bytes.cmp (encodeIntDesc b) (encodeIntDesc a) = .lt := encodeIntDesc_gt a b ha hb h

/-! ## 3. no encoding is a proper prefix of another — a corollary of "round trip with arbitrary suffix" -/

/-- generic: if `dec (enc v ++ s) = ok (v, s)` for all suffixes then `enc` is prefix-free and injective -/
theorem prefix_free_of_roundtrip {α : Type} (enc : α → Bytes) (dec : Bytes → Res α) (P : α → Prop)
    (rt : ∀ v s, P v → dec (enc v ++ s) = .ok (v, s)) (a b : α) (ha : P a) (hb : P b) (s : Bytes)
    (h : enc a ++ s = enc b) : a = b ∧ s = [] := by
  have h1 := rt a s ha
  have h2 := rt b [] hb
  rw [List.append_nil] at h2
  rw [h, h2] at h1
  injection h1 with h1
  injection h1 with h3 h4
  exact ⟨h3.symm, h4.symm⟩

theorem prefix_free_bytes (a b s : Bytes) (h : encodeBytes a ++ s = encodeBytes b) : a = b ∧ s = [] :=
  prefix_free_of_roundtrip encodeBytes decodeBytes (fun _ => True) (fun v s _ => decode_encode_bytes v s) a b trivial trivial s h
theorem prefix_free_uvarint (a b : Nat) (ha : U64 a) (hb : U64 b) (s : Bytes)
    (h : encodeUvarint a ++ s = encodeUvarint b) : a = b ∧ s = [] :=
  prefix_free_of_roundtrip encodeUvarint decodeUvarint U64 (fun v s hv => decode_encode_uvarint v s hv) a b ha hb s h
theorem prefix_free_varint (a b : Int) (ha : I64 a) (hb : I64 b) (s : Bytes)
    (h : encodeVarint a ++ s = encodeVarint b) : a = b ∧ s = [] :=
  prefix_free_of_roundtrip encodeVarint decodeVarint I64 (fun v s hv => decode_encode_varint v s hv) a b ha hb s h
theorem prefix_free_cmpUvarint (a b : Nat) (ha : U64 a) (hb : U64 b) (s : Bytes)
    (h : encodeCmpUvarint a ++ s = encodeCmpUvarint b) : a = b ∧ s = [] :=
  prefix_free_of_roundtrip encodeCmpUvarint decodeCmpUvarint U64 (fun v s hv => decode_encode_cuvarint v s hv) a b ha hb s h
theorem prefix_free_cmpVarint (a b : Int) (ha : I64 a) (hb : I64 b) (s : Bytes)
    (h : encodeCmpVarint a ++ s = encodeCmpVarint b) : a = b ∧ s = [] :=
  prefix_free_of_roundtrip encodeCmpVarint decodeCmpVarint I64 (fun v s hv => decode_encode_cvarint v s hv) a b ha hb s h
theorem prefix_free_int (a b : Int) (ha : I64 a) (hb : I64 b) (s : Bytes)
    (h : encodeInt a ++ s = encodeInt b) : a = b ∧ s = [] :=
  prefix_free_of_roundtrip encodeInt decodeInt I64 (fun v s hv => decode_encode_int v s hv) a b ha hb s h
theorem prefix_free_uint (a b : Nat) (ha : U64 a) (hb : U64 b) (s : Bytes)
    (h : encodeUint a ++ s = encodeUint b) : a = b ∧ s = [] :=
  prefix_free_of_roundtrip encodeUint decodeUint U64 (fun v s hv => decode_encode_uint v s hv) a b ha hb s h

/-- hence concatenated fields compare field-wise: equal first fields ⇒ order decided by the rest;
    different first fields ⇒ order decided by the first field alone (bytes fields) -/
theorem concat_cmp_bytes (a b s t : Bytes) :
    Bytes.cmp (encodeBytes a ++ s) (encodeBytes b ++ t) =
      if a = b then Bytes.cmp s t else Bytes.cmp a b := by
  by_cases h : a = b
  · subst h; simp [Bytes.cmp_append_left]
  · simp only [h, if_false]
    rw [← encodeBytes_cmp a b]
    apply cmp_append_of_ne_prefix
    · rw [encodeBytes_cmp]; intro he; exact h ((Bytes.cmp_eq_iff _ _).mp he)
    · constructor
      · intro hp
        obtain ⟨u, hu⟩ := (Bytes.isPrefix_iff _ _).mp hp
        exact h (prefix_free_bytes a b u hu.symm).1
      · intro hp
        obtain ⟨u, hu⟩ := (Bytes.isPrefix_iff _ _).mp hp
        exact h (prefix_free_bytes b a u hu.symm).1.symm

/-! ## 4. malformed input: a decoder never yields a wrong value (the model is total: never a panic) -/

theorem sound_bytes (b v r : Bytes) (h : decodeBytes b = .ok (v, r)) : encodeBytes v ++ r = b :=
  decode_sound_bytes b v r h
theorem sound_uint (b : Bytes) (v : Nat) (r : Bytes) (h : decodeUint b = .ok (v, r)) : encodeUint v ++ r = b :=
  decode_sound_uint b v r h
theorem sound_uintDesc (b : Bytes) (v : Nat) (r : Bytes) (h : decodeUintDesc b = .ok (v, r)) :
    encodeUintDesc v ++ r = b := decode_sound_uintDesc b v r h
theorem sound_int (b : Bytes) (v : Int) (r : Bytes) (h : decodeInt b = .ok (v, r)) : encodeInt v ++ r = b :=
  decode_sound_int b v r h
theorem sound_intDesc (b : Bytes) (v : Int) (r : Bytes) (h : decodeIntDesc b = .ok (v, r)) :
    encodeIntDesc v ++ r = b := decode_sound_intDesc b v r h

/-! ## non-vacuity: the hypotheses are met by non-trivial values, and the statements compute -/
example : U64 (2 ^ 64 - 1) ∧ I64 (-(2 ^ 63)) ∧ I64 (2 ^ 63 - 1) := by unfold U64 I64; omega
example : decodeCmpVarint (encodeCmpVarint 5 ++ [0xaa, 0xbb]) = .ok (5, [0xaa, 0xbb]) :=
  roundtrip_cmpVarint 5 _ (by unfold I64; omega)

end CGV.Props.C19
