/-
  C12 — the mock TiKV against the reference MVCC model.  Property theorems about `Model/Mvcc.lean`
  (the model is tied to /repo's mocktikv by the method-level differential of checks/c12.py, and, in vivo,
  by the store replay of every transactional check).  Helper lemmas: Proofs/Mvcc*.lean.

  Standing shape assumptions, stated as hypotheses where used:
    KvSorted s.kv   keys strictly ascending (leveldb order);  Desc ws  versions strictly descending;
    WellTimed ws    rollback records sit at their start ts, data records above it (distinct timestamps).
  They are not assumptions about reachable states: `reachable_store_wellformed` proves all of them for every state
  reachable from the empty store by any command sequence respecting the callers' contract (Proofs/MvccReach.lean).
-/
import ClientGoVerif.Proofs.MvccInv
import ClientGoVerif.Proofs.MvccReach
import ClientGoVerif.Proofs.MvccTemporal
import ClientGoVerif.Proofs.MvccExec
namespace CGV.Props.C12
open CGV CGV.Mvcc

/-! ## reads -/

/-- a read at `ts` sees the newest commit at or below it (a delete reads as absent) -/
theorem read_sees_newest_le (e : Entry) (k : Bytes) (ts : Nat) (rs : List Nat) (hd : Desc e.writes) :
    getValue e k ts false rs = .ok ((newestData e.writes ts).bind fun w => if w.vt == .delete then none else some w) ∧
      NewestLE e.writes ts (newestData e.writes ts) := by
  refine ⟨?_, newestData_spec e.writes ts hd⟩
  simp [getValue, firstVisible_eq]

/-- … or reports the blocking lock: an error is always the lock on the key, and that lock does block the read -/
theorem read_error_is_blocking_lock (e : Entry) (k : Bytes) (ts : Nat) (rs : List Nat) (err : KErr)
    (h : getValue e k ts true rs = .error err) :
    ∃ l, e.lock = some l ∧ err = lockErr l k ∧ l.startTS ≤ ts ∧ l.op ≠ .lock ∧ l.op ≠ .pessimisticLock ∧
      ¬ rs.contains l.startTS = true := by
  simp only [getValue, if_true] at h
  cases hl : e.lock with
  | none => rw [hl] at h; simp at h
  | some l =>
    rw [hl] at h
    simp only [] at h
    refine ⟨l, rfl, ?_⟩
    cases hc : l.check ts k rs with
    | ok t => rw [hc] at h; simp at h
    | error e' =>
      rw [hc] at h
      have he : e' = err := by injection h
      subst he
      simp [Lock.check] at hc
      by_cases h1 : (ts < l.startTS ∨ l.op = Op.lock) ∨ l.op = Op.pessimisticLock
      · rw [if_pos h1] at hc; cases hc
      · rw [if_neg h1] at hc
        by_cases h2 : ts = maxU64 ∧ l.primary = k
        · rw [if_pos h2] at hc; cases hc
        · rw [if_neg h2] at hc
          by_cases h3 : l.startTS ∈ rs
          · rw [if_pos h3] at hc; cases hc
          · rw [if_neg h3] at hc
            injection hc with hc
            simp only [not_or] at h1
            exact ⟨hc.symm, by omega, h1.1.2, h1.2, by simpa using h3⟩

/-- a scan equals the per-key gets of its range (cut at the limit) -/
theorem scan_eq_gets (s : Store) (a b : Bytes) (limit ts : Nat) (si : Bool) (rs : List Nat) :
    scan s a b limit ts si rs =
      ((s.kv.filter fun p => inRange a b p.1).filterMap fun p => pairOf p.1 p.2 ts si rs).take limit :=
  Mvcc.scan_eq_gets s a b limit ts si rs

/-- a reverse scan is the mirror image of the scan -/
theorem reverse_scan_is_mirror (s : Store) (a b : Bytes) (limit ts : Nat) (si : Bool) (rs : List Nat)
    (hl : (s.kv.filter fun p => inRange a b p.1).length ≤ limit) :
    reverseScan s a b limit ts si rs = (scan s a b limit ts si rs).reverse :=
  reverseScan_mirror s a b limit ts si rs hl

/-! ## repeating a command whose effect is in place: same answer, nothing written -/

theorem idempotent_commit_committed (s : Store) (k : Bytes) (T C : Nat) (c : Write)
    (hl : (getEntry s.kv k).lock.filter (·.startTS == T) = none)
    (hc : txnCommitInfo (getEntry s.kv k).writes T = some c) (hv : c.vt ≠ .rollback) :
    commitKey s k T C = .ok [] := commitKey_committed s k T C c hl hc hv

theorem idempotent_rollback_rolled_back (s : Store) (k : Bytes) (T : Nat) (c : Write)
    (hl : (getEntry s.kv k).lock.filter (·.startTS == T) = none)
    (hc : txnCommitInfo (getEntry s.kv k).writes T = some c) (hv : c.vt = .rollback) :
    rollbackKey s k T = .ok [] := rollbackKey_rolledBack s k T c hl hc hv

theorem idempotent_prewrite_own_lock (s : Store) (r : PrewriteReq) (m : Mutation) (a : PAction) (l : Lock)
    (hl : (getEntry s.kv m.key).lock = some l) (hs : l.startTS = r.startTS) (hp : l.op ≠ .pessimisticLock) :
    prewriteMutation s r m a = .ok [] := prewriteMutation_ownLock s r m a l hl hs hp

theorem idempotent_check_status_committed (s : Store) (p : Bytes) (T caller cur : Nat) (rb rp : Bool) (c : Write)
    (hl : (getEntry s.kv p).lock.filter (·.startTS == T) = none)
    (hc : txnCommitInfo (getEntry s.kv p).writes T = some c) (hv : c.vt ≠ .rollback) :
    checkTxnStatus s p T caller cur rb rp = (s, { commitTS := c.commitTS }) :=
  checkTxnStatus_committed s p T caller cur rb rp c hl hc hv

theorem idempotent_check_status_rolled_back (s : Store) (p : Bytes) (T caller cur : Nat) (rb rp : Bool) (c : Write)
    (hl : (getEntry s.kv p).lock.filter (·.startTS == T) = none)
    (hc : txnCommitInfo (getEntry s.kv p).writes T = some c) (hv : c.vt = .rollback) :
    checkTxnStatus s p T caller cur rb rp = (s, {}) :=
  checkTxnStatus_rolledBack s p T caller cur rb rp c hl hc hv

theorem idempotent_resolve (s : Store) (a b : Bytes) (T C : Nat)
    (h : ∀ p ∈ s.kv, inRange a b p.1 = true → ∀ l, p.2.lock = some l → l.startTS ≠ T) :
    resolveLock s a b T C = s := resolveLock_noLock s a b T C h

/-! ## late prewrites are rejected; every rollback leaves the marker that makes it so -/

theorem late_prewrite_after_rollback_rejected (s : Store) (r : PrewriteReq) (m : Mutation) (act : PAction)
    (hd : Desc (getEntry s.kv m.key).writes)
    (hm : ∃ w ∈ (getEntry s.kv m.key).writes, w.vt = .rollback ∧ w.commitTS = r.startTS)
    (hown : ∀ l, (getEntry s.kv m.key).lock = some l → l.startTS = r.startTS → l.op = .pessimisticLock) :
    ∃ e, prewriteMutation s r m act = .error e := prewrite_after_rollback_rejected s r m act hd hm hown

theorem late_prewrite_after_commit_rejected (s : Store) (r : PrewriteReq) (m : Mutation) (act : PAction)
    (hd : Desc (getEntry s.kv m.key).writes) (hwt : WellTimed (getEntry s.kv m.key).writes)
    (hnolock : (getEntry s.kv m.key).lock = none)
    (hm : ∃ w ∈ (getEntry s.kv m.key).writes, w.vt ≠ .rollback ∧ w.startTS = r.startTS) :
    ∃ e, prewriteMutation s r m act = .error e := by
  cases h : prewriteMutation s r m act with
  | error e => exact ⟨e, rfl⟩
  | ok acts =>
    obtain ⟨w, hw, _, hst⟩ := hm
    exact absurd hst (prewrite_lock_implies_fresh s r m act acts hd hwt hnolock h w hw)

theorem rollback_leaves_marker_until_gc (s s' : Store) (k : Bytes) (T : Nat) (hs : KvSorted s.kv)
    (hr : rollback s [k] T = (s', none))
    (hpre : ∀ w ∈ (getEntry s.kv k).writes, w.vt = .rollback → w.startTS = T → w.commitTS = T) :
    HasMarker (getEntry s'.kv k) T := rollback_leaves_marker s s' k T hs hr hpre

/-! ## GC -/

theorem gc_refuses_lock_le_safepoint (s : Store) (a b : Bytes) (sp : Nat)
    (h : ∃ p ∈ s.kv, inRange a b p.1 = true ∧ ∃ l, p.2.lock = some l ∧ l.startTS ≤ sp) :
    ∃ k, gc s a b sp = (s, some k) := gc_refuses s a b sp h

theorem gc_preserves_reads_ge_safepoint (s s' : Store) (a b : Bytes) (sp ts : Nat) (k : Bytes)
    (hgc : gc s a b sp = (s', none)) (hs : KvSorted s.kv) (hd : ∀ p ∈ s.kv, Desc p.2.writes) (hts : sp ≤ ts) :
    firstVisible (getEntry s'.kv k).writes ts = firstVisible (getEntry s.kv k).writes ts ∧
      (getEntry s'.kv k).lock = (getEntry s.kv k).lock := gc_reads s s' a b sp ts k hgc hs hd hts

/-! ## never both committed and rolled back

Full statement: in EVERY state reachable from the empty store by any sequence of state-changing commands of the
driver's alphabet (`Cmd` = prewrite, plock, prollback, commit, rollback, cleanup, status, heartbeat, resolve,
bresolve, gc, deleteRange) whose callers respect the property's preconditions (`Cmd.Ok`: commit ts above start ts,
duplicate-free key batches, no pessimistic-lock request for a transaction that already has a record on the key),
no key holds both a rollback record and a data record of one transaction; the records of every key are in
descending commit-ts order with commit ts ≥ start ts, and a lock's transaction has no record on that key. -/
def StoreNoMix (s : Store) : Prop := ∀ p ∈ s.kv, NoMix p.2.writes

theorem not_both_committed_and_rolled_back (s : Store) (h : Reachable s) : StoreNoMix s :=
  fun p hp => (h.entries p hp).nomix

theorem reachable_store_wellformed (s : Store) (h : Reachable s) :
    KvSorted s.kv ∧ ∀ p ∈ s.kv, Desc p.2.writes ∧ WellTimed p.2.writes ∧
      ∀ l, p.2.lock = some l → Fresh p.2.writes l.startTS :=
  ⟨h.inv.1, fun p hp => ⟨(h.entries p hp).desc, (h.entries p hp).timed, (h.entries p hp).lockFresh⟩⟩

/-- refinement: every command moves every key by exactly one of the nine labelled steps of `KStep`
    (same, commit, rollback, marker, locks, touch, unlock, gc, wipe), with a label the command allows for that key -/
theorem every_command_refines_key_steps (s : Store) (c : Cmd) (hs : SInv s) (hok : c.Ok s) :
    KvSorted (c.run s).kv ∧ ∀ k, ∃ lab, c.labels k lab ∧ KStep (getEntry s.kv k) lab (getEntry (c.run s).kv k) :=
  run_refines s c hs hok

/-- the tie between the theorems and what is run: `MvccProto.exec`, the step function of the compiled driver that the
    differential compares with mocktikv line by line, leaves the store unchanged (reads, dumps) or applies exactly one
    `Cmd` — so every theorem about `Cmd.run` / `runAll` / `Reachable` is a theorem about the driver's states -/
theorem driver_step_is_a_command (s : Store) (w : List String) (s' : Store) (out : String)
    (h : MvccProto.exec s w = some (s', out)) : s' = s ∨ ∃ c : Cmd, s' = c.run s :=
  exec_state s w s' out h

/-- in every reachable state a transaction has at most one record on a key -/
theorem reachable_one_record_per_txn (s : Store) (h : Reachable s) (k : Bytes) : Uniq (getEntry s.kv k).writes := h.uniq k

/-- the same over command lists, from any state that already satisfies the invariant -/
theorem not_both_committed_and_rolled_back_runs (cs : List Cmd) (hok : OkAll {} cs) :
    ∀ k, NoMix (getEntry (runAll {} cs).kv k).writes :=
  fun k => ((runAll_inv {} cs SInv.empty hok).2 k).nomix

/-- non-vacuity: a prewrite, commit, late rollback, and a second transaction's prewrite + rollback respect the contract -/
example : OkAll {} [
    Cmd.prewrite { mutations := [⟨.put, [0x61], [1], .none⟩], primary := [0x61], startTS := 10, ttl := 3000 },
    Cmd.commit [[0x61]] 10 20,
    Cmd.rollback [[0x61]] 10,
    Cmd.prewrite { mutations := [⟨.put, [0x61], [2], .none⟩], primary := [0x61], startTS := 30, ttl := 3000 },
    Cmd.rollback [[0x61]] 30] := by
  simp [OkAll, Cmd.Ok]

/-- the kernel the reachable-state theorem rests on: the only acts that write a record — committing a lock, rolling back a lock, writing a bare
    marker — keep "no transaction has both a rollback and a data record on the key", provided the transaction has
    no record there yet; and a prewrite that takes a lock guarantees exactly that freshness. -/
theorem not_both_committed_and_rolled_back_kernel (e : Entry) (l : Lock) (k : Bytes) (T C : Nat)
    (hn : NoMix e.writes) (hf : Fresh e.writes T) :
    NoMix ((commitLock l k T C).foldl entryAct e).writes ∧
      NoMix ((rollbackLock k T).foldl entryAct e).writes ∧
      NoMix (([rollbackMarker k T]).foldl entryAct e).writes :=
  ⟨commitLock_NoMix e l k T C hn hf, (rollback_NoMix e k T hn hf).1, (rollback_NoMix e k T hn hf).2⟩

theorem prewrite_lock_only_when_fresh (s : Store) (r : PrewriteReq) (m : Mutation) (act : PAction) (acts : List Act)
    (hd : Desc (getEntry s.kv m.key).writes) (hwt : WellTimed (getEntry s.kv m.key).writes)
    (hnolock : (getEntry s.kv m.key).lock = none) (hok : prewriteMutation s r m act = .ok acts) :
    Fresh (getEntry s.kv m.key).writes r.startTS := prewrite_lock_implies_fresh s r m act acts hd hwt hnolock hok

/-! ## the three definitional points (the reference is TiKV's) — visible as lemmas -/

/-- a pessimistic lock request over the transaction's own prewrite lock is refused -/
theorem pessimistic_over_own_prewrite_refused (s : Store) (wf : WaitFor) (r : PLReq) (m : Mutation) (l : Lock)
    (hret : ¬ (r.lockOnlyIfExists = true ∧ r.returnValues = false))
    (hl : (getEntry s.kv m.key).lock = some l) (hs : l.startTS = r.startTS) (hp : l.op ≠ .pessimisticLock) :
    plMutation s wf r m = (some (.abort "own-prewrite-lock"), none, [], wf) := by
  have h1 : (r.lockOnlyIfExists && !r.returnValues) = false := by
    cases h2 : r.lockOnlyIfExists <;> cases h3 : r.returnValues <;> simp_all
  simp [plMutation, plForeign, plOwnPrewrite, h1, hl, hs, hp]

/-- committing a leftover pessimistic lock changes no data: the lock goes, no record is written -/
theorem commit_pessimistic_lock_no_data (l : Lock) (k : Bytes) (T C : Nat) (h : l.op = .pessimisticLock) :
    commitLock l k T C = [Act.delLock k] := by simp [commitLock, h]

/-- a prewrite over the transaction's own pessimistic lock is not re-checked for write conflicts at its start ts: the
    only conflict-value call made is the one at for-update ts +∞ (which keeps the rollback-marker and assertion checks),
    whatever newer commits of other transactions the key carries -/
theorem prewrite_over_own_pessimistic_lock_checks_at_infinity (s : Store) (r : PrewriteReq) (m : Mutation) (act : PAction)
    (l : Lock) (hl : (getEntry s.kv m.key).lock = some l) (hs : l.startTS = r.startTS) (hp : l.op = .pessimisticLock) :
    prewriteMutation s r m act =
      match checkConflictValue ⟨m, maxU64, r.startTS, false, r.assertOn, false, false⟩ (getEntry s.kv m.key).writes with
      | .error err => .error err
      | .ok _ => .ok [Act.putLock m.key ⟨r.startTS, r.primary, m.value, if m.op == .insert then Op.put else m.op,
          if r.ttl < l.ttl then l.ttl else r.ttl, 0, r.txnSize,
          if r.primary == m.key then (if r.minCommitTS < l.minCommitTS then l.minCommitTS else r.minCommitTS) else 0⟩] := by
  simp only [prewriteMutation, hl, hs, hp, bne_self_eq_false, Bool.false_eq_true, if_false]
  cases checkConflictValue _ (getEntry s.kv m.key).writes <;> rfl

/-- … and the lock it writes keeps what the pessimistic lock had accumulated: the larger ttl (heart-beats) and, on the
    primary, the larger min-commit-ts (pushes by readers' status checks) -/
theorem prewrite_over_own_pessimistic_lock_keeps_ttl_and_min_commit (s : Store) (r : PrewriteReq) (m : Mutation) (act : PAction)
    (l : Lock) (hl : (getEntry s.kv m.key).lock = some l) (hs : l.startTS = r.startTS) (hp : l.op = .pessimisticLock)
    (acts : List Act) (h : prewriteMutation s r m act = .ok acts) :
    ∃ nl, acts = [Act.putLock m.key nl] ∧ l.ttl ≤ nl.ttl ∧ r.ttl ≤ nl.ttl ∧
      (r.primary = m.key → l.minCommitTS ≤ nl.minCommitTS ∧ r.minCommitTS ≤ nl.minCommitTS) := by
  rw [prewrite_over_own_pessimistic_lock_checks_at_infinity s r m act l hl hs hp] at h
  split at h
  · cases h
  · injection h with h
    refine ⟨_, h.symm, ?_, ?_, ?_⟩
    · show l.ttl ≤ if r.ttl < l.ttl then l.ttl else r.ttl
      split <;> omega
    · show r.ttl ≤ if r.ttl < l.ttl then l.ttl else r.ttl
      split <;> omega
    · intro hpk
      have : (r.primary == m.key) = true := by simp [hpk]
      show l.minCommitTS ≤ (if r.primary == m.key then (if r.minCommitTS < l.minCommitTS then l.minCommitTS else r.minCommitTS) else 0) ∧
        r.minCommitTS ≤ (if r.primary == m.key then (if r.minCommitTS < l.minCommitTS then l.minCommitTS else r.minCommitTS) else 0)
      rw [if_pos this]
      constructor <;> split <;> omega

/-! ## non-vacuity: the hypotheses are satisfiable by a non-trivial store -/
example : Desc [⟨.put, 10, 20, [1]⟩, ⟨.rollback, 5, 5, []⟩] ∧
    WellTimed [⟨.put, 10, 20, [1]⟩, ⟨.rollback, 5, 5, []⟩] ∧ NoMix [⟨.put, 10, 20, [1]⟩, ⟨.rollback, 5, 5, []⟩] ∧
    Fresh [⟨.put, 10, 20, [1]⟩, ⟨.rollback, 5, 5, []⟩] 7 := by
  refine ⟨⟨by decide, trivial⟩, ?_, ?_, ?_⟩
  · intro w hw; simp at hw; rcases hw with rfl | rfl <;> simp
  · intro w1 h1 w2 h2; simp at h1 h2; rcases h1 with rfl | rfl <;> rcases h2 with rfl | rfl <;> simp
  · intro w hw; simp at hw; rcases hw with rfl | rfl <;> simp

end CGV.Props.C12
