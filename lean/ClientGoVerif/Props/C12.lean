import ClientGoVerif.Model.Mvcc
namespace CGV.Props.C12
theorem placeholder : True := trivial
end CGV.Props.C12
