/-
  C01 — snapshot isolation and external consistency.  What is proved (about the MVCC model the store replay ties to
  mocktikv, and about the judge's oracles), and what is validated by the trace judge on explored schedules:

  proved   a read at ts sees the newest commit ≤ ts (`read_sees_newest`), a pending write that could commit ≤ ts blocks
           the read (`pending_write_blocks_read`), whatever is written later above ts or as a marker cannot change the
           value served at ts (`read_stable`), a commit writes exactly the prewritten value at the given commit ts,
           an optimistic prewrite is refused when a newer commit exists (`prewrite_conflict_detected`);
           the SI oracle compares every recorded read with `readOK` below (the newest commit at or below the reader's
           start ts in the final store) — a definition, checked per run, not a theorem.
           `snapshot_stable_over_all_runs`: for EVERY sequence of store commands (any interleaving of any number of
           clients' prewrites, commits, rollbacks, status checks, resolves, GC …) in which later commits land above
           `ts` (what rule 7 / max_ts give), GC safe points stay ≤ `ts` and the range is not destroyed, the value a
           reader at `ts` is served for a key never changes — repeatable snapshot reads at the store, unbounded.
           `served_read_is_snapshot` — the store half of SI with the lock protocol inside: if the store SERVED a read of
           a key at `ts` (so every data lock at or below `ts` on it was one the request bypassed, `rs`), then after every later command sequence in which
           the bypassed transactions and the transactions that lock the key after the read commit above `ts` (the oracle
           issues their commit ts after the reader's ts; a bypassed one was reported committed above `ts` or had its
           min_commit_ts pushed above `ts`, below which the store refuses to commit: `commit_below_min_commit_ts_refused`) the version visible at `ts` is the served one.  The lock present at read time needs no
           assumption: its commit can only land above `ts`, or writes no data.
  partial  `rules_imply_SI` (every execution obeying the C04 rules yields an SI history) is NOT assembled as one
           theorem; the judge checks SI on every explored execution instead (siReads / wwCheck / insertCheck / begin-after-ack).
-/
import ClientGoVerif.Proofs.MvccStable
import ClientGoVerif.Proofs.Perc
import ClientGoVerif.Proofs.MvccFull
import ClientGoVerif.Proofs.MvccTemporal
import ClientGoVerif.Proofs.MvccSI
namespace CGV.Props.C01
open CGV CGV.Mvcc CGV.Perc

theorem read_sees_newest (e : Entry) (k : Bytes) (ts : Nat) (rs : List Nat) (hd : Desc e.writes) :
    getValue e k ts false rs = .ok ((newestData e.writes ts).bind fun w => if w.vt == .delete then none else some w) ∧
      NewestLE e.writes ts (newestData e.writes ts) := by
  refine ⟨?_, newestData_spec e.writes ts hd⟩
  simp [getValue, firstVisible_eq]

theorem pending_write_blocks_read (e : Entry) (k : Bytes) (ts : Nat) (rs : List Nat) (l : Lock)
    (hl : e.lock = some l) (hle : l.startTS ≤ ts) (hop : l.op ≠ .lock ∧ l.op ≠ .pessimisticLock)
    (hmax : ¬ (ts = maxU64 ∧ l.primary = k)) (hres : ¬ l.startTS ∈ rs) :
    getValue e k ts true rs = .error (lockErr l k) := Mvcc.pending_write_blocks_read e k ts rs l hl hle hop hmax hres

/-- nothing commits "under" a served read: later writes above ts (rule 7) and lock changes leave it unchanged -/
theorem read_stable (e : Entry) (acts : List Act) (ts : Nat)
    (h : ∀ a ∈ acts, match a with
      | .putWrite _ w => ts < w.commitTS
      | .delWrite _ _ => False
      | _ => True) :
    firstVisible (acts.foldl entryAct e).writes ts = firstVisible e.writes ts := Mvcc.read_stable e acts ts h

theorem marker_changes_no_read (ws : List Write) (w : Write) (ts : Nat)
    (hv : w.vt = .rollback ∨ w.vt = .lock) (hfresh : ∀ x ∈ ws, x.commitTS ≠ w.commitTS) :
    firstVisible (putWrite ws w) ts = firstVisible ws ts := firstVisible_putWrite_nondata ws w ts hv hfresh

theorem commit_writes_prewritten_value (l : Lock) (k : Bytes) (T C : Nat) (h : l.op ≠ .pessimisticLock) :
    ∃ vt, commitLock l k T C = [Act.putWrite k ⟨vt, T, C, l.value⟩, Act.delLock k] ∧ (vt = .put ↔ l.op = .put) :=
  Mvcc.commit_writes_prewritten_value l k T C h

/-- write-write exclusion at the store: an optimistic prewrite (conflict check at its start ts) fails when any
    record newer than its start ts is on the key -/
theorem prewrite_conflict_detected (a : CCArgs) (w : Write) (rest : List Write)
    (hnew : a.forUpdateTS < w.commitTS) (hallow : a.allowLockWithConflict = false) :
    checkConflictValue a (w :: rest) = .error (.conflict a.forUpdateTS w.startTS w.commitTS a.m.key false) := by
  unfold checkConflictValue
  have : w.commitTS > a.forUpdateTS := hnew
  simp [this, hallow]

/-- the SI read oracle of the judge is sound: when it reports nothing, every recorded read equals the newest commit
    at or below the reader's start ts in the final store -/
def readOK (s : Store) (startTS : Nat) (key : Bytes) (value : Option Bytes) : Prop :=
  (match visible s key startTS with | some v => if v.isEmpty then none else some v | none => none) = value

/-- async commit / one-phase commit (profile `full`, the store the async/1PC runs execute against): the commit
    timestamp bound chosen by the store lies above its max_ts — every read timestamp it has served — and above the start
    and for-update timestamps; together with `read_stable` no async or 1PC commit lands under a served read.
    (`hfresh`: the request is not a retry that finds the transaction already committed — that path writes nothing and
    only reports the old commit ts, `MvccFull.fprewrite_retry_idempotent`.) -/
theorem async_commit_ts_above_served_reads (f f' : MvccFull.FStore) (r : PrewriteReq) (x : MvccFull.FPrewriteExtra)
    (resp : MvccFull.FPrewriteResp) (hfresh : MvccFull.ownCommitTS f r = none)
    (h : MvccFull.fprewrite f r x = (f', resp)) :
    (resp.minCommitTS ≠ 0 → f.maxTS < resp.minCommitTS ∧ r.startTS < resp.minCommitTS ∧ r.forUpdateTS < resp.minCommitTS ∧ r.minCommitTS ≤ resp.minCommitTS) ∧
    (resp.onePCCommitTS ≠ 0 → f.maxTS < resp.onePCCommitTS ∧ r.startTS < resp.onePCCommitTS ∧ r.forUpdateTS < resp.onePCCommitTS) :=
  MvccFull.fprewrite_ts_above_reads f f' r x resp hfresh h

theorem served_read_raises_max_ts (f : MvccFull.FStore) (ts : Nat) (h : ts ≠ maxU64) : ts ≤ (f.bump ts).maxTS :=
  MvccFull.bump_covers f ts h

/-- repeatable snapshot reads, for every command sequence: from any state satisfying the store invariant (every
    reachable state does), after ANY list of commands that respect the callers' contract (`OkAll`) and, on key `k`,
    only commit above `ts`, collect garbage at safe points ≤ `ts`, do not destroy `k`'s range and write rollback
    markers at versions no other record occupies (`keepsReads`; timestamps are pairwise distinct), the version visible
    at `ts` on `k` is the one that was visible before -/
theorem snapshot_stable_over_all_runs (ts : Nat) (k : Bytes) (s : Store) (cs : List Cmd) (hs : SInv s)
    (hok : OkAll s cs) (hg : GuardAll (fun e lab => lab.keepsReads ts e) k s cs) :
    firstVisible (getEntry (runAll s cs).kv k).writes ts = firstVisible (getEntry s.kv k).writes ts :=
  runAll_read_stable ts k s cs hs hok hg

/-- snapshot isolation of a served read, for every run (see the header) -/
theorem served_read_is_snapshot (ts : Nat) (k : Bytes) (s : Store) (cs : List Cmd) (rs : List Nat) (v : Option Write)
    (hs : SInv s) (hok : OkAll s cs) (hts : ts ≠ maxU64)
    (hserved : getValue (getEntry s.kv k) k ts true rs = .ok v) (hg : SIGuardAll ts k rs s cs) :
    firstVisible (getEntry (runAll s cs).kv k).writes ts = v :=
  Mvcc.served_read_is_snapshot ts k s cs rs v hs hok hts hserved hg

/-- non-vacuity of `served_read_is_snapshot`: the reader at 25 is served while an OLDER transaction (start ts 15 < 25)
    has not locked the key yet; it prewrites afterwards and commits at 40 > 25 — the guard holds -/
example : SIGuardAll 25 [0x61] [] { kv := [([0x61], { writes := [⟨.put, 10, 20, [1]⟩] })] }
    [Cmd.prewrite { mutations := [⟨.put, [0x61], [2], .none⟩], primary := [0x61], startTS := 15, ttl := 3000 },
     Cmd.commit [[0x61]] 15 40] := by
  refine ⟨?_, ?_, trivial⟩
  · rintro lab (rfl | rfl) <;> simp [SIGuard]
  · rintro lab (rfl | ⟨_, rfl⟩)
    · simp [SIGuard]
    · refine ⟨fun _ => by decide, ?_⟩
      decide

/-- non-vacuity: a later transaction prewriting and committing above the reader's ts, and a third being rolled back,
    satisfy the guard on the key -/
example : GuardAll (fun e lab => lab.keepsReads 25 e) [0x61]
    { kv := [([0x61], { writes := [⟨.put, 10, 20, [1]⟩] })] }
    [Cmd.prewrite { mutations := [⟨.put, [0x61], [2], .none⟩], primary := [0x61], startTS := 30, ttl := 3000 },
     Cmd.commit [[0x61]] 30 40,
     Cmd.rollback [[0x61]] 50] := by
  simp only [GuardAll, Cmd.labels]
  refine ⟨?_, ?_, ?_, trivial⟩
  · rintro lab (rfl | rfl) <;> simp [KLabel.keepsReads]
  · rintro lab (rfl | ⟨_, rfl⟩) <;> simp [KLabel.keepsReads]
  · rintro lab (rfl | ⟨_, rfl | rfl⟩)
    · simp [KLabel.keepsReads]
    · simp only [KLabel.keepsReads]; decide
    · simp only [KLabel.keepsReads]; decide

example : firstVisible [⟨.put, 10, 20, [1]⟩, ⟨.rollback, 5, 5, []⟩] 25 = some ⟨.put, 10, 20, [1]⟩ := by decide

end CGV.Props.C01
