/-
  C13 — timestamp oracle: property theorems over the model in Model/Oracle.lean.
  "All interleavings / arrival orders" = all action lists `acts` (a disabled action is a stutter step).
  Reachable states are `run (init pd0) acts`; `pd0` is the largest timestamp PD had issued before the
  oracle was created.  Helper lemmas (the inductive invariant) are in Proofs/Oracle.lean.

  Assumption built into the model (not proved here): `singleflight.Group` obeys its contract — join-or-start
  is atomic, and the key is deleted in the same atomic step in which the result is handed to the callers
  that joined (`runThread`, cases `vJoin` and `gDone`).
-/
import ClientGoVerif.Proofs.Oracle
namespace CGV.Props.C13
open CGV CGV.Oracle

/-- the ghost clock is the number of actions executed: `startClk`/`doneClk` are positions in the schedule -/
theorem clock_eq_length (pd0 : Nat) (acts : List Act) : (run (init pd0) acts).clock = acts.length := by
  suffices h : ∀ s : St, (run s acts).clock = s.clock + acts.length by simpa [init] using h (init pd0)
  induction acts with
  | nil => intro s; rfl
  | cons a as ih => intro s; simp only [run, List.foldl_cons, List.length_cons] at ih ⊢; rw [ih]; simp [step]; omega

/-- The low-resolution timestamp never decreases, along every schedule (every interleaving of the
    load / compare / CAS steps of concurrent `setLastTS` calls and every arrival order).  Schedules contain
    foreground calls, validation flights AND ticks of the background updater (`Act.startUpd`), whose
    response may arrive arbitrarily late. -/
theorem lowres_monotone (pd0 : Nat) (acts more : List Act) :
    optLe (run (init pd0) acts).lowTs (run (init pd0) (acts ++ more)).lowTs := by
  rw [run_append]
  exact optLe_of_lowMono (lowMono_run (inv_run pd0 acts) more)

/-- The low-resolution timestamp never exceeds the largest timestamp PD has issued (same schedules,
    updater ticks included). -/
theorem lowres_le_issued (pd0 : Nat) (acts : List Act) (ts : Nat)
    (h : (run (init pd0) acts).lowTs = some ts) : ts ≤ (run (init pd0) acts).pdLast := by
  have inv := inv_run pd0 acts
  generalize run (init pd0) acts = s at *
  cases hl : s.low with
  | none => simp [St.lowTs, hl] at h
  | some p =>
    obtain ⟨tso, ver⟩ := p
    simp [St.lowTs, hl] at h
    subst h
    exact inv.lowLe tso ver hl

/-- PD issues strictly increasing timestamps: the timestamp assigned by an issue step is larger than every
    timestamp any call already holds and than PD's previous maximum. -/
theorem issued_strict (pd0 : Nat) (acts : List Act) (i inc j : Nat)
    (hi : ((run (init pd0) acts).thr i).pc = .gWait)
    (hj : hasTs ((run (init pd0) acts).thr j).pc = true) :
    ((run (init pd0) acts).thr j).ts < ((step (run (init pd0) acts) (.pdIssue i inc)).thr i).ts
    ∧ (run (init pd0) acts).pdLast < ((step (run (init pd0) acts) (.pdIssue i inc)).thr i).ts := by
  have inv := inv_run pd0 acts
  generalize run (init pd0) acts = s at *
  have := ((inv.thr j).t1 hj).2
  simp [step, step', hi, St.set]
  omega

/-- Timestamps returned by `GetTimestamp` are strictly increasing in real-time order: if call `a` returned
    (at schedule position `doneClk`) before call `b` started (`startClk`), then `ts a < ts b`, whatever the
    order in which PD's responses arrived and whatever the interleaving of the `setLastTS` steps. -/
theorem returned_in_real_time_order (pd0 : Nat) (acts : List Act) (a b : Nat)
    (ha : isDone ((run (init pd0) acts).thr a).pc = true)
    (hb : hasTs ((run (init pd0) acts).thr b).pc = true)
    (hab : ((run (init pd0) acts).thr a).doneClk < ((run (init pd0) acts).thr b).startClk) :
    ((run (init pd0) acts).thr a).ts < ((run (init pd0) acts).thr b).ts := by
  have inv := inv_run pd0 acts
  generalize run (init pd0) acts = s at *
  have hb' : (s.thr b).pc ≠ .idle := by intro e; simp [e, hasTs] at hb
  have h1 := inv.rt a b ha hb' hab
  have h2 := ((inv.thr b).t1 hb).1
  omega

/-- When `GetTimestamp` has returned `ts`, the low-resolution timestamp is at least `ts`. -/
theorem returned_le_lowres (pd0 : Nat) (acts : List Act) (a : Nat)
    (ha : isDone ((run (init pd0) acts).thr a).pc = true) :
    ∃ low, (run (init pd0) acts).lowTs = some low ∧ ((run (init pd0) acts).thr a).ts ≤ low := by
  have inv := inv_run pd0 acts
  generalize run (init pd0) acts = s at *
  obtain ⟨tso, ver, e, l⟩ := (inv.thr a).t3d ha
  exact ⟨tso, by simp [St.lowTs, e], l⟩

/-- `ExtractPhysical`/`ExtractLogical` invert `ComposeTS` for every physical part below 2^46 ms and every 18-bit logical part. -/
theorem compose_extract_roundtrip (p l : Int) (hp0 : 0 ≤ p) (hp : p < 2 ^ 46) (hl0 : 0 ≤ l) (hl : l < 2 ^ 18) :
    extractPhysical (composeTS p l) = p ∧ extractLogical (composeTS p l) = l := by
  simp only [extractPhysical, extractLogical, composeTS, toU64, shiftMul, two64, Gen.physicalShiftBits]
  have e : ((p * ((2 ^ 18 : Nat) : Int) + l) % ((2 ^ 64 : Nat) : Int)).toNat = p.toNat * 2 ^ 18 + l.toNat := by omega
  rw [e]
  constructor
  · have : (p.toNat * 2 ^ 18 + l.toNat) / 2 ^ 18 = p.toNat := by omega
    rw [this]; omega
  · have : (p.toNat * 2 ^ 18 + l.toNat) % 2 ^ 18 = l.toNat := by omega
    rw [this]; omega

/-- A lock is reported expired exactly when its remaining time is not positive — including the
    "scope unknown" branch (`last = none`) — for every lock timestamp and every TTL whose int64 arithmetic
    does not overflow (`ttl < 2^63 - 2^46`; ExtractPhysical is < 2^46). -/
theorem expired_iff_until_nonpos (last : Option Nat) (lockTS ttl : Nat)
    (hlock : lockTS < 2 ^ 64) (hlast : ∀ l, last = some l → l < 2 ^ 64)
    (httl : ttl < 2 ^ 63 - 2 ^ 46) :
    isExpired last lockTS ttl = true ↔ untilExpired last lockTS ttl ≤ 0 := by
  cases last with
  | none => simp [isExpired, untilExpired]
  | some l =>
    have hl := hlast l rfl
    obtain ⟨a1, a2⟩ := extractPhysical_bound hlock
    obtain ⟨b1, b2⟩ := extractPhysical_bound hl
    have httl' : ttl < 2 ^ 63 := by omega
    simp only [isExpired, untilExpired, decide_eq_true_eq, toI64_small httl']
    rw [wrapI64_id (by omega) (by omega), wrapI64_id (by omega) (by omega)]
    omega

/-- The full statement (no bound on the TTL) is FALSE for the code as it is (and for the model, which the
    differential ties to it): with TTL = 2^63 the int64 conversion wraps. -/
def expired_iff_until_nonpos_all_ttl : Prop :=
  ∀ (last : Option Nat) (lockTS ttl : Nat), lockTS < 2 ^ 64 → (∀ l, last = some l → l < 2 ^ 64) → ttl < 2 ^ 64 →
    (isExpired last lockTS ttl = true ↔ untilExpired last lockTS ttl ≤ 0)

theorem expired_overflow_corner : ¬ expired_iff_until_nonpos_all_ttl := by
  intro h
  have := h (some (2 ^ 18)) 0 (2 ^ 63) (by decide) (by intro l hl; cases hl; decide) (by decide)
  revert this
  decide


/-- A commit timestamp obtained under a commit-wait constraint is strictly greater than the constraint
    (or the call fails), for every sequence of timestamps PD returns and every timeout. -/
theorem commit_wait_strict (waitUntil maxSleepNs : Nat) (script : List Nat) (ts : Nat)
    (h : getTimestampForCommit waitUntil maxSleepNs script = .ok ts) : ts > waitUntil := by
  unfold getTimestampForCommit at h
  split at h
  · simp at h
  · split at h
    · cases h; assumption
    · split at h
      · simp at h
      · split at h
        · simp at h
        · exact commitLoop_strict _ _ _ _ _ _ _ h

/-- Every commit path obeys the commit-wait constraint, for every PD script: whichever mode commits (ordinary 2PC,
    async commit, 1PC — with or without causal consistency —, pipelined), whatever the store does (accepts, rejects
    the first commit with CommitTsExpired, makes async commit / 1PC fall back to 2PC) and whatever PD returns, a commit
    that succeeds does so at a timestamp strictly above the constraint, and the `min_commit_ts` sent with the prewrites
    of an async-commit / 1PC transaction is strictly above it too; otherwise Commit fails. -/
theorem commit_path_obeys_wait (mode : CMode) (causal : Bool) (beh : StoreBeh) (startTS c maxSleepNs : Nat)
    (script : List Nat) :
    CommitWaitSpec mode c (commitTxn mode causal beh startTS c maxSleepNs script) :=
  commitTxn_spec mode causal beh startTS c maxSleepNs script

/-- the same, spelled out for a successful commit -/
theorem commit_path_ts_above_constraint (mode : CMode) (causal : Bool) (beh : StoreBeh) (startTS c maxSleepNs : Nat)
    (script : List Nat) (commitTS minSent : Nat)
    (h : commitTxn mode causal beh startTS c maxSleepNs script = .ok commitTS minSent) : commitTS > c := by
  have := commitTxn_spec mode causal beh startTS c maxSleepNs script
  rw [h] at this
  exact this.1

/-- Validation accepts every timestamp PD had issued before the call: if `rd ≤` PD's maximum when
    `ValidateReadTS(rd)` is called, the call is never answered with ErrFutureTSRead, whatever the other
    callers do, whichever flight it joins and in whatever order PD's responses arrive.
    (Safety form: the call cannot reach `vReject`; that it terminates needs fairness and is not stated.) -/
theorem validate_accepts_past (pd0 : Nat) (before after : List Act) (v rd : Nat)
    (hidle : ((run (init pd0) before).thr v).pc = .idle)
    (hpast : rd ≤ (run (init pd0) before).pdLast) :
    ((run (init pd0) (before ++ .startVal v rd :: after)).thr v).pc ≠ .vReject := by
  rw [run_append]
  have inv := inv_run_from (inv_run pd0 before) (.startVal v rd :: after)
  generalize run (init pd0) before = s at *
  intro hrej
  have h8 := (inv.thr v).t8 hrej
  have hst : ((step s (.startVal v rd)).thr v).pc ≠ .idle ∧ ((step s (.startVal v rd)).thr v).startPd = s.pdLast
      ∧ ((step s (.startVal v rd)).thr v).rd = rd := by
    simp [step, step', hidle, St.set]
  obtain ⟨_, e2, _, e4⟩ := started_stable_run (step s (.startVal v rd)) after v hst.1
  simp only [run, List.foldl_cons] at h8 e2 e4
  omega

/-- … regardless of what happens to the OTHER callers, including cancellation of their contexts: a
    `ValidateReadTS(rd)` whose own context is never cancelled (`hlive`) and whose `rd` PD had issued before the
    call can neither be answered with ErrFutureTSRead nor fail with a context error — whichever flight it
    joined, even one started by a caller that is cancelled while the PD request is pending (the flight runs
    under `context.Background()` and keeps serving those who joined).  `after` is an arbitrary schedule:
    `cancel`/`abort` of any other call at any point. -/
theorem validate_accepts_issued (pd0 : Nat) (before after : List Act) (v rd : Nat)
    (hidle : ((run (init pd0) before).thr v).pc = .idle)
    (hpast : rd ≤ (run (init pd0) before).pdLast)
    (hlive : ∀ a ∈ after, a ≠ Act.cancel v) :
    ((run (init pd0) (before ++ .startVal v rd :: after)).thr v).pc ≠ .vReject ∧
    ((run (init pd0) (before ++ .startVal v rd :: after)).thr v).pc ≠ .vCancelled := by
  refine ⟨validate_accepts_past pd0 before after v rd hidle hpast, ?_⟩
  rw [run_append]
  have inv := inv_run_from (inv_run pd0 before) (.startVal v rd :: after)
  generalize run (init pd0) before = s at *
  intro hc
  have h9 := (inv.thr v).t9 (Or.inl hc)
  have hst : ((step s (.startVal v rd)).thr v).pc ≠ .idle ∧ ((step s (.startVal v rd)).thr v).cancelled = false := by
    simp [step, step', hidle, St.set]
  have := cancelled_stable_run (step s (.startVal v rd)) after v hst.1 hst.2 hlive
  simp only [run, List.foldl_cons] at h9 this
  simp [this] at h9

/-- a call only fails with a context error if its own context was cancelled -/
theorem cancelled_only_if_own_ctx (pd0 : Nat) (acts : List Act) (v : Nat)
    (h : ((run (init pd0) acts).thr v).pc = .vCancelled ∨ ((run (init pd0) acts).thr v).pc = .gCancelled) :
    ((run (init pd0) acts).thr v).cancelled = true :=
  ((inv_run pd0 acts).thr v).t9 h

/-- Validation rejects every timestamp beyond what PD has issued: a call that accepted `rd` implies
    `rd ≤` PD's maximum in that state (hence at every later moment, in particular when the call ends). -/
theorem validate_rejects_future (pd0 : Nat) (acts : List Act) (v : Nat)
    (hacc : ((run (init pd0) acts).thr v).pc = .vAccept) :
    ((run (init pd0) acts).thr v).rd ≤ (run (init pd0) acts).pdLast :=
  ((inv_run pd0 acts).thr v).t4a hacc

/-- The adaptive update interval stays within `[min(500ms, configured), configured]`: one call of
    `nextUpdateInterval` preserves the bounds for every state, staleness, and every non-negative
    recovery increment. -/
theorem interval_bounds (prev : AState) (conf cur sinceShort inc required : Int)
    (hok : intervalOk conf cur) (hinc : 0 ≤ inc) :
    intervalOk conf (nextUpdateInterval prev conf cur sinceShort inc required).2 :=
  nextUpdateInterval_ok prev conf cur sinceShort inc required hok hinc

/-- `SetLowResolutionTimestampUpdateInterval(new)` with `new > 0` also preserves the bounds. -/
theorem interval_bounds_set (conf cur new : Int) (hok : intervalOk conf cur) :
    intervalOk (setConfigured conf cur new).1 (setConfigured conf cur new).2 := by
  unfold intervalOk setConfigured at *
  simp only [minAllowed, Gen.minAllowedAdaptiveUpdateTSInterval] at *
  repeat' split
  all_goals (simp_all; try omega)


/-! ## non-vacuity: concrete schedules satisfying the hypotheses -/

/-- one complete `GetTimestamp` on a fresh oracle (PD had issued 10): call, send, issue 11, arrive,
    map load (absent), LoadOrStore, pointer load, compare -/
def getAll (i : Nat) : List Act :=
  [.startGet i, .run i 0, .pdIssue i 0, .run i 0, .run i 0, .run i 0, .run i 0, .run i 0, .run i 0]

example : (run (init 10) (getAll 0)).lowTs = some 11 ∧ ((run (init 10) (getAll 0)).thr 0).pc = .gDone := by decide

/-- two concurrent calls, responses arrive in the opposite order (12 before 11): the cached ts ends at 12,
    call 0 leaves through the `current.tso <= last.tso` branch -/
def reordered : List Act :=
  [.startGet 0, .startGet 1, .run 0 0, .run 1 0, .pdIssue 0 0, .pdIssue 1 0,
   .run 1 0, .run 1 0, .run 1 0, .run 1 0, .run 1 0,          -- thread 1: arrive … gDone (stores 12)
   .run 0 0, .run 0 0, .run 0 0, .run 0 0]                    -- thread 0: arrive, map load, load, compare
example : (run (init 10) reordered).lowTs = some 12 ∧ ((run (init 10) reordered).thr 0).pc = .gDone
    ∧ ((run (init 10) reordered).thr 0).ts = 11 := by decide
-- lowres_monotone / lowres_le_issued / returned_le_lowres are exercised with a present cached value:
example : optLe (run (init 10) (getAll 0)).lowTs (run (init 10) (getAll 0 ++ getAll 1)).lowTs := by decide
example : (run (init 10) (getAll 0 ++ getAll 1)).lowTs = some 12 := by decide
/-- the background updater's tick (thread 7) is assigned 12, then a foreground call is assigned 13 and publishes it;
    the updater's response arrives late: the cached ts stays 13 -/
def lateUpdater : List Act :=
  getAll 0 ++
  [.startUpd 7, .run 7 0, .run 7 0, .pdIssue 7 0,                 -- Range finds the entry, request sent, PD assigns 12
   .startGet 1, .run 1 0, .pdIssue 1 0,                            -- foreground call is assigned 13
   .run 1 0, .run 1 0, .run 1 0, .run 1 0, .run 1 0,               -- … arrives and publishes 13
   .run 7 0, .run 7 0, .run 7 0, .run 7 0]                         -- the late response: arrive, map load, load, compare
example : (run (init 10) lateUpdater).lowTs = some 13 ∧ ((run (init 10) lateUpdater).thr 7).pc = .gDone
    ∧ ((run (init 10) lateUpdater).thr 7).ts = 12 ∧ ((run (init 10) lateUpdater).thr 1).pc = .gDone := by decide
-- a tick on an oracle without any cached scope does nothing
example : ((run (init 10) [.startUpd 7, .run 7 0]).thr 7).pc = .uFin := by decide

-- issued_strict: thread 1 waits at PD while thread 0 holds 11
example : ((run (init 10) (getAll 0 ++ [.startGet 1, .run 1 0])).thr 1).pc = .gWait
    ∧ hasTs ((run (init 10) (getAll 0 ++ [.startGet 1, .run 1 0])).thr 0).pc = true := by decide
-- returned_in_real_time_order: call 0 returned at position 7, call 1 started at position 9
example : isDone ((run (init 10) (getAll 0 ++ getAll 1)).thr 0).pc = true
    ∧ hasTs ((run (init 10) (getAll 0 ++ getAll 1)).thr 1).pc = true
    ∧ ((run (init 10) (getAll 0 ++ getAll 1)).thr 0).doneClk < ((run (init 10) (getAll 0 ++ getAll 1)).thr 1).startClk := by
  decide

-- expired_iff_until_nonpos: both verdicts occur inside the hypothesis domain
example : isExpired (some (composeTS 1000 5)) (composeTS 900 0) 100 = true
    ∧ isExpired (some (composeTS 1000 5)) (composeTS 900 0) 101 = false
    ∧ untilExpired (some (composeTS 1000 5)) (composeTS 900 0) 101 = 1 := by decide

-- compose_extract_roundtrip
example : extractPhysical (composeTS 1000 5) = 1000 ∧ extractLogical (composeTS 1000 5) = 5 := by decide

-- commit_wait_strict: the first two attempts lag, the third passes
example : getTimestampForCommit 100 1000000000 [50, 80, 120] = .ok 120 := by decide
example : getTimestampForCommit 100 3000000 [50, 80, 90, 95, 120] = .errTimeout := by decide

/-- the scenario the retry exists for: validator 2 (rd = 20, beyond PD) starts flight 3, which is assigned 12;
    then a plain call is assigned 13; validator 4 validates 13 (already issued), joins the stale flight 3,
    receives 12 < 13, retries, starts flight 5 (assigned 14) and accepts. -/
def staleFlight : List Act :=
  getAll 0 ++
  [.startVal 2 20, .run 2 0, .run 2 3,               -- cached 11 < 20, start flight 3
   .run 3 0, .pdIssue 3 0,                           -- flight 3 is assigned 12
   .startGet 1, .run 1 0, .pdIssue 1 0]              -- call 1 is assigned 13 (not yet arrived)
def staleFlightRest : List Act :=
  [.run 4 0, .run 4 0,                               -- cached 11 < 13, join flight 3
   .run 3 0, .run 3 0, .run 3 0, .run 3 0, .run 3 0, .run 3 0, .run 3 0,   -- flight 3: arrive … CAS, deliver 12
   .run 4 0, .run 4 0, .run 4 5,                     -- 13 > 12: retry; cached 12 < 13; start flight 5
   .run 5 0, .pdIssue 5 0, .run 5 0, .run 5 0, .run 5 0, .run 5 0, .run 5 0, .run 5 0, .run 5 0,
   .run 4 0]                                         -- 13 ≤ 14: accept
example : ((run (init 10) staleFlight).thr 4).pc = .idle ∧ 13 ≤ (run (init 10) staleFlight).pdLast := by decide
example : ((run (init 10) (staleFlight ++ .startVal 4 13 :: staleFlightRest)).thr 4).pc = .vAccept
    ∧ ((run (init 10) (staleFlight ++ .startVal 4 13 :: staleFlightRest)).thr 4).retrying = true
    ∧ ((run (init 10) (staleFlight ++ .startVal 4 13 :: staleFlightRest)).thr 4).cur = 14 := by decide
-- a validator of a timestamp beyond PD (rd = 20): first flight delivers 12, retry, second flight delivers 13, reject
def rejectRun : List Act :=
  getAll 0 ++ [.startVal 2 20, .run 2 0, .run 2 3, .run 3 0, .pdIssue 3 0,
    .run 3 0, .run 3 0, .run 3 0, .run 3 0, .run 3 0, .run 3 0, .run 3 0,
    .run 2 0, .run 2 0, .run 2 5, .run 5 0, .pdIssue 5 0,
    .run 5 0, .run 5 0, .run 5 0, .run 5 0, .run 5 0, .run 5 0, .run 5 0, .run 2 0]
example : ((run (init 10) rejectRun).thr 2).pc = .vReject := by decide


/-- cancellation: validator 2 (rd = 20) starts flight 3 and is cancelled while the PD request is pending; validator 4
    (rd = 12, issued before its call) had joined the same flight: 2 returns the context error, the flight keeps
    running, 4 is accepted -/
def cancelStarter : List Act :=
  getAll 0 ++
  [.startGet 1, .run 1 0, .pdIssue 1 0,                  -- call 1 is assigned 12 (not yet arrived): cached ts stays 11
   .startVal 2 20, .run 2 0, .run 2 3, .run 3 0]         -- validator 2 starts flight 3, request at PD
def cancelStarterRest : List Act :=
  [.run 4 0, .run 4 0,                                   -- cached 11 < 12: join flight 3
   .cancel 2, .abort 2,                                  -- the starter's context is cancelled: it returns the error
   .pdIssue 3 0, .run 3 0, .run 3 0, .run 3 0, .run 3 0, .run 3 0, .run 3 0, .run 3 0,   -- flight 3 lives on: 13, deliver
   .run 4 0]                                             -- 12 ≤ 13: accept
example : ((run (init 10) cancelStarter).thr 4).pc = .idle ∧ 12 ≤ (run (init 10) cancelStarter).pdLast
    ∧ (∀ a ∈ cancelStarterRest, a ≠ Act.cancel 4) := by decide
example : ((run (init 10) (cancelStarter ++ .startVal 4 12 :: cancelStarterRest)).thr 4).pc = .vAccept
    ∧ ((run (init 10) (cancelStarter ++ .startVal 4 12 :: cancelStarterRest)).thr 2).pc = .vCancelled := by decide
-- a GetTimestamp call cancelled while its request is at PD
example : ((run (init 10) [.startGet 0, .run 0 0, .pdIssue 0 0, .cancel 0, .abort 0]).thr 0).pc = .gCancelled := by decide

-- commit paths: pipelined waits for PD to pass the constraint; a CommitTsExpired retry waits again; async commit sends
-- min_commit_ts above the constraint; a fallback fetches a second time; a far-ahead constraint fails
example : commitTxn .pipelined false .normal 5 100 1000000000 [50, 80, 120] = .ok 120 0 := by decide
example : commitTxn .twoPC false .expired 5 100 1000000000 [120, 90, 130] = .ok 130 0 := by decide
example : commitTxn .async false .normal 5 100 1000000000 [50, 120] = .ok 121 121 := by decide
example : commitTxn .onePC true .fallback 5 0 1000000000 [7] = .ok 7 6 := by decide
example : commitTxn .async true .fallback 5 100 1000000000 [120, 90, 101] = .ok 101 121 := by decide
example : commitTxn .pipelined false .normal 5 (composeTS 5000 0) 1000000000 [composeTS 1000 0] = .err .errDrift := by decide

-- interval_bounds: a recovering step inside the bounds
example : intervalOk 2000000000 600000000 := by unfold intervalOk; decide
example : nextUpdateInterval .adapting 2000000000 600000000 400000000000 20000000 0 = (.recovering, 620000000) := by decide
example : nextUpdateInterval .normal 2000000000 2000000000 0 0 900000000 = (.adapting, 800000000) := by decide

end CGV.Props.C13
