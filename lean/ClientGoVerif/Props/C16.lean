/-
  C16 — pipelined transactions (DESIGN §4 C16).  Theorems about Model/Pipelined.lean; helper lemmas in Proofs/Pipelined.lean.

  `run (init cfg) ops` is the PipelinedMemDB after an arbitrary sequence of
  set/delete/get/batch-get/flush(force, observed Mem, late completion)/flushDone(result)/flushWait/stage/release/cleanup,
  for arbitrary thresholds `cfg` (model of the tree WITH the fixes C16-1 and C16-2); `runBoth` runs the specification (`Spec`: the write log, the write log since the last
  triggered flush, the closed batches) alongside.
-/
import ClientGoVerif.Proofs.Pipelined
namespace CGV.Props.C16
open CGV CGV.Pipelined

/-! ## a read returns the latest write, wherever it sits -/

/-- for EVERY op sequence (staging, cleanup, BatchGet anywhere), all thresholds, all flush timings and failures: as long
    as no flush error has been returned, a read of `k` returns the newest entry of `k` in the transaction's write log
    (`none` if never written or rolled back by Cleanup; the empty value if the newest write is a delete, which thereby
    hides every tier).  (Was false before the fix C16-2: the batch-get cache survived Cleanup.) -/
theorem get_latest_any_tier (cfg : Cfg) (ops : List Op) (k : Bytes)
    (hnf : (run (init cfg) ops).failed = false) :
    readValue (runBoth (init cfg, {}) ops).1 k = (runBoth (init cfg, {}) ops).2.cur.get k := by
  have h := inv_run ops (inv_init cfg) hnf
  rw [readValue_eq_view h k]
  exact h.view k

example : (run (init {}) [.set [1] [2], .flush true 0 { res := .ok, applied := 0 }, .stage, .del [1], .batchGet [[1]], .cleanup,
    .flushDone { res := .ok, applied := 0 }]).failed = false := by decide

/-- the former counter-example `stage; set k v; BatchGet(k); cleanup; Get(k)` now reads "not found" -/
example : readValue (run (init {}) [.stage, .set [0x6b] [0x09], .batchGet [[0x6b]], .cleanup]) [0x6b] = none := by decide

/-- a deletion hides every tier: when the newest write of `k` is a delete, a read returns the tombstone (empty value),
    never an older value from the flushing buffer, the cache or the store -/
theorem delete_hides_all_tiers (cfg : Cfg) (ops : List Op) (k : Bytes)
    (hnf : (run (init cfg) ops).failed = false)
    (hdel : (runBoth (init cfg, {}) ops).2.cur.get k = some []) :
    readValue (runBoth (init cfg, {}) ops).1 k = some [] := by
  rw [get_latest_any_tier cfg ops k hnf, hdel]

example : (runBoth (init {}, {}) [.set [1] [2], .flush true 0 { res := .ok, applied := 0 }, .flushDone { res := .ok, applied := 0 }, .del [1]]).2.cur.get [1] = some [] := by
  decide

/-! ## flush discipline -/

/-- every buffered mutation is handed to exactly one flush: the i-th call of the flush function receives, key by key,
    the newest write since the (i-1)-th triggered flush (`handed`: the write logs closed by the triggered flushes, kept by
    the specification alone) — nothing older, nothing twice, nothing dropped — and what has not been handed over yet is
    exactly the mutable buffer -/
theorem flushed_exactly_once (cfg : Cfg) (ops : List Op) :
    allRel bufEq ((runBoth (init cfg, {}) ops).1.hist.map (·.2)) (runBoth (init cfg, {}) ops).2.handed ∧
    bufEq (runBoth (init cfg, {}) ops).1.mbuf (runBoth (init cfg, {}) ops).2.pending :=
  let h := inv2_run ops (inv2_init cfg)
  ⟨h.histEq, h.mbufEq⟩

/-- the generations handed to the flush function are 1, 2, 3, … in call order (newest first: gen, gen-1, …, 1):
    strictly increasing, no gaps, and `generation` is the number of calls -/
theorem generations_strict (cfg : Cfg) (ops : List Op) :
    (run (init cfg) ops).hist.map (·.1) = down (run (init cfg) ops).gen ∧
    ((run (init cfg) ops).hist.map (·.1)).Pairwise (· > ·) := by
  have h := inv2_run (sp := {}) ops (inv2_init cfg)
  rw [runBoth_fst] at h
  exact ⟨h.gens, by rw [h.gens]; exact (down_pairwise _).1⟩

/-- at most one flush function is running at any time (`active`: generations whose flush function was called and has not
    returned), and a running one is the newest generation -/
theorem at_most_one_in_flight (cfg : Cfg) (ops : List Op) :
    (run (init cfg) ops).active.length ≤ 1 ∧ ∀ g ∈ (run (init cfg) ops).active, g = (run (init cfg) ops).gen := by
  have h := inv2_run (sp := {}) ops (inv2_init cfg)
  rw [runBoth_fst] at h
  rw [h.active]
  split <;> simp

/-! ## flush errors -/

/-- a flush error is never lost: while the failure of a flush function has not been returned to the caller, Commit
    (`Flush(true)`; `FlushWait()`) cannot succeed — `Flush(true)` returns that error (or refuses because of an open staging
    handle), and so would `FlushWait` -/
theorem flush_error_fails_txn (cfg : Cfg) (ops : List Op) (mem : Nat) (l1 l2 : Completion)
    (he : (run (init cfg) ops).errCh = some .err) :
    commitOk (run (init cfg) ops) mem l1 l2 = false ∧ (doFlushWait (run (init cfg) ops) l2).2 = .errFlush := by
  have h := inv2_run (sp := {}) ops (inv2_init cfg)
  rw [runBoth_fst] at h
  obtain ⟨h1, h2⟩ := err_reported h he mem l1
  refine ⟨?_, (err_reported h he mem l2).2⟩
  cases hc : commitOk (run (init cfg) ops) mem l1 l2 with
  | false => rfl
  | true =>
    obtain ⟨⟨g, b, r, ho⟩, _⟩ := (commitOk_iff _ mem l1 l2).mp hc
    rcases h1 with h1 | h1 <;> rw [h1] at ho <;> cases ho

example : (run (init {}) [.set [1] [2], .flush true 0 { res := .ok, applied := 0 }, .flushDone { res := .err, applied := 0 }]).errCh = some .err := by decide

/-- whatever KIND of error the flush function failed with (`Completion.kind`: a plain error, or an error chain containing
    ErrKeyExist for a key that is or is not in the flushing buffer), `FlushWait` returns an error — never nil — namely the
    translation `handleAlreadyExistErr` makes of it: the plain error itself, or the ErrKeyExist with the value the
    flushing buffer holds for its key; and the transaction is marked failed -/
theorem flush_error_kind_reported (cfg : Cfg) (ops : List Op) (late : Completion)
    (he : (run (init cfg) ops).errCh = some .err) :
    (doFlushWait (run (init cfg) ops) late).2 = .errFlush ∧
    (doFlushWait (run (init cfg) ops) late).1.failed = true ∧
    (doFlushWait (run (init cfg) ops) late).1.lastErr =
      some (translate (run (init cfg) ops).flushing (run (init cfg) ops).errKind) := by
  have h := inv2_run (sp := {}) ops (inv2_init cfg)
  rw [runBoth_fst] at h
  obtain ⟨hfl, hr⟩ := h.errFl (by rw [he]; rfl)
  rcases doFlushWait_cases (run (init cfg) ops) late with ⟨_, hd⟩ | ⟨hf, _⟩
  · rw [hd, await_of_not_running late hr]
    unfold waitAfter failWith; simp [he]
  · rw [hf] at hfl; cases hfl

/-- a failing flush with an ErrKeyExist chain for a key of the flushed batch: reported with that key's value -/
example : (doFlushWait (run (init {}) [.set [1] [2], .flush true 0 { res := .ok, applied := 0 },
      .flushDone { res := .err, applied := 0, kind := .keyExist [1] }]) { res := .ok, applied := 0 }).1.lastErr
    = some (.keyExist [1] (some [2])) := by decide

/-- FULL sticky statement (callback layer of InitPipelinedMemDB): once a flush function has failed, no later Commit
    succeeds, whatever the caller does in between.  FALSE for the code as it stands: `committer.close()` only moves the
    TTL manager running → closed, so when the failing flush is the one that should have started it (primary batch not
    flushed yet) the callback keeps flushing — see `flush_error_sticky_false`.  (The error is still returned once
    — `flush_error_fails_txn` — and a real store refuses to commit a primary that was never locked.) -/
def flush_error_sticky : Prop :=
  ∀ (cfg : Cfg) (ops1 ops2 : List Op) (mem : Nat) (l1 l2 : Completion), cfg.layer = true →
    (run (init cfg) ops1).errCh = some .err → commitOk (run (run (init cfg) ops1) ops2) mem l1 l2 = false

theorem flush_error_sticky_false : ¬ flush_error_sticky := by
  intro h
  have := h { layer := true } [.set [1] [2], .flush true 0 { res := .ok, applied := 0 }, .flushDone { res := .err, applied := 0 }] [.flushWait { res := .ok, applied := 0 }] 0 { res := .ok, applied := 0 } { res := .ok, applied := 0 }
    rfl (by decide)
  revert this
  decide

/-- PROVED PART: once the TTL manager is closed (a flush failed after the primary had been flushed, see
    `failing_flush_closes_running_ttl`), every later Commit fails, whatever happens in between -/
theorem flush_error_sticky_partial (cfg : Cfg) (ops1 ops2 : List Op) (mem : Nat) (l1 l2 : Completion)
    (hl : cfg.layer = true) (hc : (run (init cfg) ops1).ttl = .closed) :
    commitOk (run (run (init cfg) ops1) ops2) mem l1 l2 = false :=
  commit_fails_closed (by rw [run_cfg, run_cfg]; exact hl) (run_ttl_closed _ ops2 hc) mem l1 l2

example : (run (init { layer := true }) [.set [1] [2], .flush true 0 { res := .ok, applied := 0 }, .flushDone { res := .ok, applied := 0 }, .set [3] [4],
    .flush true 0 { res := .ok, applied := 0 }, .flushDone { res := .err, applied := 0 }]).ttl = .closed := by decide

/-- a flush function that fails while the TTL manager is running closes it -/
theorem failing_flush_closes_running_ttl (s : PState) (f : Buf) (c : Completion) (hl : s.cfg.layer = true)
    (ht : s.ttl = .running) (hf : s.flushing = some f) (hc : c.res = .err) : (complete s c).ttl = .closed :=
  complete_err_closes c hl ht hf hc

/-! ## the range handed to the range task -/

example : validBatches [[[0x61], [0x63]], [[0x62]]] := by
  intro b hb; simp at hb; rcases hb with hb | hb <;> subst hb <;> simp

/-- the bounds are tight: pipelinedStart is the least flushed key, pipelinedEnd is NextKey of the greatest one -/
theorem resolve_range_tight (bs : List (List Bytes)) (hv : validBatches bs) (hne : bs ≠ []) :
    (boundsOf bs).1 ∈ bs.flatten ∧ ∃ g ∈ bs.flatten, (boundsOf bs).2 = nextKey g ∧
    ∀ k ∈ bs.flatten, Bytes.le (boundsOf bs).1 k = true ∧ Bytes.le k g = true :=
  boundsOf_spec hv hne

/-- every flushed key lies in the half-open range [pipelinedStart, pipelinedEnd) that resolveFlushedLocks passes to
    RunOnRange — for every sequence of flushed batches.  (Was false before the fix C16-1, DESIGN S7: the end bound was
    the largest flushed key itself.) -/
theorem resolve_range_covers_flushed (bs : List (List Bytes)) (hv : validBatches bs) (k : Bytes)
    (hk : k ∈ bs.flatten) : inRange (boundsOf bs).1 (boundsOf bs).2 k = true := by
  have hne : bs ≠ [] := by intro h; subst h; simp at hk
  obtain ⟨_, g, _, hpe, h3⟩ := boundsOf_spec hv hne
  obtain ⟨h1, h2⟩ := h3 k hk
  unfold inRange
  rw [hpe, h1, le_lt_trans h2 (lt_nextKey g)]; rfl

/-- for every region layout and every sequence of flushed batches, every flushed key lies in a region that receives a
    ResolveLock from the range task (RunOnRange + the region-wide resolve handler) — single-key flushes and a greatest
    key on a region border included -/
theorem resolved_regions_cover_flushed (splits : List Bytes) (bs : List (List Bytes)) (hv : validBatches bs)
    (k : Bytes) (hk : k ∈ bs.flatten) :
    covered (runOnRange splits (boundsOf bs).1 (boundsOf bs).2) k = true := by
  have hne : bs ≠ [] := by intro h; subst h; simp at hk
  obtain ⟨hs, g, hg, hpe, h3⟩ := boundsOf_spec hv hne
  obtain ⟨h1, h2⟩ := h3 k hk
  have hklt : Bytes.lt k (boundsOf bs).2 = true := by rw [hpe]; exact le_lt_trans h2 (lt_nextKey g)
  have hlt : Bytes.lt (boundsOf bs).1 (boundsOf bs).2 = true := le_lt_trans h1 hklt
  have hnonempty : (boundsOf bs).2.isEmpty = false := by rw [hpe]; exact nextKey_isEmpty g
  unfold runOnRange
  simp only [hnonempty, Bool.false_eq_true, if_false, hlt, Bool.not_true]
  exact tasks_cover splits [] _ _ k (nil_le _) h1 (le_iff.mpr (Or.inl hklt)) (Or.inl hklt)

/-- the former counter-examples: a single flushed key, and a greatest key that is the start key of its region -/
example : covered (runOnRange [] (boundsOf [[[0x61]]]).1 (boundsOf [[[0x61]]]).2) [0x61] = true := by decide
example : covered (runOnRange [[0x62], [0x6d]] (boundsOf [[[0x61], [0x63], [0x6d]]]).1 (boundsOf [[[0x61], [0x63], [0x6d]]]).2) [0x6d] = true := by
  decide

end CGV.Props.C16
