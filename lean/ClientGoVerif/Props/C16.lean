/-
  C16 — pipelined transactions (DESIGN §4 C16).  Theorems about Model/Pipelined.lean; helper lemmas in Proofs/Pipelined.lean.

  `run (init cfg) ops` is the PipelinedMemDB after an arbitrary sequence of
  set/delete/get/batch-get/flush(force, observed Mem, late completion)/flushDone(result)/flushWait/stage/release/cleanup,
  for arbitrary thresholds `cfg`; `runBoth` runs the specification (`Spec`: the write log, the write log since the last
  triggered flush, the closed batches) alongside.
-/
import ClientGoVerif.Proofs.Pipelined
namespace CGV.Props.C16
open CGV CGV.Pipelined

/-! ## a read returns the latest write, wherever it sits -/

/-- FULL statement: for every op sequence (staging included), as long as no flush error has been returned, a read of
    `k` returns the newest entry of `k` in the transaction's write log (`none` if never written; the empty value if the
    newest write is a delete, which thereby hides every tier).
    FALSE for the code as it stands — see `get_latest_any_tier_false`. -/
def get_latest_any_tier : Prop :=
  ∀ (cfg : Cfg) (ops : List Op) (k : Bytes), (run (init cfg) ops).failed = false →
    readValue (runBoth (init cfg, {}) ops).1 k = (runBoth (init cfg, {}) ops).2.cur.get k

def cacheWitness : List Op := [.stage, .set [0x6b] [0x09], .batchGet [[0x6b]], .cleanup]

/-- `stage; set k v; BatchGet(k); cleanup; Get(k)` returns the rolled-back `v`: BatchGet caches what it finds in the
    mutable buffer and only Flush drops the cache (replayed on the real code: known finding
    C16-batchget-cache-survives-cleanup) -/
theorem get_latest_any_tier_false : ¬ get_latest_any_tier := by
  intro h
  have := h {} cacheWitness [0x6b] (by decide)
  revert this
  decide

/-- PROVED PART: the same statement for every op sequence in which BatchGet is not called while a staging handle is
    open (`RunOk`).  Covers all flush timings (`flushDone` anywhere, late completions), failures, thresholds. -/
theorem get_latest_any_tier_partial (cfg : Cfg) (ops : List Op) (k : Bytes) (hok : RunOk (init cfg) ops)
    (hnf : (run (init cfg) ops).failed = false) :
    readValue (runBoth (init cfg, {}) ops).1 k = (runBoth (init cfg, {}) ops).2.cur.get k := by
  have h := inv_run ops (inv_init cfg) hok hnf
  rw [readValue_eq_view h k]
  exact h.view k

example : RunOk (init {}) [.set [1] [2], .flush true 0 ⟨.ok, 0⟩, .stage, .del [1], .cleanup, .batchGet [[1]], .flushDone ⟨.ok, 0⟩]
    ∧ (run (init {}) [.set [1] [2], .flush true 0 ⟨.ok, 0⟩, .stage, .del [1], .cleanup, .batchGet [[1]], .flushDone ⟨.ok, 0⟩]).failed = false := by
  decide

/-- a deletion hides every tier: when the newest write of `k` is a delete, a read returns the tombstone (empty value),
    never an older value from the flushing buffer, the cache or the store -/
theorem delete_hides_all_tiers_partial (cfg : Cfg) (ops : List Op) (k : Bytes) (hok : RunOk (init cfg) ops)
    (hnf : (run (init cfg) ops).failed = false)
    (hdel : (runBoth (init cfg, {}) ops).2.cur.get k = some []) :
    readValue (runBoth (init cfg, {}) ops).1 k = some [] := by
  rw [get_latest_any_tier_partial cfg ops k hok hnf, hdel]

example : (runBoth (init {}, {}) [.set [1] [2], .flush true 0 ⟨.ok, 0⟩, .flushDone ⟨.ok, 0⟩, .del [1]]).2.cur.get [1] = some [] := by
  decide

/-! ## flush discipline -/

/-- every buffered mutation is handed to exactly one flush: the i-th call of the flush function receives, key by key,
    the newest write since the (i-1)-th triggered flush (`handed`: the write logs closed by the triggered flushes, kept by
    the specification alone) — nothing older, nothing twice, nothing dropped — and what has not been handed over yet is
    exactly the mutable buffer -/
theorem flushed_exactly_once (cfg : Cfg) (ops : List Op) :
    allRel bufEq ((runBoth (init cfg, {}) ops).1.hist.map (·.2)) (runBoth (init cfg, {}) ops).2.handed ∧
    bufEq (runBoth (init cfg, {}) ops).1.mbuf (runBoth (init cfg, {}) ops).2.pending :=
  let h := inv2_run ops (inv2_init cfg)
  ⟨h.histEq, h.mbufEq⟩

/-- the generations handed to the flush function are 1, 2, 3, … in call order (newest first: gen, gen-1, …, 1):
    strictly increasing, no gaps, and `generation` is the number of calls -/
theorem generations_strict (cfg : Cfg) (ops : List Op) :
    (run (init cfg) ops).hist.map (·.1) = down (run (init cfg) ops).gen ∧
    ((run (init cfg) ops).hist.map (·.1)).Pairwise (· > ·) := by
  have h := inv2_run (sp := {}) ops (inv2_init cfg)
  rw [runBoth_fst] at h
  exact ⟨h.gens, by rw [h.gens]; exact (down_pairwise _).1⟩

/-- at most one flush function is running at any time (`active`: generations whose flush function was called and has not
    returned), and a running one is the newest generation -/
theorem at_most_one_in_flight (cfg : Cfg) (ops : List Op) :
    (run (init cfg) ops).active.length ≤ 1 ∧ ∀ g ∈ (run (init cfg) ops).active, g = (run (init cfg) ops).gen := by
  have h := inv2_run (sp := {}) ops (inv2_init cfg)
  rw [runBoth_fst] at h
  rw [h.active]
  split <;> simp

/-! ## flush errors -/

/-- a flush error is never lost: while the failure of a flush function has not been returned to the caller, Commit
    (`Flush(true)`; `FlushWait()`) cannot succeed — `Flush(true)` returns that error (or refuses because of an open staging
    handle), and so would `FlushWait` -/
theorem flush_error_fails_txn (cfg : Cfg) (ops : List Op) (mem : Nat) (l1 l2 : Completion)
    (he : (run (init cfg) ops).errCh = some .err) :
    commitOk (run (init cfg) ops) mem l1 l2 = false ∧ (doFlushWait (run (init cfg) ops) l2).2 = .errFlush := by
  have h := inv2_run (sp := {}) ops (inv2_init cfg)
  rw [runBoth_fst] at h
  obtain ⟨h1, h2⟩ := err_reported h he mem l1
  refine ⟨?_, (err_reported h he mem l2).2⟩
  cases hc : commitOk (run (init cfg) ops) mem l1 l2 with
  | false => rfl
  | true =>
    obtain ⟨⟨g, b, r, ho⟩, _⟩ := (commitOk_iff _ mem l1 l2).mp hc
    rcases h1 with h1 | h1 <;> rw [h1] at ho <;> cases ho

example : (run (init {}) [.set [1] [2], .flush true 0 ⟨.ok, 0⟩, .flushDone ⟨.err, 0⟩]).errCh = some .err := by decide

/-- FULL sticky statement (callback layer of InitPipelinedMemDB): once a flush function has failed, no later Commit
    succeeds, whatever the caller does in between.  FALSE for the code as it stands: `committer.close()` only moves the
    TTL manager running → closed, so when the failing flush is the one that should have started it (primary batch not
    flushed yet) the callback keeps flushing — see `flush_error_sticky_false`.  (The error is still returned once
    — `flush_error_fails_txn` — and a real store refuses to commit a primary that was never locked.) -/
def flush_error_sticky : Prop :=
  ∀ (cfg : Cfg) (ops1 ops2 : List Op) (mem : Nat) (l1 l2 : Completion), cfg.layer = true →
    (run (init cfg) ops1).errCh = some .err → commitOk (run (run (init cfg) ops1) ops2) mem l1 l2 = false

theorem flush_error_sticky_false : ¬ flush_error_sticky := by
  intro h
  have := h { layer := true } [.set [1] [2], .flush true 0 ⟨.ok, 0⟩, .flushDone ⟨.err, 0⟩] [.flushWait ⟨.ok, 0⟩] 0 ⟨.ok, 0⟩ ⟨.ok, 0⟩
    rfl (by decide)
  revert this
  decide

/-- PROVED PART: once the TTL manager is closed (a flush failed after the primary had been flushed, see
    `failing_flush_closes_running_ttl`), every later Commit fails, whatever happens in between -/
theorem flush_error_sticky_partial (cfg : Cfg) (ops1 ops2 : List Op) (mem : Nat) (l1 l2 : Completion)
    (hl : cfg.layer = true) (hc : (run (init cfg) ops1).ttl = .closed) :
    commitOk (run (run (init cfg) ops1) ops2) mem l1 l2 = false :=
  commit_fails_closed (by rw [run_cfg, run_cfg]; exact hl) (run_ttl_closed _ ops2 hc) mem l1 l2

example : (run (init { layer := true }) [.set [1] [2], .flush true 0 ⟨.ok, 0⟩, .flushDone ⟨.ok, 0⟩, .set [3] [4],
    .flush true 0 ⟨.ok, 0⟩, .flushDone ⟨.err, 0⟩]).ttl = .closed := by decide

/-- a flush function that fails while the TTL manager is running closes it -/
theorem failing_flush_closes_running_ttl (s : PState) (f : Buf) (c : Completion) (hl : s.cfg.layer = true)
    (ht : s.ttl = .running) (hf : s.flushing = some f) (hc : c.res = .err) : (complete s c).ttl = .closed :=
  complete_err_closes c hl ht hf hc

/-! ## the range handed to the range task -/

/-- FULL statement: every flushed key lies in the half-open range [pipelinedStart, pipelinedEnd) that
    resolveFlushedLocks passes to RunOnRange.  FALSE for the code as it stands (DESIGN S7, confirmed): the end bound is
    the largest flushed key itself. -/
def resolve_range_covers_flushed : Prop :=
  ∀ bs : List (List Bytes), validBatches bs →
    ∀ k ∈ bs.flatten, inRange (boundsOf bs).1 (boundsOf bs).2 k = true

theorem resolve_range_covers_flushed_false : ¬ resolve_range_covers_flushed := by
  intro h
  have := h [[[0x61]]] (by intro b hb; simp at hb; subst hb; simp) [0x61] (by simp)
  revert this
  decide

/-- it is never true: whatever was flushed, the largest flushed key is the end bound and therefore outside -/
theorem resolve_range_never_covers_last (bs : List (List Bytes)) (hv : validBatches bs) (hne : bs ≠ []) :
    (boundsOf bs).2 ∈ bs.flatten ∧ inRange (boundsOf bs).1 (boundsOf bs).2 (boundsOf bs).2 = false := by
  refine ⟨(boundsOf_spec hv hne).2.1, ?_⟩
  unfold inRange; rw [lt_irrefl']; simp

example : validBatches [[[0x61], [0x63]], [[0x62]]] := by
  intro b hb; simp at hb; rcases hb with hb | hb <;> subst hb <;> simp

/-- PROVED PART: the bounds are the least and the greatest flushed key (closed range), so every flushed key other than
    the greatest lies in the half-open range -/
theorem resolve_range_covers_flushed_partial (bs : List (List Bytes)) (hv : validBatches bs) (k : Bytes)
    (hk : k ∈ bs.flatten) :
    Bytes.le (boundsOf bs).1 k = true ∧ Bytes.le k (boundsOf bs).2 = true ∧
    (k ≠ (boundsOf bs).2 → inRange (boundsOf bs).1 (boundsOf bs).2 k = true) := by
  have hne : bs ≠ [] := by intro h; subst h; simp at hk
  obtain ⟨_, _, h3⟩ := boundsOf_spec hv hne
  obtain ⟨h1, h2⟩ := h3 k hk
  refine ⟨h1, h2, ?_⟩
  intro hne2
  unfold inRange
  rcases le_iff.mp h2 with h4 | h4
  · simp [h1, h4]
  · exact absurd h4 hne2

/-- FULL statement at region level: for every region layout, every flushed key lies in a region that receives a
    ResolveLock from the range task (RunOnRange + the region-wide resolve handler).  FALSE: see below. -/
def resolved_regions_cover_flushed : Prop :=
  ∀ (splits : List Bytes) (bs : List (List Bytes)), validBatches bs →
    ∀ k ∈ bs.flatten, covered (runOnRange splits (boundsOf bs).1 (boundsOf bs).2) k = true

/-- a single flushed key: start == end, "empty range task", no region is visited at all -/
theorem resolved_regions_cover_flushed_false_single : ¬ resolved_regions_cover_flushed := by
  intro h
  have := h [] [[[0x61]]] (by intro b hb; simp at hb; subst hb; simp) [0x61] (by simp)
  revert this
  decide

/-- the largest flushed key is the start key of its region: that region is never visited -/
theorem resolved_regions_cover_flushed_false_border : ¬ resolved_regions_cover_flushed := by
  intro h
  have := h [[0x62], [0x6d]] [[[0x61], [0x63], [0x6d]]] (by intro b hb; simp at hb; subst hb; simp) [0x6d] (by simp)
  revert this
  decide

/-- PROVED PART: when at least two distinct keys were flushed (start < end), every flushed key other than the greatest
    is in a visited region for every region layout, and the greatest one too unless it is the start key of a region -/
theorem resolved_regions_cover_flushed_partial (splits : List Bytes) (bs : List (List Bytes)) (hv : validBatches bs)
    (hlt : Bytes.lt (boundsOf bs).1 (boundsOf bs).2 = true) (k : Bytes) (hk : k ∈ bs.flatten)
    (hside : k ≠ (boundsOf bs).2 ∨ (boundsOf bs).2 ∉ splits) :
    covered (runOnRange splits (boundsOf bs).1 (boundsOf bs).2) k = true := by
  have hne : bs ≠ [] := by intro h; subst h; simp at hk
  obtain ⟨_, hend, _⟩ := boundsOf_spec hv hne
  obtain ⟨h1, h2, h3⟩ := resolve_range_covers_flushed_partial bs hv k hk
  have hnonempty : (boundsOf bs).2.isEmpty = false := by
    obtain ⟨b, hb, hkb⟩ := List.mem_flatten.mp hend
    have := (hv b hb).2 _ hkb
    cases he : (boundsOf bs).2 with
    | nil => exact absurd he this
    | cons _ _ => rfl
  unfold runOnRange
  simp only [hnonempty, Bool.false_eq_true, if_false, hlt, Bool.not_true]
  apply tasks_cover splits [] _ _ k (nil_le _) h1 h2
  rcases hside with hs | hs
  · left
    have := h3 hs
    unfold inRange at this
    simp only [Bool.and_eq_true] at this
    exact this.2
  · right; exact hs

example : Bytes.lt (boundsOf [[[0x61], [0x63]], [[0x62]]]).1 (boundsOf [[[0x61], [0x63]], [[0x62]]]).2 = true := by decide

end CGV.Props.C16
