import ClientGoVerif.Model.Pipelined
namespace CGV.Props.C16
theorem placeholder : True := trivial
end CGV.Props.C16
