/-
  C16 — pipelined transactions (DESIGN §4 C16).  Theorems about Model/Pipelined.lean; helper lemmas in Proofs/Pipelined.lean.

  `run (init cfg) ops` is the PipelinedMemDB after an arbitrary sequence of
  set/delete/get/batch-get/flush(force, observed Mem, late completion)/flushDone(result)/flushWait/stage/release/cleanup,
  for arbitrary thresholds `cfg` (model of the tree WITH the fixes C16-1 and C16-2); `runBoth` runs the specification (`Spec`: the write log, the write log since the last
  triggered flush, the closed batches) alongside.
-/
import ClientGoVerif.Proofs.Pipelined
import ClientGoVerif.Proofs.PipelinedStore
namespace CGV.Props.C16
open CGV CGV.Pipelined

/-! ## a read returns the latest write, wherever it sits -/

/-- for EVERY op sequence (staging, cleanup, BatchGet anywhere), all thresholds, all flush timings and failures: as long
    as no flush error has been returned, a read of `k` returns the newest entry of `k` in the transaction's write log
    (`none` if never written or rolled back by Cleanup; the empty value if the newest write is a delete, which thereby
    hides every tier).  (Was false before the fix C16-2: the batch-get cache survived Cleanup.) -/
theorem get_latest_any_tier (cfg : Cfg) (ops : List Op) (k : Bytes)
    (hnf : (run (init cfg) ops).failed = false) :
    readValue (runBoth (init cfg, {}) ops).1 k = (runBoth (init cfg, {}) ops).2.cur.get k := by
  have h := inv_run ops (inv_init cfg) hnf
  rw [readValue_eq_view h k]
  exact h.view k

example : (run (init {}) [.set [1] [2], .flush true 0 { res := .ok, applied := 0 }, .stage, .del [1], .batchGet [[1]], .cleanup,
    .flushDone { res := .ok, applied := 0 }]).failed = false := by decide

/-- the former counter-example `stage; set k v; BatchGet(k); cleanup; Get(k)` now reads "not found" -/
example : readValue (run (init {}) [.stage, .set [0x6b] [0x09], .batchGet [[0x6b]], .cleanup]) [0x6b] = none := by decide

/-- the same for BatchGet, for every op sequence: the map it returns holds, for every requested key, the newest entry of
    the key in the transaction's write log (an entry with the empty value for a deleted key) and no entry for a key that
    was never written or not requested -/
theorem batch_get_latest (cfg : Cfg) (ops : List Op) (ks : List Bytes) (k : Bytes)
    (hnf : (run (init cfg) ops).failed = false) :
    (batchGet (runBoth (init cfg, {}) ops).1 ks).2.get k =
      if k ∈ ks then (runBoth (init cfg, {}) ops).2.cur.get k else none := by
  have h := inv_run ops (inv_init cfg) hnf
  rw [batchGet_result]
  by_cases hk : k ∈ ks
  · simp only [hk, if_true]; exact h.view k
  · simp only [hk, if_false]

/-- a deletion hides every tier: when the newest write of `k` is a delete, a read returns the tombstone (empty value),
    never an older value from the flushing buffer, the cache or the store -/
theorem delete_hides_all_tiers (cfg : Cfg) (ops : List Op) (k : Bytes)
    (hnf : (run (init cfg) ops).failed = false)
    (hdel : (runBoth (init cfg, {}) ops).2.cur.get k = some []) :
    readValue (runBoth (init cfg, {}) ops).1 k = some [] := by
  rw [get_latest_any_tier cfg ops k hnf, hdel]

example : (runBoth (init {}, {}) [.set [1] [2], .flush true 0 { res := .ok, applied := 0 }, .flushDone { res := .ok, applied := 0 }, .del [1]]).2.cur.get [1] = some [] := by
  decide

/-! ## flush discipline -/

/-- every buffered mutation is handed to exactly one flush: the i-th call of the flush function receives, key by key,
    the newest write since the (i-1)-th triggered flush (`handed`: the write logs closed by the triggered flushes, kept by
    the specification alone) — nothing older, nothing twice, nothing dropped — and what has not been handed over yet is
    exactly the mutable buffer -/
theorem flushed_exactly_once (cfg : Cfg) (ops : List Op) :
    allRel bufEq ((runBoth (init cfg, {}) ops).1.hist.map (·.2)) (runBoth (init cfg, {}) ops).2.handed ∧
    bufEq (runBoth (init cfg, {}) ops).1.mbuf (runBoth (init cfg, {}) ops).2.pending :=
  let h := inv2_run ops (inv2_init cfg)
  ⟨h.histEq, h.mbufEq⟩

/-- the generations handed to the flush function are 1, 2, 3, … in call order (newest first: gen, gen-1, …, 1):
    strictly increasing, no gaps, and `generation` is the number of calls -/
theorem generations_strict (cfg : Cfg) (ops : List Op) :
    (run (init cfg) ops).hist.map (·.1) = down (run (init cfg) ops).gen ∧
    ((run (init cfg) ops).hist.map (·.1)).Pairwise (· > ·) := by
  have h := inv2_run (sp := {}) ops (inv2_init cfg)
  rw [runBoth_fst] at h
  exact ⟨h.gens, by rw [h.gens]; exact (down_pairwise _).1⟩

/-- at most one flush function is running at any time (`active`: generations whose flush function was called and has not
    returned), and a running one is the newest generation -/
theorem at_most_one_in_flight (cfg : Cfg) (ops : List Op) :
    (run (init cfg) ops).active.length ≤ 1 ∧ ∀ g ∈ (run (init cfg) ops).active, g = (run (init cfg) ops).gen := by
  have h := inv2_run (sp := {}) ops (inv2_init cfg)
  rw [runBoth_fst] at h
  rw [h.active]
  split <;> simp

/-- generation order at the store: for every op sequence and flush timing, as long as no flush has failed, the store
    tier holds for every key the value of the NEWEST generation that has been flushed and contains the key (`hist` is
    newest first and its generations are 1,2,3,… by `generations_strict`; the generation whose flush function is still
    running is not counted).  Since commit turns the locks of the store tier into records with the lock's value
    (`resolve_outcome_is_primarys`), a key's newest flushed generation is the one that is committed. -/
theorem store_holds_newest_generation (cfg : Cfg) (ops : List Op) (k : Bytes)
    (hnf : (run (init cfg) ops).failed = false) (hne : (run (init cfg) ops).errCh ≠ some .err) :
    (run (init cfg) ops).store.get k = newestFlushed (run (init cfg) ops) k := by
  have h := inv4_run (sp := {}) ops (inv4_init cfg) (inv2_init cfg)
  rw [runBoth_fst] at h
  exact h.newest hnf hne k

/-- at commit time (after `Flush(true)`; `FlushWait()` returned nil: nothing in flight, no failure) that is the newest
    generation of the whole transaction holding the key -/
theorem store_holds_newest_generation_at_commit (cfg : Cfg) (ops : List Op) (k : Bytes)
    (hnf : (run (init cfg) ops).failed = false) (hfl : (run (init cfg) ops).flushing = none) :
    (run (init cfg) ops).store.get k = ((run (init cfg) ops).hist.map (·.2)).findSome? (·.get k) := by
  have h2 := inv2_run (sp := {}) ops (inv2_init cfg)
  rw [runBoth_fst] at h2
  have hr : (run (init cfg) ops).running = false := by
    cases hr : (run (init cfg) ops).running with
    | false => rfl
    | true => have := h2.runFl hr; rw [hfl] at this; cases this
  have hne : (run (init cfg) ops).errCh ≠ some .err := by
    intro he
    have := (h2.errFl (by rw [he]; rfl)).1
    rw [hfl] at this; cases this
  rw [store_holds_newest_generation cfg ops k hnf hne]
  unfold newestFlushed
  simp [hr]

example : (run (init {}) [.set [1] [2], .flush true 0 { res := .ok, applied := 0 }, .set [1] [3],
      .flush true 0 { res := .ok, applied := 0 }, .flushWait { res := .ok, applied := 0 }]).store.get [1] = some [3] ∧
    (run (init {}) [.set [1] [2], .flush true 0 { res := .ok, applied := 0 }, .set [1] [3],
      .flush true 0 { res := .ok, applied := 0 }, .flushWait { res := .ok, applied := 0 }]).flushing = none := by decide

/-! ## thresholds: the mutable buffer is bounded -/

/-- memory accounting (sizes are natural numbers: never negative).  For every state and every observed size `mem` of the
    mutable buffer: `Flush(false)` declines (returns (false, nil)) only while `mem` is below the minimum or below the
    force threshold — at or above both it always flushes, even with a flush in flight (it then waits for it) — and a
    `Flush` that flushes leaves an empty mutable buffer.  So after every `Flush` call that returns without error the
    mutable buffer is empty or smaller than max(MinFlushMemSize, ForceFlushMemSizeThreshold): a caller that calls
    `Flush(false)` after each batch of writes never holds more than that threshold plus one batch. -/
theorem mutable_buffer_bounded (s : PState) (force : Bool) (mem : Nat) (late : Completion) :
    ((doFlush s force mem late).2 = .notFlushed → mem < s.cfg.minSize ∨ mem < s.cfg.forceSize) ∧
    (s.cfg.minSize ≤ mem → s.cfg.forceSize ≤ mem → (doFlush s force mem late).2 ≠ .notFlushed) ∧
    (∀ g b rpc, (doFlush s force mem late).2 = .flushed g b rpc → (doFlush s force mem late).1.mbuf = []) := by
  refine ⟨fun h => needFlush_false (doFlush_notFlushed h).2, ?_, fun g b rpc h => doFlush_flushed_empties h⟩
  intro h1 h2 h
  have := (doFlush_notFlushed h).2
  rw [needFlush_above h1 h2] at this; cases this

/-! ## flush errors -/

/-- a flush error is never lost: while the failure of a flush function has not been returned to the caller, Commit
    (`Flush(true)`; `FlushWait()`) cannot succeed — `Flush(true)` returns that error (or refuses because of an open staging
    handle), and so would `FlushWait` -/
theorem flush_error_fails_txn (cfg : Cfg) (ops : List Op) (mem : Nat) (l1 l2 : Completion)
    (he : (run (init cfg) ops).errCh = some .err) :
    commitOk (run (init cfg) ops) mem l1 l2 = false ∧ (doFlushWait (run (init cfg) ops) l2).2 = .errFlush := by
  have h := inv2_run (sp := {}) ops (inv2_init cfg)
  rw [runBoth_fst] at h
  obtain ⟨h1, h2⟩ := err_reported h he mem l1
  refine ⟨?_, (err_reported h he mem l2).2⟩
  cases hc : commitOk (run (init cfg) ops) mem l1 l2 with
  | false => rfl
  | true =>
    obtain ⟨⟨g, b, r, ho⟩, _⟩ := (commitOk_iff _ mem l1 l2).mp hc
    rcases h1 with h1 | h1 <;> rw [h1] at ho <;> cases ho

example : (run (init {}) [.set [1] [2], .flush true 0 { res := .ok, applied := 0 }, .flushDone { res := .err, applied := 0 }]).errCh = some .err := by decide

/-- whatever KIND of error the flush function failed with (`Completion.kind`: a plain error, or an error chain containing
    ErrKeyExist for a key that is or is not in the flushing buffer), `FlushWait` returns an error — never nil — namely the
    translation `handleAlreadyExistErr` makes of it: the plain error itself, or the ErrKeyExist with the value the
    flushing buffer holds for its key; and the transaction is marked failed -/
theorem flush_error_kind_reported (cfg : Cfg) (ops : List Op) (late : Completion)
    (he : (run (init cfg) ops).errCh = some .err) :
    (doFlushWait (run (init cfg) ops) late).2 = .errFlush ∧
    (doFlushWait (run (init cfg) ops) late).1.failed = true ∧
    (doFlushWait (run (init cfg) ops) late).1.lastErr =
      some (translate (run (init cfg) ops).flushing (run (init cfg) ops).errKind) := by
  have h := inv2_run (sp := {}) ops (inv2_init cfg)
  rw [runBoth_fst] at h
  obtain ⟨hfl, hr⟩ := h.errFl (by rw [he]; rfl)
  rcases doFlushWait_cases (run (init cfg) ops) late with ⟨_, hd⟩ | ⟨hf, _⟩
  · rw [hd, await_of_not_running late hr]
    unfold waitAfter failWith; simp [he]
  · rw [hf] at hfl; cases hfl

/-- a failing flush with an ErrKeyExist chain for a key of the flushed batch: reported with that key's value -/
example : (doFlushWait (run (init {}) [.set [1] [2], .flush true 0 { res := .ok, applied := 0 },
      .flushDone { res := .err, applied := 0, kind := .keyExist [1] }]) { res := .ok, applied := 0 }).1.lastErr
    = some (.keyExist [1] (some [2])) := by decide

/-- a flush error is never lost, for every op sequence and every interleaving of flush completions: once a flush
    function has failed (`errCh = some .err` after `ops1`), whatever the caller does next (`ops2`: writes, reads, staging,
    further `Flush`/`FlushWait` calls, any thresholds and observed memory sizes), either one of those calls has returned
    the error to the caller, or it is still pending and Commit fails -/
theorem flush_error_never_lost (cfg : Cfg) (ops1 ops2 : List Op) (mem : Nat) (l1 l2 : Completion)
    (he : (run (init cfg) ops1).errCh = some .err) :
    .errFlush ∈ runOuts (run (init cfg) ops1) ops2 ∨
    commitOk (run (run (init cfg) ops1) ops2) mem l1 l2 = false := by
  have h := inv2_run (sp := {}) ops1 (inv2_init cfg)
  rw [runBoth_fst] at h
  rcases err_never_lost ops2 h he with h1 | h1
  · exact Or.inl h1
  · right
    rw [← run_append] at h1 ⊢
    exact (flush_error_fails_txn cfg (ops1 ++ ops2) mem l1 l2 h1).1

/-- FULL sticky statement (callback layer of InitPipelinedMemDB): once a flush function has failed, no later Commit
    gets past the buffer, whatever the caller does in between.  FALSE for the code as it stands, and what is missing is
    exactly this: `committer.close()` only moves the TTL manager running → closed, so a failure BEFORE the TTL manager was
    started (no batch holding the primary has been flushed successfully yet) leaves the callback willing to flush; if the
    caller ignores the error it was handed (`flush_error_never_lost`) and later flushes the primary successfully, Commit
    passes although the failed batch is lost — `flush_error_sticky_false`.  Everything short of that is proved:
    `flush_error_sticky_partial` (failure after the TTL manager was started: sticky), `flush_error_outcomes`
    (failure before: the caller was told, and while the TTL manager is still not started the primary holds no lock in
    the store, so the store refuses the commit — `unstarted_commit_rejected_by_store`). -/
def flush_error_sticky : Prop :=
  ∀ (cfg : Cfg) (ops1 ops2 : List Op) (mem : Nat) (l1 l2 : Completion), cfg.layer = true →
    (run (init cfg) ops1).errCh = some .err → commitOk (run (run (init cfg) ops1) ops2) mem l1 l2 = false

/-- the failing flush is the first one; the caller ignores the error FlushWait returns, rewrites the primary and
    flushes it successfully; Commit passes -/
theorem flush_error_sticky_false : ¬ flush_error_sticky := by
  intro h
  have := h { layer := true }
    [.set [1] [2], .set [5] [6], .flush true 0 { res := .ok, applied := 0 }, .flushDone { res := .err, applied := 0 }]
    [.flushWait { res := .ok, applied := 0 }, .set [1] [3], .flush true 0 { res := .ok, applied := 0 },
     .flushDone { res := .ok, applied := 0 }]
    0 { res := .ok, applied := 0 } { res := .ok, applied := 0 } rfl (by decide)
  revert this
  decide

/-- PROVED PART 1 (hypothesis: the TTL manager had been started when the flush function failed — `ttl ≠ uninit`, which
    `ttl_started_by_primary_flush` / `ttl_started_stable` reduce to "a batch holding the primary was flushed successfully
    earlier"): for every op sequence before (`ops1`, ending with a running flush), every failing completion `c` and
    every op sequence after (`ops2`), Commit fails -/
theorem flush_error_sticky_partial (cfg : Cfg) (ops1 ops2 : List Op) (c : Completion) (mem : Nat) (l1 l2 : Completion)
    (hl : cfg.layer = true) (hr : (run (init cfg) ops1).running = true) (ht : (run (init cfg) ops1).ttl ≠ .uninit)
    (hc : c.res = .err) :
    commitOk (run (run (init cfg) (ops1 ++ [.flushDone c])) ops2) mem l1 l2 = false := by
  have h := inv2_run (sp := {}) ops1 (inv2_init cfg)
  rw [runBoth_fst] at h
  have hfs := h.runFl hr
  cases hf : (run (init cfg) ops1).flushing with
  | none => simp [hf] at hfs
  | some f =>
    have hcl : (run (init cfg) (ops1 ++ [.flushDone c])).ttl = .closed := by
      rw [run_append]
      simp only [run, step, hr, if_true]
      exact (complete_err_closed_iff c (by rw [run_cfg]; exact hl) hf hc).mpr ht
    exact commit_fails_closed (by rw [run_cfg, run_cfg]; exact hl) (run_ttl_closed _ ops2 hcl) mem l1 l2

example : (run (init { layer := true }) [.set [1] [2], .flush true 0 { res := .ok, applied := 0 }, .flushDone { res := .ok, applied := 0 },
    .set [3] [4], .flush true 0 { res := .ok, applied := 0 }]).running = true ∧
    (run (init { layer := true }) [.set [1] [2], .flush true 0 { res := .ok, applied := 0 }, .flushDone { res := .ok, applied := 0 },
    .set [3] [4], .flush true 0 { res := .ok, applied := 0 }]).ttl ≠ .uninit := by decide

/-- the successful flush of a batch that holds the primary starts the TTL manager … -/
theorem ttl_started_by_primary_flush (s : PState) (f : Buf) (c : Completion) (hl : s.cfg.layer = true)
    (hf : s.flushing = some f) (hc : c.res = .ok) (hp : f.keys.contains s.primary = true) :
    (complete s c).ttl ≠ .uninit :=
  complete_ok_starts c hl hf hc hp

/-- … and it never goes back to "not started" -/
theorem ttl_started_stable (s : PState) (ops : List Op) (h : s.ttl ≠ .uninit) : (run s ops).ttl ≠ .uninit :=
  run_ttl_started s ops h

/-- a failing flush function closes the TTL manager exactly when it had been started -/
theorem failing_flush_closes_started_ttl (s : PState) (f : Buf) (c : Completion) (hl : s.cfg.layer = true)
    (hf : s.flushing = some f) (hc : c.res = .err) : (complete s c).ttl = .closed ↔ s.ttl ≠ .uninit :=
  complete_err_closed_iff c hl hf hc

/-- PROVED PART 2: for EVERY op sequence, flush timing and failure (callback layer): if Commit gets past the buffer
    after a flush failure, then (i) the error has been returned to the caller by an earlier call, (ii) the TTL manager
    is not closed, and (iii) if it is still not started, the primary holds no lock in the store -/
theorem flush_error_outcomes (cfg : Cfg) (ops1 ops2 : List Op) (mem : Nat) (l1 l2 : Completion)
    (hl : cfg.layer = true) (he : (run (init cfg) ops1).errCh = some .err)
    (hok : commitOk (run (run (init cfg) ops1) ops2) mem l1 l2 = true) :
    .errFlush ∈ runOuts (run (init cfg) ops1) ops2 ∧
    (run (run (init cfg) ops1) ops2).ttl ≠ .closed ∧
    ((run (run (init cfg) ops1) ops2).ttl = .uninit →
      (run (run (init cfg) ops1) ops2).store.get (run (run (init cfg) ops1) ops2).primary = none) := by
  refine ⟨?_, ?_, ?_⟩
  · rcases flush_error_never_lost cfg ops1 ops2 mem l1 l2 he with h | h
    · exact h
    · rw [hok] at h; cases h
  · intro hc
    have := commit_fails_closed (s := run (run (init cfg) ops1) ops2) (by rw [run_cfg, run_cfg]; exact hl) hc mem l1 l2
    rw [hok] at this; cases this
  · have h3 := inv3_run (init cfg) (ops1 ++ ops2) hl (inv3_init cfg)
    rw [run_append] at h3
    exact h3.unlocked

/-- while the TTL manager has not been started the primary holds no lock in the store — for every op sequence -/
theorem unstarted_primary_unlocked (cfg : Cfg) (ops : List Op) (hl : cfg.layer = true)
    (hu : (run (init cfg) ops).ttl = .uninit) :
    (run (init cfg) ops).store.get (run (init cfg) ops).primary = none :=
  (inv3_run (init cfg) ops hl (inv3_init cfg)).unlocked hu

/-- … and the MVCC store (Model/Mvcc.lean, `Mvcc.commit`) then refuses to commit the primary: for any store whose locks
    of transaction `T` are among the keys the buffer has flushed successfully (`store` tier) and on which `T` has no
    record on the primary yet, the commit of the primary returns `retryable` ("txn not found") and changes nothing -/
theorem unstarted_commit_rejected_by_store (cfg : Cfg) (ops : List Op) (hl : cfg.layer = true)
    (hu : (run (init cfg) ops).ttl = .uninit) (ms : Mvcc.Store) (T C : Nat)
    (habs : ∀ k, lockedBy ms T k → (run (init cfg) ops).store.get k ≠ none)
    (hfresh : Mvcc.Fresh (Mvcc.getEntry ms.kv (run (init cfg) ops).primary).writes T) :
    (Mvcc.commit ms [(run (init cfg) ops).primary] T C).2 = some .retryable ∧
    (Mvcc.commit ms [(run (init cfg) ops).primary] T C).1.kv = ms.kv := by
  apply commit_unlocked_rejected ms _ T C _ hfresh
  intro l hlk heq
  exact habs _ ⟨l, hlk, heq⟩ (unstarted_primary_unlocked cfg ops hl hu)

example : (run (init { layer := true }) [.set [1] [2], .flush true 0 { res := .ok, applied := 0 },
    .flushDone { res := .err, applied := 0 }]).ttl = .uninit := by decide

/-! ## the commit point: what Commit tells the caller never contradicts what happened to the primary -/

/-- for EVERY sequence of things that can happen to the successive Commit requests for the primary (executed with the
    answer lost, lost before execution, refused with a definite key error, executed and answered; retried any number of
    times): a definite error (`other`) is only reported when the primary is NOT committed in the store, success (`nil`)
    only when it IS committed, and `undetermined` only when the answer of every attempt was lost — in which case the
    store may or may not hold the commit.  (Was false before /repo 326f0f5: `commitFlushedMutations` returned the raw
    error, a definite-looking failure for a committed transaction.) -/
theorem commit_answer_matches_outcome (attempts : List Attempt) :
    answerMatchesOutcome (pipelinedAnswer (primaryCommit attempts false).2) (primaryCommit attempts false).1 = true ∧
    (pipelinedAnswer (primaryCommit attempts false).2 = .other → (primaryCommit attempts false).1 = false) ∧
    (pipelinedAnswer (primaryCommit attempts false).2 = .nil → (primaryCommit attempts false).1 = true) ∧
    (pipelinedAnswer (primaryCommit attempts false).2 = .undetermined →
      ∀ a ∈ attempts, a = .execLost ∨ a = .lost) := by
  have h1 := primaryCommit_definite_err attempts false
  have h2 := primaryCommit_ok attempts false
  have h3 := primaryCommit_undetermined attempts false
  cases hr : (primaryCommit attempts false).2 with
  | ok =>
    rw [hr] at h2
    simp [pipelinedAnswer, answerMatchesOutcome, h2 rfl]
  | err u =>
    cases u with
    | true =>
      rw [hr] at h3
      simp only [pipelinedAnswer, answerMatchesOutcome]
      exact ⟨by simp, by simp, by simp, fun _ => h3 rfl⟩
    | false =>
      rw [hr] at h1
      simp [pipelinedAnswer, answerMatchesOutcome, h1 rfl]

/-- non-vacuity: all three answers occur, and the executed-answer-lost case is the committed-but-undetermined one -/
example : pipelinedAnswer (primaryCommit [.execLost] false).2 = .undetermined ∧ (primaryCommit [.execLost] false).1 = true ∧
    pipelinedAnswer (primaryCommit [.lost, .keyErr] false).2 = .other ∧ (primaryCommit [.lost, .keyErr] false).1 = false ∧
    pipelinedAnswer (primaryCommit [.execLost, .keyErr] false).2 = .nil ∧ (primaryCommit [.execLost, .keyErr] false).1 = true := by
  decide

/-! ## the range handed to the range task -/

example : validBatches [[[0x61], [0x63]], [[0x62]]] := by
  intro b hb; simp at hb; rcases hb with hb | hb <;> subst hb <;> simp

/-- the bounds are tight: pipelinedStart is the least flushed key, pipelinedEnd is NextKey of the greatest one -/
theorem resolve_range_tight (bs : List (List Bytes)) (hv : validBatches bs) (hne : bs ≠ []) :
    (boundsOf bs).1 ∈ bs.flatten ∧ ∃ g ∈ bs.flatten, (boundsOf bs).2 = nextKey g ∧
    ∀ k ∈ bs.flatten, Bytes.le (boundsOf bs).1 k = true ∧ Bytes.le k g = true :=
  boundsOf_spec hv hne

/-- every flushed key lies in the half-open range [pipelinedStart, pipelinedEnd) that resolveFlushedLocks passes to
    RunOnRange — for every sequence of flushed batches.  (Was false before the fix C16-1, DESIGN S7: the end bound was
    the largest flushed key itself.) -/
theorem resolve_range_covers_flushed (bs : List (List Bytes)) (hv : validBatches bs) (k : Bytes)
    (hk : k ∈ bs.flatten) : inRange (boundsOf bs).1 (boundsOf bs).2 k = true := by
  have hne : bs ≠ [] := by intro h; subst h; simp at hk
  obtain ⟨_, g, _, hpe, h3⟩ := boundsOf_spec hv hne
  obtain ⟨h1, h2⟩ := h3 k hk
  unfold inRange
  rw [hpe, h1, le_lt_trans h2 (lt_nextKey g)]; rfl

/-- for every region layout and every sequence of flushed batches, every flushed key lies in a region that receives a
    ResolveLock from the range task (RunOnRange + the region-wide resolve handler) — single-key flushes and a greatest
    key on a region border included -/
theorem resolved_regions_cover_flushed (splits : List Bytes) (bs : List (List Bytes)) (hv : validBatches bs)
    (k : Bytes) (hk : k ∈ bs.flatten) :
    covered (runOnRange splits (boundsOf bs).1 (boundsOf bs).2) k = true := by
  have hne : bs ≠ [] := by intro h; subst h; simp at hk
  obtain ⟨hs, g, hg, hpe, h3⟩ := boundsOf_spec hv hne
  obtain ⟨h1, h2⟩ := h3 k hk
  have hklt : Bytes.lt k (boundsOf bs).2 = true := by rw [hpe]; exact le_lt_trans h2 (lt_nextKey g)
  have hlt : Bytes.lt (boundsOf bs).1 (boundsOf bs).2 = true := le_lt_trans h1 hklt
  have hnonempty : (boundsOf bs).2.isEmpty = false := by rw [hpe]; exact nextKey_isEmpty g
  unfold runOnRange
  simp only [hnonempty, Bool.false_eq_true, if_false, hlt, Bool.not_true]
  exact tasks_cover splits [] _ _ k (nil_le _) h1 (le_iff.mpr (Or.inl hklt)) (Or.inl hklt)

/-- the former counter-examples: a single flushed key, and a greatest key that is the start key of its region -/
example : covered (runOnRange [] (boundsOf [[[0x61]]]).1 (boundsOf [[[0x61]]]).2) [0x61] = true := by decide
example : covered (runOnRange [[0x62], [0x6d]] (boundsOf [[[0x61], [0x63], [0x6d]]]).1 (boundsOf [[[0x61], [0x63], [0x6d]]]).2) [0x6d] = true := by
  decide

/-- the same for WHOLE op sequences of the buffer with the callback of InitPipelinedMemDB (any thresholds, flush timings,
    failures, staging): every key the callback has sent to the store in a Flush request (`lockKeys`) lies in the
    half-open range [pipelinedStart, pipelinedEnd) the transaction holds at that moment — hence in the range commit,
    rollback or the cleanup after a failed commit hands to the range task.  Assumption: written keys are non-empty. -/
theorem machine_range_covers_flushed (cfg : Cfg) (ops : List Op) (hok : ∀ op ∈ ops, op.keyOk = true) (k : Bytes)
    (hk : k ∈ (run (init cfg) ops).lockKeys) :
    inRange (run (init cfg) ops).pStart (run (init cfg) ops).pEnd k = true := by
  have h := inv5_run (init cfg) ops hok (inv5_init cfg)
  rcases h.bounds with ⟨h0, _⟩ | ⟨_, g, _, hpe, h3⟩
  · rw [h0] at hk; cases hk
  · obtain ⟨h1, h2⟩ := h3 k hk
    simp only at hpe h1
    unfold inRange
    rw [hpe, h1, le_lt_trans h2 (lt_nextKey g)]; rfl

/-- … and, for every region layout, in a region the range task visits -/
theorem machine_regions_cover_flushed (cfg : Cfg) (ops : List Op) (hok : ∀ op ∈ ops, op.keyOk = true)
    (splits : List Bytes) (k : Bytes) (hk : k ∈ (run (init cfg) ops).lockKeys) :
    covered (runOnRange splits (run (init cfg) ops).pStart (run (init cfg) ops).pEnd) k = true := by
  have h := inv5_run (init cfg) ops hok (inv5_init cfg)
  rcases h.bounds with ⟨h0, _⟩ | ⟨_, g, _, hpe, h3⟩
  · rw [h0] at hk; cases hk
  · obtain ⟨h1, h2⟩ := h3 k hk
    simp only at hpe h1
    have hklt : Bytes.lt k (run (init cfg) ops).pEnd = true := by rw [hpe]; exact le_lt_trans h2 (lt_nextKey g)
    have hlt := le_lt_trans h1 hklt
    have hnonempty : (run (init cfg) ops).pEnd.isEmpty = false := by rw [hpe]; exact nextKey_isEmpty g
    unfold runOnRange
    simp only [hnonempty, Bool.false_eq_true, if_false, hlt, Bool.not_true]
    exact tasks_cover splits [] _ _ k (nil_le _) h1 (le_iff.mpr (Or.inl hklt)) (Or.inl hklt)

example : (∀ op ∈ [Op.set [0x61] [1], .flush true 0 { res := .ok, applied := 0 }], op.keyOk = true) ∧
    [0x61] ∈ (run (init { layer := true }) [.set [0x61] [1], .flush true 0 { res := .ok, applied := 0 }]).lockKeys := by
  decide

/-! ## at the store: commit or rollback drives every flushed lock to the outcome of the primary -/

/-- for EVERY region layout, every sequence of flushed batches and every store state that satisfies the store invariant:
    after the range task of commit (`C` = commit ts) or rollback (`C = 0`) has run — one region-wide ResolveLock(T, C)
    per region visited by RunOnRange on [pipelinedStart, pipelinedEnd) — no flushed key is locked by `T` any more, and
    its entry is exactly what ResolveLock(T, C) makes of it (`rk`) -/
theorem resolve_drives_flushed_locks (ms : Mvcc.Store) (hs : Mvcc.SInv ms) (T C : Nat) (hC : C = 0 ∨ T < C)
    (splits : List Bytes) (hsp : ∀ h ∈ splits, h ≠ []) (bs : List (List Bytes)) (hv : validBatches bs)
    (k : Bytes) (hk : k ∈ bs.flatten) :
    ¬ lockedBy (resolveRegionsStore ms (runOnRange splits (boundsOf bs).1 (boundsOf bs).2) T C) T k ∧
    Mvcc.getEntry (resolveRegionsStore ms (runOnRange splits (boundsOf bs).1 (boundsOf bs).2) T C).kv k =
      rk T C k (Mvcc.getEntry ms.kv k) := by
  have hcov := resolved_regions_cover_flushed splits bs hv k hk
  have hne : ∀ r ∈ runOnRange splits (boundsOf bs).1 (boundsOf bs).2, ∀ h, r.2 = some h → h ≠ [] :=
    fun r hr h hh => hsp h (runOnRange_ends_in_splits splits _ _ r hr h hh)
  have he := getEntry_resolveRegions T C hC k _ ms hs hne
  rw [hcov] at he
  simp only [if_true] at he
  refine ⟨?_, he⟩
  rintro ⟨l, hl, hT⟩
  rw [he] at hl
  exact rk_unlocks T C k _ l hl hT

/-- the same for whole op sequences of the buffer with the callback: every key the callback has sent to the store is
    released by the range task run on the transaction's own [pipelinedStart, pipelinedEnd), for every region layout -/
theorem machine_resolve_drives_flushed_locks (cfg : Cfg) (ops : List Op) (hok : ∀ op ∈ ops, op.keyOk = true)
    (ms : Mvcc.Store) (hs : Mvcc.SInv ms) (T C : Nat) (hC : C = 0 ∨ T < C)
    (splits : List Bytes) (hsp : ∀ h ∈ splits, h ≠ []) (k : Bytes) (hk : k ∈ (run (init cfg) ops).lockKeys) :
    ¬ lockedBy (resolveRegionsStore ms
        (runOnRange splits (run (init cfg) ops).pStart (run (init cfg) ops).pEnd) T C) T k := by
  have hcov := machine_regions_cover_flushed cfg ops hok splits k hk
  have hne : ∀ r ∈ runOnRange splits (run (init cfg) ops).pStart (run (init cfg) ops).pEnd, ∀ h, r.2 = some h → h ≠ [] :=
    fun r hr h hh => hsp h (runOnRange_ends_in_splits splits _ _ r hr h hh)
  have he := getEntry_resolveRegions T C hC k _ ms hs hne
  rw [hcov] at he
  simp only [if_true] at he
  rintro ⟨l, hl, hT⟩
  rw [he] at hl
  exact rk_unlocks T C k _ l hl hT

/-- the single outcome: a flushed key that `T` still locks (with the put / delete / lock it flushed) ends with `T`'s
    commit record at `C` carrying the flushed value when the primary was committed, with `T`'s rollback marker when it
    was rolled back -/
theorem resolve_outcome_is_primarys (ms : Mvcc.Store) (hs : Mvcc.SInv ms) (T C : Nat) (hC : C = 0 ∨ T < C)
    (splits : List Bytes) (hsp : ∀ h ∈ splits, h ≠ []) (bs : List (List Bytes)) (hv : validBatches bs)
    (k : Bytes) (hk : k ∈ bs.flatten) (l : Mvcc.Lock) (hl : (Mvcc.getEntry ms.kv k).lock = some l)
    (hT : l.startTS = T) (hop : l.op ≠ .pessimisticLock) :
    (0 < C → ∃ w ∈ (Mvcc.getEntry (resolveRegionsStore ms (runOnRange splits (boundsOf bs).1 (boundsOf bs).2) T C).kv k).writes,
      w.startTS = T ∧ w.commitTS = C ∧ w.vt ≠ .rollback ∧ w.value = l.value) ∧
    (C = 0 → ∃ w ∈ (Mvcc.getEntry (resolveRegionsStore ms (runOnRange splits (boundsOf bs).1 (boundsOf bs).2) T C).kv k).writes,
      w.startTS = T ∧ w.vt = .rollback) := by
  rw [(resolve_drives_flushed_locks ms hs T C hC splits hsp bs hv k hk).2]
  exact rk_record T C k _ l hl hT hop

/-- and the outcome is final: no later store command can commit, roll back or re-lock that key for `T`
    (Proofs/MvccTemporal.lean, `KStep.final`, over the 8-label per-key transition system every store command refines) -/
theorem resolved_key_is_final (e e' : Mvcc.Entry) (lab : Mvcc.KLabel) (T : Nat) (hstep : Mvcc.KStep e lab e')
    (hi : Mvcc.EInv e) (hrec : ∃ w ∈ e.writes, w.startTS = T) : lab.txn ≠ some T :=
  hstep.final hi hrec

def demoMutation : Mvcc.Mutation := { op := .put, key := [0x61], value := [1] }
def demoReq : Mvcc.PrewriteReq := { mutations := [demoMutation], primary := [0x61], startTS := 5, ttl := 10 }

/-- non-vacuity: a store that satisfies the store invariant and holds a flushed (put) lock of transaction 5 -/
example : Mvcc.SInv ((Mvcc.Cmd.prewrite demoReq).run {}) ∧
    ((Mvcc.getEntry ((Mvcc.Cmd.prewrite demoReq).run {}).kv [0x61]).lock.map fun l => (l.startTS, l.op)) = some (5, .put) :=
  ⟨Mvcc.SInv_run _ _ Mvcc.SInv.empty trivial, by decide⟩

end CGV.Props.C16
