/-
  C04 — a transaction's request stream obeys the Percolator ordering and timestamp rules.
  The rules are an executable acceptor (`Model/Percolator.lean: checksOf / applyEv / Monitor.step`) run by the judge
  on every recorded trace.  Theorems: the acceptor decides exactly the conjunction of its rule instances, what an
  accepted `commit` / `rollback` guarantees (rules 1, 2, 3, 7, 8), and the rule-9 mutation table equals the table of
  the property text for every combination of buffer facts.
-/
import ClientGoVerif.Proofs.Perc
import ClientGoVerif.Proofs.MvccFullSec
namespace CGV.Props.C04
open CGV CGV.Mvcc CGV.Perc

/-- the monitor accepts an event iff every rule instance it triggers holds, and then moves to `applyEv` -/
theorem monitor_sound_complete (m m' : MState) (ev : Ev) :
    Monitor.step m ev = .ok m' ↔ (∀ c ∈ checksOf m ev, c.1 = true) ∧ m' = applyEv m ev :=
  monitor_accepts_iff m m' ev

/-- a rejected event names a rule instance that is false -/
theorem monitor_rejects_only_violations (m : MState) (ev : Ev) (msg : String) (h : Monitor.step m ev = .error msg) :
    ∃ c ∈ checksOf m ev, c.1 = false ∧ c.2 = msg := by
  unfold Monitor.step at h
  cases hf : (checksOf m ev).find? (fun c => !c.1) with
  | none => rw [hf] at h; cases h
  | some c =>
    rw [hf] at h
    obtain ⟨b, s⟩ := c
    simp only [] at h
    injection h with h
    refine ⟨(b, s), List.mem_of_find?_eq_some hf, ?_, h⟩
    simpa using List.find?_some hf

/-- whole traces: the run is accepted iff every event passes in the state reached by the events before it -/
theorem trace_accepted_iff (m : MState) (evs : List Ev) (m' : MState) :
    evs.foldlM Monitor.step m = .ok m' ↔
      (evs.foldl applyEv m = m') ∧
      ∀ i (h : i < evs.length), ∀ c ∈ checksOf ((evs.take i).foldl applyEv m) (evs[i]), c.1 = true := by
  induction evs generalizing m with
  | nil =>
    simp only [List.foldlM_nil, List.foldl_nil, List.length_nil]
    constructor
    · intro h; injection h with h; exact ⟨h, fun i hi => absurd hi (Nat.not_lt_zero i)⟩
    · rintro ⟨h, _⟩; rw [h]; rfl
  | cons ev rest ih =>
    simp only [List.foldlM_cons, List.foldl_cons]
    cases hs : Monitor.step m ev with
    | error e =>
      simp only [bind, Except.bind]
      constructor
      · intro h; cases h
      · rintro ⟨_, hall⟩
        have h0 := hall 0 (by simp)
        simp only [List.take_zero, List.foldl_nil, List.getElem_cons_zero] at h0
        have := (monitor_accepts_iff m (applyEv m ev) ev).mpr ⟨h0, rfl⟩
        rw [hs] at this; cases this
    | ok m1 =>
      have hm1 := (monitor_accepts_iff m m1 ev).mp hs
      simp only [bind, Except.bind]
      rw [ih m1, hm1.2]
      constructor
      · rintro ⟨h1, h2⟩
        refine ⟨h1, ?_⟩
        intro i hi
        cases i with
        | zero => simpa using hm1.1
        | succ j =>
          have := h2 j (by simpa using hi)
          simpa using this
      · rintro ⟨h1, h2⟩
        refine ⟨h1, ?_⟩
        intro i hi
        have := h2 (i + 1) (by simpa using hi)
        simpa using this

/-- rules 1, 2, 7, 8 at the commit point -/
theorem accepted_commit_obeys_rules (m m' : MState) (client : String) (fate : Fate) (S C : Nat) (keys : List Bytes)
    (ok definite : Bool) (h : Monitor.step m (.commit client fate S C keys ok definite) = .ok m') :
    let t := m.get S client
    C > S ∧ (∀ mc ∈ t.minCommits, mc ≤ C) ∧
    (∀ x, t.commitCallTSO = some x → t.causal = true ∨ C > x) ∧
    (∀ k ∈ keys, k ∈ prewrittenKeys t) ∧
    (∀ k ∈ t.attemptedKeys, ∃ x ∈ t.prewritten, x.1 = k) ∧
    (∃ p, t.primary = some p ∧ p ∈ prewrittenKeys t) ∧
    ((∃ p, t.primary = some p ∧ p ∈ keys) ∨ t.primaryCommitted.isSome = true ∨ (t.asyncAcks > 0 ∧ t.plainAcks = 0)) ∧
    (∀ c, t.primaryCommitted = some c → c = C) :=
  monitor_accepts_commit m m' client fate S C keys ok definite h

/-- rule 3 -/
theorem accepted_rollback_obeys_rule3 (m m' : MState) (client : String) (fate : Fate) (S : Nat) (keys : List Bytes)
    (h : Monitor.step m (.rollback client fate S keys) = .ok m') :
    (m.get S client).client = client → (m.get S client).commitPointMaybe = false :=
  monitor_accepts_rollback m m' client fate S keys h

/-- rule 4 (the resolver's side of the discipline of C02's `percolator_atomicity`): an accepted resolve of one transaction
    names an outcome its sender LEARNED — as the owner whose primary commit succeeded at that ts, from a status answer of
    the store, or from a check-secondary-locks answer; what a status answer means for the store is
    `Props.C02.status_answers_justify_resolve` -/
theorem accepted_resolve_obeys_rule4 (m m' : MState) (client : String) (fate : Fate) (S C : Nat)
    (h : Monitor.step m (.resolve client fate S C []) = .ok m') :
    let t := m.get S client
    (0 < C → (t.client = client ∧ t.primaryCommitted = some C) ∨ (∃ a ∈ t.statusAnswers, a.1 = C) ∨ C ∈ t.secOutcomes ∨
      (t.secMinCommits ≠ [] ∧ ¬ (0 ∈ t.secOutcomes) ∧ C = t.secMinCommits.foldl max 0)) ∧
    (C = 0 → (∃ a ∈ t.statusAnswers, a.2 = true) ∨ 0 ∈ t.secOutcomes) :=
  monitor_accepts_resolve m m' client fate S C h

/-- rule 5, recovery half: an accepted CheckSecondaryLocks request (async-commit recovery) of a non-GC client comes after the
    ttl that client's latest status check of the transaction reported has elapsed on a timestamp the oracle issued -/
theorem accepted_recovery_obeys_rule5 (m m' : MState) (client : String) (S : Nat)
    (h : Monitor.step m (.secCheck client S) = .ok m') :
    isGC client = true ∨
      ∀ e, (m.get S client).statusTTLs.find? (·.1 == client) = some e → e.2 = 0 ∨ physical S + e.2 ≤ physical m.maxTSO :=
  monitor_accepts_secCheck m m' client S h

/-- rule 8 for pessimistic lock requests: the primary named is being locked by the request or was locked before -/
theorem accepted_plock_obeys_rule8 (m m' : MState) (client : String) (fate : Fate) (S : Nat) (p : Bytes) (keys : List Bytes)
    (ok : Bool) (h : Monitor.step m (.plock client fate S p keys ok) = .ok m') :
    p ∈ keys ∨ p ∈ (m.get S client).plockedKeys :=
  monitor_accepts_plock m m' client fate S p keys ok h

/-- rule 9: the op derived from a buffer entry is the one the property text prescribes, for all 64 fact combinations -/
theorem init_mutations_spec (pess : Bool) (b : BufEntry) :
    initOp pess b = initOpTable pess b.hasValue b.value.isEmpty b.presumeNotExists b.newlyInserted b.locked :=
  initOp_eq_table pess b

theorem init_mutations_facts (pess : Bool) (b : BufEntry) :
    (initOp pess b = some .put → b.hasValue = true ∧ b.value.isEmpty = false ∧ b.presumeNotExists = false) ∧
    (initOp pess b = some .insert → b.hasValue = true ∧ b.value.isEmpty = false ∧ b.presumeNotExists = true) ∧
    (initOp pess b = some .del → b.hasValue = true ∧ b.value.isEmpty = true ∧ b.newlyInserted = false) ∧
    (initOp pess b = some .checkNotExists → pess = false ∧ b.presumeNotExists = true ∧ b.value.isEmpty = true) ∧
    (initOp pess b = some .lock → b.locked = true) := initOp_facts pess b

/-! ### the store side of async-commit recovery (profile full): what CheckSecondaryLocks tells a resolver, for every key list.
    Together with rule 4 (`accepted_resolve_obeys_rule4`: commit ts = the largest min_commit_ts reported, rollback only after
    a `0` outcome) this is why a transaction whose async prewrites were ALL acknowledged can only be committed by whoever
    meets its locks — and why Commit must not answer a definite error after that point. -/
open CGV.MvccFull in
theorem async_recovery_all_locked_reports_every_key (f : FStore) (keys : List Bytes) (T : Nat)
    (h : ∀ k ∈ keys, PrewriteLocked f T k) :
    (fcheckSecondaryLocks f keys T).2.commitTS = 0 ∧ (fcheckSecondaryLocks f keys T).2.locks.map (·.key) = keys ∧
      (fcheckSecondaryLocks f keys T).1 = f.settle { f.base with kv := applyBatch f.base.kv [] } :=
  sec_all_locked f keys T h

open CGV.MvccFull in
theorem async_recovery_missing_lock_writes_rollback (f : FStore) (pre post : List Bytes) (k : Bytes) (T : Nat)
    (hpre : ∀ k' ∈ pre, PrewriteLocked f T k')
    (hl : (getEntry f.base.kv k).lock.filter (·.startTS == T) = none)
    (hr : txnCommitInfo (getEntry f.base.kv k).writes T = none) :
    (fcheckSecondaryLocks f (pre ++ k :: post) T).2.locks = [] ∧ (fcheckSecondaryLocks f (pre ++ k :: post) T).2.commitTS = 0 ∧
      (fcheckSecondaryLocks f (pre ++ k :: post) T).1 = f.settle { f.base with kv := applyBatch f.base.kv [rollbackMarker k T] } :=
  sec_first_missing f pre post k T hpre hl hr

open CGV.MvccFull in
theorem async_recovery_committed_key_reports_commit_ts (f : FStore) (pre post : List Bytes) (k : Bytes) (T : Nat) (c : Write)
    (hpre : ∀ k' ∈ pre, PrewriteLocked f T k')
    (hl : (getEntry f.base.kv k).lock.filter (·.startTS == T) = none)
    (hr : txnCommitInfo (getEntry f.base.kv k).writes T = some c) (hv : c.vt ≠ .rollback) :
    (fcheckSecondaryLocks f (pre ++ k :: post) T).2.locks = [] ∧ (fcheckSecondaryLocks f (pre ++ k :: post) T).2.commitTS = c.commitTS :=
  sec_first_committed f pre post k T c hpre hl hr hv

/-- non-vacuity: after an acknowledged async prewrite of two keys both are `PrewriteLocked` -/
example :
    let f := (MvccFull.fprewrite {} { mutations := [⟨.put, [0x61], [1], .none⟩, ⟨.put, [0x62], [2], .none⟩], primary := [0x61], startTS := 10, ttl := 3000 }
      { useAsync := true, secondaries := [[0x62]] }).1
    ∀ k ∈ [[0x61], [0x62]], MvccFull.PrewriteLocked f 10 k := by
  intro f k hk
  simp only [List.mem_cons, List.not_mem_nil, or_false] at hk
  rcases hk with rfl | rfl <;> exact (MvccFull.prewriteLocked_iff _ _ _).2 (by decide)

/-- non-vacuity: a well-behaved little trace is accepted, a commit below its start ts is not -/
example : (Monitor.step {} (.commit "c" .answered 10 5 [[0x61]] true false)).isOk = false := by decide

end CGV.Props.C04
