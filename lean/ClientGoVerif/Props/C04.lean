/-
  C04 — a transaction's request stream obeys the Percolator ordering and timestamp rules.
  The rules are an executable acceptor (`Model/Percolator.lean: checksOf / applyEv / Monitor.step`) run by the judge
  on every recorded trace.  Theorems: the acceptor decides exactly the conjunction of its rule instances, what an
  accepted `commit` / `rollback` guarantees (rules 1, 2, 3, 7, 8), and the rule-9 mutation table equals the table of
  the property text for every combination of buffer facts.
-/
import ClientGoVerif.Proofs.Perc
import ClientGoVerif.Proofs.MvccFullSec
import ClientGoVerif.Proofs.MvccLockKept
namespace CGV.Props.C04
open CGV CGV.Mvcc CGV.Perc

/-- the monitor accepts an event iff every rule instance it triggers holds, and then moves to `applyEv` -/
theorem monitor_sound_complete (m m' : MState) (ev : Ev) :
    Monitor.step m ev = .ok m' ↔ (∀ c ∈ checksOf m ev, c.1 = true) ∧ m' = applyEv m ev :=
  monitor_accepts_iff m m' ev

/-- a rejected event names a rule instance that is false -/
theorem monitor_rejects_only_violations (m : MState) (ev : Ev) (msg : String) (h : Monitor.step m ev = .error msg) :
    ∃ c ∈ checksOf m ev, c.1 = false ∧ c.2 = msg := by
  unfold Monitor.step at h
  cases hf : (checksOf m ev).find? (fun c => !c.1) with
  | none => rw [hf] at h; cases h
  | some c =>
    rw [hf] at h
    obtain ⟨b, s⟩ := c
    simp only [] at h
    injection h with h
    refine ⟨(b, s), List.mem_of_find?_eq_some hf, ?_, h⟩
    simpa using List.find?_some hf

/-- whole traces: the run is accepted iff every event passes in the state reached by the events before it -/
theorem trace_accepted_iff (m : MState) (evs : List Ev) (m' : MState) :
    evs.foldlM Monitor.step m = .ok m' ↔
      (evs.foldl applyEv m = m') ∧
      ∀ i (h : i < evs.length), ∀ c ∈ checksOf ((evs.take i).foldl applyEv m) (evs[i]), c.1 = true := by
  induction evs generalizing m with
  | nil =>
    simp only [List.foldlM_nil, List.foldl_nil, List.length_nil]
    constructor
    · intro h; injection h with h; exact ⟨h, fun i hi => absurd hi (Nat.not_lt_zero i)⟩
    · rintro ⟨h, _⟩; rw [h]; rfl
  | cons ev rest ih =>
    simp only [List.foldlM_cons, List.foldl_cons]
    cases hs : Monitor.step m ev with
    | error e =>
      simp only [bind, Except.bind]
      constructor
      · intro h; cases h
      · rintro ⟨_, hall⟩
        have h0 := hall 0 (by simp)
        simp only [List.take_zero, List.foldl_nil, List.getElem_cons_zero] at h0
        have := (monitor_accepts_iff m (applyEv m ev) ev).mpr ⟨h0, rfl⟩
        rw [hs] at this; cases this
    | ok m1 =>
      have hm1 := (monitor_accepts_iff m m1 ev).mp hs
      simp only [bind, Except.bind]
      rw [ih m1, hm1.2]
      constructor
      · rintro ⟨h1, h2⟩
        refine ⟨h1, ?_⟩
        intro i hi
        cases i with
        | zero => simpa using hm1.1
        | succ j =>
          have := h2 j (by simpa using hi)
          simpa using this
      · rintro ⟨h1, h2⟩
        refine ⟨h1, ?_⟩
        intro i hi
        have := h2 (i + 1) (by simpa using hi)
        simpa using this

/-- rules 1, 2, 7, 8 at the commit point -/
theorem accepted_commit_obeys_rules (m m' : MState) (client : String) (fate : Fate) (S C : Nat) (keys : List Bytes)
    (ok definite : Bool) (h : Monitor.step m (.commit client fate S C keys ok definite) = .ok m') :
    let t := m.get S client
    C > S ∧ (∀ mc ∈ t.minCommits, mc ≤ C) ∧
    (∀ x, t.commitCallTSO = some x → t.causal = true ∨ C > x) ∧
    (∀ k ∈ keys, k ∈ prewrittenKeys t) ∧
    (∀ k ∈ t.attemptedKeys, ∃ x ∈ t.prewritten, x.1 = k) ∧
    (∃ p, t.primary = some p ∧ p ∈ prewrittenKeys t) ∧
    ((∃ p, t.primary = some p ∧ p ∈ keys) ∨ t.primaryCommitted.isSome = true ∨ (t.asyncAcks > 0 ∧ t.plainAcks = 0)) ∧
    (∀ c, t.primaryCommitted = some c → c = C) :=
  monitor_accepts_commit m m' client fate S C keys ok definite h

/-- rule 3 -/
theorem accepted_rollback_obeys_rule3 (m m' : MState) (client : String) (fate : Fate) (S : Nat) (keys : List Bytes)
    (h : Monitor.step m (.rollback client fate S keys) = .ok m') :
    (m.get S client).client = client → (m.get S client).commitPointMaybe = false :=
  monitor_accepts_rollback m m' client fate S keys h

/-- rule 4 (the resolver's side of the discipline of C02's `percolator_atomicity`): an accepted resolve of one transaction
    names an outcome its sender LEARNED — as the owner whose primary commit succeeded at that ts, from a status answer of
    the store, or from a check-secondary-locks answer; what a status answer means for the store is
    `Props.C02.status_answers_justify_resolve` -/
theorem accepted_resolve_obeys_rule4 (m m' : MState) (client : String) (fate : Fate) (S C : Nat)
    (h : Monitor.step m (.resolve client fate S C []) = .ok m') :
    let t := m.get S client
    (0 < C → (t.client = client ∧ t.primaryCommitted = some C) ∨ (∃ a ∈ t.statusAnswers, a.1 = C) ∨ C ∈ t.secOutcomes ∨
      (t.secMinCommits ≠ [] ∧ ¬ (0 ∈ t.secOutcomes) ∧ C = t.secMinCommits.foldl max 0)) ∧
    (C = 0 → (∃ a ∈ t.statusAnswers, a.2 = true) ∨ 0 ∈ t.secOutcomes) :=
  monitor_accepts_resolve m m' client fate S C h

/-- rule 5, recovery half: an accepted CheckSecondaryLocks request (async-commit recovery) of a non-GC client comes after the
    ttl that client's latest status check of the transaction reported has elapsed on a timestamp the oracle issued -/
theorem accepted_recovery_obeys_rule5 (m m' : MState) (client : String) (S : Nat)
    (h : Monitor.step m (.secCheck client S) = .ok m') :
    isGC client = true ∨
      ∀ e, (m.get S client).statusTTLs.find? (·.1 == client) = some e → e.2 = 0 ∨ physical S + e.2 ≤ physical m.maxTSO :=
  monitor_accepts_secCheck m m' client S h

/-- rule 8 for pessimistic lock requests: the primary named is being locked by the request or was locked before -/
theorem accepted_plock_obeys_rule8 (m m' : MState) (client : String) (fate : Fate) (S : Nat) (p : Bytes) (keys : List Bytes)
    (ok : Bool) (h : Monitor.step m (.plock client fate S p keys ok) = .ok m') :
    p ∈ keys ∨ p ∈ (m.get S client).plockedKeys :=
  monitor_accepts_plock m m' client fate S p keys ok h

/-- rule 9: the op derived from a buffer entry is the one the property text prescribes, for all 64 fact combinations -/
theorem init_mutations_spec (pess : Bool) (b : BufEntry) :
    initOp pess b = initOpTable pess b.hasValue b.value.isEmpty b.presumeNotExists b.newlyInserted b.locked :=
  initOp_eq_table pess b

theorem init_mutations_facts (pess : Bool) (b : BufEntry) :
    (initOp pess b = some .put → b.hasValue = true ∧ b.value.isEmpty = false ∧ b.presumeNotExists = false) ∧
    (initOp pess b = some .insert → b.hasValue = true ∧ b.value.isEmpty = false ∧ b.presumeNotExists = true) ∧
    (initOp pess b = some .del → b.hasValue = true ∧ b.value.isEmpty = true ∧ b.newlyInserted = false) ∧
    (initOp pess b = some .checkNotExists → pess = false ∧ b.presumeNotExists = true ∧ b.value.isEmpty = true) ∧
    (initOp pess b = some .lock → b.locked = true) := initOp_facts pess b

/-! ### the store side of async-commit recovery (profile full): what CheckSecondaryLocks tells a resolver, for every key list.
    Together with rule 4 (`accepted_resolve_obeys_rule4`: commit ts = the largest min_commit_ts reported, rollback only after
    a `0` outcome) this is why a transaction whose async prewrites were ALL acknowledged can only be committed by whoever
    meets its locks — and why Commit must not answer a definite error after that point. -/
open CGV.MvccFull in
theorem async_recovery_all_locked_reports_every_key (f : FStore) (keys : List Bytes) (T : Nat)
    (h : ∀ k ∈ keys, PrewriteLocked f T k) :
    (fcheckSecondaryLocks f keys T).2.commitTS = 0 ∧ (fcheckSecondaryLocks f keys T).2.locks.map (·.key) = keys ∧
      (fcheckSecondaryLocks f keys T).1 = f.settle { f.base with kv := applyBatch f.base.kv [] } :=
  sec_all_locked f keys T h

open CGV.MvccFull in
theorem async_recovery_missing_lock_writes_rollback (f : FStore) (pre post : List Bytes) (k : Bytes) (T : Nat)
    (hpre : ∀ k' ∈ pre, PrewriteLocked f T k')
    (hl : (getEntry f.base.kv k).lock.filter (·.startTS == T) = none)
    (hr : txnCommitInfo (getEntry f.base.kv k).writes T = none) :
    (fcheckSecondaryLocks f (pre ++ k :: post) T).2.locks = [] ∧ (fcheckSecondaryLocks f (pre ++ k :: post) T).2.commitTS = 0 ∧
      (fcheckSecondaryLocks f (pre ++ k :: post) T).1 = f.settle { f.base with kv := applyBatch f.base.kv [rollbackMarker k T] } :=
  sec_first_missing f pre post k T hpre hl hr

open CGV.MvccFull in
theorem async_recovery_committed_key_reports_commit_ts (f : FStore) (pre post : List Bytes) (k : Bytes) (T : Nat) (c : Write)
    (hpre : ∀ k' ∈ pre, PrewriteLocked f T k')
    (hl : (getEntry f.base.kv k).lock.filter (·.startTS == T) = none)
    (hr : txnCommitInfo (getEntry f.base.kv k).writes T = some c) (hv : c.vt ≠ .rollback) :
    (fcheckSecondaryLocks f (pre ++ k :: post) T).2.locks = [] ∧ (fcheckSecondaryLocks f (pre ++ k :: post) T).2.commitTS = c.commitTS :=
  sec_first_committed f pre post k T c hpre hl hr hv

/-! ### why "all async prewrites acknowledged" means "can only be committed" — the three links, at the store:
    (1) an acknowledged prewrite leaves every locking mutation's key locked by the transaction (`acknowledged_prewrite_…`);
    (2) such a lock stays until the transaction's own commit / rollback step on that key (`prewrite_lock_stays_…`);
    (3) CheckSecondaryLocks over keys that are all locked answers "every key locked, commit ts 0" and touches nothing
        (`async_recovery_all_locked_reports_every_key`), and a status check leaves an async-commit primary alone.
    `all_acknowledged_async_prewrites_force_commit` composes them over the transaction's prewrite batches. -/

/-- (1) base store: an acknowledged prewrite (no mutation answered with an error) leaves the key of every mutation other
    than CheckNotExists locked by the transaction with a prewrite lock.  Keys may repeat among the mutations. -/
theorem acknowledged_prewrite_locks_every_key_base (s : Store) (r : PrewriteReq) (hs : SInv s)
    (hok : (prewrite s r).2.any Option.isSome = false) (hops : ∀ m ∈ r.mutations, m.op ≠ .pessimisticLock) :
    ∀ m ∈ r.mutations, m.op ≠ .checkNotExists →
      ∃ l, (getEntry (prewrite s r).1.kv m.key).lock = some l ∧ l.startTS = r.startTS ∧ l.op ≠ .pessimisticLock :=
  prewrite_ack_locks s r hs _ _ rfl hok hops

open CGV.MvccFull in
/-- (1) full store: an acknowledged prewrite without one-phase commit — plain 2PC, async commit, or the fallback when
    max_commit_ts cannot be honoured — that is not the idempotent answer to an already committed transaction
    (`ownCommitTS f r = none`; that answer writes nothing) leaves every locking mutation's key `PrewriteLocked` -/
theorem acknowledged_prewrite_locks_every_key (f : FStore) (r : PrewriteReq) (x : FPrewriteExtra) (hs : SInv f.base)
    (hx : x.tryOnePC = false) (hown : ownCommitTS f r = none)
    (hok : (fprewrite f r x).2.errs.any Option.isSome = false)
    (hops : ∀ m ∈ r.mutations, m.op ≠ .pessimisticLock) :
    ∀ m ∈ r.mutations, m.op ≠ .checkNotExists → PrewriteLocked (fprewrite f r x).1 r.startTS m.key :=
  fprewrite_ack_locks f r x hs hx hown hok hops

open CGV.MvccFull in
/-- (1) async branch: when the acknowledged prewrite is answered with a min_commit_ts, every locking mutation's key that
    was not already locked by the transaction now carries an ASYNC-COMMIT lock of it -/
theorem acknowledged_async_prewrite_writes_async_locks (f : FStore) (r : PrewriteReq) (x : FPrewriteExtra) (hs : SInv f.base)
    (hx : x.tryOnePC = false) (hown : ownCommitTS f r = none)
    (hok : (fprewrite f r x).2.errs.any Option.isSome = false)
    (hops : ∀ m ∈ r.mutations, m.op ≠ .pessimisticLock) (hmc : (fprewrite f r x).2.minCommitTS ≠ 0) :
    ∀ m ∈ r.mutations, m.op ≠ .checkNotExists →
      PrewriteLocked f r.startTS m.key ∨
        ((asyncOf (fprewrite f r x).1 m.key r.startTS).isSome = true ∧ isAsyncLock (fprewrite f r x).1 m.key r.startTS = true) :=
  fprewrite_ack_async f r x hs.1 hx hown hok hops hmc

/-- (2) a prewrite lock of `T` on `k` is still there after ANY command sequence respecting the callers' contract in which
    no command can take a `commit T _`, `rollback T` or destroy-range step on `k`: prewrites, pessimistic-lock requests
    and pessimistic rollbacks (of `T` or anybody), commits / rollbacks / resolves of other transactions, status checks
    of other transactions, heartbeats and GC all leave it in place -/
theorem prewrite_lock_stays_until_own_commit_or_rollback (T : TS) (k : Bytes) (s : Store) (cs : List Cmd) (hs : SInv s)
    (hok : OkAll s cs) (hg : GuardAll (fun _ lab => lab.keepsLock T) k s cs)
    (hl : ∃ l, (getEntry s.kv k).lock = some l ∧ l.startTS = T ∧ l.op ≠ .pessimisticLock) :
    ∃ l, (getEntry (runAll s cs).kv k).lock = some l ∧ l.startTS = T ∧ l.op ≠ .pessimisticLock :=
  runAll_lock_kept T k s cs hs hok hg hl

/-- (2) one step of the per-key transition system: the labels that can remove or replace a prewrite lock of `T` are
    exactly `commit T _`, `rollback T`, `locks _`, `unlock`, `wipe` (the store's `locks` / `unlock` steps never hit a
    key with a prewrite lock, which is what the command-level statement above uses) -/
theorem prewrite_lock_kept_by_step {e e' : Entry} {lab : KLabel} {T : TS} (h : KStep e lab e')
    (hl : LockedBy e T) (hg : lab.keepsLockStep T) : LockedBy e' T := h.lock_kept hl hg

open CGV.MvccFull in
/-- (2) in the full store: a base command served through `settle` keeps the lock under the same guard; a prewrite request
    of any kind keeps it; a CheckSecondaryLocks that finds all its keys locked keeps it -/
theorem prewrite_lock_stays_in_full_store (f : FStore) (T : Nat) (k : Bytes) (hs : SInv f.base) (hl : PrewriteLocked f T k) :
    (∀ c : Cmd, c.Ok f.base → (∀ lab, c.labels k lab → lab.keepsLock T) → PrewriteLocked (f.settle (c.run f.base)) T k) ∧
    (∀ r x, PrewriteLocked (fprewrite f r x).1 T k) ∧
    (∀ keys T', (∀ k' ∈ keys, PrewriteLocked f T' k') → PrewriteLocked (fcheckSecondaryLocks f keys T').1 T k) :=
  ⟨fun c hok hg => settle_cmd_lock_kept f c hs hok k T hl hg,
   fun r x => fprewrite_keeps_locks f r x hs.1 T k hl,
   fun keys T' h => fcheckSecondaryLocks_all_locked_keeps f keys T' h k T hl⟩

open CGV.MvccFull in
/-- (3) a status check that meets an async-commit primary does not roll it back, however old it is -/
theorem async_primary_survives_status_check (f : FStore) (p : Bytes) (T caller cur : Nat) (rb rp : Bool)
    (h : isAsyncLock f p T = true) :
    (fcheckTxnStatus f p T caller cur rb rp false).1.base = f.base ∧
      (fcheckTxnStatus f p T caller cur rb rp false).2.base.action = .noAction ∧
      (fcheckTxnStatus f p T caller cur rb rp false).2.base.commitTS = 0 ∧
      (fcheckTxnStatus f p T caller cur rb rp false).2.base.err = none :=
  fcheckTxnStatus_async_primary_untouched f p T caller cur rb rp h

open CGV.MvccFull in
/-- ALL PREWRITES ACKNOWLEDGED ⇒ ONLY COMMIT.  Run the prewrite batches of transaction `T` (in any grouping, keys may
    repeat, other transactions' prewrites of any kind in between), every one of them acknowledged (`AckedAll`).  Then
    CheckSecondaryLocks for `T` over ANY list of keys the batches locked — the secondaries the primary names — answers
    every key locked, commit ts 0, writes nothing, and all those keys are still locked afterwards.  By rule 4
    (`accepted_resolve_obeys_rule4`) a resolver that got this answer may only commit, at the largest min_commit_ts
    reported; a rollback needs a `0` outcome among the secondaries or a rolled-back status, neither of which the store
    gives while the locks are there (`prewrite_lock_stays_…`, `async_primary_survives_status_check`). -/
theorem all_acknowledged_async_prewrites_force_commit (f : FStore) (rs : List (PrewriteReq × FPrewriteExtra)) (T : Nat)
    (keys : List Bytes) (hs : KvSorted f.base.kv) (hack : AckedAll T f rs)
    (hkeys : ∀ k ∈ keys, ∃ q ∈ rs, q.1.startTS = T ∧ ∃ m ∈ q.1.mutations, m.key = k ∧ m.op ≠ .checkNotExists) :
    let f' := fprewriteAll f rs
    (fcheckSecondaryLocks f' keys T).2.commitTS = 0 ∧
      (fcheckSecondaryLocks f' keys T).2.locks.map (·.key) = keys ∧
      (fcheckSecondaryLocks f' keys T).1 = f'.settle { f'.base with kv := applyBatch f'.base.kv [] } ∧
      ∀ k ∈ keys, PrewriteLocked (fcheckSecondaryLocks f' keys T).1 T k := by
  intro f'
  have hall : ∀ k ∈ keys, PrewriteLocked f' T k := by
    intro k hk
    obtain ⟨q, hq, hT, m, hm, rfl, hne⟩ := hkeys k hk
    exact fprewriteAll_ack_locks f rs T hs hack q hq hT m hm hne
  obtain ⟨h1, h2, h3⟩ := sec_all_locked f' keys T hall
  exact ⟨h1, h2, h3, fun k hk => fcheckSecondaryLocks_all_locked_keeps f' keys T hall k T (hall k hk)⟩

/-- non-vacuity of `acknowledged_prewrite_locks_every_key` / `acknowledged_async_prewrite_writes_async_locks`: an async
    prewrite of two keys on the empty store meets every hypothesis (and is answered with a min_commit_ts) -/
example :
    let f : MvccFull.FStore := {}
    let r : PrewriteReq := { mutations := [⟨.put, [0x61], [1], .none⟩, ⟨.insert, [0x62], [2], .none⟩, ⟨.checkNotExists, [0x63], [], .none⟩],
                             primary := [0x61], startTS := 10, ttl := 3000 }
    let x : MvccFull.FPrewriteExtra := { useAsync := true, secondaries := [[0x62]] }
    SInv f.base ∧ x.tryOnePC = false ∧ MvccFull.ownCommitTS f r = none ∧
      (MvccFull.fprewrite f r x).2.errs.any Option.isSome = false ∧ (∀ m ∈ r.mutations, m.op ≠ .pessimisticLock) ∧
      (MvccFull.fprewrite f r x).2.minCommitTS ≠ 0 ∧ (∃ m ∈ r.mutations, m.op ≠ .checkNotExists) :=
  ⟨SInv.empty, rfl, by decide, by decide, by decide, by decide, by decide⟩

/-- non-vacuity of `acknowledged_prewrite_locks_every_key_base`, with a repeated key -/
example :
    let r : PrewriteReq := { mutations := [⟨.put, [0x61], [1], .none⟩, ⟨.del, [0x61], [], .none⟩], primary := [0x61], startTS := 10, ttl := 3000 }
    SInv ({} : Store) ∧ (prewrite {} r).2.any Option.isSome = false ∧ (∀ m ∈ r.mutations, m.op ≠ .pessimisticLock) :=
  ⟨SInv.empty, by decide, by decide⟩

/-- non-vacuity of `prewrite_lock_stays_until_own_commit_or_rollback`: transaction 10 holds a prewrite lock on `a`;
    a prewrite of transaction 20 on `a` and `b`, a heartbeat of 10, a commit of 20's key `b` and a resolve-rollback of 20
    over the whole range all satisfy the contract and the guard -/
example :
    let r : PrewriteReq := { mutations := [⟨.put, [0x61], [1], .none⟩], primary := [0x61], startTS := 10, ttl := 3000 }
    let s : Store := (prewrite {} r).1
    let cs : List Cmd := [.prewrite { mutations := [⟨.put, [0x61], [7], .none⟩, ⟨.put, [0x62], [8], .none⟩], primary := [0x62], startTS := 20, ttl := 3000 },
                          .heartbeat [0x61] 10 9000, .commit [[0x62]] 20 25, .resolve [] [] 20 0]
    SInv s ∧ OkAll s cs ∧ GuardAll (fun _ lab => lab.keepsLock 10) [0x61] s cs ∧
      (∃ l, (getEntry s.kv [0x61]).lock = some l ∧ l.startTS = 10 ∧ l.op ≠ .pessimisticLock) := by
  intro r s cs
  refine ⟨SInv_prewrite {} s r (prewrite {} r).2 SInv.empty rfl, ⟨trivial, trivial, ⟨by decide, by decide⟩, Or.inl rfl, trivial⟩, ?_,
    (MvccFull.prewriteLocked_iff { base := s } 10 [0x61]).2 (by decide)⟩
  refine ⟨?_, ?_, ?_, ?_, trivial⟩
  · intro lab h; rcases h with rfl | rfl <;> trivial
  · intro lab h; rcases h with rfl | ⟨_, rfl⟩ <;> trivial
  · intro lab h; rcases h with rfl | ⟨_, rfl⟩
    · trivial
    · show (20 : Nat) ≠ 10; decide
  · intro lab h; rcases h with rfl | ⟨_, ⟨h0, _⟩ | ⟨_, rfl⟩⟩
    · trivial
    · exact absurd h0 (by decide)
    · show (20 : Nat) ≠ 10; decide

/-- non-vacuity of `all_acknowledged_async_prewrites_force_commit`: the primary batch and the secondary batch of an
    async-commit transaction, with a one-phase commit of another transaction in between, all acknowledged -/
example :
    let rs : List (PrewriteReq × MvccFull.FPrewriteExtra) :=
      [({ mutations := [⟨.put, [0x61], [1], .none⟩], primary := [0x61], startTS := 10, ttl := 3000 }, { useAsync := true, secondaries := [[0x62]] }),
       ({ mutations := [⟨.put, [0x70], [9], .none⟩], primary := [0x70], startTS := 12, ttl := 3000 }, { tryOnePC := true }),
       ({ mutations := [⟨.put, [0x62], [2], .none⟩], primary := [0x61], startTS := 10, ttl := 3000 }, { useAsync := true })]
    KvSorted ({} : MvccFull.FStore).base.kv ∧ MvccFull.AckedAll 10 {} rs ∧
      ∀ k ∈ [[0x62]], ∃ q ∈ rs, q.1.startTS = 10 ∧ ∃ m ∈ q.1.mutations, m.key = k ∧ m.op ≠ .checkNotExists := by
  intro rs
  refine ⟨trivial, ⟨fun _ => ⟨rfl, by decide, by decide, by decide⟩, fun h => absurd h (by decide),
    fun _ => ⟨rfl, by decide, by decide, by decide⟩, trivial⟩, ?_⟩
  intro k hk
  simp only [List.mem_cons, List.not_mem_nil, or_false] at hk
  subst hk
  exact ⟨_, List.mem_cons_of_mem _ (List.mem_cons_of_mem _ (List.mem_cons_self ..)), rfl, _, List.mem_cons_self .., rfl, by decide⟩

open CGV.MvccFull in
theorem async_recovery_rolled_back_key_reports_no_locks (f : FStore) (pre post : List Bytes) (k : Bytes) (T : Nat) (c : Write)
    (hpre : ∀ k' ∈ pre, PrewriteLocked f T k')
    (hl : (getEntry f.base.kv k).lock.filter (·.startTS == T) = none)
    (hr : txnCommitInfo (getEntry f.base.kv k).writes T = some c) (hv : c.vt = .rollback) :
    (fcheckSecondaryLocks f (pre ++ k :: post) T).2.locks = [] ∧ (fcheckSecondaryLocks f (pre ++ k :: post) T).2.commitTS = 0 :=
  sec_first_rolled_back f pre post k T c hpre hl hr hv

/-- non-vacuity: after an acknowledged async prewrite of two keys both are `PrewriteLocked` -/
example :
    let f := (MvccFull.fprewrite {} { mutations := [⟨.put, [0x61], [1], .none⟩, ⟨.put, [0x62], [2], .none⟩], primary := [0x61], startTS := 10, ttl := 3000 }
      { useAsync := true, secondaries := [[0x62]] }).1
    ∀ k ∈ [[0x61], [0x62]], MvccFull.PrewriteLocked f 10 k := by
  intro f k hk
  simp only [List.mem_cons, List.not_mem_nil, or_false] at hk
  rcases hk with rfl | rfl <;> exact (MvccFull.prewriteLocked_iff _ _ _).2 (by decide)

/-- non-vacuity: a well-behaved little trace is accepted, a commit below its start ts is not -/
example : (Monitor.step {} (.commit "c" .answered 10 5 [[0x61]] true false)).isOk = false := by decide

end CGV.Props.C04
