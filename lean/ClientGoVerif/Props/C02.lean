/-
  C02 — a client crash anywhere in commit leaves an all-or-nothing, ack-consistent state.
  proved   the outcome oracle is sound (`committed c` ⇒ every record of the transaction on every key is a data record
           at commit ts c, and no lock is left; not `mixed` ⇒ never a data record next to a rollback record);
           the store kernel: committing / rolling back a lock keeps "never both" (NoMix) when the transaction has no
           record yet, a prewrite only takes a lock on a key where it has none, a rollback leaves the marker that
           rejects a late prewrite; resolving with the reported status writes exactly that status;
           `reachable_never_both`: in every store state reachable by any command sequence respecting the callers'
           contract (whatever the client did before it crashed, whatever recovery did after), no key holds a data
           record next to a rollback record of one transaction.
  partial  `crash_ack_consistent` for the committer model (every crash index) is not built: the crash enumeration of
           checks/c02.py explores it on the real client and the judge applies the oracle to every final state.
-/
import ClientGoVerif.Proofs.MvccInv
import ClientGoVerif.Proofs.MvccLocks
import ClientGoVerif.Proofs.Perc
import ClientGoVerif.Proofs.MvccReach
import ClientGoVerif.Proofs.MvccTemporal
namespace CGV.Props.C02
open CGV CGV.Mvcc CGV.Perc

theorem outcome_committed_sound (s : Store) (T c : Nat) (h : outcomeOf s T = .committed c) :
    (∀ w ∈ recsOf s T, w.vt ≠ .rollback ∧ w.commitTS = c) ∧ recsOf s T ≠ [] ∧ hasLockOf s T = false :=
  outcomeOf_committed s T c h

theorem outcome_not_mixed_sound (s : Store) (T : Nat) (h : ∀ why, outcomeOf s T ≠ .mixed why) :
    ¬ (∃ w1 ∈ recsOf s T, ∃ w2 ∈ recsOf s T, w1.vt ≠ .rollback ∧ w2.vt = .rollback) :=
  outcomeOf_not_mixed s T h

theorem commit_rollback_keep_never_both (e : Entry) (l : Lock) (k : Bytes) (T C : Nat)
    (hn : NoMix e.writes) (hf : Fresh e.writes T) :
    NoMix ((commitLock l k T C).foldl entryAct e).writes ∧
      NoMix ((rollbackLock k T).foldl entryAct e).writes ∧
      NoMix (([rollbackMarker k T]).foldl entryAct e).writes :=
  ⟨commitLock_NoMix e l k T C hn hf, (rollback_NoMix e k T hn hf).1, (rollback_NoMix e k T hn hf).2⟩

theorem rollback_blocks_late_prewrite (s : Store) (r : PrewriteReq) (m : Mutation) (act : PAction)
    (hd : Desc (getEntry s.kv m.key).writes)
    (hm : ∃ w ∈ (getEntry s.kv m.key).writes, w.vt = .rollback ∧ w.commitTS = r.startTS)
    (hown : ∀ l, (getEntry s.kv m.key).lock = some l → l.startTS = r.startTS → l.op = .pessimisticLock) :
    ∃ e, prewriteMutation s r m act = .error e := prewrite_after_rollback_rejected s r m act hd hm hown

/-- the store half of all-or-nothing, for every reachable state: whatever prefix of the commit protocol ran before
    the crash and whatever recovery commands ran after it, no key ends with both outcomes for one transaction -/
theorem reachable_never_both (s : Store) (h : Reachable s) : ∀ p ∈ s.kv, NoMix p.2.writes :=
  fun p hp => (h.entries p hp).nomix

/-- an applied commit is durable: the commit record of a transaction on a key is still there after ANY later command
    sequence respecting the callers' contract — other clients' traffic, every recovery path (status check, resolve,
    cleanup, rollback requests for this very transaction) — as long as GC / destroy-range do not run over it and no
    command writes at its version (distinct timestamps).  With `reachable_never_both` no rollback record of the
    transaction can appear next to it. -/
theorem applied_commit_is_durable (w : Write) (k : Bytes) (s : Store) (cs : List Cmd) (hs : SInv s)
    (hok : OkAll s cs) (hg : GuardAll (fun _ lab => lab.keepsRecord w) k s cs) (hw : w ∈ (getEntry s.kv k).writes) :
    w ∈ (getEntry (runAll s cs).kv k).writes ∧ NoMix (getEntry (runAll s cs).kv k).writes :=
  ⟨runAll_record_stays w k s cs hs hok hg hw, ((runAll_inv s cs hs hok).2 k).nomix⟩

/-- one commit timestamp per key: in every reachable state a transaction has at most one record on a key -/
theorem one_record_per_txn_per_key (s : Store) (h : Reachable s) (k : Bytes) :
    ∀ w1 ∈ (getEntry s.kv k).writes, ∀ w2 ∈ (getEntry s.kv k).writes, w1.startTS = w2.startTS → w1 = w2 :=
  h.uniq k

/-- the outcome on a key is final: whatever command runs next, if the transaction already has a record on the key
    (commit record or rollback marker), the step the key takes is not a commit, rollback, marker or lock step of it -/
theorem outcome_on_key_is_final (s : Store) (c : Cmd) (hs : SInv s) (hok : c.Ok s) (k : Bytes) (T : Nat)
    (hrec : ∃ w ∈ (getEntry s.kv k).writes, w.startTS = T) :
    ∃ lab, c.labels k lab ∧ KStep (getEntry s.kv k) lab (getEntry (c.run s).kv k) ∧ lab.txn ≠ some T := by
  obtain ⟨lab, hlab, hst⟩ := (run_refines s c hs hok).2 k
  exact ⟨lab, hlab, hst, hst.final (hs.2 k) hrec⟩

/-- recovery by resolve removes the lock it resolves (commit or rollback alike) -/
theorem resolve_kernel_removes_lock (e : Entry) (l : Lock) (k : Bytes) (T C : Nat) :
    LockFreeOf ((commitLock l k T C).foldl entryAct e) T ∧ LockFreeOf ((rollbackLock k T).foldl entryAct e) T :=
  ⟨lockFree_after_commitLock e l k T C, lockFree_after_rollbackLock e k T⟩

example : outcomeOf { kv := [([0x61], { writes := [⟨.put, 10, 20, [1]⟩] })] } 10 = .committed 20 := by decide

end CGV.Props.C02
