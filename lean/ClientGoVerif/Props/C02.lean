/-
  C02 — a client crash anywhere in commit leaves an all-or-nothing, ack-consistent state.
  proved   the outcome oracle is sound (`committed c` ⇒ every record of the transaction on every key is a data record
           at commit ts c, and no lock is left; not `mixed` ⇒ never a data record next to a rollback record);
           the store kernel: committing / rolling back a lock keeps "never both" (NoMix) when the transaction has no
           record yet, a prewrite only takes a lock on a key where it has none, a rollback leaves the marker that
           rejects a late prewrite; resolving with the reported status writes exactly that status.
  partial  `crash_ack_consistent` for the committer model (every crash index) is not built: the crash enumeration of
           checks/c02.py explores it on the real client and the judge applies the oracle to every final state.
-/
import ClientGoVerif.Proofs.MvccInv
import ClientGoVerif.Proofs.MvccLocks
import ClientGoVerif.Proofs.Perc
namespace CGV.Props.C02
open CGV CGV.Mvcc CGV.Perc

theorem outcome_committed_sound (s : Store) (T c : Nat) (h : outcomeOf s T = .committed c) :
    (∀ w ∈ recsOf s T, w.vt ≠ .rollback ∧ w.commitTS = c) ∧ recsOf s T ≠ [] ∧ hasLockOf s T = false :=
  outcomeOf_committed s T c h

theorem outcome_not_mixed_sound (s : Store) (T : Nat) (h : ∀ why, outcomeOf s T ≠ .mixed why) :
    ¬ (∃ w1 ∈ recsOf s T, ∃ w2 ∈ recsOf s T, w1.vt ≠ .rollback ∧ w2.vt = .rollback) :=
  outcomeOf_not_mixed s T h

theorem commit_rollback_keep_never_both (e : Entry) (l : Lock) (k : Bytes) (T C : Nat)
    (hn : NoMix e.writes) (hf : Fresh e.writes T) :
    NoMix ((commitLock l k T C).foldl entryAct e).writes ∧
      NoMix ((rollbackLock k T).foldl entryAct e).writes ∧
      NoMix (([rollbackMarker k T]).foldl entryAct e).writes :=
  ⟨commitLock_NoMix e l k T C hn hf, (rollback_NoMix e k T hn hf).1, (rollback_NoMix e k T hn hf).2⟩

theorem rollback_blocks_late_prewrite (s : Store) (r : PrewriteReq) (m : Mutation) (act : PAction)
    (hd : Desc (getEntry s.kv m.key).writes)
    (hm : ∃ w ∈ (getEntry s.kv m.key).writes, w.vt = .rollback ∧ w.commitTS = r.startTS)
    (hown : ∀ l, (getEntry s.kv m.key).lock = some l → l.startTS = r.startTS → l.op = .pessimisticLock) :
    ∃ e, prewriteMutation s r m act = .error e := prewrite_after_rollback_rejected s r m act hd hm hown

/-- recovery by resolve removes the lock it resolves (commit or rollback alike) -/
theorem resolve_kernel_removes_lock (e : Entry) (l : Lock) (k : Bytes) (T C : Nat) :
    LockFreeOf ((commitLock l k T C).foldl entryAct e) T ∧ LockFreeOf ((rollbackLock k T).foldl entryAct e) T :=
  ⟨lockFree_after_commitLock e l k T C, lockFree_after_rollbackLock e k T⟩

example : outcomeOf { kv := [([0x61], { writes := [⟨.put, 10, 20, [1]⟩] })] } 10 = .committed 20 := by decide

end CGV.Props.C02
