/-
  C02 — a client crash anywhere in commit leaves an all-or-nothing, ack-consistent state.
  proved   the outcome oracle is sound (`committed c` ⇒ every record of the transaction on every key is a data record
           at commit ts c, and no lock is left; not `mixed` ⇒ never a data record next to a rollback record);
           the store kernel: committing / rolling back a lock keeps "never both" (NoMix) when the transaction has no
           record yet, a prewrite only takes a lock on a key where it has none, a rollback leaves the marker that
           rejects a late prewrite; resolving with the reported status writes exactly that status;
           `reachable_never_both`: in every store state reachable by any command sequence respecting the callers'
           contract (whatever the client did before it crashed, whatever recovery did after), no key holds a data
           record next to a rollback record of one transaction.
           `percolator_atomicity`: for EVERY command sequence — any number of clients, keys, crashes at any point (a crash
           is just the owner's commands stopping; any prefix is a command sequence), any recovery traffic — in which the
           commands carrying the transaction's start ts obey the owner/resolver discipline `Disc` (a secondary is
           committed only after the primary is committed at that ts, or in the batch that commits the primary's prewrite
           lock; rolled back only after the primary is rolled back, or with/on the primary), the final store is
           all-or-nothing: no key has a data record of the transaction while another has a rollback record, and all its
           data records carry one commit ts.  `Disc` is what rules 2/3 and the resolver rule of the C04 monitor check on
           every recorded request stream of the real client.
  partial  `crash_ack_consistent` for the committer model (every crash index) is not built: the crash enumeration of
           checks/c02.py explores it on the real client and the judge applies the oracle to every final state.
-/
import ClientGoVerif.Proofs.MvccInv
import ClientGoVerif.Proofs.MvccLocks
import ClientGoVerif.Proofs.Perc
import ClientGoVerif.Proofs.MvccReach
import ClientGoVerif.Proofs.MvccTemporal
import ClientGoVerif.Proofs.MvccAtomic
namespace CGV.Props.C02
open CGV CGV.Mvcc CGV.Perc

theorem outcome_committed_sound (s : Store) (T c : Nat) (h : outcomeOf s T = .committed c) :
    (∀ w ∈ recsOf s T, w.vt ≠ .rollback ∧ w.commitTS = c) ∧ recsOf s T ≠ [] ∧ hasLockOf s T = false :=
  outcomeOf_committed s T c h

theorem outcome_not_mixed_sound (s : Store) (T : Nat) (h : ∀ why, outcomeOf s T ≠ .mixed why) :
    ¬ (∃ w1 ∈ recsOf s T, ∃ w2 ∈ recsOf s T, w1.vt ≠ .rollback ∧ w2.vt = .rollback) :=
  outcomeOf_not_mixed s T h

theorem commit_rollback_keep_never_both (e : Entry) (l : Lock) (k : Bytes) (T C : Nat)
    (hn : NoMix e.writes) (hf : Fresh e.writes T) :
    NoMix ((commitLock l k T C).foldl entryAct e).writes ∧
      NoMix ((rollbackLock k T).foldl entryAct e).writes ∧
      NoMix (([rollbackMarker k T]).foldl entryAct e).writes :=
  ⟨commitLock_NoMix e l k T C hn hf, (rollback_NoMix e k T hn hf).1, (rollback_NoMix e k T hn hf).2⟩

theorem rollback_blocks_late_prewrite (s : Store) (r : PrewriteReq) (m : Mutation) (act : PAction)
    (hd : Desc (getEntry s.kv m.key).writes)
    (hm : ∃ w ∈ (getEntry s.kv m.key).writes, w.vt = .rollback ∧ w.commitTS = r.startTS)
    (hown : ∀ l, (getEntry s.kv m.key).lock = some l → l.startTS = r.startTS → l.op = .pessimisticLock) :
    ∃ e, prewriteMutation s r m act = .error e := prewrite_after_rollback_rejected s r m act hd hm hown

/-- the store half of all-or-nothing, for every reachable state: whatever prefix of the commit protocol ran before
    the crash and whatever recovery commands ran after it, no key ends with both outcomes for one transaction -/
theorem reachable_never_both (s : Store) (h : Reachable s) : ∀ p ∈ s.kv, NoMix p.2.writes :=
  fun p hp => (h.entries p hp).nomix

/-- an applied commit is durable: the commit record of a transaction on a key is still there after ANY later command
    sequence respecting the callers' contract — other clients' traffic, every recovery path (status check, resolve,
    cleanup, rollback requests for this very transaction) — as long as GC / destroy-range do not run over it and no
    command writes at its version (distinct timestamps).  With `reachable_never_both` no rollback record of the
    transaction can appear next to it. -/
theorem applied_commit_is_durable (w : Write) (k : Bytes) (s : Store) (cs : List Cmd) (hs : SInv s)
    (hok : OkAll s cs) (hg : GuardAll (fun _ lab => lab.keepsRecord w) k s cs) (hw : w ∈ (getEntry s.kv k).writes) :
    w ∈ (getEntry (runAll s cs).kv k).writes ∧ NoMix (getEntry (runAll s cs).kv k).writes :=
  ⟨runAll_record_stays w k s cs hs hok hg hw, ((runAll_inv s cs hs hok).2 k).nomix⟩

/-- one commit timestamp per key: in every reachable state a transaction has at most one record on a key -/
theorem one_record_per_txn_per_key (s : Store) (h : Reachable s) (k : Bytes) :
    ∀ w1 ∈ (getEntry s.kv k).writes, ∀ w2 ∈ (getEntry s.kv k).writes, w1.startTS = w2.startTS → w1 = w2 :=
  h.uniq k

/-- the outcome on a key is final: whatever command runs next, if the transaction already has a record on the key
    (commit record or rollback marker), the step the key takes is not a commit, rollback, marker or lock step of it -/
theorem outcome_on_key_is_final (s : Store) (c : Cmd) (hs : SInv s) (hok : c.Ok s) (k : Bytes) (T : Nat)
    (hrec : ∃ w ∈ (getEntry s.kv k).writes, w.startTS = T) :
    ∃ lab, c.labels k lab ∧ KStep (getEntry s.kv k) lab (getEntry (c.run s).kv k) ∧ lab.txn ≠ some T := by
  obtain ⟨lab, hlab, hst⟩ := (run_refines s c hs hok).2 k
  exact ⟨lab, hlab, hst, hst.final (hs.2 k) hrec⟩

/-- all-or-nothing across keys, for every run: from the empty store, after ANY command list respecting the callers'
    contract (`OkAll`) in which the commands of transaction `T` (primary `p`) obey the discipline and nothing removes
    `T`'s record from the primary (`DiscAll`): (1) no key carries a data record of `T` while some key carries a rollback
    record of `T`; (2) all data records of `T` have the same commit ts -/
theorem percolator_atomicity (T : Nat) (p : Bytes) (cs : List Cmd) (hok : OkAll {} cs) (hd : DiscAll T p {} cs) :
    let s := runAll {} cs
    (∀ k1 k2 C, HasData (getEntry s.kv k1) T C → HasRb (getEntry s.kv k2) T → False) ∧
    (∀ k1 k2 C1 C2, HasData (getEntry s.kv k1) T C1 → HasData (getEntry s.kv k2) T C2 → C1 = C2) := by
  intro s
  have ha : Atomic T p s := runAll_atomic T p {} cs SInv.empty hok hd (Atomic.empty T p)
  have hr : Reachable s := Reachable.init.runAll cs hok
  exact ⟨fun k1 k2 C h1 h2 => ha.never_mixed hr.inv k1 k2 C h1 h2,
    fun k1 k2 C1 C2 h1 h2 => ha.one_commit_ts (hr.uniq p) k1 k2 C1 C2 h1 h2⟩

/-- non-vacuity: prewrite of two keys, commit of the primary, commit of the secondary obey the discipline -/
def demoPrewrite : Cmd :=
  Cmd.prewrite { mutations := [⟨.put, [0x61], [1], .none⟩, ⟨.put, [0x62], [2], .none⟩], primary := [0x61],
                 startTS := 10, ttl := 3000 }
def demoRun : List Cmd := [demoPrewrite, Cmd.commit [[0x61]] 10 20, Cmd.commit [[0x62]] 10 20]

example : OkAll {} demoRun := by simp [OkAll, Cmd.Ok, demoRun, demoPrewrite]

example : DiscAll 10 [0x61] {} demoRun := by
  refine ⟨trivial, ?_, ?_, ?_, ?_, ?_, trivial⟩
  · rintro lab (rfl | rfl) <;> simp [KLabel.txn, KLabel.keepsTxn, KLabel.keepsRecord]
  · intro _; right
    refine ⟨by simp, ?_, ?_⟩
    · intro l hl _
      have h0 : (getEntry (Cmd.run {} demoPrewrite).kv [0x61]).lock = some ⟨10, [0x61], [1], .put, 3000, 0, 0, 0⟩ := by decide
      have : l = ⟨10, [0x61], [1], .put, 3000, 0, 0, 0⟩ := Option.some.inj (hl.symm.trans h0)
      subst this; decide
    · rintro C' ⟨w, hw, _⟩
      have h0 : (getEntry (Cmd.run {} demoPrewrite).kv [0x61]).writes = [] := by decide
      rw [h0] at hw; cases hw
  · rintro lab (rfl | ⟨_, rfl⟩) <;> simp [KLabel.txn, KLabel.keepsTxn, KLabel.keepsRecord]
  · intro _; left; exact ⟨⟨.put, 10, 20, [1]⟩, by decide, rfl, by decide, rfl⟩
  · rintro lab (rfl | ⟨_, rfl⟩) <;> simp [KLabel.txn, KLabel.keepsTxn, KLabel.keepsRecord]

/-- the resolver's side of the discipline is what the store tells it: a status check that answers a commit ts found the
    primary's data record at that ts (so resolving secondaries as committed at that ts obeys `Disc`), and one that
    answers a rollback action left the primary's rollback record (so resolving them as rolled back obeys it) -/
theorem status_answers_justify_resolve (s s' : Store) (p : Bytes) (T caller cur : Nat) (rb rp : Bool) (r : StatusResp)
    (hs : KvSorted s.kv) (h : checkTxnStatus s p T caller cur rb rp = (s', r)) :
    (r.commitTS ≠ 0 → HasData (getEntry s.kv p) T r.commitTS ∧ s' = s) ∧
    ((r.action = .ttlExpireRollback ∨ r.action = .lockNotExistRollback) → HasRb (getEntry s'.kv p) T) :=
  ⟨status_commit_sound s s' p T caller cur rb rp r h, status_rollback_sound s s' p T caller cur rb rp r hs h⟩

/-- recovery by resolve removes the lock it resolves (commit or rollback alike) -/
theorem resolve_kernel_removes_lock (e : Entry) (l : Lock) (k : Bytes) (T C : Nat) :
    LockFreeOf ((commitLock l k T C).foldl entryAct e) T ∧ LockFreeOf ((rollbackLock k T).foldl entryAct e) T :=
  ⟨lockFree_after_commitLock e l k T C, lockFree_after_rollbackLock e k T⟩

example : outcomeOf { kv := [([0x61], { writes := [⟨.put, 10, 20, [1]⟩] })] } 10 = .committed 20 := by decide

end CGV.Props.C02
