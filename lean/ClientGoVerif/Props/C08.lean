/-
  C08 — both in-memory write buffers behave as one ordered map with nested undo.

  `VLog` (Model/VLog.lean) models the mechanism the radix-tree and the red-black-tree buffer share: the append-only value
  log with back links, per-node value pointer / flags / delete mark, staging marks, checkpoints (incl. the remembered
  newest checkpoint `lastCheckpoint`), the in-place swap rule,
  the backwards walk of RevertToCheckpoint and the incremental len/size/dirty counters.  `Spec` (Spec/MemBuf.lean) is the
  reference: key ↦ (present, flags, version list), a stack of marks, len/size defined by counting.
  `abs` reads a `Spec` off a `VLog`; `Inv` is the representation invariant (links well formed, counters exact, …).

  Three further layers are modelled and proved:
  * the ORDERED-MAP layer: the key order is a strict total order and every iterator answer (plain / reverse / with flag-only
    keys / snapshot) is exactly the in-range part of the map in strictly ascending (descending) key order, for every call
    sequence (`iter_is_sorted_filter`, `snapIter_is_sorted_filter`, `key_order_strict_total`); the batched snapshot iterator
    (Model/Batched.lean ↔ membuffer_snapshot.go snapshotBatchedIter) equals the unbatched scan for every batch-size schedule
    (`resume_key_is_successor`, `batched_iter_is_unbatched`);
  * the NODE-CONTAINER layer of the radix tree (Model/ArtNode.lean ↔ art_node.go node4/16/48/256: findChild, addChild with
    growth, replaceChild, iteration order), driven directly in the differential through the `n*` ops
    (`artnode_insert_lookup`, `artnode_addChild`, `artnode_replaceChild`);
  * the PATH logic of the radix tree (Model/ArtTree.lean ↔ art.go search / recursiveInsert / expandLeafIfNeeded / expandNode,
    art_node.go match / matchDeep / setPrefix / minimumLeafNode, full in-order traversal): compressed prefixes with the
    bounded in-node part and optimistic matching, in-place leaves, prefix split, leaf expansion — tied by a STRUCTURE
    differential (`tdump`: the real tree is dumped node by node and compared with the model's dump after writes), proved in
    `art_tree_inserts`, `art_insert_search`, `art_kids_as_container`.
  STILL tied to the reference only by the differential (harness/c08): iterator seek with bounds inside the radix tree
  (`baseIter.seek`, the end-address logic of `Iterator.init`) and its lastTraversedNode cache; the whole red-black tree (no model of
  its insertion / rotations — its invariants root-black, no red-red, equal black height, BST order, parent links are CHECKED on
  the real tree by the property op `rbtchk`, and its in-order key sequence is compared with the model's key set); the arena's
  block arithmetic, the node allocator and its free lists.
-/
import ClientGoVerif.Proofs.MemBufOrder
import ClientGoVerif.Proofs.ArtNode
import ClientGoVerif.Proofs.ArtTreeTop
import ClientGoVerif.Proofs.Batched
namespace CGV.Props.C08
open CGV CGV.MemBuf

/-- One API call (set/delete/update-flags, get, get-flags, iterators in both directions with and without flag-only keys,
    snapshot get / iter, len, size, dirty, staging, release, cleanup, checkpoint, revert, stage inspection, value-history
    selection, limits) on a mechanism state satisfying the representation invariant returns exactly what the reference
    returns, the abstraction commutes, and the invariant is kept. -/
theorem vlog_step_refines (m : VLog) (hi : Inv m) (op : Op) :
    (abs m).step op = (abs (m.step op).1, (m.step op).2) ∧ Inv (m.step op).1 :=
  step_refines hi op

/-- For ALL sequences of API calls from the empty buffer: every call on the mechanism returns what the reference returns,
    and the final states correspond. -/
theorem vlog_refines_spec (ops : List Op) :
    (VLog.init.run ops).2 = (Spec.init.run ops).2 ∧ abs (VLog.init.run ops).1 = (Spec.init.run ops).1 ∧
      Inv (VLog.init.run ops).1 := by
  obtain ⟨h1, h2⟩ := run_refines inv_init ops
  rw [abs_init] at h1
  rw [h1]
  exact ⟨rfl, rfl, h2⟩

/-- Release(h) of the top stage changes no value, no flag, no length and no size. -/
theorem release_keeps (m : VLog) (h : Nat) (op : Op)
    (hop : op = .get k ∨ op = .getFlags k ∨ op = .len ∨ op = .size ∨ op = .iter lo hi rev wf) :
    ((m.step (.release h)).1.step op).2 = (m.step op).2 := by
  have hs : ∀ m' : VLog, m'.nodes = m.nodes → m'.log = m.log → m'.len = m.len → m'.size = m.size →
      (m'.step op).2 = (m.step op).2 := by
    intro m' h1 h2 h3 h4
    have hitem : m'.itemOfNode = m.itemOfNode := by
      funext n; simp only [VLog.itemOfNode, VLog.nodeValue, h2]
    rcases hop with h | h | h | h | h <;> subst h
    · simp only [VLog.step, VLog.findNode, h1, h2]
      cases m.nodes.find? (fun n => n.key = k) with
      | none => rfl
      | some n => simp only []; split <;> rfl
    · simp only [VLog.step, VLog.findNode, h1]
      cases m.nodes.find? (fun n => n.key = k) with
      | none => rfl
      | some n => simp only []; split <;> rfl
    · simp only [VLog.step, h3]
    · simp only [VLog.step, h4]
    · simp only [VLog.step, VLog.iterItems, h1, hitem]
  have hrel : (m.step (.release h)).1.nodes = m.nodes ∧ (m.step (.release h)).1.log = m.log ∧
      (m.step (.release h)).1.len = m.len ∧ (m.step (.release h)).1.size = m.size := by
    simp only [VLog.step]
    by_cases h0 : h = 0
    · rw [if_pos h0]; exact ⟨rfl, rfl, rfl, rfl⟩
    · rw [if_neg h0]
      by_cases h1 : h ≠ m.stages.length
      · rw [if_pos h1]; exact ⟨rfl, rfl, rfl, rfl⟩
      · rw [if_neg h1]; exact ⟨rfl, rfl, rfl, rfl⟩
  exact hs _ hrel.1 hrel.2.1 hrel.2.2.1 hrel.2.2.2

/-- Cleanup restores the view: open a stage, run ANY calls that do not release / clean up that stage itself (writes incl.
    same-length overwrites, deletes, flag-only updates, nested stages that are released or cleaned up, checkpoints and
    reverts inside the stage, rejected oversized writes, limit changes), then clean the stage up.  Then for every key
    * `Get` answers what it answered when the stage was opened, and
    * `GetFlags` (which also tells whether the key is in the buffer) is given by the documented flag rule `flagsAfterUndo`:
      flags are not rolled back; a key that got its only values inside the stage keeps exactly its persistent flags and
      leaves the buffer when it has none.
    Together with `len_size_exact` this fixes the whole view (keys, values, flags, Len, Size) after the cleanup. -/
theorem cleanup_restores (m : VLog) (hi : Inv m) (body : List Op)
    (hk : KeepsStage (m.stages.length + 1) (abs (m.step .staging).1) body)
    (htop : ((m.step .staging).1.run body).1.stages.length = m.stages.length + 1) (k : Bytes) :
    ((((m.step .staging).1.run body).1.step (.cleanup (m.stages.length + 1))).1.step (.get k)).2 = (m.step (.get k)).2 ∧
    ((((m.step .staging).1.run body).1.step (.cleanup (m.stages.length + 1))).1.step (.getFlags k)).2
      = flagsAfterUndo (m.step (.get k)).2 (((m.step .staging).1.run body).1.step (.get k)).2
          (((m.step .staging).1.run body).1.step (.getFlags k)).2 := by
  obtain ⟨hi2, hi3, h3, hfr⟩ := cleanup_setup m hi body hk htop
  exact ⟨undo_values_model m _ _ hi hi3 _ _ k (hfr k) h3, undo_flags_model m _ _ hi hi2 hi3 _ _ k (hfr k) h3⟩

/-- Snapshot reads ignore staged data: once the first stage is open, whatever is written, staged, released, cleaned up or
    reverted above it, the snapshot getter answers what `Get` answered when the stage was opened. -/
theorem snapshot_ignores_staged (m : VLog) (hi : Inv m) (h0 : m.stages = []) (body : List Op)
    (hk : KeepsStage 1 (abs (m.step .staging).1) body) (k : Bytes) :
    (((m.step .staging).1.run body).1.step (.snapGet k)).2 = (m.step (.get k)).2 := by
  obtain ⟨_, hi1⟩ := step_refines hi .staging
  obtain ⟨hr, hi2⟩ := run_refines hi1 body
  have hf1 : Frame m.log.length ([] ++ [m.log.length]) (fun k => (abs m).vers k) (abs (m.step .staging).1) := by
    have := stage_frame m
    rw [h0] at this
    exact this
  have hf2 := frame_run body _ hf1 (respects_of_keepsStage (pre0 := []) body _ hf1 (by simpa using hk))
  have hrun : ((abs (m.step .staging).1).run body).1 = abs ((m.step .staging).1.run body).1 := by rw [hr]
  rw [hrun] at hf2
  obtain ⟨ext, hm, _⟩ := hf2.marks
  have hsnap : (abs ((m.step .staging).1.run body).1).snapMark = m.log.length := by
    simp only [Spec.snapMark, hm]; rfl
  have e2 := (step_refines hi2 (.snapGet k)).1
  have e0 := (step_refines hi (.get k)).1
  have e2' : (((m.step .staging).1.run body).1.step (.snapGet k)).2
      = ((abs ((m.step .staging).1.run body).1).step (.snapGet k)).2 := by rw [e2]
  have e0' : (m.step (.get k)).2 = ((abs m).step (.get k)).2 := by rw [e0]
  rw [e2', e0', snapGet_out, get_out, hsnap, hf2.vers k]

/-- Which flags survive an undo: a key that had no value, written once inside a stage that is then cleaned up, keeps
    exactly the persistent part of the flags it had; it stays in the buffer iff that part is non-zero. -/
theorem flags_survive_iff_persistent (m : VLog) (hi : Inv m) (k v : Bytes) (ops : List Nat) (f2 : Nat)
    (hno : (m.step (.get k)).2 = .notFound)
    (hset : ((m.step .staging).1.step (.set k v ops)).2 = .ok)
    (hf2 : (((m.step .staging).1.step (.set k v ops)).1.step (.getFlags k)).2 = .flags f2) :
    ((((m.step .staging).1.step (.set k v ops)).1.step (.cleanup (m.stages.length + 1))).1.step (.getFlags k)).2
      = (if KeyFlags.andPersistent f2 = 0 then Out.notFound else Out.flags (KeyFlags.andPersistent f2)) := by
  obtain ⟨_, hi1⟩ := step_refines hi .staging
  obtain ⟨hs2, hi2⟩ := step_refines hi1 (.set k v ops)
  have hi3 := (step_refines hi2 (.cleanup (m.stages.length + 1))).2
  have e3 := (step_refines hi3 (.getFlags k)).1
  have e2 := (step_refines hi2 (.getFlags k)).1
  have e0 := (step_refines hi (.get k)).1
  have hv0 : (abs m).vers k = [] := by
    have : ((abs m).step (.get k)).2 = .notFound := by rw [e0]; exact hno
    rw [get_out] at this
    cases hh : ((abs m).vers k) with
    | nil => rfl
    | cons x xs => rw [hh] at this; simp at this
  have hok : ((abs (m.step .staging).1).step (.set k v ops)).2 = .ok := by rw [hs2]; exact hset
  have hstate : abs ((m.step .staging).1.step (.set k v ops)).1 = (abs (m.step .staging).1).writeCore k (some v) ops := by
    rw [← set_ok_state _ k v ops hok, hs2]
  have hst2 : ((m.step .staging).1.step (.set k v ops)).1.stages = m.stages ++ [m.log.length] := by
    have : (abs ((m.step .staging).1.step (.set k v ops)).1).marks = m.stages ++ [m.log.length] := by
      rw [hstate, marks_writeCore]; rfl
    exact this
  have hs3 := cleanup_top_refines _ hi2 m.stages m.log.length hst2
  obtain ⟨ha, hb⟩ := flags_after_undo (abs m) k v ops hv0
  simp only at ha hb
  have hs1 : abs (m.step .staging).1 = { abs m with marks := (abs m).marks ++ [(abs m).clock] } := rfl
  rw [← hs1, ← hstate] at ha hb
  have hfl : f2 = Spec.writeFlags (((abs m).find k).getD (Spec.fresh k)).flags (some v) ops := by
    have : ((abs ((m.step .staging).1.step (.set k v ops)).1).step (.getFlags k)).2 = .flags f2 := by rw [e2]; exact hf2
    rw [ha] at this
    cases this; rfl
  have e3' : ((((m.step .staging).1.step (.set k v ops)).1.step (.cleanup (m.stages.length + 1))).1.step (.getFlags k)).2
      = ((abs (((m.step .staging).1.step (.set k v ops)).1.step (.cleanup (m.stages.length + 1))).1).step (.getFlags k)).2 := by
    rw [e3]
  rw [e3', hs3, hfl]
  exact hb

/-- Oversized keys, entries and buffers are rejected exactly at the limits (`maxKeyLen` is regenerated from art.MaxKeyLen =
    rbt.MaxKeyLen; entry and buffer limits are those given to SetEntrySizeLimit).  A key / entry rejection leaves the buffer
    untouched; a buffer-size rejection is reported AFTER the write has been applied (as in ART.Set / RBT.Set). -/
theorem limits_exact (m : VLog) (k : Bytes) (v : Option Bytes) (ops : List Nat) :
    ((m.write k v ops).2 = .err .keyTooLarge ↔ k.length > Gen.MemLimits.maxKeyLen) ∧
    ((m.write k v ops).2 = .err .entryTooLarge ↔
        (k.length ≤ Gen.MemLimits.maxKeyLen ∧ ∃ x, v = some x ∧ k.length + x.length > m.entryLimit)) ∧
    ((m.write k v ops).2 = .err .txnTooLarge ↔
        (k.length ≤ Gen.MemLimits.maxKeyLen ∧ Spec.entryTooLarge k v m.entryLimit = false ∧ v.isSome = true ∧
          (m.writeCore k v ops).size > (m.bufLimit : Int))) ∧
    ((m.write k v ops).2 = .err .keyTooLarge ∨ (m.write k v ops).2 = .err .entryTooLarge → (m.write k v ops).1 = m) ∧
    ((m.write k v ops).2 = .err .txnTooLarge → (m.write k v ops).1 = m.writeCore k v ops) := by
  have hE : Spec.entryTooLarge k v m.entryLimit = true ↔ ∃ x, v = some x ∧ k.length + x.length > m.entryLimit := by
    cases v with
    | none => simp [Spec.entryTooLarge]
    | some x => simp [Spec.entryTooLarge]
  by_cases h1 : k.length > Gen.MemLimits.maxKeyLen
  · have hw : m.write k v ops = (m, .err .keyTooLarge) := by simp only [VLog.write, h1, if_true]
    rw [hw]
    refine ⟨⟨fun _ => h1, fun _ => rfl⟩, ⟨?_, ?_⟩, ⟨?_, ?_⟩, fun _ => rfl, ?_⟩
    · intro h; simp at h
    · intro h; exact absurd h.1 (by omega)
    · intro h; simp at h
    · intro h; exact absurd h.1 (by omega)
    · intro h; simp at h
  · have h1' : k.length ≤ Gen.MemLimits.maxKeyLen := by omega
    cases h2 : Spec.entryTooLarge k v m.entryLimit with
    | true =>
      have hw : m.write k v ops = (m, .err .entryTooLarge) := by simp only [VLog.write, h1, if_false, h2, if_true]
      rw [hw]
      refine ⟨⟨?_, fun h => absurd h h1⟩, ⟨fun _ => ⟨h1', hE.mp h2⟩, fun _ => rfl⟩, ⟨?_, ?_⟩, fun _ => rfl, ?_⟩
      · intro h; simp at h
      · intro h; simp at h
      · intro h; simp at h
      · intro h; simp at h
    | false =>
      have h2' : ¬ ∃ x, v = some x ∧ k.length + x.length > m.entryLimit := by
        intro h; have := hE.mpr h; rw [h2] at this; cases this
      cases h3 : (v.isSome && decide ((m.writeCore k v ops).size > (m.bufLimit : Int))) with
      | true =>
        have hw : m.write k v ops = (m.writeCore k v ops, .err .txnTooLarge) := by
          simp only [VLog.write, h1, if_false, h2, Bool.false_eq_true, h3, if_true]
        simp only [Bool.and_eq_true, decide_eq_true_eq] at h3
        rw [hw]
        refine ⟨⟨?_, fun h => absurd h h1⟩, ⟨?_, fun h => absurd h.2 h2'⟩,
          ⟨fun _ => ⟨h1', rfl, h3.1, h3.2⟩, fun _ => rfl⟩, ?_, fun _ => rfl⟩
        · intro h; simp at h
        · intro h; simp at h
        · intro h; rcases h with h | h <;> simp at h
      | false =>
        have hw : m.write k v ops = (m.writeCore k v ops, .ok) := by
          simp only [VLog.write, h1, if_false, h2, Bool.false_eq_true, h3]
        simp only [Bool.and_eq_false_iff, decide_eq_false_iff_not] at h3
        rw [hw]
        refine ⟨⟨?_, fun h => absurd h h1⟩, ⟨?_, fun h => absurd h.2 h2'⟩, ⟨?_, ?_⟩, ?_, ?_⟩
        · intro h; simp at h
        · intro h; simp at h
        · intro h; simp at h
        · intro ⟨_, _, h5, h6⟩
          rcases h3 with h | h
          · rw [h5] at h; cases h
          · exact absurd h6 h
        · intro h; rcases h with h | h <;> simp at h
        · intro h; simp at h

/-! ## checkpoints -/

/-- RevertToCheckpoint restores the view (the statement of the property text, at full strength): take a checkpoint with
    `Checkpoint()`, run ANY calls that do not pop the stages that were open at the checkpoint and do not revert below it
    (in particular: same-length overwrites — the case that was NOT undone before the `lastCheckpoint` repair, DESIGN §6 S10 —,
    different-length overwrites, deletes, flag-only updates, new nested stages that are released or cleaned up, later
    checkpoints and reverts to them, writes rejected by the key / entry / buffer limits, limit changes), then revert to the
    checkpoint.  Then for every key `Get` answers what it answered at the checkpoint and `GetFlags` follows the documented
    flag rule (`flagsAfterUndo`, as for Cleanup).  With `len_size_exact`: the whole view. -/
theorem revert_restores_view (m0 : VLog) (hi0 : Inv m0) (body : List Op)
    (hk : KeepsStage (m0.step .checkpoint).1.stages.length (abs (m0.step .checkpoint).1) body)
    (hn : NoRevertBelow (m0.step .checkpoint).1.checkpoint body)
    (hok : (((m0.step .checkpoint).1.run body).1.step (.revert (m0.step .checkpoint).1.checkpoint)).2 = .ok) (k : Bytes) :
    ((((m0.step .checkpoint).1.run body).1.step (.revert (m0.step .checkpoint).1.checkpoint)).1.step (.get k)).2
      = ((m0.step .checkpoint).1.step (.get k)).2 ∧
    ((((m0.step .checkpoint).1.run body).1.step (.revert (m0.step .checkpoint).1.checkpoint)).1.step (.getFlags k)).2
      = flagsAfterUndo ((m0.step .checkpoint).1.step (.get k)).2 (((m0.step .checkpoint).1.run body).1.step (.get k)).2
          (((m0.step .checkpoint).1.run body).1.step (.getFlags k)).2 := by
  have hi := (step_refines hi0 .checkpoint).2
  have hr := respects_after_checkpoint m0 body hk hn
  generalize (m0.step .checkpoint).1 = m at *
  obtain ⟨hi2, hi3, h3, hfr⟩ := revert_setup m hi body hr hok
  exact ⟨undo_values_model m _ _ hi hi3 _ _ k (hfr k) h3, undo_flags_model m _ _ hi hi2 hi3 _ _ k (hfr k) h3⟩

/-- The same for an arbitrary log position used as a mark (`m.checkpoint` read off WITHOUT calling `Checkpoint()`, so nothing
    remembers it).  The only hypothesis this needs beyond `revert_restores_view` is the `SafeSwap` part of `Respects`: no `set`
    in the body overwrites in place a version that is not newer than the mark.  `revert_restores_view` has no such hypothesis
    because `Checkpoint()` remembers the mark (`lastCheckpoint`) and `respects_after_checkpoint` derives `SafeSwap` from it;
    this general form is what that derivation plugs into (it is a lemma about the mechanism, not a weaker property). -/
theorem revert_to_mark_restores (m : VLog) (hi : Inv m) (body : List Op)
    (hr : Respects m.checkpoint m.stages (abs m) body)
    (hok : ((m.run body).1.step (.revert m.checkpoint)).2 = .ok) (k : Bytes) :
    (((m.run body).1.step (.revert m.checkpoint)).1.step (.get k)).2 = (m.step (.get k)).2 ∧
    (((m.run body).1.step (.revert m.checkpoint)).1.step (.getFlags k)).2
      = flagsAfterUndo (m.step (.get k)).2 ((m.run body).1.step (.get k)).2 ((m.run body).1.step (.getFlags k)).2 := by
  obtain ⟨hi2, hi3, h3, hfr⟩ := revert_setup m hi body hr hok
  exact ⟨undo_values_model m _ _ hi hi3 _ _ k (hfr k) h3, undo_flags_model m _ _ hi hi2 hi3 _ _ k (hfr k) h3⟩

/-- Len() and Size() are functions of the view, in every reachable state: Len = number of keys the flag-including iterator
    yields, Size = Σ (key length + value length) over them (a flags-only key counts its key, a tombstone counts 0). -/
theorem len_size_exact (ops : List Op) :
    ∃ view, ((VLog.init.run ops).1.step (.iter [] [] false true)).2 = .items view ∧
      ((VLog.init.run ops).1.step .len).2 = .num view.length ∧
      ((VLog.init.run ops).1.step .size).2 = .num (Spec.sumInt itemSize view) :=
  ⟨_, len_size_of_view (run_refines inv_init ops).2⟩

/-- the S10 scenario and friends, computed on the mechanism model: in-place overwrite, nested stage, flag-only write and a
    write rejected by the entry limit between a checkpoint and the revert -/
example :
    (VLog.init.run [.set [0x6b] [0xaa] [], .checkpoint, .set [0x6b] [0xbb] [], .staging, .set [0x6c] [1] [], .upd [0x6d] [4],
        .release 1, .setLimits 2 100, .set [0x6b] [1, 2, 3] [], .revert 1, .get [0x6b], .get [0x6c], .getFlags [0x6d]]).2
      = [.ok, .num 1, .ok, .num 1, .ok, .ok, .ok, .ok, .err .entryTooLarge, .ok, .val [0xaa], .notFound, .flags 2] := by
  decide

/-! ## iterator invalidation (ART's WriteSeqNo) -/

/-- A `Set` that is applied (answer ok, or the buffer-limit error that is reported after the write) bumps the write
    sequence number — so an iterator created before it, which remembers the old number, fails its check — and a `Set` that is
    rejected (empty value, key too large, entry too large) leaves it alone, as do all read calls. -/
theorem write_bumps_seq (q : VLog.Seq) (m : VLog) (k v : Bytes) (ops : List Nat) :
    ((VLog.seqStep q m (.set k v ops)).write = q.write + 1 ↔
      ((m.step (.set k v ops)).2 = .ok ∨ (m.step (.set k v ops)).2 = .err .txnTooLarge)) ∧
    (VLog.seqStep q m (.get k)).write = q.write ∧ (VLog.seqStep q m (.iter k v false false)).write = q.write ∧
    (VLog.seqStep q m (.snapGet k)).write = q.write := by
  refine ⟨?_, rfl, rfl, rfl⟩
  simp only [VLog.seqStep, VLog.step, VLog.write]
  by_cases hv : v.isEmpty = true
  · simp [hv]
  · have hv' : v.isEmpty = false := by simpa using hv
    by_cases hk : k.length > Gen.MemLimits.maxKeyLen
    · simp [hv', hk]
    · by_cases he : k.length + v.length > m.entryLimit
      · simp [hv', hk, he, Spec.entryTooLarge]
      · simp only [hv', hk, he, Bool.false_or, decide_false, Bool.false_eq_true, if_false, Spec.entryTooLarge]
        constructor
        · intro _
          split
          · exact Or.inr rfl
          · exact Or.inl rfl
        · intro _; trivial

/-! ## the buffer as an ordered map: what the iterators yield -/

/-- Iter / IterReverse / IterWithFlags / IterReverseWithFlags, after ANY sequence of calls: the answer is exactly the set of
    keys of the map that lie in `[lo, hi)` (byte-wise order, empty bound = unbounded; `inRange_iff`) and carry a value (or
    any key in the buffer when flag-only keys are asked for), each with the flags `GetFlags` and the value `Get` report, in
    strictly ascending key order — the reverse iterators yield the same list backwards. -/
theorem iter_is_sorted_filter (ops : List Op) (lo hi : Bytes) (wf : Bool) :
    ∃ fwd, ((VLog.init.run ops).1.step (.iter lo hi false wf)).2 = .items fwd ∧
      ((VLog.init.run ops).1.step (.iter lo hi true wf)).2 = .items fwd.reverse ∧
      fwd.Pairwise (fun a b => Bytes.lt a.key b.key = true) ∧
      ∀ it, it ∈ fwd ↔
        (inRange lo hi it.key = true ∧ ((VLog.init.run ops).1.step (.getFlags it.key)).2 = .flags it.flags ∧
          ((VLog.init.run ops).1.step (.get it.key)).2 = valueOut it.value ∧ (wf = true ∨ it.value.isSome = true)) := by
  have hi' := (run_refines inv_init ops).2
  obtain ⟨h1, h2⟩ := iter_sorted hi' lo hi wf
  exact ⟨_, rfl, by show Out.items _ = _; rw [h2], h1, fun it => iter_mem hi' lo hi false wf it⟩

/-- SnapshotIter / SnapshotIterReverse (and the GetSnapshot iterators), after ANY sequence of calls: exactly the in-range keys
    for which the snapshot getter has a value, with that value, strictly ascending (reverse: backwards).  Combined with
    `snapshot_ignores_staged`: the iteration shows the map as it was when stage 1 was opened. -/
theorem snapIter_is_sorted_filter (ops : List Op) (lo hi : Bytes) :
    ∃ fwd, ((VLog.init.run ops).1.step (.snapIter lo hi false)).2 = .items fwd ∧
      ((VLog.init.run ops).1.step (.snapIter lo hi true)).2 = .items fwd.reverse ∧
      fwd.Pairwise (fun a b => Bytes.lt a.key b.key = true) ∧
      ∀ it, it ∈ fwd ↔
        (inRange lo hi it.key = true ∧ it.flags = 0 ∧
          ∃ v, it.value = some v ∧ ((VLog.init.run ops).1.step (.snapGet it.key)).2 = .val v) := by
  have hi' := (run_refines inv_init ops).2
  obtain ⟨h1, h2⟩ := snapIter_sorted hi' lo hi
  exact ⟨_, rfl, by show Out.items _ = _; rw [h2], h1, fun it => snapIter_mem hi' lo hi false it⟩

/-- The resume-key contract of the batched snapshot iterator: `lastKey ++ [0x00]` is the IMMEDIATE successor of `lastKey` in
    the byte order — a key is at or above it exactly when it is strictly above `lastKey`, so nothing can be skipped and
    nothing is seen twice. -/
theorem resume_key_is_successor (k x : Bytes) : Bytes.lt x (succKey k) = false ↔ Bytes.lt k x = true :=
  succKey_spec k x

/-- GetSnapshot().BatchedSnapshotIter, after ANY sequence of calls, for EVERY batch-size schedule (positive sizes, long
    enough to finish — the real one is 32, 64, …, 4096, 4096, …): cutting the scan into batches and resuming each forward batch
    at the successor key of the last entry (each reverse batch below the last entry, stopping after the empty key) yields
    exactly the unbatched snapshot scan of the same range — every key of the range once, in order. -/
theorem batched_iter_is_unbatched (ops : List Op) (lo hi : Bytes) (sizes : List Nat) (hpos : ∀ s ∈ sizes, 0 < s) :
    ((ordered false ((VLog.init.run ops).1.snapItems lo hi)).length < sizes.length →
      (VLog.init.run ops).1.batchedFwd lo hi sizes = ordered false ((VLog.init.run ops).1.snapItems lo hi)) ∧
    ((ordered true ((VLog.init.run ops).1.snapItems lo hi)).length < sizes.length →
      (VLog.init.run ops).1.batchedRev lo hi sizes = ordered true ((VLog.init.run ops).1.snapItems lo hi)) := by
  have hi' := (run_refines inv_init ops).2
  exact ⟨batchedFwd_eq hi' hi sizes lo hpos, batchedRev_eq hi' lo sizes hi hpos⟩

/-- the key order is a strict total order (the model of `bytes.Compare`) -/
theorem key_order_strict_total (a b c : Bytes) :
    Bytes.lt a a = false ∧ (Bytes.lt a b = true → Bytes.lt b c = true → Bytes.lt a c = true) ∧
    (a ≠ b → Bytes.lt a b = false → Bytes.lt b a = true) :=
  ⟨blt_irrefl a, blt_trans, blt_total⟩

/-! ## the inner-node containers of the radix tree (node4 / node16 / node48 / node256) -/

/-- Any sequence of `addChild` calls with distinct bytes on an empty node4 — across the growth steps 4 → 16 → 48 → 256 — yields
    a node in which `findChild` finds exactly the inserted children (linear scan, binary search, slot index or direct table,
    whichever the node kind uses), that holds as many children as were inserted, whose kind is determined by that count
    (≤ 4, ≤ 16, ≤ 48, more), and whose children the iterator visits in strictly ascending byte order, each exactly once. -/
theorem artnode_insert_lookup {χ : Type} (l : List (UInt8 × χ)) (hnd : (l.map (·.1)).Nodup) :
    (∀ c, (ArtNode.build l).findChild c = ArtNode.assoc c l) ∧
    (ArtNode.build l).num = l.length ∧
    (ArtNode.build l).kind = ArtNode.kindFor l.length ∧
    (∀ c x, (c, x) ∈ (ArtNode.build l).children ↔ (ArtNode.build l).findChild c = some x) ∧
    (ArtNode.build l).children.Pairwise (fun a b => a.1 < b.1) := by
  obtain ⟨hw, hf, hn⟩ := ArtNode.build_spec l hnd
  obtain ⟨hc1, hc2⟩ := ArtNode.children_spec _ hw
  exact ⟨hf, hn, ArtNode.build_kind l hnd, hc1, hc2⟩

/-- one `addChild` on any well-formed node: the new byte maps to the new child, nothing else changes, and the node grows to
    the next kind exactly when it was full -/
theorem artnode_addChild {χ : Type} (n : ArtNode.Node χ) (hw : n.WF) (c : UInt8) (x : χ) (hc : n.findChild c = none) :
    (n.addChild c x).WF ∧ (∀ c', (n.addChild c x).findChild c' = (if c' = c then some x else n.findChild c')) ∧
    (n.addChild c x).num = n.num + 1 ∧
    (n.addChild c x).kind = (if n.num < ArtNode.capOf n then n.kind else ArtNode.nextKind n.kind) := by
  obtain ⟨h1, h2⟩ := ArtNode.addChild_spec n hw c x hc
  obtain ⟨h3, h4⟩ := ArtNode.addChild_kind_num n hw c x
  exact ⟨h1, h2, h3, h4⟩

/-- `replaceChild` (used when a leaf is expanded into a node and when a prefix is split) changes exactly the child of the given
    byte; on an absent byte it is the "replace child failed" panic -/
theorem artnode_replaceChild {χ : Type} (n : ArtNode.Node χ) (hw : n.WF) (c : UInt8) (x : χ) :
    (n.findChild c = none → n.replaceChild c x = none) ∧
    (∀ y, n.findChild c = some y → ∃ n', n.replaceChild c x = some n' ∧ n'.WF ∧
      ∀ c', n'.findChild c' = (if c' = c then some x else n.findChild c')) :=
  ArtNode.replaceChild_spec n hw c x

/-! ## the path logic of the radix tree (search / recursiveInsert / expandLeafIfNeeded / expandNode / matchDeep) -/

/-- For EVERY sequence of inserts of arbitrary byte-string keys (keys that are prefixes of one another, the empty key, common
    prefixes longer than the in-node bound, repeated keys): the resulting tree satisfies the structural invariant `WFT`
    (every inner node's compressed prefix has the recorded length, its in-node bytes are the first `maxInNodePrefixLen` of it,
    the in-place leaf is the key that ends at the node, children are ordered by byte and each subtree lies on its own byte
    path), `search` finds exactly the inserted keys and returns the leaf of the key itself, and the in-order traversal yields
    exactly the inserted keys in strictly ascending byte order (the reverse traversal in strictly descending order). -/
theorem art_tree_inserts (ks : List Bytes) :
    ArtTree.WFT [] (ArtTree.insertAll ks) ∧
    (∀ k, ArtTree.search (ArtTree.insertAll ks) k = (if k ∈ ks then some k else none)) ∧
    (∀ k, k ∈ ArtTree.keys (ArtTree.insertAll ks) ↔ k ∈ ks) ∧
    (ArtTree.keys (ArtTree.insertAll ks)).Pairwise (fun a b => Bytes.lt a b = true) ∧
    (ArtTree.keys (ArtTree.insertAll ks)).reverse.Pairwise (fun a b => Bytes.lt b a = true) := by
  obtain ⟨h1, h2, h3⟩ := ArtTree.insertAll_spec ks
  refine ⟨h1, fun k => ?_, h2, h3, List.pairwise_reverse.mpr h3⟩
  rw [ArtTree.search_spec _ h1 k]
  by_cases hk : k ∈ ks
  · rw [if_pos ((h2 k).mpr hk), if_pos hk]
  · rw [if_neg (fun h => hk ((h2 k).mp h)), if_neg hk]

/-- one insert on any well-formed tree: the inserted key is found (as itself), the answer for every other key is unchanged,
    the invariant is kept, and the key set grows by exactly that key -/
theorem art_insert_search (t : ArtTree.Tree) (h : ArtTree.WFT [] t) (k k' : Bytes) :
    ArtTree.WFT [] (ArtTree.insert t k) ∧
    ArtTree.search (ArtTree.insert t k) k' = (if k' = k then some k else ArtTree.search t k') ∧
    (∀ x, x ∈ ArtTree.keys (ArtTree.insert t k) ↔ (x = k ∨ x ∈ ArtTree.keys t)) := by
  obtain ⟨h1, h2⟩ := ArtTree.insert_spec t h k
  refine ⟨h1, ?_, h2⟩
  rw [ArtTree.search_spec _ h1 k', ArtTree.search_spec _ h k']
  by_cases e : k' = k
  · subst e
    rw [if_pos ((h2 k').mpr (Or.inl rfl)), if_pos rfl]
  · rw [if_neg e]
    by_cases hm : k' ∈ ArtTree.keys t
    · rw [if_pos ((h2 k').mpr (Or.inr hm)), if_pos hm]
    · rw [if_neg (fun hh => by rcases (h2 k').mp hh with e' | e'; exact e e'; exact hm e'), if_neg hm]

/-- how the two radix-tree layers fit: the children of any node of a well-formed tree, put into a node4 one `addChild` at a
    time (in any order — here the stored one), give a container in which `findChild` is the lookup among those children,
    whose kind is the one the structure dump prints (`kindFor` of their number), and whose iteration order is ascending -/
theorem art_kids_as_container (q : Bytes) (kids : ArtTree.Kids) (h : ArtTree.WFK q kids) :
    (∀ c, (ArtNode.build kids.toList).findChild c = ArtNode.assoc c kids.toList) ∧
    (ArtNode.build kids.toList).num = kids.length ∧
    (ArtNode.build kids.toList).kind = ArtNode.kindFor kids.length ∧
    (ArtNode.build kids.toList).children.Pairwise (fun a b => a.1 < b.1) := by
  obtain ⟨h1, h2, h3, _, h5⟩ := artnode_insert_lookup kids.toList (ArtTree.bytes_nodup q kids h)
  rw [ArtTree.toList_length] at h2 h3
  exact ⟨h1, h2, h3, h5⟩

/-- keys that are prefixes of each other, the empty key and a 30-byte common prefix, computed on the model -/
example :
    (ArtTree.keys (ArtTree.insertAll [List.replicate 30 7 ++ [1], [], List.replicate 30 7, List.replicate 25 7 ++ [9], [7]])) =
      [[], [7], List.replicate 30 7, List.replicate 30 7 ++ [1], List.replicate 25 7 ++ [9]] := by
  decide

/-! ## non-vacuity of the hypotheses -/

example : (ArtNode.Node.empty : ArtNode.Node Nat).WF := ⟨by simp [ArtNode.SortedK], rfl, by simp [ArtNode.cap4]⟩
example : ([(5, 1), (3, 2), (9, 3)] : List (UInt8 × Nat)).map (·.1) |>.Nodup := by decide
example : ∀ s ∈ batchSizes 5 32, 0 < s := by decide
example : ArtTree.WFT [] ArtTree.Tree.empty := ArtTree.wf_empty
example : Inv VLog.init := inv_init
example : Inv (VLog.init.run [.set [1] [2] [], .staging, .set [1] [3, 4] [4], .checkpoint]).1 :=
  (run_refines inv_init _).2
example : KeepsStage 1 (abs (VLog.init.step .staging).1) [.set [1] [2] [], .staging, .del [1] [], .cleanup 2, .checkpoint] := by
  refine ⟨trivial, trivial, trivial, ?_, trivial, trivial⟩
  right; right; decide
example : ((VLog.init.step .staging).1.run [.set [1] [2] []]).1.stages.length = 0 + 1 := by decide
example : KeepsStage (VLog.init.step .checkpoint).1.stages.length (abs (VLog.init.step .checkpoint).1) [.set [1] [2] [], .set [1] [3] []] := by
  refine ⟨trivial, trivial, trivial⟩
example : NoRevertBelow 0 [.set [1] [2] [], .revert 0] := by
  intro op hop
  simp at hop
  rcases hop with h | h <;> subst h <;> simp
example : (((VLog.init.step .checkpoint).1.run [.set [1] [2] []]).1.step (.revert 0)).2 = .ok := by decide
example : Respects 0 [] (abs VLog.init) [.set [1] [2] [], .set [1] [3] []] := by
  refine ⟨?_, ?_, trivial⟩
  · simp [Allowed, SafeSwap, Spec.vers, Spec.find, abs, VLog.init]
  · simp only [Allowed, SafeSwap]
    split
    · rename_i a old rest hv
      intro hbad
      have : (abs VLog.init |>.step (.set [1] [2] [])).1.vers [1] = [(1, [2])] := by decide
      rw [this] at hv
      cases hv
      omega
    · trivial
example : (VLog.init.step (.get [1])).2 = .notFound := by decide
example : ((VLog.init.step .staging).1.step (.set [1] [2] [4])).2 = .ok := by decide

end CGV.Props.C08
