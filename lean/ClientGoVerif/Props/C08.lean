import ClientGoVerif.Model.VLog
namespace CGV.Props.C08
theorem placeholder : True := trivial
end CGV.Props.C08
