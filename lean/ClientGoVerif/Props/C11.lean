/-
  C11 — raw KV operations behave as one ordered map regardless of region layout.

  Model: `Model/RawKV.lean` (client loops of rawkv/rawkv.go + kvrpc/batch.go over a store that serves, per region,
  the Spec map restricted to that region).  Every theorem quantifies over ALL scripts, i.e. over every sequence of
  region layouts seen by the partial requests of one call (the layout may change between any two partial requests),
  every interleaving of region errors / retries, and — for batches — every (possibly stale) grouping layout and every
  pattern of failed batches that are re-grouped recursively.
  * `…_eq_…`, `…_exact`, `…_positional`, `…_last_wins`: partial correctness (hypothesis `… = some r`: the call returned).
  * `…_terminates`, `…_total`: the call returns, with the map's answer, once the layout stays constant (Scan, ReverseScan,
    Checksum, DeleteRange), for every complete run (`Completes`: batch calls), with one served attempt (single-key calls).
  * `…_every_store_…`: what holds in every intermediate store of the NON-atomic calls (BatchPut, BatchDelete,
    DeleteRange), also when they end with an error — the served region requests are the linearisation points.
  * `client_refines_one_ordered_map`: whole operation sequences.
  Not modelled (see manifest): TTL expiry, several concurrent clients, the back-off budget (a call that does not
  complete is a script that runs out).
-/
import ClientGoVerif.Proofs.RawKV
namespace CGV.Props.C11
open CGV CGV.Spec CGV.RawKV

/-- Scan returns the first `limit` pairs of `[start, end)` in order across region boundaries (values stripped if key-only). -/
theorem scan_eq_take_limit_range (m : Store) (hs : m.Sorted) (sc : SScript) (start end_ : Bytes) (limit : Nat)
    (keyOnly : Bool) (res : List KV) (tr : STrace) (h : scan m sc start end_ limit keyOnly = some (res, tr)) :
    res = ((m.range start (toBound end_)).take limit).map (if keyOnly then stripValue else id) := by
  have := scanLoop_spec m hs _ end_ limit sc start [] [] res tr h
  simpa using this

/-- ReverseScan returns the first `limit` pairs of `[end, start)` in descending order.  (`start = []` selects
    nothing: scanning from +∞ is documented as unsupported.) -/
theorem reverse_scan_eq_take_limit_rrange (m : Store) (hs : m.Sorted) (sc : SScript) (start end_ : Bytes) (limit : Nat)
    (keyOnly : Bool) (res : List KV) (tr : STrace) (h : reverseScan m sc start end_ limit keyOnly = some (res, tr)) :
    res = ((m.rrange (some start) end_).take limit).map (if keyOnly then stripValue else id) := by
  have := rscanLoop_spec m hs _ end_ limit sc start [] [] res tr h
  simpa using this

/-- DeleteRange removes exactly the keys in `[start, end)`. -/
theorem delete_range_exact (m : Store) (sc : SScript) (start end_ : Bytes) (res : Store) (tr : STrace)
    (h : deleteRange m sc start end_ = some (res, tr)) :
    res = m.eraseRange start (toBound end_) ∧
    ∀ k, res.get k = if inRange start (toBound end_) k then none else m.get k := by
  unfold deleteRange deleteRangeRun at h
  simp only at h
  split at h
  · rename_i hok
    simp only [Option.some.injEq, Prod.mk.injEq] at h
    have := deleteRangeLoop_spec end_ sc start m [] hok
    rw [h.1] at this
    exact ⟨this, fun k => by rw [this, OMap.get_eraseRange]⟩
  · simp at h

/-- Checksum equals the fold (xor of crc64, count, byte count) over the pairs of `[start, end)` of the whole map. -/
theorem checksum_eq_fold (m : Store) (hs : m.Sorted) (sc : SScript) (start end_ : Bytes) (c : Checksum) (tr : STrace)
    (h : checksum m sc start end_ = some (c, tr)) :
    c = csOf (m.range start (toBound end_)) := by
  have := checksumLoop_spec m hs end_ sc start Checksum.zero [] c tr h
  rw [this, Checksum.zero_add]

/-- BatchGet returns, position by position, the map's value of the requested key (duplicates included). -/
theorem batch_get_positional (m : Store) (sc : BScript) (keys : List Bytes) (vals : List (Option Bytes))
    (tr : List (List Item × Bool)) (h : batchGet m sc keys = some (vals, tr)) :
    vals = keys.map m.get := by
  unfold batchGet at h
  split at h
  · simp at h
  · rename_i s sc' hs
    unfold batchGetRun at hs
    simp only [Option.some.injEq, Prod.mk.injEq] at h
    have sp := sendBatch_spec PGet_eff (fun _ => True) mkKeyBatches id execGet mkKeyBatches_spec
      (fun _ _ _ _ => trivial) (fun _ _ => Iff.rfl) execGet_eff _ _ _ _ _ _ hs (fun _ _ => trivial)
    obtain ⟨hst, hp⟩ := sp
    simp only [view, BState.init] at hst hp
    rw [keysOf_mapKey] at hp
    rw [← h.1]
    apply List.map_congr_left
    intro k hkm
    have hsound : ∀ p ∈ s.pairs, m.get p.1 = some p.2 := by
      intro p hp'
      rcases (hp p.1 p.2).mp hp' with h0 | h0
      · simp at h0
      · exact h0.2
    have := keyToValue_get m.get s.pairs hsound OMap.empty k
    show (s.pairs.foldl ins OMap.empty).get k = m.get k
    rw [this]
    split
    · rfl
    · rename_i hn
      rw [empty_get]
      cases hg : m.get k with
      | none => rfl
      | some x =>
        have : (k, x) ∈ s.pairs := (hp k x).mpr (Or.inr ⟨hkm, hg⟩)
        exact absurd (List.mem_map.mpr ⟨(k, x), this, rfl⟩) hn

/-- BatchPut has the effect of the sequential puts in request order: for a duplicated key the last value wins. -/
theorem batch_put_last_wins (m : Store) (sc : BScript) (items : List Item) (m' : Store)
    (tr : List (List Item × Bool)) (h : batchPut m sc items = some (m', tr)) :
    ∀ k, m'.get k = (items.foldl (fun a it => a.insert it.1 it.2) m).get k := by
  unfold batchPut at h
  split at h
  · simp at h
  · rename_i s sc' hs
    unfold batchPutRun at hs
    simp only [Option.some.injEq, Prod.mk.injEq] at h
    let w : Bytes → Option Bytes := (items.foldl ins OMap.empty).get
    have sp := sendBatch_spec (PPut_eff w) (fun it => w it.1 = some it.2) mkPutBatches lastWins execPut mkPutBatches_spec
      (fun b hb => lastWins_valid w b hb) lastWins_keys
      (fun s R b hb k => by
        simp only [view, execPut]
        exact regionBatchPut_get w R b s.store hb k)
      _ _ _ _ _ _ hs
      (fun it' hit' => by
        obtain ⟨it, _, h1, h2⟩ := (mem_lastWins items it').mp hit'
        show (items.foldl ins OMap.empty).get it'.1 = some it'.2
        rw [h1]; exact h2)
    intro k
    have := sp k
    simp only [view, BState.init] at this
    rw [← h.1, this]
    exact (foldl_ins_split items m k).symm

/-- BatchDelete removes exactly the requested keys. -/
theorem batch_delete_exact (m : Store) (sc : BScript) (keys : List Bytes) (m' : Store)
    (tr : List (List Item × Bool)) (h : batchDelete m sc keys = some (m', tr)) :
    ∀ k, m'.get k = if k ∈ keys then none else m.get k := by
  unfold batchDelete at h
  split at h
  · simp at h
  · rename_i s sc' hs
    unfold batchDeleteRun at hs
    simp only [Option.some.injEq, Prod.mk.injEq] at h
    have sp := sendBatch_spec PDel_eff (fun _ => True) mkKeyBatches id execDelete mkKeyBatches_spec
      (fun _ _ _ _ => trivial) (fun _ _ => Iff.rfl)
      (fun s R b hb k => by
        simp only [view, execDelete]
        exact regionBatchDelete_get R _ s.store (fun k hk => by
          obtain ⟨it, hit, rfl⟩ := List.mem_map.mp hk
          exact (hb it hit).2) k)
      _ _ _ _ _ _ hs (fun _ _ => trivial)
    intro k
    have := sp k
    simp only [view, BState.init, keysOf_mapKey] at this
    rw [← h.1, this]

/-- Get / Put / Delete / CompareAndSwap: whatever layout the request is finally served under, and after any
    number of region errors, the result is the map's. -/
theorem get_eq (m : Store) (sc : SScript) (k : Bytes) (r : Option Bytes) (h : RawKV.get m sc k = some r) : r = m.get k := by
  unfold RawKV.get at h
  cases hn : nextOk sc with
  | none => simp [hn] at h
  | some L =>
    simp only [hn, Option.map_some, Option.some.injEq] at h
    rw [← h, regionGet_eq, inRegion_locate]; rfl

theorem put_eq (m : Store) (sc : SScript) (k v : Bytes) (m' : Store) (h : put m sc k v = some m') : m' = m.insert k v := by
  unfold put at h
  cases hn : nextOk sc with
  | none => simp [hn] at h
  | some L =>
    simp only [hn, Option.map_some, Option.some.injEq] at h
    rw [← h, regionPut, inRegion_locate]; rfl

theorem delete_eq (m : Store) (sc : SScript) (k : Bytes) (m' : Store) (h : delete m sc k = some m') : m' = m.erase k := by
  unfold delete at h
  cases hn : nextOk sc with
  | none => simp [hn] at h
  | some L =>
    simp only [hn, Option.map_some, Option.some.injEq] at h
    rw [← h, regionDelete, inRegion_locate]; rfl

theorem cas_eq (m : Store) (sc : SScript) (k : Bytes) (prev : Option Bytes) (new : Bytes)
    (m' : Store) (cur : Option Bytes) (swapped : Bool) (h : cas m sc k prev new = some (m', cur, swapped)) :
    cur = m.get k ∧ (swapped = true ↔ m.get k = prev) ∧ m' = if m.get k = prev then m.insert k new else m := by
  unfold cas at h
  cases hn : nextOk sc with
  | none => simp [hn] at h
  | some L =>
    simp only [hn, Option.map_some, Option.some.injEq] at h
    simp only [regionCAS, regionGet_eq, inRegion_locate, if_true, regionPut] at h
    by_cases hp : m.get k = prev
    · simp only [hp, if_true, Prod.mk.injEq] at h
      obtain ⟨h1, h2, h3⟩ := h
      simp [← h1, ← h2, ← h3, hp]
    · simp only [hp, if_false, Prod.mk.injEq] at h
      obtain ⟨h1, h2, h3⟩ := h
      simp [← h1, ← h2, ← h3, hp]

/-! ### the non-atomic calls: what holds in EVERY store they go through, completed or not

BatchPut, BatchDelete and DeleteRange are not atomic (the property text: "while regions split, merge or change leader
between or during calls"; rawkv documents no atomicity for them).  In the model every served region request is one
atomic step — the linearisation point of the keys it carries.  `(…Run …).1` is the state reached when the script ends,
whether the call completed (`some`) or ended with an error (`none`: back-off budget used up); `.stores` lists the
store after every served batch.  The statements hold for EVERY script, so also for every truncation of a script, i.e.
for every intermediate moment of a call. -/

/-- BatchPut: in every store the call goes through, each key has its old value or — if it is a requested key — the
    value BatchPut finally gives it (the last one in request order); no other value is ever visible, no other key touched -/
theorem batch_put_every_store_old_or_new (m : Store) (sc : BScript) (items : List Item) :
    ∀ st ∈ (batchPutRun m sc items).1.stores,
      OldOrNew m (keysOf items) (items.foldl ins OMap.empty).get st := by
  let w : Bytes → Option Bytes := (items.foldl ins OMap.empty).get
  have := sendBatch_inv (IAll (OldOrNew m (keysOf items) w)) (fun it => w it.1 = some it.2 ∧ it.1 ∈ keysOf items)
    mkPutBatches lastWins execPut mkPutBatches_spec
    (fun b hb => lastWins_valid_keys w _ b hb)
    (fun s R b hI hb => put_served_inv m _ w s R b hI hb)
    (fun s b hI => IAll_failed _ s b hI)
    (sc.length + 1) (BState.init m) items sc
    (by intro st hst; simp only [BState.stores, BState.init, List.mem_cons, List.not_mem_nil, or_false] at hst
        rw [hst]; intro k; exact Or.inl rfl)
    (fun it' hit' => by
      obtain ⟨it, hit, h1, h2⟩ := (mem_lastWins items it').mp hit'
      refine ⟨by show (items.foldl ins OMap.empty).get it'.1 = some it'.2; rw [h1]; exact h2, ?_⟩
      rw [h1]; exact List.mem_map.mpr ⟨it, hit, rfl⟩)
  exact this

/-- BatchDelete: in every store the call goes through, each key is untouched or is a requested key that is gone -/
theorem batch_delete_every_store_old_or_deleted (m : Store) (sc : BScript) (keys : List Bytes) :
    ∀ st ∈ (batchDeleteRun m sc keys).1.stores, OldOrNew m keys (fun _ => none) st := by
  have := sendBatch_inv (IAll (OldOrNew m keys (fun _ => none))) (fun it => it.1 ∈ keys)
    mkKeyBatches id execDelete mkKeyBatches_spec
    (fun _ hb => hb)
    (fun s R b hI hb => delete_served_inv m _ s R b hI hb)
    (fun s b hI => IAll_failed _ s b hI)
    (sc.length + 1) (BState.init m) (keys.map fun k => (k, [])) sc
    (by intro st hst; simp only [BState.stores, BState.init, List.mem_cons, List.not_mem_nil, or_false] at hst
        rw [hst]; intro k; exact Or.inl rfl)
    (fun it hit => by
      obtain ⟨k, hk, rfl⟩ := List.mem_map.mp hit
      exact hk)
  exact this

/-- BatchGet never writes -/
theorem batch_get_never_writes (m : Store) (sc : BScript) (keys : List Bytes) :
    ∀ st ∈ (batchGetRun m sc keys).1.stores, st = m := by
  have := sendBatch_inv (IAll (fun st => st = m)) (fun _ => True)
    mkKeyBatches id execGet mkKeyBatches_spec
    (fun _ _ _ _ => trivial)
    (fun s R b hI _ => get_served_inv m s R b hI)
    (fun s b hI => IAll_failed _ s b hI)
    (sc.length + 1) (BState.init m) (keys.map fun k => (k, [])) sc
    (by intro st hst; simp only [BState.stores, BState.init, List.mem_cons, List.not_mem_nil, or_false] at hst
        exact hst)
    (fun _ _ => trivial)
  exact this

/-- DeleteRange, for every script (completed or not): each key is untouched, or lies in `[start, end)` and is gone -/
theorem delete_range_every_store_old_or_deleted (m : Store) (sc : SScript) (start end_ k : Bytes) :
    (deleteRangeRun m sc start end_).1.get k = m.get k ∨
    (inRange start (toBound end_) k = true ∧ (deleteRangeRun m sc start end_).1.get k = none) :=
  deleteRangeLoop_any end_ sc start m [] k

/-! ### total correctness of the batch calls when no batch meets a region error, for every grouping layout `G`
(the cache's view: arbitrary, it only has to be what the batches were built with), and of the single-key calls
as soon as the script contains one served attempt.  A call that does not complete is covered by the two
sections above (result: error; store: old-or-new per key). -/

theorem batch_get_total_no_region_error (m : Store) (G : Layout) (keys : List Bytes) :
    ∃ tr, batchGet m [⟨G, List.replicate (mkKeyBatches G (keys.map fun k => ((k, []) : Item))).length true⟩] keys =
      some (keys.map m.get, tr) := by
  have hok := runBatches_all_ok (sendBatch mkKeyBatches id execGet 1) execGet
    (mkKeyBatches G (keys.map fun k => ((k, []) : Item))) (BState.init m) []
  have hrun : ∃ s, batchGetRun m [⟨G, List.replicate (mkKeyBatches G (keys.map fun k => ((k, []) : Item))).length true⟩] keys = (s, some []) := by
    refine ⟨_, Prod.ext rfl ?_⟩
    simpa [batchGetRun, sendBatch] using hok
  obtain ⟨s, hs⟩ := hrun
  have hb : batchGet m [⟨G, List.replicate (mkKeyBatches G (keys.map fun k => ((k, []) : Item))).length true⟩] keys =
      some (keys.map (s.pairs.foldl (fun acc p => acc.insert p.1 p.2) OMap.empty).get, s.trace) := by
    unfold batchGet; rw [hs]
  exact ⟨s.trace, by rw [hb, ← batch_get_positional m _ keys _ _ hb]⟩

theorem batch_put_total_no_region_error (m : Store) (G : Layout) (items : List Item) :
    ∃ m' tr, batchPut m [⟨G, List.replicate (mkPutBatches G (lastWins items)).length true⟩] items = some (m', tr) ∧
      ∀ k, m'.get k = (items.foldl (fun a it => a.insert it.1 it.2) m).get k := by
  have hok := runBatches_all_ok (sendBatch mkPutBatches lastWins execPut 1) execPut
    (mkPutBatches G (lastWins items)) (BState.init m) []
  have hrun : ∃ s, batchPutRun m [⟨G, List.replicate (mkPutBatches G (lastWins items)).length true⟩] items = (s, some []) := by
    refine ⟨_, Prod.ext rfl ?_⟩
    simpa [batchPutRun, sendBatch] using hok
  obtain ⟨s, hs⟩ := hrun
  have hb : batchPut m [⟨G, List.replicate (mkPutBatches G (lastWins items)).length true⟩] items = some (s.store, s.trace) := by
    unfold batchPut; rw [hs]
  exact ⟨s.store, s.trace, hb, batch_put_last_wins m _ items _ _ hb⟩

theorem batch_delete_total_no_region_error (m : Store) (G : Layout) (keys : List Bytes) :
    ∃ m' tr, batchDelete m [⟨G, List.replicate (mkKeyBatches G (keys.map fun k => ((k, []) : Item))).length true⟩] keys = some (m', tr) ∧
      ∀ k, m'.get k = if k ∈ keys then none else m.get k := by
  have hok := runBatches_all_ok (sendBatch mkKeyBatches id execDelete 1) execDelete
    (mkKeyBatches G (keys.map fun k => ((k, []) : Item))) (BState.init m) []
  have hrun : ∃ s, batchDeleteRun m [⟨G, List.replicate (mkKeyBatches G (keys.map fun k => ((k, []) : Item))).length true⟩] keys = (s, some []) := by
    refine ⟨_, Prod.ext rfl ?_⟩
    simpa [batchDeleteRun, sendBatch] using hok
  obtain ⟨s, hs⟩ := hrun
  have hb : batchDelete m [⟨G, List.replicate (mkKeyBatches G (keys.map fun k => ((k, []) : Item))).length true⟩] keys = some (s.store, s.trace) := by
    unfold batchDelete; rw [hs]
  exact ⟨s.store, s.trace, hb, batch_delete_exact m _ keys _ _ hb⟩

/-! ### total correctness of the batch calls for EVERY complete run: any grouping layouts (stale or not), any
pattern of batches that meet a region error and are re-grouped, to any depth (`Completes`, Model/RawKV.lean) -/

theorem batch_get_total (m : Store) (keys : List Bytes) (e : BEntry) (sc sc' : BScript)
    (h : Completes mkKeyBatches id (mkKeyBatches e.layout (keys.map fun k => ((k, []) : Item))) e.outs sc sc') :
    ∃ tr, batchGet m (e :: sc) keys = some (keys.map m.get, tr) := by
  have hc := sendBatch_completes mkKeyBatches id execGet (BState.init m) (keys.map fun k => ((k, []) : Item)) e sc sc' h
  have hrun : ∃ s, batchGetRun m (e :: sc) keys = (s, some sc') := ⟨_, Prod.ext rfl hc⟩
  obtain ⟨s, hs⟩ := hrun
  have hb : batchGet m (e :: sc) keys =
      some (keys.map (s.pairs.foldl (fun acc p => acc.insert p.1 p.2) OMap.empty).get, s.trace) := by
    unfold batchGet; rw [hs]
  exact ⟨s.trace, by rw [hb, ← batch_get_positional m _ keys _ _ hb]⟩

theorem batch_put_total (m : Store) (items : List Item) (e : BEntry) (sc sc' : BScript)
    (h : Completes mkPutBatches lastWins (mkPutBatches e.layout (lastWins items)) e.outs sc sc') :
    ∃ m' tr, batchPut m (e :: sc) items = some (m', tr) ∧
      ∀ k, m'.get k = (items.foldl (fun a it => a.insert it.1 it.2) m).get k := by
  have hc := sendBatch_completes mkPutBatches lastWins execPut (BState.init m) items e sc sc' h
  have hrun : ∃ s, batchPutRun m (e :: sc) items = (s, some sc') := ⟨_, Prod.ext rfl hc⟩
  obtain ⟨s, hs⟩ := hrun
  have hb : batchPut m (e :: sc) items = some (s.store, s.trace) := by unfold batchPut; rw [hs]
  exact ⟨s.store, s.trace, hb, batch_put_last_wins m _ items _ _ hb⟩

theorem batch_delete_total (m : Store) (keys : List Bytes) (e : BEntry) (sc sc' : BScript)
    (h : Completes mkKeyBatches id (mkKeyBatches e.layout (keys.map fun k => ((k, []) : Item))) e.outs sc sc') :
    ∃ m' tr, batchDelete m (e :: sc) keys = some (m', tr) ∧ ∀ k, m'.get k = if k ∈ keys then none else m.get k := by
  have hc := sendBatch_completes mkKeyBatches id execDelete (BState.init m) (keys.map fun k => ((k, []) : Item)) e sc sc' h
  have hrun : ∃ s, batchDeleteRun m (e :: sc) keys = (s, some sc') := ⟨_, Prod.ext rfl hc⟩
  obtain ⟨s, hs⟩ := hrun
  have hb : batchDelete m (e :: sc) keys = some (s.store, s.trace) := by unfold batchDelete; rw [hs]
  exact ⟨s.store, s.trace, hb, batch_delete_exact m _ keys _ _ hb⟩

/-- Get / Put / Delete / CompareAndSwap complete as soon as one attempt is served (any number of region errors and
    any layouts before it), and are atomic: one region request, the served one, is their linearisation point. -/
theorem single_key_total (m : Store) (sc : SScript) (L : Layout) (hL : some L ∈ sc) (k v : Bytes) (prev : Option Bytes) :
    RawKV.get m sc k = some (m.get k) ∧ put m sc k v = some (m.insert k v) ∧ delete m sc k = some (m.erase k) ∧
    cas m sc k prev v = some (if m.get k = prev then m.insert k v else m, m.get k, decide (m.get k = prev)) := by
  obtain ⟨L', hn⟩ := nextOk_of_mem sc L hL
  refine ⟨?_, ?_, ?_, ?_⟩
  · have : ∃ r, RawKV.get m sc k = some r := by simp [RawKV.get, hn]
    obtain ⟨r, hr⟩ := this
    rw [hr, get_eq m sc k r hr]
  · have : ∃ r, put m sc k v = some r := by simp [put, hn]
    obtain ⟨r, hr⟩ := this
    rw [hr, put_eq m sc k v r hr]
  · have : ∃ r, delete m sc k = some r := by simp [delete, hn]
    obtain ⟨r, hr⟩ := this
    rw [hr, delete_eq m sc k r hr]
  · have : ∃ r, cas m sc k prev v = some r := by simp [cas, hn]
    obtain ⟨⟨m', cur, sw⟩, hr⟩ := this
    obtain ⟨h1, h2, h3⟩ := cas_eq m sc k prev v m' cur sw hr
    rw [hr, h1, h3]
    have : sw = decide (m.get k = prev) := by
      by_cases hp : m.get k = prev
      · simp [hp, h2.mpr hp]
      · have : sw = false := by cases sw <;> simp_all
        simp [hp, this]
    rw [this]

/-- the write calls keep the map sorted (so the hypotheses `m.Sorted` above hold along every op sequence) -/
theorem writes_keep_sorted (m : Store) (hs : m.Sorted) :
    (∀ k v, (m.insert k v).Sorted) ∧ (∀ k, (m.erase k).Sorted) ∧ (∀ lo hi, (m.eraseRange lo hi).Sorted) :=
  ⟨fun k v => OMap.insert_sorted hs k v, fun k => OMap.erase_sorted hs k, fun lo hi => OMap.eraseRange_sorted hs lo hi⟩

/-! ### termination once the layout stays constant (Scan, Checksum, DeleteRange) -/

/-- Scan returns for every layout sequence that ends with `n > |L|` served attempts under one layout `L`,
    whatever layouts and region errors came before. -/
theorem scan_terminates (m : Store) (L : Layout) (n : Nat) (hn : L.length < n) (pre : SScript)
    (start end_ : Bytes) (limit : Nat) (keyOnly : Bool) :
    (scan m (pre ++ List.replicate n (some L)) start end_ limit keyOnly).isSome = true :=
  scanLoop_eventually_const_terminates m _ end_ limit L n hn pre start [] []

theorem checksum_terminates (m : Store) (L : Layout) (n : Nat) (hn : L.length < n) (pre : SScript) (start end_ : Bytes) :
    (checksum m (pre ++ List.replicate n (some L)) start end_).isSome = true :=
  checksumLoop_eventually_const_terminates m end_ L n hn pre start Checksum.zero []

theorem delete_range_terminates (m : Store) (L : Layout) (n : Nat) (hn : L.length < n) (pre : SScript) (start end_ : Bytes) :
    (deleteRange m (pre ++ List.replicate n (some L)) start end_).isSome = true := by
  have := deleteRangeLoop_eventually_const_terminates end_ L n hn pre start m []
  simp [deleteRange, deleteRangeRun, this]

theorem reverse_scan_terminates (m : Store) (L : Layout) (n : Nat) (hn : L.length < n) (pre : SScript)
    (start end_ : Bytes) (limit : Nat) (keyOnly : Bool) :
    (reverseScan m (pre ++ List.replicate n (some L)) start end_ limit keyOnly).isSome = true :=
  rscanLoop_eventually_const_terminates m _ end_ limit L n hn pre start [] []

/-! ### total correctness for eventually constant layouts

`pre` is an arbitrary history (any layouts, i.e. any splits / merges between the partial requests, and any region
errors); after it the layout stays `L` for `n > |L|` served attempts.  Then the call RETURNS, and returns the map's
answer. -/

theorem scan_total (m : Store) (hs : m.Sorted) (L : Layout) (n : Nat) (hn : L.length < n) (pre : SScript)
    (start end_ : Bytes) (limit : Nat) (keyOnly : Bool) :
    ∃ tr, scan m (pre ++ List.replicate n (some L)) start end_ limit keyOnly =
      some (((m.range start (toBound end_)).take limit).map (if keyOnly then stripValue else id), tr) := by
  have ht := scan_terminates m L n hn pre start end_ limit keyOnly
  obtain ⟨⟨res, tr⟩, h⟩ := Option.isSome_iff_exists.mp ht
  exact ⟨tr, by rw [h, scan_eq_take_limit_range m hs _ _ _ _ _ _ _ h]⟩

theorem reverse_scan_total (m : Store) (hs : m.Sorted) (L : Layout) (n : Nat) (hn : L.length < n) (pre : SScript)
    (start end_ : Bytes) (limit : Nat) (keyOnly : Bool) :
    ∃ tr, reverseScan m (pre ++ List.replicate n (some L)) start end_ limit keyOnly =
      some (((m.rrange (some start) end_).take limit).map (if keyOnly then stripValue else id), tr) := by
  have ht := reverse_scan_terminates m L n hn pre start end_ limit keyOnly
  obtain ⟨⟨res, tr⟩, h⟩ := Option.isSome_iff_exists.mp ht
  exact ⟨tr, by rw [h, reverse_scan_eq_take_limit_rrange m hs _ _ _ _ _ _ _ h]⟩

theorem checksum_total (m : Store) (hs : m.Sorted) (L : Layout) (n : Nat) (hn : L.length < n) (pre : SScript)
    (start end_ : Bytes) :
    ∃ tr, checksum m (pre ++ List.replicate n (some L)) start end_ = some (csOf (m.range start (toBound end_)), tr) := by
  have ht := checksum_terminates m L n hn pre start end_
  obtain ⟨⟨c, tr⟩, h⟩ := Option.isSome_iff_exists.mp ht
  exact ⟨tr, by rw [h, checksum_eq_fold m hs _ _ _ _ _ h]⟩

theorem delete_range_total (m : Store) (L : Layout) (n : Nat) (hn : L.length < n) (pre : SScript) (start end_ : Bytes) :
    ∃ tr, deleteRange m (pre ++ List.replicate n (some L)) start end_ = some (m.eraseRange start (toBound end_), tr) := by
  have ht := delete_range_terminates m L n hn pre start end_
  obtain ⟨⟨res, tr⟩, h⟩ := Option.isSome_iff_exists.mp ht
  exact ⟨tr, by rw [h, (delete_range_exact m _ _ _ _ _ h).1]⟩

/-! ### no duplicates, no gaps (consequences of "the first `limit` pairs of the range") -/

/-- the keys returned by Scan are strictly ascending: no key twice, none out of order -/
theorem scan_keys_strictly_ascending (m : Store) (hs : m.Sorted) (sc : SScript) (start end_ : Bytes) (limit : Nat)
    (keyOnly : Bool) (res : List KV) (tr : STrace) (h : scan m sc start end_ limit keyOnly = some (res, tr)) :
    (res.map (·.1)).Pairwise (· < ·) := by
  rw [scan_eq_take_limit_range m hs _ _ _ _ _ _ _ h, List.map_map]
  have hk : ((fun x : KV => x.1) ∘ (if keyOnly then stripValue else id)) = (fun x : KV => x.1) := by
    funext x; cases keyOnly <;> simp [stripValue]
  rw [hk, List.pairwise_map]
  exact List.Pairwise.sublist (List.take_sublist _ _) (OMap.range_sorted hs _ _)

/-- the keys returned by ReverseScan are strictly descending -/
theorem reverse_scan_keys_strictly_descending (m : Store) (hs : m.Sorted) (sc : SScript) (start end_ : Bytes)
    (limit : Nat) (keyOnly : Bool) (res : List KV) (tr : STrace)
    (h : reverseScan m sc start end_ limit keyOnly = some (res, tr)) :
    (res.map (·.1)).Pairwise (fun a b => b < a) := by
  rw [reverse_scan_eq_take_limit_rrange m hs _ _ _ _ _ _ _ h, List.map_map]
  have hk : ((fun x : KV => x.1) ∘ (if keyOnly then stripValue else id)) = (fun x : KV => x.1) := by
    funext x; cases keyOnly <;> simp [stripValue]
  rw [hk, List.pairwise_map]
  refine List.Pairwise.sublist (List.take_sublist _ _) ?_
  unfold OMap.rrange
  rw [List.pairwise_reverse]
  exact OMap.range_sorted hs _ _

/-- no gap: what Scan returns is a prefix of the range, and something of the range is left out only when the
    limit was reached -/
theorem scan_no_gap (m : Store) (hs : m.Sorted) (sc : SScript) (start end_ : Bytes) (limit : Nat)
    (res : List KV) (tr : STrace) (h : scan m sc start end_ limit false = some (res, tr)) :
    ∃ rest, m.range start (toBound end_) = res ++ rest ∧ (rest ≠ [] → res.length = limit) := by
  have := scan_eq_take_limit_range m hs _ _ _ _ _ _ _ h
  simp only [Bool.false_eq_true, if_false, List.map_id] at this
  refine ⟨(m.range start (toBound end_)).drop limit, by rw [this, List.take_append_drop], ?_⟩
  intro hne
  rw [this, List.length_take]
  have : limit < (m.range start (toBound end_)).length := by
    apply Decidable.byContradiction
    intro hc
    exact hne (List.drop_eq_nil_of_le (by omega))
  omega

/-- ReverseScan returns the LAST `limit` pairs of `[end, start)`, in reverse order -/
theorem reverse_scan_eq_last_limit_reversed (m : Store) (hs : m.Sorted) (sc : SScript) (start end_ : Bytes) (limit : Nat)
    (res : List KV) (tr : STrace) (h : reverseScan m sc start end_ limit false = some (res, tr)) :
    res = ((m.range end_ (some start)).drop ((m.range end_ (some start)).length - limit)).reverse := by
  have := reverse_scan_eq_take_limit_rrange m hs _ _ _ _ _ _ _ h
  simp only [Bool.false_eq_true, if_false, List.map_id] at this
  rw [this]
  unfold OMap.rrange
  exact List.take_reverse

/-! ### whole operation sequences: the client (any layouts, any changes between and during calls) refines ONE ordered map -/

theorem batch_put_eq_sequential_puts (m : Store) (hs : m.Sorted) (sc : BScript) (items : List Item) (m' : Store)
    (tr : List (List Item × Bool)) (h : batchPut m sc items = some (m', tr)) :
    m' = items.foldl (fun a it => a.insert it.1 it.2) m := by
  have hsorted : m'.Sorted := by
    have := sendBatch_inv (IAll OMap.Sorted) (fun _ => True) mkPutBatches lastWins execPut mkPutBatches_spec
      (fun _ _ _ _ => trivial) (fun s R b hI _ => put_served_sorted s R b hI) (fun s b hI => IAll_failed _ s b hI)
      (sc.length + 1) (BState.init m) items sc
      (by intro st hst; simp only [BState.stores, BState.init, List.mem_cons, List.not_mem_nil, or_false] at hst
          rw [hst]; exact hs)
      (fun _ _ => trivial)
    unfold batchPut at h
    split at h
    · simp at h
    · rename_i s sc' hr
      simp only [Option.some.injEq, Prod.mk.injEq] at h
      rw [← h.1]
      have hh := this s.store
      unfold batchPutRun at hr
      rw [hr] at hh
      exact hh (by simp [BState.stores])
  exact OMap.ext_of_sorted hsorted (foldl_ins_sorted items m hs) (batch_put_last_wins m sc items m' tr h)

theorem batch_delete_eq_sequential_deletes (m : Store) (hs : m.Sorted) (sc : BScript) (keys : List Bytes) (m' : Store)
    (tr : List (List Item × Bool)) (h : batchDelete m sc keys = some (m', tr)) :
    m' = keys.foldl (fun a k => a.erase k) m := by
  have hsorted : m'.Sorted := by
    have := sendBatch_inv (IAll OMap.Sorted) (fun _ => True) mkKeyBatches id execDelete mkKeyBatches_spec
      (fun _ _ _ _ => trivial) (fun s R b hI _ => delete_served_sorted s R b hI) (fun s b hI => IAll_failed _ s b hI)
      (sc.length + 1) (BState.init m) (keys.map fun k => (k, [])) sc
      (by intro st hst; simp only [BState.stores, BState.init, List.mem_cons, List.not_mem_nil, or_false] at hst
          rw [hst]; exact hs)
      (fun _ _ => trivial)
    unfold batchDelete at h
    split at h
    · simp at h
    · rename_i s sc' hr
      simp only [Option.some.injEq, Prod.mk.injEq] at h
      rw [← h.1]
      have hh := this s.store
      unfold batchDeleteRun at hr
      rw [hr] at hh
      exact hh (by simp [BState.stores])
  refine OMap.ext_of_sorted hsorted (foldl_erase_sorted keys m hs) (fun k => ?_)
  rw [batch_delete_exact m sc keys m' tr h k, foldl_erase_get]

/-- one call: whatever the observations (layouts per attempt, region errors, grouping layouts, failed batches), a
    call that completes returns the map's result and leaves the map's new state (and a sorted one) -/
theorem client_step_refines (m : Store) (hs : m.Sorted) (o : Obs) (c : Call) (r : Store × Result)
    (h : clientStep m o c = some r) : r = specStep m c ∧ r.1.Sorted := by
  cases c with
  | get k =>
    simp only [clientStep, Option.map_eq_some_iff] at h
    obtain ⟨x, hx, rfl⟩ := h
    exact ⟨by simp [specStep, get_eq m _ k x hx], hs⟩
  | put k v =>
    simp only [clientStep, Option.map_eq_some_iff] at h
    obtain ⟨x, hx, rfl⟩ := h
    rw [put_eq m _ k v x hx]
    exact ⟨rfl, OMap.insert_sorted hs k v⟩
  | delete k =>
    simp only [clientStep, Option.map_eq_some_iff] at h
    obtain ⟨x, hx, rfl⟩ := h
    rw [delete_eq m _ k x hx]
    exact ⟨rfl, OMap.erase_sorted hs k⟩
  | cas k prev new =>
    simp only [clientStep, Option.map_eq_some_iff] at h
    obtain ⟨⟨m', cur, sw⟩, hx, rfl⟩ := h
    obtain ⟨h1, h2, h3⟩ := cas_eq m _ k prev new m' cur sw hx
    have hsw : sw = decide (m.get k = prev) := by
      by_cases hp : m.get k = prev
      · simp [hp, h2.mpr hp]
      · have : sw = false := by cases sw <;> simp_all
        simp [hp, this]
    refine ⟨by simp [specStep, h1, h3, hsw], ?_⟩
    simp only [h3]
    split
    · exact OMap.insert_sorted hs k new
    · exact hs
  | batchGet keys =>
    simp only [clientStep, Option.map_eq_some_iff] at h
    obtain ⟨⟨vals, tr⟩, hx, rfl⟩ := h
    exact ⟨by simp [specStep, batch_get_positional m _ keys vals tr hx], hs⟩
  | batchPut items =>
    simp only [clientStep, Option.map_eq_some_iff] at h
    obtain ⟨⟨m', tr⟩, hx, rfl⟩ := h
    have := batch_put_eq_sequential_puts m hs _ items m' tr hx
    exact ⟨by simp [specStep, this], by simp only [this]; exact foldl_ins_sorted items m hs⟩
  | batchDelete keys =>
    simp only [clientStep, Option.map_eq_some_iff] at h
    obtain ⟨⟨m', tr⟩, hx, rfl⟩ := h
    have := batch_delete_eq_sequential_deletes m hs _ keys m' tr hx
    exact ⟨by simp [specStep, this], by simp only [this]; exact foldl_erase_sorted keys m hs⟩
  | scan s e limit ko =>
    simp only [clientStep, Option.map_eq_some_iff] at h
    obtain ⟨⟨res, tr⟩, hx, rfl⟩ := h
    exact ⟨by simp [specStep, scan_eq_take_limit_range m hs _ s e limit ko res tr hx], hs⟩
  | reverseScan s e limit ko =>
    simp only [clientStep, Option.map_eq_some_iff] at h
    obtain ⟨⟨res, tr⟩, hx, rfl⟩ := h
    exact ⟨by simp [specStep, reverse_scan_eq_take_limit_rrange m hs _ s e limit ko res tr hx], hs⟩
  | deleteRange s e =>
    simp only [clientStep, Option.map_eq_some_iff] at h
    obtain ⟨⟨res, tr⟩, hx, rfl⟩ := h
    have := (delete_range_exact m _ s e res tr hx).1
    exact ⟨by simp [specStep, this], by simp only [this]; exact OMap.eraseRange_sorted hs _ _⟩
  | checksum s e =>
    simp only [clientStep, Option.map_eq_some_iff] at h
    obtain ⟨⟨c, tr⟩, hx, rfl⟩ := h
    exact ⟨by simp [specStep, checksum_eq_fold m hs _ s e c tr hx], hs⟩

/-- THE property: for every operation sequence, every region layout sequence and every topology change between or
    during the calls (all contained in the per-call observations), if the calls complete then their results and the
    final contents are those of the same operations on a single ordered map. -/
theorem client_refines_one_ordered_map (m : Store) (hs : m.Sorted) (calls : List (Call × Obs))
    (out : Store × List Result) (h : clientRun m calls = some out) :
    out = specRun m (calls.map (·.1)) := by
  induction calls generalizing m out with
  | nil =>
    simp only [clientRun, Option.some.injEq] at h
    rw [← h]; rfl
  | cons co cs ih =>
    obtain ⟨c, o⟩ := co
    simp only [clientRun] at h
    split at h
    · simp at h
    · rename_i r hr
      split at h
      · simp at h
      · rename_i t ht
        simp only [Option.some.injEq] at h
        obtain ⟨h1, h2⟩ := client_step_refines m hs o c r hr
        have := ih r.1 h2 t ht
        rw [← h, this, h1]
        rfl

/-! ### non-vacuity: a sorted three-key map, a split in the middle of the call, a region error, a re-grouped batch -/

def m0 : Store := ((OMap.empty.insert [0x6b] [1]).insert [0x6d] [2]).insert [0x70] [3]

example : m0.Sorted := by
  unfold m0; exact OMap.insert_sorted (OMap.insert_sorted (OMap.insert_sorted OMap.empty_sorted _ _) _ _) _ _
example : ∃ r, scan m0 [some [[0x6c]], none, some [[0x6c], [0x6e]], some []] [] [] 10 false = some r := ⟨_, rfl⟩
example : ∃ r, reverseScan m0 [some [[0x6c]], none, some [[0x6c]]] [0x7a] [] 2 true = some r := ⟨_, rfl⟩
example : ∃ r, deleteRange m0 [some [[0x6c]], some [[0x6c], [0x6e]], some []] [0x6b] [] = some r := ⟨_, rfl⟩
example : ∃ r, checksum m0 [some [[0x6c]], some [[0x6c]]] [] [] = some r := ⟨_, rfl⟩
example : ∃ r, batchGet m0 [⟨[[0x6c]], [true, false]⟩, ⟨[], [true]⟩] [[0x6b], [0x70], [0x6b], [0x61]] = some r := ⟨_, rfl⟩
example : ∃ r, batchPut m0 [⟨[[0x6c]], [false, true]⟩, ⟨[], [true]⟩] [([0x6b], [5]), ([0x70], [6]), ([0x6b], [7])] = some r := ⟨_, rfl⟩
example : ∃ r, batchDelete m0 [⟨[[0x6c]], [true, true]⟩] [[0x6b], [0x70]] = some r := ⟨_, rfl⟩
example : ∃ r, RawKV.get m0 [none, some [[0x6c]]] [0x6d] = some r := ⟨_, rfl⟩
example : ∃ r, cas m0 [some []] [0x6d] (some [2]) [9] = some r := ⟨_, rfl⟩

-- total correctness: the hypothesis `L.length < n` is satisfiable and the conclusion is about a run with a region error,
-- a split between the partial requests and then a constant layout
theorem m0_sorted : m0.Sorted := by
  unfold m0; exact OMap.insert_sorted (OMap.insert_sorted (OMap.insert_sorted OMap.empty_sorted _ _) _ _) _ _
example : ∃ tr, scan m0 ([some [[0x6c]], none, some [[0x6c], [0x6e]]] ++ List.replicate 2 (some [[0x6e]])) [] [] 2 false =
    some ([([0x6b], [1]), ([0x6d], [2])], tr) :=
  scan_total m0 m0_sorted [[0x6e]] 2 (by decide) _ [] [] 2 false
example : ∃ tr, reverseScan m0 ([none, some [[0x6c]]] ++ List.replicate 3 (some [[0x6c], [0x6e]])) [0x7a] [] 2 false =
    some ([([0x70], [3]), ([0x6d], [2])], tr) :=
  reverse_scan_total m0 m0_sorted [[0x6c], [0x6e]] 3 (by decide) _ [0x7a] [] 2 false

-- a BatchPut that does not complete (first batch served, second meets a region error, then the script ends): the
-- store reached is a genuine intermediate one, which `batch_put_every_store_old_or_new` talks about
example : (batchPutRun m0 [⟨[[0x6c]], [true, false]⟩] [([0x6b], [5]), ([0x70], [6])]).2 = none ∧
    (batchPutRun m0 [⟨[[0x6c]], [true, false]⟩] [([0x6b], [5]), ([0x70], [6])]).1.store.get [0x6b] = some [5] ∧
    (batchPutRun m0 [⟨[[0x6c]], [true, false]⟩] [([0x6b], [5]), ([0x70], [6])]).1.store.get [0x70] = some [3] := ⟨rfl, rfl, rfl⟩
-- a DeleteRange that ends after its first partial request
example : (deleteRangeRun m0 [some [[0x6c]]] [] []).2.2 = false ∧
    (deleteRangeRun m0 [some [[0x6c]]] [] []).1.get [0x6b] = none ∧
    (deleteRangeRun m0 [some [[0x6c]]] [] []).1.get [0x70] = some [3] := ⟨rfl, rfl, rfl⟩
example : some [[0x6c]] ∈ ([none, some [[0x6c]], none] : SScript) := by simp
-- `Completes` is inhabited by a run with a region error: keys 6b | 70 grouped with split point 6c, the second batch fails
-- and is re-grouped (no split point any more) into one served batch
example : Completes mkKeyBatches id (mkKeyBatches [[0x6c]] [([0x6b], []), ([0x70], [])]) [true, false] [⟨[], [true]⟩] [] :=
  Completes.served (Completes.regrouped (Completes.served (Completes.nil _)) (Completes.nil _))

-- a completed call sequence: put, a batch put with a region error and a re-grouping, a scan across a split made during it
example : ∃ out, clientRun m0
    [(.put [0x61] [9], ⟨[none, some [[0x6c]]], []⟩),
     (.batchPut [([0x6b], [5]), ([0x70], [6]), ([0x6b], [7])], ⟨[], [⟨[[0x6c]], [false, true]⟩, ⟨[], [true]⟩]⟩),
     (.scan [] [] 3 false, ⟨[some [[0x6c]], none, some [[0x6c], [0x6e]], some []], []⟩)] = some out := ⟨_, rfl⟩

end CGV.Props.C11
