/-
  C11 — raw KV operations behave as one ordered map regardless of region layout.

  Model: `Model/RawKV.lean` (client loops of rawkv/rawkv.go + kvrpc/batch.go over a store that serves, per region,
  the Spec map restricted to that region).  Every theorem quantifies over ALL scripts, i.e. over every sequence of
  region layouts seen by the partial requests of one call (the layout may change between any two partial requests),
  every interleaving of region errors / retries, and — for batches — every (possibly stale) grouping layout and every
  pattern of failed batches that are re-grouped recursively.  They are partial-correctness statements: the hypothesis
  `… = some r` says that the call returned (the script did not run out); termination is `…_terminates` below.
-/
import ClientGoVerif.Proofs.RawKV
namespace CGV.Props.C11
open CGV CGV.Spec CGV.RawKV

/-- Scan returns the first `limit` pairs of `[start, end)` in order across region boundaries (values stripped if key-only). -/
theorem scan_eq_take_limit_range (m : Store) (hs : m.Sorted) (sc : SScript) (start end_ : Bytes) (limit : Nat)
    (keyOnly : Bool) (res : List KV) (tr : STrace) (h : scan m sc start end_ limit keyOnly = some (res, tr)) :
    res = ((m.range start (toBound end_)).take limit).map (if keyOnly then stripValue else id) := by
  have := scanLoop_spec m hs _ end_ limit sc start [] [] res tr h
  simpa using this

/-- ReverseScan returns the first `limit` pairs of `[end, start)` in descending order.  (`start = []` selects
    nothing: scanning from +∞ is documented as unsupported.) -/
theorem reverse_scan_eq_take_limit_rrange (m : Store) (hs : m.Sorted) (sc : SScript) (start end_ : Bytes) (limit : Nat)
    (keyOnly : Bool) (res : List KV) (tr : STrace) (h : reverseScan m sc start end_ limit keyOnly = some (res, tr)) :
    res = ((m.rrange (some start) end_).take limit).map (if keyOnly then stripValue else id) := by
  have := rscanLoop_spec m hs _ end_ limit sc start [] [] res tr h
  simpa using this

/-- DeleteRange removes exactly the keys in `[start, end)`. -/
theorem delete_range_exact (m : Store) (sc : SScript) (start end_ : Bytes) (res : Store) (tr : STrace)
    (h : deleteRange m sc start end_ = some (res, tr)) :
    res = m.eraseRange start (toBound end_) ∧
    ∀ k, res.get k = if inRange start (toBound end_) k then none else m.get k := by
  have := deleteRangeLoop_spec end_ sc start m [] res tr h
  exact ⟨this, fun k => by rw [this, OMap.get_eraseRange]⟩

/-- Checksum equals the fold (xor of crc64, count, byte count) over the pairs of `[start, end)` of the whole map. -/
theorem checksum_eq_fold (m : Store) (hs : m.Sorted) (sc : SScript) (start end_ : Bytes) (c : Checksum) (tr : STrace)
    (h : checksum m sc start end_ = some (c, tr)) :
    c = csOf (m.range start (toBound end_)) := by
  have := checksumLoop_spec m hs end_ sc start Checksum.zero [] c tr h
  rw [this, Checksum.zero_add]

/-- BatchGet returns, position by position, the map's value of the requested key (duplicates included). -/
theorem batch_get_positional (m : Store) (sc : BScript) (keys : List Bytes) (vals : List (Option Bytes))
    (tr : List (List Item × Bool)) (h : batchGet m sc keys = some (vals, tr)) :
    vals = keys.map m.get := by
  unfold batchGet at h
  split at h
  · simp at h
  · rename_i s sc' hs
    simp only [Option.some.injEq, Prod.mk.injEq] at h
    have sp := sendBatch_spec PGet_eff (fun _ => True) mkKeyBatches id execGet mkKeyBatches_spec
      (fun _ _ _ _ => trivial) (fun _ _ => Iff.rfl) execGet_eff _ _ _ _ _ _ hs (fun _ _ => trivial)
    obtain ⟨hst, hp⟩ := sp
    simp only [view] at hst hp
    rw [keysOf_mapKey] at hp
    rw [← h.1]
    apply List.map_congr_left
    intro k hkm
    have hsound : ∀ p ∈ s.pairs, m.get p.1 = some p.2 := by
      intro p hp'
      rcases (hp p.1 p.2).mp hp' with h0 | h0
      · simp at h0
      · exact h0.2
    have := keyToValue_get m.get s.pairs hsound OMap.empty k
    show (s.pairs.foldl ins OMap.empty).get k = m.get k
    rw [this]
    split
    · rfl
    · rename_i hn
      rw [empty_get]
      cases hg : m.get k with
      | none => rfl
      | some x =>
        have : (k, x) ∈ s.pairs := (hp k x).mpr (Or.inr ⟨hkm, hg⟩)
        exact absurd (List.mem_map.mpr ⟨(k, x), this, rfl⟩) hn

/-- BatchPut has the effect of the sequential puts in request order: for a duplicated key the last value wins. -/
theorem batch_put_last_wins (m : Store) (sc : BScript) (items : List Item) (m' : Store)
    (tr : List (List Item × Bool)) (h : batchPut m sc items = some (m', tr)) :
    ∀ k, m'.get k = (items.foldl (fun a it => a.insert it.1 it.2) m).get k := by
  unfold batchPut at h
  split at h
  · simp at h
  · rename_i s sc' hs
    simp only [Option.some.injEq, Prod.mk.injEq] at h
    let w : Bytes → Option Bytes := (items.foldl ins OMap.empty).get
    have sp := sendBatch_spec (PPut_eff w) (fun it => w it.1 = some it.2) mkPutBatches lastWins execPut mkPutBatches_spec
      (fun b hb => lastWins_valid w b hb) lastWins_keys
      (fun s R b hb k => by
        simp only [view, execPut]
        exact regionBatchPut_get w R b s.store hb k)
      _ _ _ _ _ _ hs
      (fun it' hit' => by
        obtain ⟨it, _, h1, h2⟩ := (mem_lastWins items it').mp hit'
        show (items.foldl ins OMap.empty).get it'.1 = some it'.2
        rw [h1]; exact h2)
    intro k
    have := sp k
    simp only [view] at this
    rw [← h.1, this]
    exact (foldl_ins_split items m k).symm

/-- BatchDelete removes exactly the requested keys. -/
theorem batch_delete_exact (m : Store) (sc : BScript) (keys : List Bytes) (m' : Store)
    (tr : List (List Item × Bool)) (h : batchDelete m sc keys = some (m', tr)) :
    ∀ k, m'.get k = if k ∈ keys then none else m.get k := by
  unfold batchDelete at h
  split at h
  · simp at h
  · rename_i s sc' hs
    simp only [Option.some.injEq, Prod.mk.injEq] at h
    have sp := sendBatch_spec PDel_eff (fun _ => True) mkKeyBatches id execDelete mkKeyBatches_spec
      (fun _ _ _ _ => trivial) (fun _ _ => Iff.rfl)
      (fun s R b hb k => by
        simp only [view, execDelete]
        exact regionBatchDelete_get R _ s.store (fun k hk => by
          obtain ⟨it, hit, rfl⟩ := List.mem_map.mp hk
          exact (hb it hit).2) k)
      _ _ _ _ _ _ hs (fun _ _ => trivial)
    intro k
    have := sp k
    simp only [view, keysOf_mapKey] at this
    rw [← h.1, this]

/-- Get / Put / Delete / CompareAndSwap: whatever layout the request is finally served under, and after any
    number of region errors, the result is the map's. -/
theorem get_eq (m : Store) (sc : SScript) (k : Bytes) (r : Option Bytes) (h : RawKV.get m sc k = some r) : r = m.get k := by
  unfold RawKV.get at h
  cases hn : nextOk sc with
  | none => simp [hn] at h
  | some L =>
    simp only [hn, Option.map_some, Option.some.injEq] at h
    rw [← h, regionGet_eq, inRegion_locate]; rfl

theorem put_eq (m : Store) (sc : SScript) (k v : Bytes) (m' : Store) (h : put m sc k v = some m') : m' = m.insert k v := by
  unfold put at h
  cases hn : nextOk sc with
  | none => simp [hn] at h
  | some L =>
    simp only [hn, Option.map_some, Option.some.injEq] at h
    rw [← h, regionPut, inRegion_locate]; rfl

theorem delete_eq (m : Store) (sc : SScript) (k : Bytes) (m' : Store) (h : delete m sc k = some m') : m' = m.erase k := by
  unfold delete at h
  cases hn : nextOk sc with
  | none => simp [hn] at h
  | some L =>
    simp only [hn, Option.map_some, Option.some.injEq] at h
    rw [← h, regionDelete, inRegion_locate]; rfl

theorem cas_eq (m : Store) (sc : SScript) (k : Bytes) (prev : Option Bytes) (new : Bytes)
    (m' : Store) (cur : Option Bytes) (swapped : Bool) (h : cas m sc k prev new = some (m', cur, swapped)) :
    cur = m.get k ∧ (swapped = true ↔ m.get k = prev) ∧ m' = if m.get k = prev then m.insert k new else m := by
  unfold cas at h
  cases hn : nextOk sc with
  | none => simp [hn] at h
  | some L =>
    simp only [hn, Option.map_some, Option.some.injEq] at h
    simp only [regionCAS, regionGet_eq, inRegion_locate, if_true, regionPut] at h
    by_cases hp : m.get k = prev
    · simp only [hp, if_true, Prod.mk.injEq] at h
      obtain ⟨h1, h2, h3⟩ := h
      simp [← h1, ← h2, ← h3, hp]
    · simp only [hp, if_false, Prod.mk.injEq] at h
      obtain ⟨h1, h2, h3⟩ := h
      simp [← h1, ← h2, ← h3, hp]

/-- the write calls keep the map sorted (so the hypotheses `m.Sorted` above hold along every op sequence) -/
theorem writes_keep_sorted (m : Store) (hs : m.Sorted) :
    (∀ k v, (m.insert k v).Sorted) ∧ (∀ k, (m.erase k).Sorted) ∧ (∀ lo hi, (m.eraseRange lo hi).Sorted) :=
  ⟨fun k v => OMap.insert_sorted hs k v, fun k => OMap.erase_sorted hs k, fun lo hi => OMap.eraseRange_sorted hs lo hi⟩

/-! ### termination once the layout stays constant (Scan, Checksum, DeleteRange) -/

/-- Scan returns for every layout sequence that ends with `n > |L|` served attempts under one layout `L`,
    whatever layouts and region errors came before. -/
theorem scan_terminates (m : Store) (L : Layout) (n : Nat) (hn : L.length < n) (pre : SScript)
    (start end_ : Bytes) (limit : Nat) (keyOnly : Bool) :
    (scan m (pre ++ List.replicate n (some L)) start end_ limit keyOnly).isSome = true :=
  scanLoop_eventually_const_terminates m _ end_ limit L n hn pre start [] []

theorem checksum_terminates (m : Store) (L : Layout) (n : Nat) (hn : L.length < n) (pre : SScript) (start end_ : Bytes) :
    (checksum m (pre ++ List.replicate n (some L)) start end_).isSome = true :=
  checksumLoop_eventually_const_terminates m end_ L n hn pre start Checksum.zero []

theorem delete_range_terminates (m : Store) (L : Layout) (n : Nat) (hn : L.length < n) (pre : SScript) (start end_ : Bytes) :
    (deleteRange m (pre ++ List.replicate n (some L)) start end_).isSome = true :=
  deleteRangeLoop_eventually_const_terminates end_ L n hn pre start m []

/-- NOT proved (kept as statements): termination of ReverseScan for eventually constant layouts (symmetric
    argument with the split points below the cursor), and of the batch calls for scripts whose batches
    eventually all succeed. -/
def reverse_scan_terminates_stmt : Prop :=
  ∀ (m : Store) (L : Layout) (n : Nat), L.length < n → ∀ (pre : SScript) (start end_ : Bytes) (limit : Nat) (keyOnly : Bool),
    (reverseScan m (pre ++ List.replicate n (some L)) start end_ limit keyOnly).isSome = true

/-! ### non-vacuity: a sorted three-key map, a split in the middle of the call, a region error, a re-grouped batch -/

def m0 : Store := ((OMap.empty.insert [0x6b] [1]).insert [0x6d] [2]).insert [0x70] [3]

example : m0.Sorted := by
  unfold m0; exact OMap.insert_sorted (OMap.insert_sorted (OMap.insert_sorted OMap.empty_sorted _ _) _ _) _ _
example : ∃ r, scan m0 [some [[0x6c]], none, some [[0x6c], [0x6e]], some []] [] [] 10 false = some r := ⟨_, rfl⟩
example : ∃ r, reverseScan m0 [some [[0x6c]], none, some [[0x6c]]] [0x7a] [] 2 true = some r := ⟨_, rfl⟩
example : ∃ r, deleteRange m0 [some [[0x6c]], some [[0x6c], [0x6e]], some []] [0x6b] [] = some r := ⟨_, rfl⟩
example : ∃ r, checksum m0 [some [[0x6c]], some [[0x6c]]] [] [] = some r := ⟨_, rfl⟩
example : ∃ r, batchGet m0 [⟨[[0x6c]], [true, false]⟩, ⟨[], [true]⟩] [[0x6b], [0x70], [0x6b], [0x61]] = some r := ⟨_, rfl⟩
example : ∃ r, batchPut m0 [⟨[[0x6c]], [false, true]⟩, ⟨[], [true]⟩] [([0x6b], [5]), ([0x70], [6]), ([0x6b], [7])] = some r := ⟨_, rfl⟩
example : ∃ r, batchDelete m0 [⟨[[0x6c]], [true, true]⟩] [[0x6b], [0x70]] = some r := ⟨_, rfl⟩
example : ∃ r, RawKV.get m0 [none, some [[0x6c]]] [0x6d] = some r := ⟨_, rfl⟩
example : ∃ r, cas m0 [some []] [0x6d] (some [2]) [9] = some r := ⟨_, rfl⟩

end CGV.Props.C11
