import ClientGoVerif.Model.RawKV
namespace CGV.Props.C11
theorem placeholder : True := trivial
end CGV.Props.C11
