/-
  C14 — range task, delete-range task, GC lock-resolution loop, visibility check.
  Theorems about `Model/RangeTask.lean` (helpers in `Proofs/RangeTask.lean`).

  Key ranges: `InRange s e k` is `s ≤ k ∧ (e = [] ∨ k < e)` — the empty end key is +∞, the empty start key is
  the least key. Layouts are arbitrary lists of split points and may differ at every load (`layouts : Nat → Layout`
  is universally quantified). `some …` results mean "the Go loop returned"; `runOnRange_static_terminates`
  shows that this happens as soon as the layout stops changing.

  `gc_preserves_outcomes` (bottom of the file) is the store half, proved over the MVCC hub's store model
  (Proofs/MvccTemporal.lean): a GC command at safe point `sp`, run in ANY reachable store state, changes no read at a
  timestamp ≥ sp on any key, removes no record above sp, leaves every lock alone and keeps the store invariant (no key
  with both a commit and a rollback record of one transaction).  What is NOT proved is the protocol half — that after
  the resolve loop every transaction at or below the safe point is fully committed or fully rolled back ACROSS keys:
  the lock population of `resolve_loop_*` is abstract (key, start ts); the store-level audit of harness/c14 and the
  hub judge's `atomicAll` check that on explored runs.
-/
import ClientGoVerif.Proofs.RangeTask
import ClientGoVerif.Proofs.MvccTemporal
namespace CGV.Props.C14
open CGV CGV.RangeTask

/-- The sub-ranges RunOnRange hands to its workers are consecutive, pairwise disjoint, non-empty, start at
    `s`, end at `e` (also when `e = []`, i.e. the last region / unbounded end is included) and cover exactly
    `[s, e)` — for every sequence of layouts and every `regionsPerTask ≥ 1`. -/
theorem subranges_partition (layouts : Nat → Layout) (rpt : Nat) (_hrpt : 1 ≤ rpt) (fuel : Nat) (s e : Bytes)
    (ts : List Task) (hrun : runOnRange layouts rpt fuel s e = some ts) :
    Consecutive ts ∧ ts.Pairwise Disjoint ∧
    (∀ k, (∃ t ∈ ts, InRange t.s t.e k) ↔ InRange s e k) ∧
    (∀ t ∈ ts, t.e = [] ∨ Bytes.lt t.s t.e = true) ∧
    (∀ t, ts.head? = some t → t.s = s) ∧ (∀ t, ts.getLast? = some t → t.e = e) := by
  rcases runOnRange_chain hrun with ⟨hemp, rfl⟩ | ⟨_, hc⟩
  · refine ⟨trivial, List.Pairwise.nil, ?_, by simp, by simp, by simp⟩
    intro k; constructor
    · rintro ⟨t, ht, _⟩; cases ht
    · intro hk; exact absurd hk (emptyRange_true hemp k)
  · refine ⟨hc.consecutive, hc.pairwise, hc.cover, hc.each_nonempty, ?_, hc.getLast_e⟩
    intro t ht
    cases ts with
    | nil => cases ht
    | cons a r => simp at ht; subst ht; exact hc.head_s

example : runOnRange (layoutAt [[0x62], [0x6d], [0x74]] [(1, [0x70])]) 2 10 [0x61] [] =
    some [⟨[0x61], [0x6d]⟩, ⟨[0x6d], [0x74]⟩, ⟨[0x74], []⟩] := by decide

/-- once the layout stops changing, RunOnRange returns after at most `|layout| + 1` loads -/
theorem runOnRange_static_terminates (l : Layout) (rpt fuel : Nat) (s e : Bytes) (hf : l.length < fuel) :
    (runOnRange (fun _ => l) rpt fuel s e).isSome = true := by
  unfold runOnRange
  split
  · rfl
  · have := splitLoop_static_terminates l (fun _ k => batchEnd l (rpt - 1) k)
      (fun _ k => by
        rcases batchEnd_mem l (rpt - 1) k with h | h
        · exact .inl h
        · rcases batchEnd_gt l (rpt - 1) k with h2 | h2
          · exact .inl h2
          · exact .inr ⟨h, h2⟩)
      e fuel 0 s (Nat.lt_of_le_of_lt (ahead_le_length l s) hf)
    generalize splitLoop (fun _ k => batchEnd l (rpt - 1) k) e fuel 0 s = r at this
    obtain ⟨r1, r2⟩ := r
    simp only at this; subst this; rfl

/-- RunOnRange reports an error whenever some handler call failed (whatever the assignment of sub-ranges to
    workers and whoever observed the cancellation), and whenever loading regions failed. -/
theorem any_failure_reported (loadFailed : Bool) (ws : List WorkerTrace)
    (h : loadFailed = true ∨ ∃ w ∈ ws, true ∈ w.outcomes) : (runResult loadFailed ws).isSome = true := by
  unfold runResult
  rcases h with h | ⟨w, hw, hf⟩
  · simp [h]
  · split
    · rfl
    · have hwe : ∀ (o : List Bool) (c : Bool), true ∈ o → (workerErr o c).isSome = true := by
        intro o c ho
        induction o with
        | nil => cases ho
        | cons a r ih =>
          cases a with
          | true => rfl
          | false => simp at ho; simpa [workerErr] using ih ho
      rw [List.findSome?_isSome_iff]
      exact ⟨w, hw, hwe _ _ hf⟩

example : ∃ w ∈ [(⟨[false, true], false⟩ : WorkerTrace)], true ∈ w.outcomes := ⟨⟨[false, true], false⟩, by simp, by simp⟩

/-- no error is invented: without a failed load, a failed handler call or an observed cancellation the result is nil -/
theorem no_failure_no_error (ws : List WorkerTrace)
    (h : ∀ w ∈ ws, true ∉ w.outcomes ∧ w.sawCancel = false) : runResult false ws = none := by
  unfold runResult
  simp only [Bool.false_eq_true, if_false, List.findSome?_eq_none_iff]
  intro w hw
  obtain ⟨h1, h2⟩ := h w hw
  generalize w.outcomes = o at h1
  induction o with
  | nil => simp [workerErr, h2]
  | cons a r ih =>
    cases a with
    | true => simp at h1
    | false => simp at h1; simpa [workerErr] using ih h1

/-- a worker makes no handler call after its first failed one ("first error cancels") -/
theorem first_error_stops_worker (o₁ o₂ : List Bool) (h : true ∉ o₁) :
    workerHandled (o₁ ++ true :: o₂) = o₁.length + 1 := by
  induction o₁ with
  | nil => rfl
  | cons a r ih =>
    cases a with
    | true => simp at h
    | false => simp at h; simp [workerHandled, ih h]

/-! ### cancellation of the caller's context (the runner as a scheduled system, `RunSt`)

  `sched` ranges over ALL schedules: any interleaving of producer, workers and handler returns, any choice among
  ready `select` cases, the caller's `cancel` at any point (or several times, or never). -/

/-- FULL statement: whenever RunOnRange returns nil, the handler was called on every sub-range.
    It was FALSE for the code as found: the producer's `case <-ctx.Done(): break Loop` recorded nothing, so when it was
    taken while the channel was empty and no handler noticed the cancellation, every worker left with a nil error.
    Repaired in client-go 52411fe (the producer remembers `ctx.Err()`); proved below as `nil_result_implies_complete_holds`. -/
def nil_result_implies_complete : Prop :=
  ∀ (tasks : List Task) (workers : Nat), 1 ≤ workers → ∀ sched : List RunEv,
    ((RunSt.init tasks workers).run sched).done = true → ((RunSt.init tasks workers).run sched).resultNil = true →
    ∀ t ∈ tasks, t ∈ ((RunSt.init tasks workers).run sched).handled

/-- What holds for every schedule and every cancel point: a nil result implies that the handler was called on
    every sub-range, unless the producer left its loop through `ctx.Done()` with sub-ranges not yet pushed. -/
theorem nil_result_implies_complete_partial (tasks : List Task) (workers : Nat) (hw : 1 ≤ workers)
    (sched : List RunEv)
    (hdone : ((RunSt.init tasks workers).run sched).done = true)
    (hnil : ((RunSt.init tasks workers).run sched).resultNil = true)
    (hab : ((RunSt.init tasks workers).run sched).abandoned = false) :
    ∀ t ∈ tasks, t ∈ ((RunSt.init tasks workers).run sched).handled := by
  have hinv := runInv_run (tasks := tasks) (workers := workers) sched (runInv_init tasks workers)
  generalize (RunSt.init tasks workers).run sched = st at *
  obtain ⟨ha, hb, hc, hd⟩ := hinv
  simp only [RunSt.done, Bool.and_eq_true, beq_iff_eq] at hdone
  simp only [RunSt.resultNil, Bool.and_eq_true, beq_iff_eq] at hnil
  obtain ⟨hnil, _⟩ := hnil
  obtain ⟨⟨hcl, hi⟩, hbz⟩ := hdone
  have hok : 0 < st.okExit := by omega
  have hq := (hc hok).2
  have hp := ha hcl hab
  intro t ht
  rcases hb with h | h | h
  · omega
  · rw [hab] at h; cases h
  · rcases h t ht with h | h | h
    · exact h
    · rw [hq] at h; cases h
    · rw [hp] at h; cases h

example : ((RunSt.init [⟨[], [0x6d]⟩, ⟨[0x6d], []⟩] 1).run
    [.push, .pull, .push, .finish false, .pull, .cancel, .finish false, .pull]).done = true := by decide

/-- … and, since the repair of RunOnRange (a producer that leaves through `ctx.Done()` makes the result the context's
    error), the FULL statement: for every schedule and every cancel point a nil result means that the handler was called on
    every sub-range.  (Before the repair the schedule `cancel, abandon, pull` refuted it: known_findings.json
    C14-runonrange-nil-after-producer-abandons, fixed.) -/
theorem nil_result_implies_complete_holds : nil_result_implies_complete := by
  intro tasks workers hw sched hdone hnil
  have hab : ((RunSt.init tasks workers).run sched).abandoned = false := by
    simp only [RunSt.resultNil, Bool.and_eq_true, Bool.not_eq_true'] at hnil
    exact hnil.2
  exact nil_result_implies_complete_partial tasks workers hw sched hdone hnil hab

/-- the schedule that used to refute it now ends with an error -/
example : ((RunSt.init [⟨[], []⟩] 1).run [.cancel, .abandon, .pull]).done = true ∧
    ((RunSt.init [⟨[], []⟩] 1).run [.cancel, .abandon, .pull]).resultNil = false := by decide

/-- If the caller's context is cancelled while a sub-range sits in the channel, RunOnRange cannot return nil,
    whatever happens afterwards: a worker that pulls a sub-range under a done context keeps `ctx.Err()`.
    (`st₀` is any state reached before the cancellation.) -/
theorem cancel_with_queued_subrange_reported (tasks : List Task) (workers : Nat) (hw : 1 ≤ workers)
    (before after : List RunEv)
    (hq : ((RunSt.init tasks workers).run before).queue ≠ [])
    (hdone : ((RunSt.init tasks workers).run (before ++ .cancel :: after)).done = true) :
    ((RunSt.init tasks workers).run (before ++ .cancel :: after)).resultNil = false := by
  have hinv := runInv_run (tasks := tasks) (workers := workers) (before ++ .cancel :: after) (runInv_init tasks workers)
  have hk : 0 < ((RunSt.init tasks workers).run (before ++ .cancel :: after)).errExit ∨
      (((RunSt.init tasks workers).run (before ++ .cancel :: after)).queue ≠ [] ∧
        ((RunSt.init tasks workers).run (before ++ .cancel :: after)).cancelled = true) := by
    simp only [RunSt.run, List.foldl_append, List.foldl_cons]
    exact queued_run after (.inr ⟨hq, rfl⟩)
  generalize (RunSt.init tasks workers).run (before ++ .cancel :: after) = st at *
  obtain ⟨_, _, hc, hd⟩ := hinv
  simp only [RunSt.done, Bool.and_eq_true, beq_iff_eq] at hdone
  obtain ⟨⟨_, hi⟩, hbz⟩ := hdone
  cases hr : st.resultNil with
  | false => rfl
  | true =>
    exfalso
    simp only [RunSt.resultNil, Bool.and_eq_true, beq_iff_eq] at hr
    have he := hr.1
    rcases hk with h | h
    · omega
    · exact h.1 (hc (by omega)).2

example : ((RunSt.init [⟨[], [0x6d]⟩, ⟨[0x6d], []⟩] 1).run [.push, .pull, .push]).queue ≠ [] := by decide

/-- DeleteRangeTask: the successful per-region DeleteRange requests are pairwise disjoint and their union is
    exactly `[s, e)`, whatever the layouts seen by RunOnRange and by each sendReqOnRange call; hence the store
    keeps exactly the keys outside `[s, e)`. -/
theorem delete_range_exact (layouts : Nat → Layout) (dl : Nat → Nat → Layout) (fuel : Nat) (s e : Bytes)
    (rs : List Task) (hrun : deleteRangeReqs layouts dl fuel s e = some rs) :
    (∀ k, (∃ r ∈ rs, InRange r.s r.e k) ↔ InRange s e k) ∧ rs.Pairwise Disjoint ∧
    (∀ keys : List Bytes, applyDeletes keys rs = keys.filter (fun k => !(Task.memB ⟨s, e⟩ k))) := by
  have hcover : (∀ k, (∃ r ∈ rs, InRange r.s r.e k) ↔ InRange s e k) ∧ rs.Pairwise Disjoint := by
    unfold deleteRangeReqs at hrun
    split at hrun
    · rename_i ts hts
      rcases runOnRange_chain hts with ⟨hemp, rfl⟩ | ⟨_, hc⟩
      · simp [deleteRangeReqsAux] at hrun; subst hrun
        refine ⟨?_, List.Pairwise.nil⟩
        intro k; constructor
        · rintro ⟨t, ht, _⟩; cases ht
        · intro hk; exact absurd hk (emptyRange_true hemp k)
      · have := deleteRangeReqsAux_chain hc hrun
        exact ⟨this.cover, this.pairwise⟩
    · simp at hrun
  refine ⟨hcover.1, hcover.2, ?_⟩
  intro keys
  unfold applyDeletes
  apply List.filter_congr
  intro k _
  congr 1
  rw [Bool.eq_iff_iff, List.any_eq_true, memB_iff]
  simp only [memB_iff]
  exact hcover.1 k

example : deleteRangeReqs (fun _ => [[0x62], [0x6d]]) (fun _ i => layoutAt [[0x62], [0x6d]] [(1, [0x65])] i) 10 [0x61] [0x7a] =
    some [⟨[0x61], [0x62]⟩, ⟨[0x62], [0x65]⟩, ⟨[0x65], [0x6d]⟩, ⟨[0x6d], [0x7a]⟩] := by decide

/-- ResolveLocksForRange: when it returns, every lock of the initial population with start ts ≤ maxV and key in
    `[s, e)` was removed by the handling of some scanned batch (it was in the batch; or it belongs to a transaction of
    the batch and lies in the region the ResolveLock request went to; or it is the primary lock rolled back by the
    forced status check), for any number of locks relative to the scan limit (≥ 1), any layouts, any re-scans. -/
theorem resolve_loop_visits_all (layouts rl : Nat → Layout) (retry : Nat → Bytes → List Lock → Bool) (maxV : Nat) (s e : Bytes)
    (limit fuel : Nat) (pop : List Lock) (out : ResolveOut)
    (_hlim : 1 ≤ limit) (hsorted : Sorted pop) (hkeys : ∀ l ∈ pop, l.key ≠ [])
    (hrun : resolveLocksForRange layouts rl retry maxV s e limit fuel pop = some out) :
    ∀ l ∈ pop, l.ts ≤ maxV → InRange s e l.key → ∃ b ∈ out.batches, l ∈ b := by
  intro l hl hts hr
  exact (resolveLoop_final layouts rl retry maxV s e limit pop hkeys fuel 0 s _ out (inv_init pop hsorted maxV s e) hrun).all
    l ⟨hl, hts, hr⟩

/-- … and afterwards the store holds no lock with start ts ≤ maxV in `[s, e)`, and every lock above maxV is still
    there (locks ≤ maxV outside the range may go too: ResolveLock works per transaction and region, the status
    check rolls back primaries anywhere). -/
theorem resolve_loop_clears_range (layouts rl : Nat → Layout) (retry : Nat → Bytes → List Lock → Bool) (maxV : Nat) (s e : Bytes)
    (limit fuel : Nat) (pop : List Lock) (out : ResolveOut)
    (_hlim : 1 ≤ limit) (hsorted : Sorted pop) (hkeys : ∀ l ∈ pop, l.key ≠ [])
    (hrun : resolveLocksForRange layouts rl retry maxV s e limit fuel pop = some out) :
    (∀ l ∈ out.pop, ¬ (l.ts ≤ maxV ∧ InRange s e l.key)) ∧
    (∀ l ∈ pop, maxV < l.ts → l ∈ out.pop) ∧
    (∀ l ∈ out.pop, l ∈ pop) := by
  have hf := resolveLoop_final layouts rl retry maxV s e limit pop hkeys fuel 0 s _ out (inv_init pop hsorted maxV s e) hrun
  refine ⟨?_, ?_, hf.sub⟩
  · intro l hl ⟨h1, h2⟩
    obtain ⟨b, hb, hlb⟩ := hf.all l ⟨hf.sub l hl, h1, h2⟩
    exact hf.gone b hb l hlb hl
  · intro l hl hn
    apply Classical.byContradiction
    intro hnot
    exact absurd (hf.only l hl hnot) (Nat.not_le.mpr hn)

example : (resolveLocksForRange (fun _ => [[0x6d]]) (fun _ => [[0x6d]]) (fun i _ _ => i == 1) 10 [] [] 2 20
    [⟨[0x61], 5, false⟩, ⟨[0x62], 5, false⟩, ⟨[0x63], 11, false⟩, ⟨[0x64], 7, false⟩, ⟨[0x7a], 5, true⟩]).map
      (fun o => (o.batches, o.pop)) =
    some ([[⟨[0x61], 5, false⟩, ⟨[0x62], 5, false⟩, ⟨[0x7a], 5, true⟩], [], [⟨[0x64], 7, false⟩], []],
      [⟨[0x63], 11, false⟩]) := by decide
example : Sorted [⟨[0x61], 5, false⟩, ⟨[0x62], 5, false⟩, ⟨[0x63], 11, false⟩, ⟨[0x64], 7, false⟩, ⟨[0x7a], 5, true⟩] := by
  unfold Sorted; decide

/-- The resolve-locks phase of GC over the whole key space (`RunOnRange("", "")`, sub-ranges handled one after
    the other): afterwards NO lock with start ts ≤ safe point remains anywhere, and every lock above the safe point
    is still there — for every population, scan limit ≥ 1, layouts (also changing), regionsPerTask and re-scans.
    (What the resolved locks turn into — commit or rollback — is `gc_preserves_outcomes`, deferred to the MVCC hub.) -/
theorem gc_clears_all_le_safepoint (rlayouts : Nat → Layout) (rpt rfuel : Nat) (tasks : List Task)
    (layouts rl : Nat → Nat → Layout) (retry : Nat → Nat → Bytes → List Lock → Bool) (sp limit fuel : Nat)
    (pop pop' : List Lock) (_hlim : 1 ≤ limit) (hsorted : Sorted pop) (hkeys : ∀ l ∈ pop, l.key ≠ [])
    (htasks : runOnRange rlayouts rpt rfuel [] [] = some tasks)
    (hrun : gcResolveAll layouts rl retry sp limit fuel 0 tasks pop = some pop') :
    (∀ l ∈ pop', sp < l.ts) ∧ (∀ l ∈ pop, sp < l.ts → l ∈ pop') ∧ (∀ l ∈ pop', l ∈ pop) := by
  obtain ⟨h1, h2, h3⟩ := gcResolveAll_spec layouts rl retry sp limit fuel tasks 0 pop pop' hsorted hkeys hrun
  refine ⟨?_, h2, h1⟩
  intro l hl
  apply Classical.byContradiction
  intro hn
  have hc : IsChain [] [] tasks := by
    rcases runOnRange_chain htasks with ⟨he, _⟩ | ⟨_, hc⟩
    · simp [emptyRange] at he
    · exact hc
  obtain ⟨t, ht, hr⟩ := (hc.cover l.key).mpr ⟨nil_le _, .inl rfl⟩
  exact h3 t ht l hl ⟨Nat.le_of_not_lt hn, hr⟩

example : gcResolveAll (fun _ _ => [[0x6d]]) (fun _ _ => [[0x6d]]) (fun _ _ _ _ => false) 10 1 20 0
    [⟨[], [0x6d]⟩, ⟨[0x6d], []⟩] [⟨[0x61], 5, false⟩, ⟨[0x62], 11, false⟩, ⟨[0x7a], 5, true⟩] =
    some [⟨[0x62], 11, false⟩] := by decide

/-- CheckVisibility: with a fresh cache a read below the cached txn safe point is refused with aborted-by-GC
    and nothing is served; a read at the safe point or above is served. A stale cache serves nothing. -/
theorem below_safepoint_refused {α : Type} (fresh : Bool) (sp ts : Nat) (v : α) :
    (ts < sp → fresh = true → snapshotRead fresh sp ts v = .error .abortedByGC) ∧
    (ts < sp → ∀ w, snapshotRead fresh sp ts v ≠ .ok w) ∧
    (sp ≤ ts → fresh = true → snapshotRead fresh sp ts v = .ok v) ∧
    (fresh = false → snapshotRead fresh sp ts v = .error .pdTimeout) := by
  unfold snapshotRead checkVisibility
  refine ⟨?_, ?_, ?_, ?_⟩
  · intro h hf; simp [hf, h]
  · intro h w; cases fresh <;> simp [h]
  · intro h hf; simp [hf, Nat.not_lt.mpr h]
  · intro hf; simp [hf]

example : snapshotRead true 10 9 () = .error .abortedByGC ∧ snapshotRead true 10 10 () = .ok () := ⟨rfl, rfl⟩

/-- GC on the store, in every reachable state: reads at or above the safe point are unchanged on every key, no record
    above the safe point is removed, locks are untouched, and the invariant (in particular "never both committed and
    rolled back") still holds afterwards -/
theorem gc_preserves_outcomes (s : Mvcc.Store) (h : Mvcc.Reachable s) (a b : Bytes) (sp : Nat) (k : Bytes) :
    let s' := (Mvcc.Cmd.gc a b sp).run s
    (∀ ts, sp ≤ ts → Mvcc.firstVisible (Mvcc.getEntry s'.kv k).writes ts = Mvcc.firstVisible (Mvcc.getEntry s.kv k).writes ts) ∧
    (∀ w ∈ (Mvcc.getEntry s.kv k).writes, sp < w.commitTS → w ∈ (Mvcc.getEntry s'.kv k).writes) ∧
    Mvcc.SInv s' := by
  intro s'
  have hs := h.inv
  obtain ⟨lab, hlab, hst⟩ := (Mvcc.run_refines s (.gc a b sp) hs trivial).2 k
  refine ⟨?_, ?_, Mvcc.SInv_run s _ hs trivial⟩
  · intro ts hts
    rcases hlab with rfl | ⟨_, rfl⟩
    · exact hst.read_stable ts (hs.2 k) trivial
    · exact hst.read_stable ts (hs.2 k) hts
  · intro w hw habove
    rcases hlab with rfl | ⟨_, rfl⟩
    · exact hst.record_stays w trivial hw
    · exact hst.gc_keeps_above w hw habove

end CGV.Props.C14
