/-
  C06 — no lock of a finished transaction is left behind on failure-free paths.  The client-side bookkeeping
  (lockKeys, aggressive locking, async rollback) is exercised on the real client by checks/c06.py; the judge fails a
  trace in which `audit locks` shows a lock of a transaction whose owner saw it end.  Proved here: the release
  requests the client relies on do release on the store; and, for every reachable store state, a key on which the
  transaction has its commit record or rollback marker is not locked by it, nor can it be locked by it again.
-/
import ClientGoVerif.Proofs.MvccLocks
import ClientGoVerif.Proofs.MvccTemporal
import ClientGoVerif.Proofs.MvccSI
import ClientGoVerif.Proofs.AggLock
namespace CGV.Props.C06
open CGV CGV.Mvcc

theorem commit_releases (s s' : Store) (k : Bytes) (T C : Nat) (hs : KvSorted s.kv)
    (h : commit s [k] T C = (s', none)) : LockFreeOf (getEntry s'.kv k) T := commit_removes_lock s s' k T C hs h

theorem batch_rollback_releases (s s' : Store) (k : Bytes) (T : Nat) (hs : KvSorted s.kv)
    (h : rollback s [k] T = (s', none)) : LockFreeOf (getEntry s'.kv k) T := rollback_removes_lock s s' k T hs h

/-- pessimistic rollback by key removes the transaction's pessimistic lock taken at or below the given for-update ts -/
theorem pessimistic_rollback_releases (s : Store) (a b : Bytes) (k : Bytes) (T F : Nat) (l : Lock) (hs : KvSorted s.kv)
    (hl : (getEntry s.kv k).lock = some l) (hop : l.op = .pessimisticLock) (hst : l.startTS = T) (hf : l.forUpdateTS ≤ F) :
    (getEntry (pessimisticRollback s a b [k] T F).kv k).lock = none := by
  simp only [pessimisticRollback, List.isEmpty_cons, Bool.false_eq_true, if_false, List.filterMap_cons, List.filterMap_nil, hl]
  have : (l.op == Op.pessimisticLock && l.startTS == T && decide (l.forUpdateTS ≤ F)) = true := by simp [hop, hst, hf]
  simp only [this, if_true]
  rw [getEntry_applyBatch _ _ _ hs]
  simp [Act.key, entryAct]

/-- in every reachable state, a key where the transaction already has its record (commit or rollback) carries no lock
    of that transaction -/
theorem finished_key_carries_no_lock (s : Store) (h : Reachable s) (k : Bytes) (T : Nat)
    (hrec : ∃ w ∈ (getEntry s.kv k).writes, w.startTS = T) :
    ∀ l, (getEntry s.kv k).lock = some l → l.startTS ≠ T :=
  finished_key_not_locked _ (h.inv.2 k) T hrec

/-- … and no later command can lock it for that transaction again: the step the key takes is never `locks T` -/
theorem finished_key_never_relocked (s : Store) (c : Cmd) (hs : SInv s) (hok : c.Ok s) (k : Bytes) (T : Nat)
    (hrec : ∃ w ∈ (getEntry s.kv k).writes, w.startTS = T) :
    ∃ lab, c.labels k lab ∧ KStep (getEntry s.kv k) lab (getEntry (c.run s).kv k) ∧ lab ≠ .locks T := by
  obtain ⟨lab, hlab, hst⟩ := (run_refines s c hs hok).2 k
  refine ⟨lab, hlab, hst, fun heq => ?_⟩
  exact hst.final (hs.2 k) hrec (by rw [heq]; rfl)

/-- released keys stay released, for every run: once a key carries no lock of `T` (its lock was committed, rolled back or
    pessimistically rolled back), NO later command sequence — other transactions' traffic, resolvers, GC, status
    checks, heartbeats — leaves a lock of `T` on it, unless `T` itself sends a new prewrite / pessimistic-lock request
    for that key (the only commands with a `locks T` step) -/
theorem released_key_stays_released (T : Nat) (k : Bytes) (s : Store) (cs : List Cmd) (hs : SInv s) (hok : OkAll s cs)
    (hg : GuardAll (fun _ lab => lab ≠ .locks T) k s cs) (hf : LockFreeOf (getEntry s.kv k) T) :
    LockFreeOf (getEntry (runAll s cs).kv k) T :=
  runAll_lockfree T k s cs hs hok hg hf

/-- a commit or rollback step of `T` on a key leaves the key without any lock -/
theorem commit_or_rollback_step_releases {e e' : Entry} {lab : KLabel} {T : Nat} (h : KStep e lab e')
    (hl : (∃ C, lab = .commit T C) ∨ lab = .rollback T) : e'.lock = none := h.release hl

end CGV.Props.C06

/-
  Client side (Model/AggLock.lean, Proofs/AggLock.lean): the lock bookkeeping of a pessimistic KVTxn — lockKeys,
  aggressive (fair) locking start / retry / cancel / done, Rollback, Commit — as a state machine whose inputs include the
  store's answers.  `store` is the set of keys on which the store holds the transaction's pessimistic lock (it follows the
  requests: no request is lost), `tracked` = currentLockedKeys ∪ lastRetryUnnecessaryLocks ∪ membuffer keys flagged locked.
  The statements quantify over ALL op sequences; `Admissible` evaluates, step by step along the run, the store's contract
  for the answers (`wfLock`) and that Commit / Rollback are not called inside a stage that still holds keys (`endOk`).
  The model follows the REPAIRED lockKeys (an entry taken out of lastRetryUnnecessaryLocks for a re-request is put back
  when the call neither records the key nor rolls it back); `Old.run` is the code as it was.  The model is tied to the
  real KVTxn by checks/c06.py (harness/c06agg, cgv-c06agg).
-/
namespace CGV.Props.C06.Bookkeeping
open CGV.AggLock

/-- no leak between ops: every lock the store holds is one the client still tracks and will release.
    PARTIAL: `Admissible` excludes Commit / Rollback inside an aggressive-locking stage that holds keys (`endOk`: API
    misuse, answered with an error and a closed transaction); every LockKeys answer that satisfies the store's contract
    is inside the fragment, including the two situations that leaked before the repair. -/
theorem noleak_invariant_partial (ops : List Op) (h : Admissible init ops = true) :
    ∀ k, k ∈ (run init ops).store → k ∈ tracked (run init ops) :=
  (run_inv ops init init_inv h).sub

/-- lockedCnt never under-counts the tracked keys, so the early exit of rollbackPessimisticLocks on `lockedCnt == 0`
    skips nothing -/
theorem lockedCnt_covers_partial (ops : List Op) (h : Admissible init ops = true) :
    (((run init ops).current.length + (run init ops).lastRetry.length + (run init ops).flagged.length : Nat) : Int)
      ≤ (run init ops).lockedCnt :=
  (run_inv ops init init_inv h).cnt

/-- once the transaction is over (Commit or Rollback, background rollbacks drained) the store holds no lock of it -/
theorem ended_holds_nothing_partial (ops : List Op) (h : Admissible init ops = true)
    (hc : (run init ops).closed = true) : (run init ops).store = [] :=
  (run_inv ops init init_inv h).cls hc

theorem rollback_releases_all_partial (ops : List Op) (h : Admissible init (ops ++ [.rollback]) = true) :
    (run init (ops ++ [.rollback])).store = [] := by
  refine (run_inv _ init init_inv h).cls ?_
  rw [run_append]
  exact step_rollback_closed _

theorem commit_releases_all_partial (ops : List Op) (h : Admissible init (ops ++ [.commit]) = true) :
    (run init (ops ++ [.commit])).store = [] := by
  refine (run_inv _ init init_inv h).cls ?_
  rw [run_append]
  exact step_commit_closed _

/-- the property op of the correspondence check (`chk-noleak`) never fails on an admissible run -/
theorem chk_noleak_ok_partial (ops : List Op) (h : Admissible init ops = true) : leaked (run init ops) = [] :=
  leaked_nil_of_inv (run_inv ops init init_inv h)

/-- the remaining exclusion is needed: ending the transaction inside a stage that holds a key leaks it -/
theorem excluded_pending_leaks : WellFormed witnessPending = true ∧ (run init witnessPending).closed = true ∧
    (run init witnessPending).store = [1] := by decide

/-- so without `endOk` the statement is false -/
theorem ended_holds_nothing_full_false :
    ¬ ∀ ops : List Op, WellFormed ops = true → (run init ops).closed = true → (run init ops).store = [] := by
  intro h
  have := h witnessPending (by decide) (by decide)
  revert this
  decide

/-- what the repair changed, on the two witness sequences: the code as it was (`Old.run`) leaks key 1 … -/
theorem unrepaired_loie_leaks : WellFormed witnessLoie = true ∧ leaked (Old.run init witnessLoie) = [1] ∧
    (Old.run init (witnessLoie ++ [.rollback])).store = [1] := by decide

theorem unrepaired_key_exists_leaks : WellFormed witnessKeyExists = true ∧ leaked (Old.run init witnessKeyExists) = [1] ∧
    (Old.run init (witnessKeyExists ++ [.rollback])).store = [1] := by decide

/-- … the repaired code keeps the key in lastRetryUnnecessaryLocks, DoneAggressiveLocking releases it -/
theorem repaired_loie_released : Admissible init witnessLoie = true ∧
    (run init (witnessLoie.take 4)).lastRetry.length = 1 ∧ (run init witnessLoie).rb = [1] ∧
    (run init witnessLoie).store = [] := by decide

theorem repaired_key_exists_released : Admissible init witnessKeyExists = true ∧
    (run init (witnessKeyExists.take 5)).lastRetry.length = 1 ∧ (run init witnessKeyExists).rb = [1] ∧
    (run init witnessKeyExists).store = [] := by decide

-- non-vacuity: an admissible run in which all three sets and the store are non-empty at some point, and its ends
example : Admissible init sampleRun = true ∧ (run init sampleRun).store ≠ [] ∧ (run init sampleRun).flagged.length = 4 := by decide
example : Admissible init (sampleRun.take 7) = true ∧ ((run init (sampleRun.take 7)).current.length,
    (run init (sampleRun.take 7)).lastRetry.length, (run init (sampleRun.take 7)).lockedCnt) = (2, 1, 4) := by decide
example : Admissible init (sampleRun ++ [.rollback]) = true ∧ (run init sampleRun).store.length = 4 := by decide
example : Admissible init (sampleRun ++ [.commit]) = true ∧ (run init (sampleRun ++ [.commit])).cm.length = 4 := by decide
example : Admissible init (sampleRun ++ [.rollback]) = true ∧ (run init (sampleRun ++ [.rollback])).closed = true := by decide
-- the former leak sequences are inside the fragment now, with something to release at their end
example : Admissible init (witnessLoie ++ [.commit]) = true ∧ (run init (witnessLoie.take 4)).store = [1] := by decide
example : Admissible init (witnessKeyExists ++ [.rollback]) = true ∧ (run init (witnessKeyExists.take 5)).store = [1] := by decide
-- the pending witness leaves the fragment exactly at the excluded step
example : Admissible init (witnessPending.take 2) = true ∧ Admissible init witnessPending = false := by decide

end CGV.Props.C06.Bookkeeping
