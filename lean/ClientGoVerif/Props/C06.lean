/-
  C06 — no lock of a finished transaction is left behind on failure-free paths.  The client-side bookkeeping
  (lockKeys, aggressive locking, async rollback) is exercised on the real client by checks/c06.py; the judge fails a
  trace in which `audit locks` shows a lock of a transaction whose owner saw it end.  Proved here: the release
  requests the client relies on do release on the store.
-/
import ClientGoVerif.Proofs.MvccLocks
namespace CGV.Props.C06
open CGV CGV.Mvcc

theorem commit_releases (s s' : Store) (k : Bytes) (T C : Nat) (hs : KvSorted s.kv)
    (h : commit s [k] T C = (s', none)) : LockFreeOf (getEntry s'.kv k) T := commit_removes_lock s s' k T C hs h

theorem batch_rollback_releases (s s' : Store) (k : Bytes) (T : Nat) (hs : KvSorted s.kv)
    (h : rollback s [k] T = (s', none)) : LockFreeOf (getEntry s'.kv k) T := rollback_removes_lock s s' k T hs h

/-- pessimistic rollback by key removes the transaction's pessimistic lock taken at or below the given for-update ts -/
theorem pessimistic_rollback_releases (s : Store) (a b : Bytes) (k : Bytes) (T F : Nat) (l : Lock) (hs : KvSorted s.kv)
    (hl : (getEntry s.kv k).lock = some l) (hop : l.op = .pessimisticLock) (hst : l.startTS = T) (hf : l.forUpdateTS ≤ F) :
    (getEntry (pessimisticRollback s a b [k] T F).kv k).lock = none := by
  simp only [pessimisticRollback, List.isEmpty_cons, Bool.false_eq_true, if_false, List.filterMap_cons, List.filterMap_nil, hl]
  have : (l.op == Op.pessimisticLock && l.startTS == T && decide (l.forUpdateTS ≤ F)) = true := by simp [hop, hst, hf]
  simp only [this, if_true]
  rw [getEntry_applyBatch _ _ _ hs]
  simp [Act.key, entryAct]

end CGV.Props.C06
