/-
  C06 — no lock of a finished transaction is left behind on failure-free paths.  The client-side bookkeeping
  (lockKeys, aggressive locking, async rollback) is exercised on the real client by checks/c06.py; the judge fails a
  trace in which `audit locks` shows a lock of a transaction whose owner saw it end.  Proved here: the release
  requests the client relies on do release on the store; and, for every reachable store state, a key on which the
  transaction has its commit record or rollback marker is not locked by it, nor can it be locked by it again.
-/
import ClientGoVerif.Proofs.MvccLocks
import ClientGoVerif.Proofs.MvccTemporal
import ClientGoVerif.Proofs.MvccSI
namespace CGV.Props.C06
open CGV CGV.Mvcc

theorem commit_releases (s s' : Store) (k : Bytes) (T C : Nat) (hs : KvSorted s.kv)
    (h : commit s [k] T C = (s', none)) : LockFreeOf (getEntry s'.kv k) T := commit_removes_lock s s' k T C hs h

theorem batch_rollback_releases (s s' : Store) (k : Bytes) (T : Nat) (hs : KvSorted s.kv)
    (h : rollback s [k] T = (s', none)) : LockFreeOf (getEntry s'.kv k) T := rollback_removes_lock s s' k T hs h

/-- pessimistic rollback by key removes the transaction's pessimistic lock taken at or below the given for-update ts -/
theorem pessimistic_rollback_releases (s : Store) (a b : Bytes) (k : Bytes) (T F : Nat) (l : Lock) (hs : KvSorted s.kv)
    (hl : (getEntry s.kv k).lock = some l) (hop : l.op = .pessimisticLock) (hst : l.startTS = T) (hf : l.forUpdateTS ≤ F) :
    (getEntry (pessimisticRollback s a b [k] T F).kv k).lock = none := by
  simp only [pessimisticRollback, List.isEmpty_cons, Bool.false_eq_true, if_false, List.filterMap_cons, List.filterMap_nil, hl]
  have : (l.op == Op.pessimisticLock && l.startTS == T && decide (l.forUpdateTS ≤ F)) = true := by simp [hop, hst, hf]
  simp only [this, if_true]
  rw [getEntry_applyBatch _ _ _ hs]
  simp [Act.key, entryAct]

/-- in every reachable state, a key where the transaction already has its record (commit or rollback) carries no lock
    of that transaction -/
theorem finished_key_carries_no_lock (s : Store) (h : Reachable s) (k : Bytes) (T : Nat)
    (hrec : ∃ w ∈ (getEntry s.kv k).writes, w.startTS = T) :
    ∀ l, (getEntry s.kv k).lock = some l → l.startTS ≠ T :=
  finished_key_not_locked _ (h.inv.2 k) T hrec

/-- … and no later command can lock it for that transaction again: the step the key takes is never `locks T` -/
theorem finished_key_never_relocked (s : Store) (c : Cmd) (hs : SInv s) (hok : c.Ok s) (k : Bytes) (T : Nat)
    (hrec : ∃ w ∈ (getEntry s.kv k).writes, w.startTS = T) :
    ∃ lab, c.labels k lab ∧ KStep (getEntry s.kv k) lab (getEntry (c.run s).kv k) ∧ lab ≠ .locks T := by
  obtain ⟨lab, hlab, hst⟩ := (run_refines s c hs hok).2 k
  refine ⟨lab, hlab, hst, fun heq => ?_⟩
  exact hst.final (hs.2 k) hrec (by rw [heq]; rfl)

/-- released keys stay released, for every run: once a key carries no lock of `T` (its lock was committed, rolled back or
    pessimistically rolled back), NO later command sequence — other transactions' traffic, resolvers, GC, status
    checks, heartbeats — leaves a lock of `T` on it, unless `T` itself sends a new prewrite / pessimistic-lock request
    for that key (the only commands with a `locks T` step) -/
theorem released_key_stays_released (T : Nat) (k : Bytes) (s : Store) (cs : List Cmd) (hs : SInv s) (hok : OkAll s cs)
    (hg : GuardAll (fun _ lab => lab ≠ .locks T) k s cs) (hf : LockFreeOf (getEntry s.kv k) T) :
    LockFreeOf (getEntry (runAll s cs).kv k) T :=
  runAll_lockfree T k s cs hs hok hg hf

/-- a commit or rollback step of `T` on a key leaves the key without any lock -/
theorem commit_or_rollback_step_releases {e e' : Entry} {lab : KLabel} {T : Nat} (h : KStep e lab e')
    (hl : (∃ C, lab = .commit T C) ∨ lab = .rollback T) : e'.lock = none := h.release hl

end CGV.Props.C06
