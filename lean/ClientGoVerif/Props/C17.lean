/-
  C17 — the local latch scheduler is exclusive, deadlock-free, flags exactly stale work.

  All theorems are about `CGV.Latch` (Model/Latch.lean): states reachable from `init` by ANY interleaving of the
  atomic steps `genLock` (distinct keys), `acquire` step (= one `acquireSlot` critical section, or the `IsStale`
  test of `acquire`), `unlock`, `releaseSlot`, `recycle` of one slot with any timestamp — for every slot hash
  `cfg.slotOf` (all collisions), every `latchListCount`, `expireDuration`, every start/commit timestamp.
  The single scheduler goroutine of scheduler.go produces a subset of these interleavings.

  Reading of the property text (properties.jsonl C17) and where each clause is proved:
  * "between a successful non-stale lock and its unlock no other transaction holds a latch on any of the same
    keys": `held_exclusive` (any two locks, stale or not), `exclusive`.
  * "every lock request eventually returns provided holders unlock ... no lost wake-up and no deadlock":
    `waiter_has_holder`, `wait_for_acyclic`, `deadlock_free`, `lock_step_decreases_variant`,
    `requests_terminate_holds`, `every_request_returns` (the environment assumption — clients and the scheduler
    keep taking enabled steps, in particular every holder eventually unlocks — is the hypothesis "the run cannot
    be extended by a lock step"), `all_requests_can_return`; per-slot FIFO: `waiting_order_kept`,
    `no_overtaking`; under continual arrivals on other keys: `arrivals_on_other_keys_do_not_delay`,
    `progress_within`.  NOT claimed: a request whose key keeps being taken by new arrivals on the SAME key
    between its wake-up and its re-acquire can be sent back to the end of the queue each time (barging is
    possible in the code: a woken lock is not handed the node unless it is stale) — see `no_barging_full`.
  * "reported stale exactly when some key it asks for was released by a previous holder with a commit timestamp
    greater than the requester's start timestamp": `stale_sound`, `stale_exact_acquire`, `stale_exact_wakeup`
    (the two moments at which a request reaches a key), `stale_complete`, `stale_complete_holder`; a node dropped
    by `recycle` forgets its publications (`expireDuration`), which the statements make explicit by speaking
    about the publications remembered by the node (`Node.pubs`) and `node_pubs_published`.
-/
import ClientGoVerif.Proofs.LatchCommit
namespace CGV.Props.C17
open CGV CGV.Latch

/-- The invariant behind exclusivity: a key among the first `acquiredCount` keys of a lock has a node,
    and that node's holder is the lock. -/
theorem holder_invariant {cfg : Cfg} {s : State} (hr : Reachable cfg s) {l : LockId} {lk : Lock} {k : Key}
    (hl : s.locks l = some lk) (hh : lk.holds k) : ∃ n, nodeOf cfg s k = some n ∧ n.holder = some l :=
  hr.inv12.1.holds l lk k hl hh

/-- Two different locks never hold the same key at the same time (stale or not, fully acquired or not). -/
theorem held_exclusive {cfg : Cfg} {s : State} (hr : Reachable cfg s) {l1 l2 : LockId} {lk1 lk2 : Lock} {k : Key}
    (h1 : s.locks l1 = some lk1) (h2 : s.locks l2 = some lk2) (hk1 : lk1.holds k) (hk2 : lk2.holds k) : l1 = l2 := by
  obtain ⟨n1, hn1, ho1⟩ := holder_invariant hr h1 hk1
  obtain ⟨n2, hn2, ho2⟩ := holder_invariant hr h2 hk2
  rw [hn1] at hn2; cases hn2; rw [ho1] at ho2; exact Option.some.inj ho2

/-- `exclusive`: between a successful non-stale `Lock()` and the start of its release, no other successful
    non-stale lock shares a key with it.  `keys.Nodup` is the hypothesis of the `genLock` step (see `Latch.step`). -/
theorem exclusive {cfg : Cfg} {s : State} (hr : Reachable cfg s) {l1 l2 : LockId} {lk1 lk2 : Lock}
    (h1 : s.locks l1 = some lk1) (h2 : s.locks l2 = some lk2) (hne : l1 ≠ l2)
    (f1 : lk1.fullyAcquired) (f2 : lk2.fullyAcquired) : ∀ k, k ∈ lk1.keys → k ∉ lk2.keys := by
  intro k hk1 hk2
  have to_holds : ∀ (lk : Lock), lk.fullyAcquired → k ∈ lk.keys → lk.holds k := by
    intro lk f hk
    obtain ⟨j, hj, hjk⟩ := List.getElem_of_mem hk
    exact ⟨j, by rw [f.1]; exact hj, by rw [List.getElem?_eq_getElem hj, hjk]⟩
  exact hne (held_exclusive hr h1 h2 (to_holds lk1 f1 hk1) (to_holds lk2 f2 hk2))

/-- The keys of every lock are strictly sorted, hence distinct (consequence of `keys.Nodup` at `genLock`). -/
theorem keys_sorted {cfg : Cfg} {s : State} (hr : Reachable cfg s) {l : LockId} {lk : Lock}
    (hl : s.locks l = some lk) : lk.keys.Pairwise KLt ∧ lk.keys.Nodup :=
  ⟨(hr.inv12.1.wf l lk hl).sorted, sorted_nodup (hr.inv12.1.wf l lk hl).sorted⟩

/-- A lock is in the waiting list of slot `i` exactly when its thread is blocked on a key of slot `i`;
    no lock is listed twice. -/
theorem waiting_list_exact {cfg : Cfg} {s : State} (hr : Reachable cfg s) (i : Nat) (l : LockId) :
    (l ∈ (s.slots i).waiting ↔
      ∃ lk k, s.locks l = some lk ∧ lk.phase = .waiting ∧ lk.nextKey = some k ∧ cfg.slotOf k = i) ∧
    (s.slots i).waiting.Nodup :=
  ⟨hr.inv2.wok.mem i l, hr.inv2.wok.nodup i⟩

/-- `waiter_has_holder` (no lost wake-up): a lock in a waiting list waits for a key `k` whose node has a holder,
    or some lock is in a pending wake-up list for `k` and will not be turned away as stale. -/
theorem waiter_has_holder {cfg : Cfg} {s : State} (hr : Reachable cfg s) {i : Nat} {l : LockId}
    (hw : l ∈ (s.slots i).waiting) :
    ∃ lk k, s.locks l = some lk ∧ lk.nextKey = some k ∧ cfg.slotOf k = i ∧
      (HasHolder cfg s k ∨ HasWoken cfg s k) := by
  obtain ⟨lk, k, hl, hp, hk, hs⟩ := (hr.inv2.wok.mem i l).mp hw
  exact ⟨lk, k, hl, hk, hs, hr.inv2.wake l lk k hl hp hk⟩

/-- The holder of a node is a lock that holds the node's key (so it is not finished and will release it). -/
theorem holder_is_live {cfg : Cfg} {s : State} (hr : Reachable cfg s) {k : Key} {n : Node} {o : LockId}
    (hn : nodeOf cfg s k = some n) (ho : n.holder = some o) :
    ∃ lk, s.locks o = some lk ∧ lk.holds k ∧ lk.phase ≠ .done := by
  obtain ⟨hm, hk⟩ := findNode_some hn
  obtain ⟨lk, hl, hh⟩ := hr.inv12.1.holder _ n o hm ho
  rw [hk] at hh
  refine ⟨lk, hl, hh, ?_⟩
  intro hd
  have := hr.inv12.1.phase _ _ hl
  unfold PhaseOK at this; rw [hd] at this
  have := Lock.holds_lt hh; omega

/-- `deadlock_free`: in every reachable state with an unfinished lock, a step of some lock (one step of
    `acquire`, an `unlock`, or a `releaseSlot` — not a new arrival, not the recycler) is enabled and does not
    panic.  Proof: otherwise all unfinished locks are blocked; the one awaiting the greatest key has, by
    `waiter_has_holder`, a holder that is itself blocked on a greater key (keys are acquired in sorted order). -/
theorem deadlock_free {cfg : Cfg} {s : State} (hr : Reachable cfg s)
    (hex : ∃ l lk, s.locks l = some lk ∧ lk.phase ≠ .done) :
    ∃ a l s', a.lockStep = some l ∧ step cfg s a = some s' := by
  obtain ⟨h1, h2⟩ := hr.inv12
  obtain ⟨l0, lk0, hl0, hnd⟩ := hex
  by_cases hall : ∀ l lk, s.locks l = some lk → lk.phase = .done ∨ lk.phase = .waiting
  · exact (not_all_waiting h1 h2 hl0 hnd hall).elim
  · have : ∃ l lk, s.locks l = some lk ∧ lk.phase ≠ .done ∧ lk.phase ≠ .waiting := by
      apply Classical.byContradiction
      intro hno
      apply hall
      intro l lk hl
      apply Classical.byContradiction
      intro hc
      exact hno ⟨l, lk, hl, fun e => hc (.inl e), fun e => hc (.inr e)⟩
    obtain ⟨l, lk, hl, hd, hw⟩ := this
    cases hp : lk.phase with
    | acquiring => obtain ⟨s', hs⟩ := acquire_enabled h1 hl (.inl hp); exact ⟨.acquire l, l, s', rfl, hs⟩
    | woken => obtain ⟨s', hs⟩ := acquire_enabled h1 hl (.inr hp); exact ⟨.acquire l, l, s', rfl, hs⟩
    | acquired => obtain ⟨s', hs⟩ := unlock_enabled (cfg := cfg) hl hp 0; exact ⟨.unlock l 0, l, s', rfl, hs⟩
    | releasing => obtain ⟨s', hs⟩ := release_enabled h1 h2 hl hp; exact ⟨.releaseSlot l, l, s', rfl, hs⟩
    | waiting => exact absurd hp hw
    | done => exact absurd hp hd

/-- `deadlock_free`, contrapositive: the system is stuck (no step of any lock is enabled) only when every
    request is finished. -/
theorem stuck_only_when_done {cfg : Cfg} {s : State} (hr : Reachable cfg s)
    (hstuck : ∀ a s', a.lockStep.isSome → step cfg s a ≠ some s') : AllDone s := by
  intro l lk hl
  apply Classical.byContradiction
  intro hnd
  obtain ⟨a, l', s', ha, hs⟩ := deadlock_free hr ⟨l, lk, hl, hnd⟩
  exact hstuck a s' (by simp [ha]) hs

/-- The wait-for relation (a blocked lock waits for the holder of the node it is blocked on) only leads to
    locks heading for strictly greater keys ... -/
theorem wait_for_increases {cfg : Cfg} {s : State} (hr : Reachable cfg s) {a b : LockId} {lka lkb : Lock}
    {ka kb : Key} (hc : WaitChain cfg s a b) (hla : s.locks a = some lka) (hka : lka.nextKey = some ka)
    (hlb : s.locks b = some lkb) (hkb : lkb.nextKey = some kb) : KLt ka kb :=
  waitChain_key_lt hr.inv12.1 hc hla hka hlb hkb

/-- ... hence it is acyclic in every reachable state: no lock waits (through any chain of holders) for itself. -/
theorem wait_for_acyclic {cfg : Cfg} {s : State} (hr : Reachable cfg s) (a : LockId) : ¬ WaitChain cfg s a a :=
  fun h => waitChain_irrefl hr.inv12.1 h

/-- The variant `mu` (Σ over requests of: 3 per slot still to acquire, 2 per slot to release, + phase weight)
    strictly decreases on every step performed on behalf of a lock — `acquire` step, `unlock`, `releaseSlot`
    (a wake-up costs the woken lock +1 and the releaser −2).  New arrivals raise it, the recycler leaves it
    unchanged. -/
theorem lock_step_decreases_variant {cfg : Cfg} {s s' : State} {a : Action} (hr : Reachable cfg s)
    (hs : step cfg s a = some s') (ha : a.lockStep.isSome) : mu s' < mu s :=
  mu_step hr hs ha

/-- With no new arrivals, every run of lock steps from a reachable state is finite: its length is bounded. -/
def requests_terminate (cfg : Cfg) : Prop :=
  ∀ s, Reachable cfg s → ∃ bound : Nat, ∀ (as : List Action) (s' : State),
    (∀ a, a ∈ as → a.lockStep.isSome) →
    as.foldlM (fun st a => step cfg st a) s = some s' → as.length ≤ bound

theorem requests_terminate_holds (cfg : Cfg) : requests_terminate cfg :=
  fun s hr => ⟨mu s, fun as s' hall h => run_bounded as s s' hr hall h⟩

/-- `every_request_returns`: take any run of lock steps (any scheduler, any interleaving of client threads and
    the scheduler goroutine, no new arrivals) from a reachable state that cannot be extended by a further lock
    step.  ENVIRONMENT ASSUMPTION, explicit in `hmax`: enabled steps are eventually taken — the clients that
    hold a lock eventually call `UnLock` (`unlock` is a lock step, enabled whenever `Lock()` has returned), the
    scheduler goroutine eventually processes `unlockCh` and its wake-up list.  Then the run has at most `mu s`
    steps and ends with every request finished: each `Lock()` call has returned (success or stale) and each
    lock has been released. -/
theorem every_request_returns {cfg : Cfg} {s s' : State} (hr : Reachable cfg s) (as : List Action)
    (hall : ∀ a, a ∈ as → a.lockStep.isSome) (hrun : run cfg s as = some s')
    (hmax : ∀ a s'', a.lockStep.isSome → step cfg s' a ≠ some s'') :
    AllDone s' ∧ as.length ≤ mu s := by
  refine ⟨stuck_only_when_done (reachable_run as hr hrun) hmax, ?_⟩
  have key : ∀ (as : List Action) (s : State), run cfg s as = as.foldlM (fun st a => step cfg st a) s := by
    intro as; induction as with
    | nil => intro s; rfl
    | cons a as ih =>
      intro s; simp only [run, List.foldlM_cons]
      cases step cfg s a with
      | none => rfl
      | some s1 => exact ih s1
  exact run_bounded as s s' hr hall (by rw [← key]; exact hrun)

/-- ... and such a run exists from every reachable state. -/
theorem all_requests_can_return {cfg : Cfg} {s : State} (hr : Reachable cfg s) :
    ∃ as s', (∀ a, a ∈ as → a.lockStep.isSome) ∧ run cfg s as = some s' ∧ AllDone s' :=
  can_finish (mu s) s hr (Nat.le_refl _)

/-- FIFO, part 1: a step changes a slot's waiting list only by appending the lock that just got
    `acquireLocked`, or by removing the lock it wakes up — which is the first one in the list that is blocked
    on the released key.  The relative order of the locks that stay is never changed. -/
theorem waiting_order_kept {cfg : Cfg} {s s' : State} {a : Action} (hs : step cfg s a = some s') (i : Nat) :
    (s'.slots i).waiting = (s.slots i).waiting ∨
    (∃ l, (s'.slots i).waiting = (s.slots i).waiting ++ [l]) ∨
    (∃ w key, (s'.slots i).waiting = (s.slots i).waiting.erase w ∧
      (s.slots i).waiting.find? (awaits s key) = some w) := by
  obtain ⟨s1, h1, e⟩ := step_eff hs
  rcases h1 with rfl | ⟨j, ts, rfl⟩
  · exact eff_waiting e i
  · have h0 : ((recycleSlot cfg s j ts).slots i).waiting = (s.slots i).waiting := by
      simp only [recycleSlot, upd_apply]; split
      · next e => subst e; rfl
      · rfl
    have h1 : ∀ key, awaits (recycleSlot cfg s j ts) key = awaits s key := fun _ => rfl
    have := eff_waiting e i
    rw [h0] at this
    simpa only [h1] using this

/-- FIFO, part 2 (no overtaking): if `a` stands before `w` in a waiting list and `w` is the lock a release
    takes out for `key`, then `a` is not blocked on `key`.  So among the requests blocked on one key the
    earliest is served first. -/
theorem no_overtaking {cfg : Cfg} {s : State} (hr : Reachable cfg s) {slot : Nat} {key : Key} {w a : LockId}
    (hw : (s.slots slot).waiting.find? (awaits s key) = some w) {i j : Nat}
    (hi : (s.slots slot).waiting[i]? = some a) (hj : (s.slots slot).waiting[j]? = some w) (hij : i < j) :
    awaits s key a = false :=
  first_in_line (hr.inv2.wok.nodup slot) hw hi hj hij

/-- Arrivals on other keys do not delay a set of requests.  Let `S` be a set of locks whose keys are disjoint
    from the keys of all other locks (`Sep`), and let the run contain ANY steps — of locks outside `S`, of the
    recycler, and arrivals of new requests as long as they are not put into `S` and use keys that no lock of
    `S` uses (`RunSep`; same slot allowed).  Then the number of steps performed on behalf of locks of `S` is at
    most `muOn S s`: the others can neither take a key from them nor wake them up nor push them back. -/
theorem arrivals_on_other_keys_do_not_delay {cfg : Cfg} {s s' : State} (S : LockId → Bool) (hr : Reachable cfg s)
    (hsep : Sep s S) (as : List Action) (hrs : RunSep cfg S s as) (hrun : run cfg s as = some s') :
    stepsOf S as + muOn S s' ≤ muOn S s ∧ Sep s' S :=
  run_on_bounded S as s s' hr hsep hrs hrun

/-- ... and while one of them is unfinished, a step of one of them is enabled (deadlock freedom inside `S`,
    whatever the other requests do).  With the bound above: under the fairness assumption that an enabled step
    of a lock of `S` is eventually taken, all requests of `S` return after at most `muOn S s` of their own
    steps, under continual arrivals on other keys. -/
theorem progress_within {cfg : Cfg} {s : State} (hr : Reachable cfg s) {S : LockId → Bool} (hsep : Sep s S)
    (hex : ∃ l lk, S l = true ∧ s.locks l = some lk ∧ lk.phase ≠ .done) :
    ∃ a l s', S l = true ∧ a.lockStep = some l ∧ step cfg s a = some s' :=
  progress_on hr hsep hex

/-- NOT provable (false for the code as it is): a bound on the steps of ONE request under continual arrivals on
    ITS OWN key.  `releaseSlot` does not hand the node to the lock it wakes (unless stale); a new request can
    take the key before the woken lock's `acquire` runs, and the woken lock goes to the end of the waiting list
    again.  Every such round needs a fresh arrival that releases with a commit ts not above the victim's start
    ts (otherwise the victim returns stale), so with real timestamps it cannot go on; the model, which allows
    any timestamps, admits it. -/
def no_barging_full (cfg : Cfg) : Prop :=
  ∀ s, Reachable cfg s → ∀ l, ∃ bound : Nat, ∀ (as : List Action) (s' : State),
    run cfg s as = some s' → stepsOf (fun x => x == l) as ≤ bound

/-- `Lock()` never reaches `panic("should never run here")`: when `acquire` has returned success or stale,
    the lock is stale or has all its slots. -/
theorem returned_not_locked {cfg : Cfg} {s : State} (hr : Reachable cfg s) {l : LockId} {lk : Lock}
    (hl : s.locks l = some lk) (hp : lk.phase = .acquired) :
    lk.isStale = true ∨ lk.acquiredCount = lk.keys.length := by
  have := hr.inv12.1.phase l lk hl
  unfold PhaseOK at this; rw [hp] at this; exact this

/-- `releaseSlot` never reaches `panic("releaseSlot wrong")` (nor a nil node): it is always enabled for a lock
    that is being released. -/
theorem release_never_panics {cfg : Cfg} {s : State} (hr : Reachable cfg s) {l : LockId} {lk : Lock}
    (hl : s.locks l = some lk) (hp : lk.phase = .releasing) : ∃ s', step cfg s (.releaseSlot l) = some s' :=
  release_enabled hr.inv12.1 hr.inv12.2 hl hp

/-- `stale_sound`: a lock is flagged stale only if a release published, on one of its keys, a commit
    timestamp greater than its start timestamp. -/
theorem stale_sound {cfg : Cfg} {s : State} (hr : Reachable cfg s) {l : LockId} {lk : Lock}
    (hl : s.locks l = some lk) (hs : lk.isStale = true) :
    ∃ k c, k ∈ lk.keys ∧ (k, c) ∈ s.published ∧ c > lk.startTS :=
  hr.inv3.stale_pub l lk hl hs

/-- `stale_complete` (requests reaching a key through `acquireSlot`): if, after the recycling at the head of
    `acquireSlot`, the node of the key still exists and a commit timestamp above the lock's start timestamp was
    published on it, the step answers `acquireStale` and flags the lock.  (A node dropped by `recycle` forgets
    its publications — by design, commits older than `expireDuration`.) -/
theorem stale_complete {cfg : Cfg} {s : State} (hr : Reachable cfg s) {l : LockId} {lk : Lock} {key : Key}
    {slotID : Nat} (hl : s.locks l = some lk) (hp : lk.phase = .acquiring ∨ lk.phase = .woken)
    (hst : lk.isStale = false) (hk : lk.keys[lk.acquiredCount]? = some key)
    (hs : lk.requiredSlots[lk.acquiredCount]? = some slotID)
    {n : Node} {c : Nat} (hn : nodeOf cfg (preRecycle cfg s slotID lk.startTS) key = some n)
    (hc : c ∈ n.pubs) (hgt : c > lk.startTS) :
    ∃ s' lk', acquireStep cfg s l = some (s', .stale) ∧ s'.locks l = some lk' ∧ lk'.isStale = true := by
  have hr1 : Reachable cfg (preRecycle cfg s slotID lk.startTS) := by
    unfold preRecycle; split
    · exact Reachable.step (.recycle slotID lk.startTS) hr rfl
    · exact hr
  have hsl := slot_of_key (hr.inv12.1.wf l lk hl) hk hs
  rw [nodeOf, ← hsl] at hn
  obtain ⟨hm, _⟩ := findNode_some hn
  have hle := hr1.inv3.pubs_le _ n c hm hc
  have hp' : ¬ (lk.phase ≠ .acquiring ∧ lk.phase ≠ .woken) := by
    rcases hp with h | h <;> simp [h]
  have hgt' : n.maxCommitTS > lk.startTS := by omega
  refine ⟨{ (preRecycle cfg s slotID lk.startTS) with
      locks := upd (preRecycle cfg s slotID lk.startTS).locks l (some { lk with isStale := true, phase := .acquired }) },
    { lk with isStale := true, phase := .acquired }, ?_, upd_same _ _ _, rfl⟩
  simp only [acquireStep, hl, hp', if_false, hst, Bool.false_eq_true, acquireSlot, hk, hs, acquireCore, hn, hgt',
    if_true]

/-- `stale_complete_holder` (every way of coming to hold a key, including the hand-over at wake-up):
    a lock that holds a key and is not flagged stale has a start timestamp at least as great as every commit
    published on that key's node since the node was created. -/
theorem stale_complete_holder {cfg : Cfg} {s : State} (hr : Reachable cfg s) {l : LockId} {lk : Lock} {k : Key}
    {n : Node} {c : Nat} (hl : s.locks l = some lk) (hs : lk.isStale = false) (hh : lk.holds k)
    (hn : nodeOf cfg s k = some n) (hc : c ∈ n.pubs) : c ≤ lk.startTS := by
  obtain ⟨hm, _⟩ := findNode_some hn
  have h1 := hr.inv3.pubs_le _ n c hm hc
  have h2 := hr.inv3.held_fresh l lk k n hl hs hh hn
  omega

/-- what a node remembers was really published: every element of `pubs` is a (key, commitTS) of the log of
    `releaseSlot`s by previous holders of that key, and a non-zero `maxCommitTS` is the greatest of them. -/
theorem node_pubs_published {cfg : Cfg} {s : State} (hr : Reachable cfg s) {k : Key} {n : Node}
    (hn : nodeOf cfg s k = some n) :
    (∀ c, c ∈ n.pubs → (k, c) ∈ s.published ∧ c ≤ n.maxCommitTS) ∧
    (n.maxCommitTS = 0 ∨ n.maxCommitTS ∈ n.pubs) := by
  obtain ⟨hm, hk⟩ := findNode_some hn
  refine ⟨fun c hc => ⟨?_, hr.inv3.pubs_le _ n c hm hc⟩, hr.inv4.max_in_pubs _ n hm⟩
  rw [← hk]; exact hr.inv4.pubs_published _ n c hm hc

/-- `stale_exact_acquire`: a request that reaches a key through `acquireSlot` is answered `acquireStale`
    EXACTLY when the key's node (after the recycling at the head of `acquireSlot`) carries a commit timestamp,
    published by a release of a previous holder, above the request's start timestamp. -/
theorem stale_exact_acquire {cfg : Cfg} {s s' : State} (hr : Reachable cfg s) {l : LockId} {lk : Lock} {key : Key}
    {slotID : Nat} {r : AcqRes} (hl : s.locks l = some lk) (hp : lk.phase = .acquiring ∨ lk.phase = .woken)
    (hst : lk.isStale = false) (hk : lk.keys[lk.acquiredCount]? = some key)
    (hs : lk.requiredSlots[lk.acquiredCount]? = some slotID) (h : acquireStep cfg s l = some (s', r)) :
    r = .stale ↔ ∃ n c, nodeOf cfg (preRecycle cfg s slotID lk.startTS) key = some n ∧ c ∈ n.pubs ∧
      c > lk.startTS := by
  constructor
  · intro hrs
    have hr1 : Reachable cfg (preRecycle cfg s slotID lk.startTS) := by
      unfold preRecycle; split
      · exact Reachable.step (.recycle slotID lk.startTS) hr rfl
      · exact hr
    have hsl := slot_of_key (hr.inv12.1.wf l lk hl) hk hs
    have hp' : ¬ (lk.phase ≠ .acquiring ∧ lk.phase ≠ .woken) := by
      rcases hp with h | h <;> simp [h]
    simp only [acquireStep, hl, hp', if_false, hst, Bool.false_eq_true, acquireSlot, hk, hs, Option.some.injEq] at h
    have h2 : r = (acquireCore (preRecycle cfg s slotID lk.startTS) l lk key slotID).2 := by rw [h]
    rw [hrs] at h2
    unfold acquireCore at h2
    dsimp only at h2
    split at h2
    · cases h2
    · next n hf =>
      split at h2
      · next hgt =>
        obtain ⟨hm, _⟩ := findNode_some hf
        refine ⟨n, n.maxCommitTS, by rw [nodeOf, ← hsl]; exact hf, ?_, hgt⟩
        rcases hr1.inv4.max_in_pubs _ n hm with h0 | h0
        · omega
        · exact h0
      · split at h2 <;> cases h2
  · rintro ⟨n, c, hn, hc, hgt⟩
    obtain ⟨s2, lk2, h2, _⟩ := stale_complete hr hl hp hst hk hs hn hc hgt
    rw [h] at h2
    exact (Prod.mk.inj (Option.some.inj h2)).2

/-- `stale_exact_wakeup`: a blocked request `w` that a `releaseSlot` takes out of the waiting list is flagged
    stale (and handed the node) EXACTLY when the node, after this release, carries a published commit timestamp
    above `w`'s start timestamp; otherwise it is woken unflagged and meets `stale_exact_acquire` when its
    `acquire` runs. -/
theorem stale_exact_wakeup {cfg : Cfg} {s s' : State} (hr : Reachable cfg s) {a : Action}
    (hs : step cfg s a = some s') {w : LockId} {lkw lkw' : Lock} {key : Key}
    (hlw : s.locks w = some lkw) (hpw : lkw.phase = .waiting) (hkw : lkw.nextKey = some key)
    (hlw' : s'.locks w = some lkw') (hpw' : lkw'.phase = .woken) :
    lkw'.isStale = true ↔ ∃ n c, nodeOf cfg s' key = some n ∧ c ∈ n.pubs ∧ c > lkw.startTS := by
  obtain ⟨s1, h1, e⟩ := step_eff hs
  rcases h1 with rfl | ⟨i, ts, rfl⟩
  · exact eff_wakeup_exact hr.inv12.1 hr.inv12.2 hr.inv3 hr.inv4 e hlw hpw hkw hlw' hpw'
  · have hr1 : Reachable cfg (recycleSlot cfg s i ts) := Reachable.step (.recycle i ts) hr rfl
    exact eff_wakeup_exact hr1.inv12.1 hr1.inv12.2 hr1.inv3 hr1.inv4 e hlw hpw hkw hlw' hpw'

/-! ### the transaction layer's use of the scheduler (`KVTxn.Commit`) -/

/-- When every request is finished no node has an owner and every waiting list is empty: nothing leaks. -/
theorem finished_means_free {cfg : Cfg} {s : State} (hr : Reachable cfg s) (hd : AllDone s) : LatchesFree s :=
  allDone_free hr hd

/-- The Commit wrapper (`Lock`; deferred `UnLock` on EVERY exit, the stale early return included — this is read
    from the source of `KVTxn.Commit` on every run, `Gen.commitUnlockOnEveryExit`; commit ts 0 when stale or when
    the commit failed) run while all other requests are finished: it never blocks, and afterwards every request is
    finished and all latches are free — whether the transaction committed or was turned away as stale on any of
    its keys (holding the smaller ones, or handed the key at a wake-up). -/
theorem commit_wrapper_finishes {cfg : Cfg} {s : State} (hr : Reachable cfg s) {l : LockId} {lk : Lock} (commitTS : Nat)
    (hl : s.locks l = some lk) (hothers : ∀ l' x, l' ≠ l → s.locks l' = some x → x.phase = .done) :
    Reachable cfg (commitTxn cfg s l commitTS) ∧ AllDone (commitTxn cfg s l commitTS) ∧
      LatchesFree (commitTxn cfg s l commitTS) := by
  obtain ⟨h1, h2⟩ := commitTxn_finishes hr commitTS hl hothers
  exact ⟨h1, h2, allDone_free h1 h2⟩

/-- After ANY sequence of transactions (any start ts, any write sets with distinct keys, any commit ts incl. 0 =
    commit failed), each going through the wrapper after the previous returned, all latches are free. -/
theorem commit_sequence_leaves_latches_free (cfg : Cfg) (txns : List (Nat × List Key × Nat))
    (hnd : ∀ t, t ∈ txns → t.2.1.Nodup) :
    Reachable cfg (commitSeq cfg Latch.init txns) ∧ LatchesFree (commitSeq cfg Latch.init txns) := by
  have hd0 : AllDone Latch.init := by intro l lk hl; simp [Latch.init] at hl
  obtain ⟨h1, h2⟩ := commitSeq_finishes txns Latch.init .init hd0 hnd
  exact ⟨h1, allDone_free h1 h2⟩

/-- The concurrent version: however the wrappers of concurrent transactions and the scheduler goroutine interleave,
    once no step of any lock is enabled any more (`every_request_returns`) all latches are free. -/
theorem concurrent_commits_leave_latches_free {cfg : Cfg} {s s' : State} (hr : Reachable cfg s) (as : List Action)
    (hall : ∀ a, a ∈ as → a.lockStep.isSome) (hrun : run cfg s as = some s')
    (hmax : ∀ a s'', a.lockStep.isSome → step cfg s' a ≠ some s'') : LatchesFree s' :=
  allDone_free (reachable_run as hr hrun) (every_request_returns hr as hall hrun hmax).1

/-! ## non-vacuity: reachable states satisfying the hypotheses of the theorems above -/

/-- two locks on different keys, both successful and not stale -/
example : ∃ s lk1 lk2, Reachable cfg0 s ∧ s.locks 0 = some lk1 ∧ s.locks 1 = some lk2 ∧ (0 : Nat) ≠ 1 ∧
    lk1.fullyAcquired ∧ lk2.fullyAcquired ∧ lk1.phase = .acquired := by
  have h : ∃ s, run cfg0 Latch.init [.genLock 10 [k1], .genLock 11 [k2], .acquire 0, .acquire 1] = some s ∧
      ∃ lk1 lk2, s.locks 0 = some lk1 ∧ s.locks 1 = some lk2 ∧ lk1.fullyAcquired ∧ lk2.fullyAcquired ∧
        lk1.phase = .acquired := by latch_eval
  obtain ⟨s, hs, lk1, lk2, h1, h2, h3, h4, h5⟩ := h
  exact ⟨s, lk1, lk2, reachable_run _ .init hs, h1, h2, by decide, h3, h4, h5⟩

/-- a blocked lock in a waiting list -/
example : ∃ s, Reachable cfg0 s ∧ 1 ∈ (s.slots 0).waiting ∧ ∃ lk, s.locks 1 = some lk ∧ lk.phase ≠ .done := by
  have h : ∃ s, run cfg0 Latch.init [.genLock 10 [k1], .genLock 11 [k1], .acquire 0, .acquire 1] = some s ∧
      1 ∈ (s.slots 0).waiting ∧ ∃ lk, s.locks 1 = some lk ∧ lk.phase ≠ .done := by latch_eval
  obtain ⟨s, hs, h1⟩ := h
  exact ⟨s, reachable_run _ .init hs, h1⟩

/-- a lock flagged stale / a lock being released -/
example : ∃ s lk, Reachable cfg0 s ∧ s.locks 1 = some lk ∧ lk.isStale = true := by
  have h : ∃ s, run cfg0 Latch.init [.genLock 10 [k1], .acquire 0, .unlock 0 20, .releaseSlot 0, .genLock 5 [k1],
      .acquire 1] = some s ∧ ∃ lk, s.locks 1 = some lk ∧ lk.isStale = true := by latch_eval
  obtain ⟨s, hs, lk, h1⟩ := h
  exact ⟨s, lk, reachable_run _ .init hs, h1⟩

example : ∃ s lk, Reachable cfg0 s ∧ s.locks 0 = some lk ∧ lk.phase = .releasing := by
  have h : ∃ s, run cfg0 Latch.init [.genLock 10 [k1], .acquire 0, .unlock 0 20] = some s ∧
      ∃ lk, s.locks 0 = some lk ∧ lk.phase = .releasing := by latch_eval
  obtain ⟨s, hs, lk, h1⟩ := h
  exact ⟨s, lk, reachable_run _ .init hs, h1⟩

/-- hypotheses of `stale_complete`: a request (start 5) about to try a key whose node carries a publication 20 -/
example : ∃ s lk n, Reachable cfg0 s ∧ s.locks 1 = some lk ∧ lk.phase = .acquiring ∧ lk.isStale = false ∧
    lk.keys[lk.acquiredCount]? = some k1 ∧ lk.requiredSlots[lk.acquiredCount]? = some 0 ∧
    nodeOf cfg0 (preRecycle cfg0 s 0 lk.startTS) k1 = some n ∧ 20 ∈ n.pubs ∧ 20 > lk.startTS := by
  have h : ∃ s, run cfg0 Latch.init [.genLock 10 [k1], .acquire 0, .unlock 0 20, .releaseSlot 0, .genLock 5 [k1]] = some s ∧
      ∃ lk n, s.locks 1 = some lk ∧ lk.phase = .acquiring ∧ lk.isStale = false ∧
    lk.keys[lk.acquiredCount]? = some k1 ∧ lk.requiredSlots[lk.acquiredCount]? = some 0 ∧
    nodeOf cfg0 (preRecycle cfg0 s 0 lk.startTS) k1 = some n ∧ 20 ∈ n.pubs ∧ 20 > lk.startTS := by latch_eval
  obtain ⟨s, hs, lk, n, h1⟩ := h
  exact ⟨s, lk, n, reachable_run _ .init hs, h1⟩

/-- hypotheses of `stale_complete_holder`: a non-stale holder (start 30) of a key with publication 20 -/
example : ∃ s lk n, Reachable cfg0 s ∧ s.locks 1 = some lk ∧ lk.isStale = false ∧ lk.holds k1 ∧
    nodeOf cfg0 s k1 = some n ∧ 20 ∈ n.pubs := by
  have h : ∃ s, run cfg0 Latch.init [.genLock 10 [k1], .acquire 0, .unlock 0 20, .releaseSlot 0, .genLock 30 [k1],
      .acquire 1] = some s ∧ ∃ lk n, s.locks 1 = some lk ∧ lk.isStale = false ∧
      (0 < lk.acquiredCount ∧ lk.keys[0]? = some k1) ∧ nodeOf cfg0 s k1 = some n ∧ 20 ∈ n.pubs := by latch_eval
  obtain ⟨s, hs, lk, n, h1, h2, ⟨h3, h4⟩, h5⟩ := h
  exact ⟨s, lk, n, reachable_run _ .init hs, h1, h2, ⟨0, h3, h4⟩, h5⟩

/-- `every_request_returns`: from every reachable state a run satisfying its hypotheses exists -/
example {cfg : Cfg} {s : State} (hr : Reachable cfg s) :
    ∃ as s', (∀ a, a ∈ as → a.lockStep.isSome) ∧ run cfg s as = some s' ∧
      (∀ a s'', a.lockStep.isSome → step cfg s' a ≠ some s'') := by
  obtain ⟨as, s', h1, h2, h3⟩ := all_requests_can_return hr
  exact ⟨as, s', h1, h2, fun a s'' ha => allDone_stuck h3 a s'' ha⟩

/-- a wait-for edge (lock 1 blocked on the key lock 0 holds) -/
example : ∃ s, Reachable cfg0 s ∧ WaitChain cfg0 s 1 0 := by
  have h : ∃ s, run cfg0 Latch.init [.genLock 10 [k1], .genLock 11 [k1], .acquire 0, .acquire 1] = some s ∧
      WaitsFor cfg0 s 1 0 := by latch_eval2
  obtain ⟨s, hs, h1⟩ := h
  exact ⟨s, reachable_run _ .init hs, .single h1⟩

/-- hypotheses of `no_overtaking`: lock 1 (blocked on k2) stands before lock 2 (blocked on k1); a release of k1 takes lock 2 -/
example : ∃ s, Reachable cfg0 s ∧ (s.slots 0).waiting.find? (awaits s k1) = some 2 ∧
    (s.slots 0).waiting[0]? = some 1 ∧ (s.slots 0).waiting[1]? = some 2 := by
  have h : ∃ s, run cfg0 Latch.init [.genLock 10 [k1, k2], .genLock 11 [k2], .genLock 12 [k1], .acquire 0, .acquire 0,
      .acquire 1, .acquire 2] = some s ∧ (s.slots 0).waiting.find? (awaits s k1) = some 2 ∧
    (s.slots 0).waiting[0]? = some 1 ∧ (s.slots 0).waiting[1]? = some 2 := by latch_eval2
  obtain ⟨s, hs, h1⟩ := h
  exact ⟨s, reachable_run _ .init hs, h1⟩

/-- hypotheses of `arrivals_on_other_keys_do_not_delay` / `progress_within`: S = {lock 0 on k1}, an arrival on k2 -/
example : ∃ s s', Reachable cfg0 s ∧ Sep s (fun l => l == 0) ∧
    RunSep cfg0 (fun l => l == 0) s [.genLock 11 [k2], .acquire 1, .acquire 0] ∧
    run cfg0 s [.genLock 11 [k2], .acquire 1, .acquire 0] = some s' ∧
    ∃ lk, s.locks 0 = some lk ∧ lk.phase ≠ .done := by
  have h : ∃ s, run cfg0 Latch.init [.genLock 10 [k1]] = some s ∧ Sep s (fun l => l == 0) ∧
    RunSep cfg0 (fun l => l == 0) s [.genLock 11 [k2], .acquire 1, .acquire 0] ∧
    (∃ s', run cfg0 s [.genLock 11 [k2], .acquire 1, .acquire 0] = some s') ∧
    ∃ lk, s.locks 0 = some lk ∧ lk.phase ≠ .done := by
    latch_eval2
    refine ⟨?_, ?_⟩
    · intro l l' _ _ _ hl _ hl' _ _ _; subst hl; subst hl'; rfl
    · intro l lk k _ hlk hk; subst hlk; subst hk; simp
  obtain ⟨s, hs, h1, h2, ⟨s', h3⟩, h4⟩ := h
  exact ⟨s, s', reachable_run _ .init hs, h1, h2, h3, h4⟩

/-- hypotheses of `stale_exact_wakeup`: lock 1 (start 11) blocked on k1; lock 0 releases with commit 20 and wakes it -/
example : ∃ s s' lkw lkw', Reachable cfg0 s ∧ step cfg0 s (.releaseSlot 0) = some s' ∧ s.locks 1 = some lkw ∧
    lkw.phase = .waiting ∧ lkw.nextKey = some k1 ∧ s'.locks 1 = some lkw' ∧ lkw'.phase = .woken := by
  have h : ∃ s, run cfg0 Latch.init [.genLock 10 [k1], .genLock 11 [k1], .acquire 0, .acquire 1, .unlock 0 20] = some s ∧
      ∃ s' lkw lkw', step cfg0 s (.releaseSlot 0) = some s' ∧ s.locks 1 = some lkw ∧
      lkw.phase = .waiting ∧ lkw.nextKey = some k1 ∧ s'.locks 1 = some lkw' ∧ lkw'.phase = .woken := by latch_eval2
  obtain ⟨s, hs, s', lkw, lkw', h1⟩ := h
  exact ⟨s, s', lkw, lkw', reachable_run _ .init hs, h1⟩

/-- hypotheses of `commit_wrapper_finishes`: one finished transaction, a second one about to commit -/
example : ∃ s lk, Reachable cfg0 s ∧ s.locks 1 = some lk ∧ lk.phase = .acquiring ∧
    ∀ l' x, l' ≠ 1 → s.locks l' = some x → x.phase = .done := by
  have h : ∃ s, run cfg0 Latch.init [.genLock 10 [k1], .acquire 0, .unlock 0 20, .releaseSlot 0, .genLock 30 [k1]] = some s ∧
      ∃ lk, s.locks 1 = some lk ∧ lk.phase = .acquiring ∧
      ∀ l' x, l' ≠ 1 → s.locks l' = some x → x.phase = .done := by
    latch_eval2
    intro l' x hne
    by_cases e : l' = 0
    · subst e; simp; intro h; rw [← h]
    · simp [hne, e]
  obtain ⟨s, hs, lk, h1⟩ := h
  exact ⟨s, lk, reachable_run _ .init hs, h1⟩

end CGV.Props.C17
