/-
  C17 — the local latch scheduler is exclusive, deadlock-free, flags exactly stale work.

  All theorems are about `CGV.Latch` (Model/Latch.lean): states reachable from `init` by ANY interleaving of the
  atomic steps `genLock` (distinct keys), `acquire` step (= one `acquireSlot` critical section, or the `IsStale`
  test of `acquire`), `unlock`, `releaseSlot`, `recycle` of one slot with any timestamp — for every slot hash
  `cfg.slotOf` (all collisions), every `latchListCount`, `expireDuration`, every start/commit timestamp.
  The single scheduler goroutine of scheduler.go produces a subset of these interleavings.
-/
import ClientGoVerif.Proofs.LatchStale
namespace CGV.Props.C17
open CGV CGV.Latch

/-- The invariant behind exclusivity: a key among the first `acquiredCount` keys of a lock has a node,
    and that node's holder is the lock. -/
theorem holder_invariant {cfg : Cfg} {s : State} (hr : Reachable cfg s) {l : LockId} {lk : Lock} {k : Key}
    (hl : s.locks l = some lk) (hh : lk.holds k) : ∃ n, nodeOf cfg s k = some n ∧ n.holder = some l :=
  hr.inv12.1.holds l lk k hl hh

/-- Two different locks never hold the same key at the same time (stale or not, fully acquired or not). -/
theorem held_exclusive {cfg : Cfg} {s : State} (hr : Reachable cfg s) {l1 l2 : LockId} {lk1 lk2 : Lock} {k : Key}
    (h1 : s.locks l1 = some lk1) (h2 : s.locks l2 = some lk2) (hk1 : lk1.holds k) (hk2 : lk2.holds k) : l1 = l2 := by
  obtain ⟨n1, hn1, ho1⟩ := holder_invariant hr h1 hk1
  obtain ⟨n2, hn2, ho2⟩ := holder_invariant hr h2 hk2
  rw [hn1] at hn2; cases hn2; rw [ho1] at ho2; exact Option.some.inj ho2

/-- `exclusive`: between a successful non-stale `Lock()` and the start of its release, no other successful
    non-stale lock shares a key with it.  `keys.Nodup` is the hypothesis of the `genLock` step (see `Latch.step`). -/
theorem exclusive {cfg : Cfg} {s : State} (hr : Reachable cfg s) {l1 l2 : LockId} {lk1 lk2 : Lock}
    (h1 : s.locks l1 = some lk1) (h2 : s.locks l2 = some lk2) (hne : l1 ≠ l2)
    (f1 : lk1.fullyAcquired) (f2 : lk2.fullyAcquired) : ∀ k, k ∈ lk1.keys → k ∉ lk2.keys := by
  intro k hk1 hk2
  have to_holds : ∀ (lk : Lock), lk.fullyAcquired → k ∈ lk.keys → lk.holds k := by
    intro lk f hk
    obtain ⟨j, hj, hjk⟩ := List.getElem_of_mem hk
    exact ⟨j, by rw [f.1]; exact hj, by rw [List.getElem?_eq_getElem hj, hjk]⟩
  exact hne (held_exclusive hr h1 h2 (to_holds lk1 f1 hk1) (to_holds lk2 f2 hk2))

/-- The keys of every lock are strictly sorted, hence distinct (consequence of `keys.Nodup` at `genLock`). -/
theorem keys_sorted {cfg : Cfg} {s : State} (hr : Reachable cfg s) {l : LockId} {lk : Lock}
    (hl : s.locks l = some lk) : lk.keys.Pairwise KLt ∧ lk.keys.Nodup :=
  ⟨(hr.inv12.1.wf l lk hl).sorted, sorted_nodup (hr.inv12.1.wf l lk hl).sorted⟩

/-- A lock is in the waiting list of slot `i` exactly when its thread is blocked on a key of slot `i`;
    no lock is listed twice. -/
theorem waiting_list_exact {cfg : Cfg} {s : State} (hr : Reachable cfg s) (i : Nat) (l : LockId) :
    (l ∈ (s.slots i).waiting ↔
      ∃ lk k, s.locks l = some lk ∧ lk.phase = .waiting ∧ lk.nextKey = some k ∧ cfg.slotOf k = i) ∧
    (s.slots i).waiting.Nodup :=
  ⟨hr.inv2.wok.mem i l, hr.inv2.wok.nodup i⟩

/-- `waiter_has_holder` (no lost wake-up): a lock in a waiting list waits for a key `k` whose node has a holder,
    or some lock is in a pending wake-up list for `k` and will not be turned away as stale. -/
theorem waiter_has_holder {cfg : Cfg} {s : State} (hr : Reachable cfg s) {i : Nat} {l : LockId}
    (hw : l ∈ (s.slots i).waiting) :
    ∃ lk k, s.locks l = some lk ∧ lk.nextKey = some k ∧ cfg.slotOf k = i ∧
      (HasHolder cfg s k ∨ HasWoken cfg s k) := by
  obtain ⟨lk, k, hl, hp, hk, hs⟩ := (hr.inv2.wok.mem i l).mp hw
  exact ⟨lk, k, hl, hk, hs, hr.inv2.wake l lk k hl hp hk⟩

/-- The holder of a node is a lock that holds the node's key (so it is not finished and will release it). -/
theorem holder_is_live {cfg : Cfg} {s : State} (hr : Reachable cfg s) {k : Key} {n : Node} {o : LockId}
    (hn : nodeOf cfg s k = some n) (ho : n.holder = some o) :
    ∃ lk, s.locks o = some lk ∧ lk.holds k ∧ lk.phase ≠ .done := by
  obtain ⟨hm, hk⟩ := findNode_some hn
  obtain ⟨lk, hl, hh⟩ := hr.inv12.1.holder _ n o hm ho
  rw [hk] at hh
  refine ⟨lk, hl, hh, ?_⟩
  intro hd
  have := hr.inv12.1.phase _ _ hl
  unfold PhaseOK at this; rw [hd] at this
  have := Lock.holds_lt hh; omega

/-- `deadlock_free`: in every reachable state with an unfinished lock, a step of some lock (one step of
    `acquire`, an `unlock`, or a `releaseSlot` — not a new arrival, not the recycler) is enabled and does not
    panic.  Proof: otherwise all unfinished locks are blocked; the one awaiting the greatest key has, by
    `waiter_has_holder`, a holder that is itself blocked on a greater key (keys are acquired in sorted order). -/
theorem deadlock_free {cfg : Cfg} {s : State} (hr : Reachable cfg s)
    (hex : ∃ l lk, s.locks l = some lk ∧ lk.phase ≠ .done) :
    ∃ a l s', a.lockStep = some l ∧ step cfg s a = some s' := by
  obtain ⟨h1, h2⟩ := hr.inv12
  obtain ⟨l0, lk0, hl0, hnd⟩ := hex
  by_cases hall : ∀ l lk, s.locks l = some lk → lk.phase = .done ∨ lk.phase = .waiting
  · exact (not_all_waiting h1 h2 hl0 hnd hall).elim
  · have : ∃ l lk, s.locks l = some lk ∧ lk.phase ≠ .done ∧ lk.phase ≠ .waiting := by
      apply Classical.byContradiction
      intro hno
      apply hall
      intro l lk hl
      apply Classical.byContradiction
      intro hc
      exact hno ⟨l, lk, hl, fun e => hc (.inl e), fun e => hc (.inr e)⟩
    obtain ⟨l, lk, hl, hd, hw⟩ := this
    cases hp : lk.phase with
    | acquiring => obtain ⟨s', hs⟩ := acquire_enabled h1 hl (.inl hp); exact ⟨.acquire l, l, s', rfl, hs⟩
    | woken => obtain ⟨s', hs⟩ := acquire_enabled h1 hl (.inr hp); exact ⟨.acquire l, l, s', rfl, hs⟩
    | acquired => obtain ⟨s', hs⟩ := unlock_enabled (cfg := cfg) hl hp 0; exact ⟨.unlock l 0, l, s', rfl, hs⟩
    | releasing => obtain ⟨s', hs⟩ := release_enabled h1 h2 hl hp; exact ⟨.releaseSlot l, l, s', rfl, hs⟩
    | waiting => exact absurd hp hw
    | done => exact absurd hp hd

/-- The part of "every request eventually returns" that is NOT proved here: with no new arrivals, every run of
    lock steps is finite (a bound on the number of steps, e.g. 3·Σ|keys| + 3·#locks).  Together with
    `deadlock_free` it would give termination of all requests under any scheduler. -/
def requests_terminate (cfg : Cfg) : Prop :=
  ∀ s, Reachable cfg s → ∃ bound : Nat, ∀ (as : List Action) (s' : State),
    (∀ a, a ∈ as → a.lockStep.isSome) →
    as.foldlM (fun st a => step cfg st a) s = some s' → as.length ≤ bound

/-- `Lock()` never reaches `panic("should never run here")`: when `acquire` has returned success or stale,
    the lock is stale or has all its slots. -/
theorem returned_not_locked {cfg : Cfg} {s : State} (hr : Reachable cfg s) {l : LockId} {lk : Lock}
    (hl : s.locks l = some lk) (hp : lk.phase = .acquired) :
    lk.isStale = true ∨ lk.acquiredCount = lk.keys.length := by
  have := hr.inv12.1.phase l lk hl
  unfold PhaseOK at this; rw [hp] at this; exact this

/-- `releaseSlot` never reaches `panic("releaseSlot wrong")` (nor a nil node): it is always enabled for a lock
    that is being released. -/
theorem release_never_panics {cfg : Cfg} {s : State} (hr : Reachable cfg s) {l : LockId} {lk : Lock}
    (hl : s.locks l = some lk) (hp : lk.phase = .releasing) : ∃ s', step cfg s (.releaseSlot l) = some s' :=
  release_enabled hr.inv12.1 hr.inv12.2 hl hp

/-- `stale_sound`: a lock is flagged stale only if a release published, on one of its keys, a commit
    timestamp greater than its start timestamp. -/
theorem stale_sound {cfg : Cfg} {s : State} (hr : Reachable cfg s) {l : LockId} {lk : Lock}
    (hl : s.locks l = some lk) (hs : lk.isStale = true) :
    ∃ k c, k ∈ lk.keys ∧ (k, c) ∈ s.published ∧ c > lk.startTS :=
  hr.inv3.stale_pub l lk hl hs

/-- `stale_complete` (requests reaching a key through `acquireSlot`): if, after the recycling at the head of
    `acquireSlot`, the node of the key still exists and a commit timestamp above the lock's start timestamp was
    published on it, the step answers `acquireStale` and flags the lock.  (A node dropped by `recycle` forgets
    its publications — by design, commits older than `expireDuration`.) -/
theorem stale_complete {cfg : Cfg} {s : State} (hr : Reachable cfg s) {l : LockId} {lk : Lock} {key : Key}
    {slotID : Nat} (hl : s.locks l = some lk) (hp : lk.phase = .acquiring ∨ lk.phase = .woken)
    (hst : lk.isStale = false) (hk : lk.keys[lk.acquiredCount]? = some key)
    (hs : lk.requiredSlots[lk.acquiredCount]? = some slotID)
    {n : Node} {c : Nat} (hn : nodeOf cfg (preRecycle cfg s slotID lk.startTS) key = some n)
    (hc : c ∈ n.pubs) (hgt : c > lk.startTS) :
    ∃ s' lk', acquireStep cfg s l = some (s', .stale) ∧ s'.locks l = some lk' ∧ lk'.isStale = true := by
  have hr1 : Reachable cfg (preRecycle cfg s slotID lk.startTS) := by
    unfold preRecycle; split
    · exact Reachable.step (.recycle slotID lk.startTS) hr rfl
    · exact hr
  have hsl := slot_of_key (hr.inv12.1.wf l lk hl) hk hs
  rw [nodeOf, ← hsl] at hn
  obtain ⟨hm, _⟩ := findNode_some hn
  have hle := hr1.inv3.pubs_le _ n c hm hc
  have hp' : ¬ (lk.phase ≠ .acquiring ∧ lk.phase ≠ .woken) := by
    rcases hp with h | h <;> simp [h]
  have hgt' : n.maxCommitTS > lk.startTS := by omega
  refine ⟨{ (preRecycle cfg s slotID lk.startTS) with
      locks := upd (preRecycle cfg s slotID lk.startTS).locks l (some { lk with isStale := true, phase := .acquired }) },
    { lk with isStale := true, phase := .acquired }, ?_, upd_same _ _ _, rfl⟩
  simp only [acquireStep, hl, hp', if_false, hst, Bool.false_eq_true, acquireSlot, hk, hs, acquireCore, hn, hgt',
    if_true]

/-- `stale_complete_holder` (every way of coming to hold a key, including the hand-over at wake-up):
    a lock that holds a key and is not flagged stale has a start timestamp at least as great as every commit
    published on that key's node since the node was created. -/
theorem stale_complete_holder {cfg : Cfg} {s : State} (hr : Reachable cfg s) {l : LockId} {lk : Lock} {k : Key}
    {n : Node} {c : Nat} (hl : s.locks l = some lk) (hs : lk.isStale = false) (hh : lk.holds k)
    (hn : nodeOf cfg s k = some n) (hc : c ∈ n.pubs) : c ≤ lk.startTS := by
  obtain ⟨hm, _⟩ := findNode_some hn
  have h1 := hr.inv3.pubs_le _ n c hm hc
  have h2 := hr.inv3.held_fresh l lk k n hl hs hh hn
  omega

/-! ## non-vacuity: reachable states satisfying the hypotheses of the theorems above -/

/-- two locks on different keys, both successful and not stale -/
example : ∃ s lk1 lk2, Reachable cfg0 s ∧ s.locks 0 = some lk1 ∧ s.locks 1 = some lk2 ∧ (0 : Nat) ≠ 1 ∧
    lk1.fullyAcquired ∧ lk2.fullyAcquired ∧ lk1.phase = .acquired := by
  have h : ∃ s, run cfg0 Latch.init [.genLock 10 [k1], .genLock 11 [k2], .acquire 0, .acquire 1] = some s ∧
      ∃ lk1 lk2, s.locks 0 = some lk1 ∧ s.locks 1 = some lk2 ∧ lk1.fullyAcquired ∧ lk2.fullyAcquired ∧
        lk1.phase = .acquired := by latch_eval
  obtain ⟨s, hs, lk1, lk2, h1, h2, h3, h4, h5⟩ := h
  exact ⟨s, lk1, lk2, reachable_run _ .init hs, h1, h2, by decide, h3, h4, h5⟩

/-- a blocked lock in a waiting list -/
example : ∃ s, Reachable cfg0 s ∧ 1 ∈ (s.slots 0).waiting ∧ ∃ lk, s.locks 1 = some lk ∧ lk.phase ≠ .done := by
  have h : ∃ s, run cfg0 Latch.init [.genLock 10 [k1], .genLock 11 [k1], .acquire 0, .acquire 1] = some s ∧
      1 ∈ (s.slots 0).waiting ∧ ∃ lk, s.locks 1 = some lk ∧ lk.phase ≠ .done := by latch_eval
  obtain ⟨s, hs, h1⟩ := h
  exact ⟨s, reachable_run _ .init hs, h1⟩

/-- a lock flagged stale / a lock being released -/
example : ∃ s lk, Reachable cfg0 s ∧ s.locks 1 = some lk ∧ lk.isStale = true := by
  have h : ∃ s, run cfg0 Latch.init [.genLock 10 [k1], .acquire 0, .unlock 0 20, .releaseSlot 0, .genLock 5 [k1],
      .acquire 1] = some s ∧ ∃ lk, s.locks 1 = some lk ∧ lk.isStale = true := by latch_eval
  obtain ⟨s, hs, lk, h1⟩ := h
  exact ⟨s, lk, reachable_run _ .init hs, h1⟩

example : ∃ s lk, Reachable cfg0 s ∧ s.locks 0 = some lk ∧ lk.phase = .releasing := by
  have h : ∃ s, run cfg0 Latch.init [.genLock 10 [k1], .acquire 0, .unlock 0 20] = some s ∧
      ∃ lk, s.locks 0 = some lk ∧ lk.phase = .releasing := by latch_eval
  obtain ⟨s, hs, lk, h1⟩ := h
  exact ⟨s, lk, reachable_run _ .init hs, h1⟩

/-- hypotheses of `stale_complete`: a request (start 5) about to try a key whose node carries a publication 20 -/
example : ∃ s lk n, Reachable cfg0 s ∧ s.locks 1 = some lk ∧ lk.phase = .acquiring ∧ lk.isStale = false ∧
    lk.keys[lk.acquiredCount]? = some k1 ∧ lk.requiredSlots[lk.acquiredCount]? = some 0 ∧
    nodeOf cfg0 (preRecycle cfg0 s 0 lk.startTS) k1 = some n ∧ 20 ∈ n.pubs ∧ 20 > lk.startTS := by
  have h : ∃ s, run cfg0 Latch.init [.genLock 10 [k1], .acquire 0, .unlock 0 20, .releaseSlot 0, .genLock 5 [k1]] = some s ∧
      ∃ lk n, s.locks 1 = some lk ∧ lk.phase = .acquiring ∧ lk.isStale = false ∧
    lk.keys[lk.acquiredCount]? = some k1 ∧ lk.requiredSlots[lk.acquiredCount]? = some 0 ∧
    nodeOf cfg0 (preRecycle cfg0 s 0 lk.startTS) k1 = some n ∧ 20 ∈ n.pubs ∧ 20 > lk.startTS := by latch_eval
  obtain ⟨s, hs, lk, n, h1⟩ := h
  exact ⟨s, lk, n, reachable_run _ .init hs, h1⟩

/-- hypotheses of `stale_complete_holder`: a non-stale holder (start 30) of a key with publication 20 -/
example : ∃ s lk n, Reachable cfg0 s ∧ s.locks 1 = some lk ∧ lk.isStale = false ∧ lk.holds k1 ∧
    nodeOf cfg0 s k1 = some n ∧ 20 ∈ n.pubs := by
  have h : ∃ s, run cfg0 Latch.init [.genLock 10 [k1], .acquire 0, .unlock 0 20, .releaseSlot 0, .genLock 30 [k1],
      .acquire 1] = some s ∧ ∃ lk n, s.locks 1 = some lk ∧ lk.isStale = false ∧
      (0 < lk.acquiredCount ∧ lk.keys[0]? = some k1) ∧ nodeOf cfg0 s k1 = some n ∧ 20 ∈ n.pubs := by latch_eval
  obtain ⟨s, hs, lk, n, h1, h2, ⟨h3, h4⟩, h5⟩ := h
  exact ⟨s, lk, n, reachable_run _ .init hs, h1, h2, ⟨0, h3, h4⟩, h5⟩

end CGV.Props.C17
