/-
  C07 — a transaction reads its own writes over its snapshot; savepoint rollback undoes.

  Model: `Model/UnionIter.lean` (UnionIter.updateCur/Next, KVUnionStore.Get/Iter/IterReverse,
  BufferBatchGetter.BatchGet, abstract write buffer); declarative side: `Spec/Overlay.lean`.
  Helper lemmas: `Proofs/UnionIter.lean`.  Core Lean only (no Mathlib in this project).
-/
import ClientGoVerif.Proofs.UnionIter
namespace CGV.Props.C07
open CGV CGV.Overlay CGV.UnionIter

/-- The union iterator itself, for ANY two cursors that are strictly ordered in the direction of the
iteration (whatever produced them): what `for it.Valid() { …; it.Next() }` emits is strictly ordered in
that direction (so no key twice), and consists exactly of the non-tombstone buffer entries plus the snapshot
entries whose key the buffer cursor does not hold (so none skipped, buffer wins on equal keys, tombstones hide
the snapshot record).  Termination of the loop is part of the statement: `iterAll` stops after
`|dirty|+|snapshot|+1` rounds at the latest, and still nothing is missing. -/
theorem union_iter_merges_cursors (rev : Bool) (dirtyIt snapshotIt : List KV)
    (hd : StrictlyOrdered rev dirtyIt) (hs : StrictlyOrdered rev snapshotIt) :
    StrictlyOrdered rev (iterAll rev dirtyIt snapshotIt) ∧
    ∀ x, x ∈ iterAll rev dirtyIt snapshotIt ↔
      (x ∈ dirtyIt ∧ x.2 ≠ []) ∨ (x ∈ snapshotIt ∧ ∀ y ∈ dirtyIt, y.1 ≠ x.1) := by
  rw [iterAll_eq_merge]
  exact ⟨merge_sorted rev _ _ hd hs, merge_mem_iff rev _ _ hd hs⟩

example : StrictlyOrdered true [([2], [9]), ([1], [])] ∧ StrictlyOrdered true [([3], [7]), ([1], [8])] := by decide

/-- `KVUnionStore.Iter` / `IterReverse` over a well formed buffer and snapshot: the emitted sequence IS the
declarative view (sorted key universe, restricted to `[lo, hi)`, each key with its `viewGet` value, tombstones
gone), reversed for reverse iteration; it is strictly ascending / descending, inside the bounds, and a pair is
emitted if and only if the key is in range and has that value in the overlay (nothing repeated, nothing skipped).
Bounds are arbitrary: off existing keys, empty (= unbounded above), `lo > hi` (then the view is empty). -/
theorem union_iter_eq_overlay (snap buf : List KV) (lo hi : Bytes) (rev : Bool)
    (hsnap : IsMap snap) (hbuf : IsMap buf) (hne : NoEmpty snap) :
    storeIter snap buf lo hi rev = viewDir snap buf lo hi rev ∧
    StrictlyOrdered rev (storeIter snap buf lo hi rev) ∧
    (∀ kv ∈ storeIter snap buf lo hi rev, inRange lo hi kv.1 = true) ∧
    (∀ k v, (k, v) ∈ storeIter snap buf lo hi rev ↔ inRange lo hi k = true ∧ viewGet snap buf k = some v) := by
  refine ⟨storeIter_eq_viewDir snap buf lo hi rev hsnap hbuf hne, storeIter_sorted snap buf lo hi rev hsnap hbuf,
    ?_, storeIter_mem_iff snap buf lo hi rev hsnap hbuf hne⟩
  rintro ⟨k, v⟩ h
  exact ((storeIter_mem_iff snap buf lo hi rev hsnap hbuf hne k v).1 h).1

example : IsMap [([1], [5]), ([1, 0], [6]), ([255], [7])] ∧ IsMap [([], [1]), ([1], []), ([1, 0, 0], [2])] ∧
    NoEmpty [([1], [5]), ([1, 0], [6]), ([255], [7])] := by decide

/-- `NoEmpty snap` is needed: the iterator hands out a snapshot record with an empty value as it is, while `Get`
(and the view) treat the empty value as "not found" — a snapshot never holds one (TiKV has no empty values) -/
example : storeIter [([1], [])] [] [] [] false = [([1], [])] ∧ viewDir [([1], [])] [] [] [] false = [] ∧
    unionGet [([1], [])] [] [1] = none := by decide

/-- `KVUnionStore.Get`: buffer first, snapshot on a miss, an empty value is "not found" -/
theorem union_get_eq_overlay (snap buf : List KV) (k : Bytes) : unionGet snap buf k = viewGet snap buf k :=
  unionGet_eq_viewGet snap buf k

/-- `BufferBatchGetter.BatchGet` (the code of /repo after cbfc345, modelled line by line): for ANY key list —
duplicates included — the result is a well formed map (no key twice) that holds exactly the requested keys that
have a value under `Get`, with that value: deletions hide snapshot keys, the buffer wins, absent keys have no
entry. -/
theorem batch_get_eq_pointwise (snap buf : List KV) (keys : List Bytes) :
    IsMap (batchGet snap buf keys) ∧
    (∀ k, lookup (batchGet snap buf keys) k = if k ∈ keys then unionGet snap buf k else none) ∧
    (∀ k v, (k, v) ∈ batchGet snap buf keys ↔ k ∈ keys ∧ unionGet snap buf k = some v) := by
  have hl : ∀ k, lookup (batchGet snap buf keys) k = if k ∈ keys then unionGet snap buf k else none := by
    intro k; rw [lookup_batchGet, unionGet_eq_viewGet]
  refine ⟨batchGet_sorted snap buf keys, hl, fun k v => ?_⟩
  rw [mem_iff_lookup (batchGet_sorted snap buf keys), hl]
  by_cases hk : k ∈ keys <;> simp [hk]

/-- Read-your-writes in program order, for ALL interleavings of set / delete / staging / release / cleanup /
checkpoint / revert on an empty buffer (arbitrary nesting of staging levels and checkpoints; a revert that is
not admissible — checkpoint gone, or a newer staging level still open — is refused by model and specification
alike and changes nothing).  `Get`, `Iter`/`IterReverse` (all bounds, both directions) and `BatchGet` (all key
lists) answer like the snapshot overlaid with the writes that are still live (`liveWrites`: cleanup drops its
level's writes and every newer mark, revert drops everything written after the checkpoint, release keeps the
writes), the latest write of a key winning, a deletion hiding the snapshot record. -/
theorem txn_view_after_ops (snap : List KV) (ops : List BOp) (hsnap : IsMap snap) (hne : NoEmpty snap) :
    let buf := (Buf.empty.run ops).cur
    (∀ k, unionGet snap buf k = viewGet snap (liveWrites ops) k) ∧
    (∀ lo hi rev, storeIter snap buf lo hi rev = viewDir snap (liveWrites ops) lo hi rev) ∧
    (∀ keys k, lookup (batchGet snap buf keys) k = if k ∈ keys then viewGet snap (liveWrites ops) k else none) := by
  intro buf
  have hl : ∀ k, lookup buf k = lookup (liveWrites ops) k := run_lookup ops
  have hbuf : IsMap buf := (wf_run Buf.empty ops wf_empty).1
  refine ⟨fun k => ?_, fun lo hi rev => ?_, fun keys k => ?_⟩
  · rw [unionGet_eq_viewGet]; exact viewGet_congr snap hl k
  · rw [storeIter_eq_viewDir snap buf lo hi rev hsnap hbuf hne]; exact viewDir_congr snap hl lo hi rev
  · rw [lookup_batchGet, viewGet_congr snap hl k]

example : IsMap [([1], [5]), ([2], [6])] ∧ NoEmpty [([1], [5]), ([2], [6])] := by decide

/-- the specification really distinguishes the three ways a level can end: after
`set 1; staging; set 2; checkpoint; set 3; revert 0; release` the live writes are 2 and 1, after the same with
`cleanup` instead of `release` only 1 -/
example : liveWrites [.set [1] [9], .staging, .set [2] [9], .checkpoint, .set [3] [9], .revert 0, .release]
      = [([2], [9]), ([1], [9])] ∧
    liveWrites [.set [1] [9], .staging, .set [2] [9], .checkpoint, .set [3] [9], .revert 0, .cleanup]
      = [([1], [9])] := by decide

/-- Discarding a staging level restores exactly the state — content and every older undo mark, hence every view
and every later rollback — that existed when it was taken, whatever happened inside: nested staging levels to any
depth, checkpoints, reverts (a revert cannot reach below the level: it is refused). -/
theorem cleanup_restores_view (b : Buf) (ops : List BOp) (h : Bracketed ops) :
    b.run (.staging :: ops ++ [.cleanup]) = b := by
  obtain ⟨cur', top', h1, h2⟩ := run_block ⟨true, b.cur⟩ b.marks ops 0 0 b.cur [] rfl h (Or.inl rfl)
  have h1' : b.run (.staging :: ops) = ⟨cur', top' ++ ⟨true, b.cur⟩ :: b.marks⟩ := by
    simpa [Buf.run, Buf.apply, Buf.staging] using h1
  rw [run_append, h1']
  simp [Buf.run, Buf.apply, Buf.cleanupTop, cutAtStage_floor ⟨true, b.cur⟩ b.marks rfl top' h2]

/-- Releasing a level keeps its writes: the content is untouched; the level's own undo mark goes, the older
marks are as before, and the only marks left above them are checkpoints taken inside the level. -/
theorem release_keeps_writes (b : Buf) (ops : List BOp) (h : Bracketed ops) :
    ∃ cur' top', (∀ m ∈ top', m.isStage = false) ∧
      b.run (.staging :: ops) = ⟨cur', top' ++ ⟨true, b.cur⟩ :: b.marks⟩ ∧
      b.run (.staging :: ops ++ [.release]) = ⟨cur', top' ++ b.marks⟩ := by
  obtain ⟨cur', top', h1, h2⟩ := run_block ⟨true, b.cur⟩ b.marks ops 0 0 b.cur [] rfl h (Or.inl rfl)
  have h1' : b.run (.staging :: ops) = ⟨cur', top' ++ ⟨true, b.cur⟩ :: b.marks⟩ := by
    simpa [Buf.run, Buf.apply, Buf.staging] using h1
  refine ⟨cur', top', (stageCount_zero_iff top').1 h2, h1', ?_⟩
  rw [run_append, h1']
  simp [Buf.run, Buf.apply, Buf.releaseTop, dropFirstStage_floor ⟨true, b.cur⟩ b.marks rfl top' h2]

example : Bracketed [.set [1] [2], .staging, .checkpoint, .del [1], .revert 0, .cleanup, .staging,
    .set [3] [4], .checkpoint, .release, .revert 0] := by decide

/-- Savepoints: reverting to a checkpoint restores exactly the content (hence every view) it was taken in, keeps
the checkpoint itself (it can be used again) and leaves the older marks as they are, after ANY block of
operations that keeps the checkpoint alive: sets, deletes, nested staging levels to any depth (released or
cleaned up), further checkpoints, reverts to this or to newer checkpoints, even releases of `n` staging levels
that are OLDER than the checkpoint (then exactly those `n` marks are missing afterwards).  Excluded are only the
two things that cut the checkpoint out of the value log: a cleanup of an older level and a revert to an older
checkpoint. -/
theorem revert_restores_view (b : Buf) (ops : List BOp) (n : Nat)
    (h : cpBlock 0 0 ops = some (0, n)) (hr : RevertsAtLeast (cpCount b.marks) ops) :
    b.run (.checkpoint :: ops ++ [.revert (cpCount b.marks)]) =
      ⟨b.cur, ⟨false, b.cur⟩ :: dropStages n b.marks⟩ := by
  obtain ⟨cur', top', k, h1, h2, h3⟩ :=
    run_block_cp ⟨false, b.cur⟩ rfl ops 0 0 0 n b.cur [] b.marks rfl h hr
  have hk : k = n := by omega
  subst hk
  have h1' : b.run (.checkpoint :: ops) = ⟨cur', top' ++ ⟨false, b.cur⟩ :: dropStages k b.marks⟩ := by
    simpa [Buf.run, Buf.apply, Buf.checkpoint] using h1
  have hc := cutAtCp_floor ⟨false, b.cur⟩ (dropStages k b.marks) rfl top' h2
  rw [cpCount_dropStages] at hc
  rw [run_append, h1']
  simp [Buf.run, Buf.apply, Buf.revert, hc]

/-- in particular, when the block releases no older level, the whole state right after `Checkpoint()` is back -/
theorem revert_restores_state (b : Buf) (ops : List BOp)
    (h : cpBlock 0 0 ops = some (0, 0)) (hr : RevertsAtLeast (cpCount b.marks) ops) :
    b.run (.checkpoint :: ops ++ [.revert (cpCount b.marks)]) = b.checkpoint.1 :=
  revert_restores_view b ops 0 h hr

example : cpBlock 0 0 [.set [1] [2], .staging, .checkpoint, .set [1] [3], .revert 1, .release, .revert 0, .del [2]]
      = some (0, 0) ∧
    RevertsAtLeast 0 [.set [1] [2], .staging, .checkpoint, .set [1] [3], .revert 1, .release, .revert 0, .del [2]] := by
  decide

/-- a block that releases an older level: `staging; checkpoint; set; release; revert 0` -/
example : cpBlock 0 0 [.set [1] [2], .release, .staging, .del [1], .cleanup] = some (0, 1) ∧
    (Buf.run ⟨[], [⟨true, []⟩]⟩ [.checkpoint, .set [1] [2], .release, .revert 0]) = ⟨[], [⟨false, []⟩]⟩ := by
  decide

/-- without the second hypothesis the statement is false, and rightly so: reverting to an older checkpoint
invalidates the newer one, a later `revert` to its number is refused -/
example : (Buf.run ⟨[], [⟨false, []⟩]⟩ [.checkpoint, .set [1] [2], .revert 0, .revert 1]).marks = [⟨false, []⟩] := by
  decide

/-- `Release(h)` / `Cleanup(h)` with the innermost live handle (`h = len(stages)`) are the `release` / `cleanup` of
the op alphabet (other handles: 0 is ignored, a stale handle panics, a too large one is ignored by `Cleanup`). -/
theorem innermost_handle (b : Buf) :
    b.release b.depth = some b.releaseTop ∧ b.cleanup b.depth = some b.cleanupTop :=
  ⟨release_innermost b, cleanup_innermost b⟩

end CGV.Props.C07
