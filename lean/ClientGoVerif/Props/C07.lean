/-
  C07 — a transaction reads its own writes over its snapshot; savepoint rollback undoes.

  Model: `Model/UnionIter.lean` (UnionIter.updateCur/Next, KVUnionStore.Get/Iter/IterReverse,
  BufferBatchGetter.BatchGet, abstract write buffer); declarative side: `Spec/Overlay.lean`.
  Helper lemmas: `Proofs/UnionIter.lean`.  Core Lean only (no Mathlib in this project).
-/
import ClientGoVerif.Proofs.UnionIter
namespace CGV.Props.C07
open CGV CGV.Overlay CGV.UnionIter

/-- The union iterator itself, for ANY two cursors that are strictly ordered in the direction of the
iteration (whatever produced them): what `for it.Valid() { …; it.Next() }` emits is strictly ordered in
that direction (so no key twice), and consists exactly of the non-tombstone buffer entries plus the snapshot
entries whose key the buffer cursor does not hold (so none skipped, buffer wins on equal keys, tombstones hide
the snapshot record).  Termination of the loop is part of the statement: `iterAll` stops after
`|dirty|+|snapshot|+1` rounds at the latest, and still nothing is missing. -/
theorem union_iter_merges_cursors (rev : Bool) (dirtyIt snapshotIt : List KV)
    (hd : StrictlyOrdered rev dirtyIt) (hs : StrictlyOrdered rev snapshotIt) :
    StrictlyOrdered rev (iterAll rev dirtyIt snapshotIt) ∧
    ∀ x, x ∈ iterAll rev dirtyIt snapshotIt ↔
      (x ∈ dirtyIt ∧ x.2 ≠ []) ∨ (x ∈ snapshotIt ∧ ∀ y ∈ dirtyIt, y.1 ≠ x.1) := by
  rw [iterAll_eq_merge]
  exact ⟨merge_sorted rev _ _ hd hs, merge_mem_iff rev _ _ hd hs⟩

example : StrictlyOrdered true [([2], [9]), ([1], [])] ∧ StrictlyOrdered true [([3], [7]), ([1], [8])] := by decide

/-- `KVUnionStore.Iter` / `IterReverse` over a well formed buffer and snapshot: the emitted sequence IS the
declarative view (sorted key universe, restricted to `[lo, hi)`, each key with its `viewGet` value, tombstones
gone), reversed for reverse iteration; it is strictly ascending / descending, inside the bounds, and a pair is
emitted if and only if the key is in range and has that value in the overlay (nothing repeated, nothing skipped).
Bounds are arbitrary: off existing keys, empty (= unbounded above), `lo > hi` (then the view is empty). -/
theorem union_iter_eq_overlay (snap buf : List KV) (lo hi : Bytes) (rev : Bool)
    (hsnap : IsMap snap) (hbuf : IsMap buf) (hne : NoEmpty snap) :
    storeIter snap buf lo hi rev = viewDir snap buf lo hi rev ∧
    StrictlyOrdered rev (storeIter snap buf lo hi rev) ∧
    (∀ kv ∈ storeIter snap buf lo hi rev, inRange lo hi kv.1 = true) ∧
    (∀ k v, (k, v) ∈ storeIter snap buf lo hi rev ↔ inRange lo hi k = true ∧ viewGet snap buf k = some v) := by
  refine ⟨storeIter_eq_viewDir snap buf lo hi rev hsnap hbuf hne, storeIter_sorted snap buf lo hi rev hsnap hbuf,
    ?_, storeIter_mem_iff snap buf lo hi rev hsnap hbuf hne⟩
  rintro ⟨k, v⟩ h
  exact ((storeIter_mem_iff snap buf lo hi rev hsnap hbuf hne k v).1 h).1

example : IsMap [([1], [5]), ([1, 0], [6]), ([255], [7])] ∧ IsMap [([], [1]), ([1], []), ([1, 0, 0], [2])] ∧
    NoEmpty [([1], [5]), ([1, 0], [6]), ([255], [7])] := by decide

/-- `KVUnionStore.Get`: buffer first, snapshot on a miss, an empty value is "not found" -/
theorem union_get_eq_overlay (snap buf : List KV) (k : Bytes) : unionGet snap buf k = viewGet snap buf k :=
  unionGet_eq_viewGet snap buf k

/-- `BufferBatchGetter.BatchGet` (with the key list for the snapshot computed against the complete buffer
answer): for ANY key list — duplicates included — the result holds exactly the requested keys that have a
value under `Get`, with that value. -/
theorem batch_get_eq_pointwise (snap buf : List KV) (keys : List Bytes) (k : Bytes) :
    lookup (batchGet snap buf keys) k = if k ∈ keys then unionGet snap buf k else none := by
  rw [lookup_batchGet, unionGet_eq_viewGet]

/-- The full statement for the loop AS IT STANDS in batch_getter.go at the pinned commit (`batchGetAsIs`: the
tombstone is removed from `bufferValues` inside the loop).  It is FALSE — see `batch_get_as_is_eq_pointwise_false`;
what holds is `batch_get_as_is_eq_pointwise_partial`. -/
def batch_get_as_is_eq_pointwise : Prop :=
  ∀ (snap buf : List KV) (keys : List Bytes) (k : Bytes),
    lookup (batchGetAsIs snap buf keys) k = if k ∈ keys then unionGet snap buf k else none

/-- with snapshot {01 ↦ aa}, the key deleted in the buffer and the key list [01, 01], the loop as found hands the
snapshot value back (the second occurrence no longer finds the tombstone and goes to the snapshot).  The
differential finds the same on the real code: `sput 01 aa ; del 01 ; pbget 01 01`. -/
theorem batch_get_as_is_eq_pointwise_false : ¬ batch_get_as_is_eq_pointwise := by
  intro h
  exact absurd (h [([1], [0xaa])] [([1], [])] [[1], [1]] [1]) (by decide)

/-- the loop as found is right exactly on key lists without duplicates (there it agrees with the repaired loop) -/
theorem batch_get_as_is_eq_pointwise_partial (snap buf : List KV) (keys : List Bytes) (hnd : keys.Nodup) (k : Bytes) :
    lookup (batchGetAsIs snap buf keys) k = if k ∈ keys then unionGet snap buf k else none := by
  rw [lookup_batchGetAsIs snap buf keys hnd, lookup_batchGet, unionGet_eq_viewGet]

example : ([[1], [1, 0], []] : List Bytes).Nodup := by decide

/-- Read-your-writes in program order.  After ANY sequence of set / delete / staging / release / cleanup on an
empty buffer, `Get`, `Iter`/`IterReverse` and `BatchGet` answer like the snapshot overlaid with the writes that
are still live (`liveWrites`: cleanup drops its level's writes, release keeps them), the latest write of a key
winning, a deletion hiding the snapshot record. -/
theorem txn_view_after_ops (snap : List KV) (ops : List BOp) (hsnap : IsMap snap) (hne : NoEmpty snap) :
    let buf := (Buf.empty.run ops).cur
    (∀ k, unionGet snap buf k = viewGet snap (liveWrites ops) k) ∧
    (∀ lo hi rev, storeIter snap buf lo hi rev = viewDir snap (liveWrites ops) lo hi rev) ∧
    (∀ keys k, lookup (batchGet snap buf keys) k = if k ∈ keys then viewGet snap (liveWrites ops) k else none) := by
  intro buf
  have hl : ∀ k, lookup buf k = lookup (liveWrites ops) k := run_lookup ops
  have hbuf : IsMap buf := (wf_run Buf.empty ops wf_empty).1
  refine ⟨fun k => ?_, fun lo hi rev => ?_, fun keys k => ?_⟩
  · rw [unionGet_eq_viewGet]; exact viewGet_congr snap hl k
  · rw [storeIter_eq_viewDir snap buf lo hi rev hsnap hbuf hne]; exact viewDir_congr snap hl lo hi rev
  · rw [lookup_batchGet, viewGet_congr snap hl k]

example : IsMap [([1], [5]), ([2], [6])] ∧ NoEmpty [([1], [5]), ([2], [6])] := by decide

/-- Discarding a staging level restores exactly the state — content and outer levels, hence every view —
that existed when it was taken, whatever happened inside (nested levels included). -/
theorem cleanup_restores_view (b : Buf) (ops : List BOp) (h : Bracketed ops) :
    b.run (.staging :: ops ++ [.cleanup]) = b := by
  obtain ⟨cur', h1⟩ := staging_block b ops h
  rw [run_append, h1]
  simp [Buf.run, Buf.apply, Buf.cleanupTop]

/-- Releasing a level keeps its writes: the content is untouched, only the undo boundary goes. -/
theorem release_keeps_writes (b : Buf) (ops : List BOp) (h : Bracketed ops) :
    b.run (.staging :: ops ++ [.release]) = ⟨(b.run (.staging :: ops)).cur, b.stages⟩ := by
  obtain ⟨cur', h1⟩ := staging_block b ops h
  rw [run_append, h1]
  simp [Buf.run, Buf.apply, Buf.releaseTop]

example : Bracketed [.set [1] [2], .staging, .del [1], .cleanup, .staging, .set [3] [4], .release] := by decide

/-- `Release(h)` / `Cleanup(h)` with the innermost live handle are the `release` / `cleanup` of the op alphabet
(other handles: 0 is ignored, a stale handle panics, a too large one is ignored by `Cleanup` only). -/
theorem innermost_handle (b : Buf) :
    b.release b.stages.length = some b.releaseTop ∧ b.cleanup b.stages.length = some b.cleanupTop :=
  ⟨release_innermost b, cleanup_innermost b⟩

/-- Savepoints at the abstract level: reverting to a checkpoint restores exactly the state it was taken in,
after any sets and deletes.  NOTE: on the real buffers (ART and RBT) a checkpoint is a position in the value
log, and this is known to FAIL for a same-length overwrite done in place (DESIGN §6 S10:
`Set k aa; cp; Set k bb; Revert cp; Get k = bb`); that is the mechanism level, owned by the C08 check — here the
statement is about the abstract buffer, and the differential exercises `revert` on the real buffers outside
that pattern only. -/
theorem revert_restores_view (b : Buf) (ops : List BOp) (h : WritesOnly ops) :
    (b.run ops).revertTo b.checkpoint = b := by
  have : (b.run ops).stages = b.stages := run_writes_stages b ops h
  simp [Buf.revertTo, Buf.checkpoint, this]

example : WritesOnly [.set [1] [2], .del [1], .set [1] [3]] := by decide

end CGV.Props.C07
