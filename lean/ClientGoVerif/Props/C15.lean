/-
  C15 — keyspace (API v2) codec: transparency (round trip, order and range isomorphism), isolation
  (disjoint keyspaces, clipping of foreign regions), region keys (order, ranges, buckets), the command catalogue,
  the per-field walker lifted over every catalogue row, and transparency / isolation against an abstract shared store.
  All theorems are about `Model/ApiV2*.lean`; the tie to /repo is the differential + the regenerated catalogue.
-/
import ClientGoVerif.Proofs.ApiV2Store
import ClientGoVerif.Generated.CodecCatalogue
namespace CGV.Props.C15
open CGV CGV.Codec CGV.ApiV2 CGV.ApiV2.Lemmas CGV.ApiV2.Cat

/-! ## round trip -/

/-- decoding an encoded key gives the key back, for every keyspace and key -/
theorem decode_encode_key (ks : Keyspace) (k : Bytes) : decodeKey ks (encodeKey ks k) = .ok k := by
  have hne : (ks.pfx ++ k).isEmpty = false := by
    have := pfx_length ks
    cases h : ks.pfx with
    | nil => rw [h] at this; simp at this
    | cons a as => rfl
  simp [decodeKey, encodeKey, hne, isPrefix_append]

/-- decoder soundness: a non-empty input accepted by `decodeKey` is the encoding of the result -/
theorem decode_key_sound (ks : Keyspace) (e k : Bytes) (hne : e ≠ []) (h : decodeKey ks e = .ok k) :
    e = encodeKey ks k := by
  unfold decodeKey at h
  have : e.isEmpty = false := by cases e <;> simp_all
  simp only [this, Bool.false_eq_true, if_false] at h
  split at h
  · rename_i hp
    cases h
    exact isPrefix_eq_append hp
  · cases h

example : decodeKey ⟨.txn, 7⟩ [120, 0, 0, 7, 1] = .ok [1] := by rfl

/-! ## order and range isomorphism -/

/-- logical order = encoded order -/
theorem encode_order_iso (ks : Keyspace) (a b : Bytes) :
    Bytes.cmp (encodeKey ks a) (encodeKey ks b) = Bytes.cmp a b :=
  cmp_append_left ks.pfx a b

/-- forward half-open range with "empty end = unbounded" ↔ plain interval of encoded keys -/
theorem encode_order_iso_range (ks : Keyspace) (hv : ks.valid = true) (k s e : Bytes) :
    inInterval (encodeKey ks k) (encodeRange ks s e false).1 (encodeRange ks s e false).2 = inRange k s e := by
  simp only [encodeRange, encodeRangeFwd, inInterval, inRange, Bytes.le, Bytes.lt, encodeKey]
  cases he : e.isEmpty with
  | true => simp [enc_lt_end ks hv k, cmp_append_left]
  | false => simp [cmp_append_left]

/-- reverse ranges: the request's start is the exclusive upper bound (empty = keyspace end), its end the
    inclusive lower bound (empty = keyspace start); the encoded pair is the forward pair swapped -/
theorem encode_order_iso_reverse (ks : Keyspace) (hv : ks.valid = true) (k s e : Bytes) :
    encodeRange ks s e true = ((encodeRange ks e s false).2, (encodeRange ks e s false).1) ∧
    inInterval (encodeKey ks k) (encodeRange ks s e true).2 (encodeRange ks s e true).1 = inRangeRev k s e := by
  refine ⟨rfl, ?_⟩
  simp only [encodeRange, encodeRangeFwd, inInterval, inRangeRev, Bytes.le, Bytes.lt, encodeKey]
  cases hs : s.isEmpty with
  | true => simp [enc_lt_end ks hv k, cmp_append_left]
  | false => simp [cmp_append_left]

/-- every well-formed API-v2 key (at least `keyspacePrefixLen` bytes) inside an encoded range is a key of this
    keyspace, i.e. a scan over the encoded range can only see this keyspace's data -/
theorem encode_range_within_keyspace (ks : Keyspace) (hv : ks.valid = true) (x s e : Bytes)
    (hx : Gen.keyspacePrefixLen ≤ x.length)
    (h : inInterval x (encodeRange ks s e false).1 (encodeRange ks s e false).2 = true) :
    ∃ k, x = encodeKey ks k ∧ inRange k s e = true := by
  have hx4 : 4 ≤ x.length := hx
  simp only [inInterval, Bool.and_eq_true, Bytes.le, Bytes.lt, bne_iff_ne, beq_iff_eq] at h
  obtain ⟨hlo, hhi⟩ := h
  have hlo' : Bytes.cmp (ks.pfx ++ s) x ≠ .gt := hlo
  have hltE : Bytes.cmp x ks.endKey = .lt := by
    simp only [encodeRange, encodeRangeFwd, Bool.false_eq_true, if_false] at hhi
    cases he : e.isEmpty with
    | true => simpa [he] using hhi
    | false =>
      simp only [he, Bool.false_eq_true, if_false, encodeKey] at hhi
      exact cmp_lt_of_lt_of_le hhi (by rw [enc_lt_end ks hv e]; simp)
  cases hp : Bytes.isPrefix ks.pfx x with
  | true =>
    refine ⟨x.drop ks.pfx.length, isPrefix_eq_append hp, ?_⟩
    have hxe := isPrefix_eq_append hp
    have := encode_order_iso_range ks hv (x.drop ks.pfx.length) s e
    rw [← this, encodeKey, ← hxe]
    simp [inInterval, Bytes.le, Bytes.lt, hlo, hhi]
  | false =>
    exfalso
    have h1 := long_lt_pfx ks hv hx4 hltE hp
    have h2 : Bytes.cmp x (ks.pfx ++ s) = .lt := cmp_lt_of_lt_of_le h1 (pfx_le_enc ks s)
    rw [cmp_swap x (ks.pfx ++ s), h2] at hlo'
    simp [Ordering.swap] at hlo'

example : inInterval [120, 0, 0, 7, 5] (encodeRange ⟨.txn, 7⟩ [1] [] false).1 (encodeRange ⟨.txn, 7⟩ [1] [] false).2 = true := by
  decide

/-- the length hypothesis is needed: with id = …FF the 3-byte string `x 00 01` lies inside `[prefix, endKey)` of
    keyspace 255 although it carries no keyspace prefix (such strings are not valid API-v2 keys) -/
example : inInterval [120, 0, 1] (Keyspace.pfx ⟨.txn, 255⟩) (Keyspace.endKey ⟨.txn, 255⟩) = true
    ∧ Bytes.isPrefix (Keyspace.pfx ⟨.txn, 255⟩) [120, 0, 1] = false := by decide

/-! ## isolation -/

/-- every encoded range lies inside `[prefix, endKey)` of its keyspace (for ALL byte strings `x`) -/
theorem encode_range_within_bounds (ks : Keyspace) (hv : ks.valid = true) (x s e : Bytes) (rev : Bool)
    (h : inInterval x (if rev then (encodeRange ks s e rev).2 else (encodeRange ks s e rev).1)
                      (if rev then (encodeRange ks s e rev).1 else (encodeRange ks s e rev).2) = true) :
    inInterval x ks.pfx ks.endKey = true := by
  have key : ∀ a b : Bytes, inInterval x (encodeRangeFwd ks a b).1 (encodeRangeFwd ks a b).2 = true →
      inInterval x ks.pfx ks.endKey = true := by
    intro a b h
    simp only [inInterval, Bool.and_eq_true, Bytes.le, Bytes.lt, bne_iff_ne, beq_iff_eq, encodeRangeFwd, encodeKey] at h ⊢
    obtain ⟨hlo, hhi⟩ := h
    constructor
    · intro hgt
      have h1 : Bytes.cmp x ks.pfx = .lt := by rw [cmp_swap ks.pfx x, hgt]; rfl
      have h2 := cmp_lt_of_lt_of_le h1 (pfx_le_enc ks a)
      rw [cmp_swap x (ks.pfx ++ a), h2] at hlo
      simp [Ordering.swap] at hlo
    · cases hb : b.isEmpty with
      | true => simpa [hb] using hhi
      | false =>
        simp only [hb, Bool.false_eq_true, if_false] at hhi
        exact cmp_lt_of_lt_of_le hhi (by rw [enc_lt_end ks hv b]; simp)
  cases rev with
  | false => exact key s e (by simpa [encodeRange] using h)
  | true => exact key e s (by simpa [encodeRange] using h)

/-- two different keyspaces (other id or other mode) occupy disjoint intervals: no byte string at all lies in both,
    hence no encoded range of one meets an encoded range of the other, and a key of one is rejected by the other -/
theorem keyspaces_disjoint (a b : Keyspace) (ha : a.valid = true) (hb : b.valid = true) (hne : a ≠ b) :
    (∀ x, ¬ (inInterval x a.pfx a.endKey = true ∧ inInterval x b.pfx b.endKey = true)) ∧
    (∀ (x s e s' e' : Bytes) (rev rev' : Bool),
      ¬ (inInterval x (if rev then (encodeRange a s e rev).2 else (encodeRange a s e rev).1)
                      (if rev then (encodeRange a s e rev).1 else (encodeRange a s e rev).2) = true ∧
         inInterval x (if rev' then (encodeRange b s' e' rev').2 else (encodeRange b s' e' rev').1)
                      (if rev' then (encodeRange b s' e' rev').1 else (encodeRange b s' e' rev').2) = true)) ∧
    (∀ k, decodeKey b (encodeKey a k) = .error .outOfBound) := by
  have sep : ∀ (p q : Keyspace), p.valid = true → p.pfxVal < q.pfxVal → ∀ x,
      ¬ (inInterval x p.pfx p.endKey = true ∧ inInterval x q.pfx q.endKey = true) := by
    intro p q hp hlt x ⟨h1, h2⟩
    simp only [inInterval, Bool.and_eq_true, Bytes.le, Bytes.lt, bne_iff_ne, beq_iff_eq] at h1 h2
    have h3 : Bytes.cmp x q.pfx = .lt := cmp_lt_of_lt_of_le h1.2 (end_le_pfx_of_lt hp hlt)
    have h4 := h2.1
    rw [cmp_swap x q.pfx, h3] at h4
    simp [Ordering.swap] at h4
  have hvne : a.pfxVal ≠ b.pfxVal := fun h => hne (pfxVal_inj ha hb h)
  have disj : ∀ x, ¬ (inInterval x a.pfx a.endKey = true ∧ inInterval x b.pfx b.endKey = true) := by
    intro x h
    rcases Nat.lt_or_gt_of_ne hvne with hlt | hgt
    · exact sep a b ha hlt x h
    · exact sep b a hb hgt x ⟨h.2, h.1⟩
  refine ⟨disj, ?_, ?_⟩
  · intro x s e s' e' rev rev' ⟨h1, h2⟩
    exact disj x ⟨encode_range_within_bounds a ha x s e rev h1, encode_range_within_bounds b hb x s' e' rev' h2⟩
  · intro k
    have hne' : (a.pfx ++ k).isEmpty = false := by
      have := pfx_length a
      cases h : a.pfx with
      | nil => rw [h] at this; simp at this
      | cons c cs => rfl
    cases hp : Bytes.isPrefix b.pfx (encodeKey a k) with
    | false =>
      have hp' : Bytes.isPrefix b.pfx (a.pfx ++ k) = false := hp
      simp [decodeKey, encodeKey, hne', hp']
    | true =>
      exfalso
      have hx := isPrefix_eq_append hp
      apply disj (encodeKey a k)
      constructor
      · simp only [inInterval, Bool.and_eq_true, Bytes.le, Bytes.lt, bne_iff_ne, beq_iff_eq, encodeKey]
        exact ⟨pfx_le_enc a k, enc_lt_end a ha k⟩
      · rw [hx]
        simp only [inInterval, Bool.and_eq_true, Bytes.le, Bytes.lt, bne_iff_ne, beq_iff_eq]
        exact ⟨pfx_le_enc b _, enc_lt_end b hb _⟩

example : (⟨.txn, 7⟩ : Keyspace).valid = true ∧ (⟨.raw, 7⟩ : Keyspace).valid = true ∧ (⟨.txn, 7⟩ : Keyspace) ≠ ⟨.raw, 7⟩ := by
  decide

/-! ## decoding region descriptions: clipping to the keyspace -/

/-- `DecodeRange` on a region: it is rejected exactly when the region lies entirely at or after the keyspace end or
    entirely at or before its start; a rejected region contains no key of the keyspace; an accepted one decodes to
    the intersection (for every logical key `k`: `k ∈ decoded range ↔ encode k ∈ region`).
    Hypothesis: the region start is empty or a well-formed API-v2 key (≥ prefix length) — see the `example` below. -/
theorem decode_range_clips (ks : Keyspace) (hv : ks.valid = true) (rs re : Bytes)
    (hrs : rs = [] ∨ Gen.keyspacePrefixLen ≤ rs.length) :
    (decodeRange ks rs re = .error .outOfBound ↔
        ¬ (Bytes.lt rs ks.endKey = true ∧ (re = [] ∨ Bytes.cmp re ks.pfx = .gt))) ∧
    (decodeRange ks rs re = .error .outOfBound → ∀ k, inRegion (encodeKey ks k) rs re = false) ∧
    (∀ s e, decodeRange ks rs re = .ok (s, e) → ∀ k, inRange k s e = inRegion (encodeKey ks k) rs re) ∧
    (∀ x, decodeRange ks rs re ≠ .error x ∨ x = .outOfBound) := by
  have hacc : (Bytes.cmp rs ks.endKey != .lt || (!re.isEmpty && Bytes.cmp re ks.pfx != .gt)) = false ↔
      (Bytes.lt rs ks.endKey = true ∧ (re = [] ∨ Bytes.cmp re ks.pfx = .gt)) := by
    cases re with
    | nil => simp [Bytes.lt]
    | cons c cs => simp [Bytes.lt]
  refine ⟨?_, ?_, ?_, ?_⟩
  · unfold decodeRange
    cases hc : (Bytes.cmp rs ks.endKey != .lt || (!re.isEmpty && Bytes.cmp re ks.pfx != .gt)) with
    | true =>
      simp only [if_true, true_iff]
      intro h
      have := hacc.mpr h
      rw [hc] at this; cases this
    | false =>
      simp only [Bool.false_eq_true, if_false]
      constructor
      · intro h; cases h
      · intro h; exact absurd (hacc.mp hc) h
  · intro herr k
    unfold decodeRange at herr
    cases hc : (Bytes.cmp rs ks.endKey != .lt || (!re.isEmpty && Bytes.cmp re ks.pfx != .gt)) with
    | false => simp [hc] at herr
    | true =>
      simp only [Bool.or_eq_true, bne_iff_ne, Bool.and_eq_true, Bool.not_eq_true', ne_eq] at hc
      simp only [inRegion, encodeKey, Bytes.le, Bytes.lt]
      rcases hc with h1 | ⟨h2, h3⟩
      · -- region starts at or after the keyspace end
        have : Bytes.cmp (ks.pfx ++ k) rs = .lt := by
          apply cmp_lt_of_lt_of_le (enc_lt_end ks hv k)
          rw [cmp_swap rs ks.endKey]
          cases h : Bytes.cmp rs ks.endKey <;> simp_all [Ordering.swap]
        have : Bytes.cmp rs (ks.pfx ++ k) = .gt := by rw [cmp_swap (ks.pfx ++ k) rs, this]; rfl
        simp [this]
      · -- region ends at or before the keyspace start
        have h4 : Bytes.cmp (ks.pfx ++ k) re ≠ .lt := by
          intro hlt
          have := cmp_lt_of_lt_of_le hlt h3
          have h5 := pfx_le_enc ks k
          rw [cmp_swap (ks.pfx ++ k) ks.pfx, this] at h5
          simp [Ordering.swap] at h5
        simp [h2, h4]
  · intro s e hok k
    unfold decodeRange at hok
    cases hc : (Bytes.cmp rs ks.endKey != .lt || (!re.isEmpty && Bytes.cmp re ks.pfx != .gt)) with
    | true => simp [hc] at hok
    | false =>
      simp only [hc, Bool.false_eq_true, if_false, Except.ok.injEq, Prod.mk.injEq] at hok
      obtain ⟨hs, he⟩ := hok
      obtain ⟨hlt, hre⟩ := hacc.mp hc
      simp only [Bytes.lt, beq_iff_eq] at hlt
      -- start side
      have hstart : Bytes.le s k = Bytes.le rs (encodeKey ks k) := by
        cases hp : Bytes.isPrefix ks.pfx rs with
        | true =>
          have hx := isPrefix_eq_append hp
          simp only [hp, if_true] at hs
          rw [← hs]
          conv => rhs; rw [hx]
          simp [Bytes.le, encodeKey, cmp_append_left]
        | false =>
          simp only [hp, Bool.false_eq_true, if_false] at hs
          rw [← hs]
          have hlow : Bytes.cmp rs ks.pfx = .lt := by
            rcases hrs with h0 | h4
            · subst h0
              have := pfx_length ks
              cases h : ks.pfx with
              | nil => rw [h] at this; simp at this
              | cons c cs => rfl
            · exact long_lt_pfx ks hv h4 hlt hp
          have : Bytes.cmp rs (ks.pfx ++ k) = .lt := by rw [cmp_append_of_not_prefix k hp]; exact hlow
          simp only [Bytes.le, encodeKey, this]
          cases k <;> rfl
      -- end side
      have hend : (e.isEmpty || Bytes.lt k e) = (re.isEmpty || Bytes.lt (encodeKey ks k) re) := by
        cases hp : Bytes.isPrefix ks.pfx re with
        | true =>
          have hx := isPrefix_eq_append hp
          simp only [hp, if_true] at he
          rw [← he]
          rcases hre with h0 | hgt
          · subst h0; simp
          · have hne : (re.drop ks.pfx.length).isEmpty = false := by
              cases hd : re.drop ks.pfx.length with
              | nil =>
                rw [hd, List.append_nil] at hx
                rw [hx, cmp_refl] at hgt; cases hgt
              | cons c cs => rfl
            have hne' : re.isEmpty = false := by
              cases re with
              | nil => cases h : ks.pfx <;> rw [h] at hgt <;> simp [Bytes.cmp] at hgt
              | cons c cs => rfl
            rw [hne, hne']
            conv => rhs; rw [hx]
            simp [Bytes.lt, encodeKey, cmp_append_left]
        | false =>
          simp only [hp, Bool.false_eq_true, if_false] at he
          rw [← he]
          rcases hre with h0 | hgt
          · subst h0; rfl
          · have : Bytes.cmp (ks.pfx ++ k) re = .lt := by
              rw [cmp_swap re (ks.pfx ++ k), cmp_append_of_not_prefix k hp, hgt]; rfl
            simp [Bytes.lt, encodeKey, this]
      simp only [inRange, inRegion, hstart, hend]
  · intro x
    cases x with
    | outOfBound => right; rfl
    | decode =>
      left
      unfold decodeRange
      split <;> intro h <;> cases h

example : (⟨.txn, 7⟩ : Keyspace).valid = true ∧ ([120, 0, 0, 6, 9] = ([] : Bytes) ∨ Gen.keyspacePrefixLen ≤ [120, 0, 0, 6, (9 : UInt8)].length) := by
  decide

/-- why the hypothesis on the region start is needed — and a behaviour of the real `DecodeRange` that the
    differential reproduces: for keyspace id 255 (prefix `x 00 00 FF`, end `x 00 01 00`) a region starting at the
    3-byte string `x 00 01` contains no key of the keyspace, yet it is accepted and decodes to the whole keyspace -/
example : decodeRange ⟨.txn, 255⟩ [120, 0, 1] [] = .ok ([], [])
    ∧ inRegion (encodeKey ⟨.txn, 255⟩ [5]) [120, 0, 1] [] = false ∧ inRange [5] [] [] = true := by
  refine ⟨by rfl, by decide, by decide⟩

/-! ## region keys (towards PD): memcomparable(prefix ++ key) -/

/-- region keys and region ranges round-trip; an unbounded logical end comes back unbounded -/
theorem region_key_roundtrip (ks : Keyspace) (hv : ks.valid = true) (k s e : Bytes) :
    decodeRegionKey ks (encodeRegionKey ks k) = .ok k ∧
    decodeRegionRange ks (encodeRegionRange ks s e).1 (encodeRegionRange ks s e).2 = .ok (s, e) := by
  constructor
  · simp [decodeRegionKey, encodeRegionKey, memDecode, decode_encode_bytes_nil, decode_encode_key]
  · have hne1 : (encodeBytes (encodeKey ks s)).isEmpty = false := by
      cases h : encodeBytes (encodeKey ks s) with
      | nil => exact absurd h (encodeBytes_ne_nil _)
      | cons c cs => rfl
    have hne2 : ∀ x, (encodeBytes x).isEmpty = false := by
      intro x
      cases h : encodeBytes x with
      | nil => exact absurd h (encodeBytes_ne_nil _)
      | cons c cs => rfl
    simp only [encodeRegionRange, encodeRangeFwd, decodeRegionRange, hne2, Bool.false_eq_true, if_false, memDecode,
      decode_encode_bytes_nil]
    have hpre : Bytes.isPrefix ks.pfx (encodeKey ks s) = true := isPrefix_append _ _
    have hdrop : ∀ x, (encodeKey ks x).drop ks.pfx.length = x := by intro x; simp [encodeKey]
    cases he : e.isEmpty with
    | true =>
      have he' : e = [] := by cases e <;> simp_all
      subst he'
      have h1 : Bytes.cmp (encodeKey ks s) ks.endKey = .lt := enc_lt_end ks hv s
      have h2 : Bytes.cmp ks.endKey ks.pfx = .gt := by rw [cmp_swap ks.pfx ks.endKey, cmp_pfx_end ks hv]; rfl
      have h3 : ks.endKey.isEmpty = false := by
        have := endKey_length ks
        cases h : ks.endKey with
        | nil => rw [h] at this; simp at this
        | cons c cs => rfl
      simp [decodeRange, h1, h2, h3, hpre, hdrop, not_prefix_end ks hv]
    | false =>
      have h1 : Bytes.cmp (encodeKey ks s) ks.endKey = .lt := enc_lt_end ks hv s
      have h2 : Bytes.cmp (encodeKey ks e) ks.pfx = .gt := by
        have := cmp_append_left ks.pfx e []
        simp only [List.append_nil] at this
        rw [encodeKey, this]
        cases e with
        | nil => simp at he
        | cons c cs => rfl
      have h3 : (encodeKey ks e).isEmpty = false := by
        cases e with
        | nil => simp at he
        | cons c cs => simp [encodeKey]
      simp only [encodeKey] at h1 h2 h3 hpre hdrop
      simp [decodeRange, h1, h2, h3, hpre, hdrop, isPrefix_append, encodeKey]

/-! ## region keys: order, ranges, the keyspace end as the next keyspace's prefix -/

/-- region keys (memcomparable(prefix ++ key)) preserve the logical order, three-way, for every keyspace -/
theorem region_key_order_iso (ks : Keyspace) (a b : Bytes) :
    Bytes.cmp (encodeRegionKey ks a) (encodeRegionKey ks b) = Bytes.cmp a b := by
  simp only [encodeRegionKey, encodeBytes_cmp, encodeKey]
  exact cmp_append_left ks.pfx a b

/-- `k1 < k2 ↔ encodeRegionKey k1 < encodeRegionKey k2` (and the same for `≤`) -/
theorem region_key_lt_iff (ks : Keyspace) (a b : Bytes) :
    (Bytes.lt (encodeRegionKey ks a) (encodeRegionKey ks b) = true ↔ Bytes.lt a b = true) ∧
    (Bytes.le (encodeRegionKey ks a) (encodeRegionKey ks b) = true ↔ Bytes.le a b = true) := by
  simp [Bytes.lt, Bytes.le, region_key_order_iso]

/-- logical range (empty end = unbounded) ↔ plain interval of region keys, towards PD; the unbounded end becomes
    the region key of the keyspace end -/
theorem region_range_iso (ks : Keyspace) (hv : ks.valid = true) (k s e : Bytes) :
    inInterval (encodeRegionKey ks k) (encodeRegionRange ks s e).1 (encodeRegionRange ks s e).2 = inRange k s e := by
  have h := encode_order_iso_range ks hv k s e
  rw [← h]
  simp only [encodeRegionRange, encodeRange, encodeRegionKey, inInterval, Bytes.le, Bytes.lt, encodeBytes_cmp,
    Bool.false_eq_true, if_false]

/-- containment the other way: a (well-formed) key whose region key lies inside the encoded region range is a key
    of this keyspace inside the logical range -/
theorem region_range_within_keyspace (ks : Keyspace) (hv : ks.valid = true) (y s e : Bytes)
    (hy : Gen.keyspacePrefixLen ≤ y.length)
    (h : inInterval (encodeBytes y) (encodeRegionRange ks s e).1 (encodeRegionRange ks s e).2 = true) :
    ∃ k, y = encodeKey ks k ∧ inRange k s e = true := by
  apply encode_range_within_keyspace ks hv y s e hy
  rw [← h]
  simp only [encodeRegionRange, encodeRange, inInterval, Bytes.le, Bytes.lt, encodeBytes_cmp, Bool.false_eq_true,
    if_false]

/-- the end of a keyspace IS the prefix of the next keyspace id (same mode): an unbounded logical end is sent as
    the next keyspace's first possible key, plain and in region form -/
theorem keyspace_end_is_next_prefix (ks : Keyspace) (h : ks.id < Gen.maxKeyspaceID) (s : Bytes) :
    ks.endKey = (Keyspace.mk ks.mode (ks.id + 1)).pfx ∧
    (encodeRange ks s [] false).2 = encodeKey (Keyspace.mk ks.mode (ks.id + 1)) [] ∧
    (encodeRegionRange ks s []).2 = encodeRegionKey (Keyspace.mk ks.mode (ks.id + 1)) [] := by
  have h1 := endKey_eq_next_pfx ks h
  refine ⟨h1, ?_, ?_⟩
  · simp [encodeRange, encodeRangeFwd, encodeKey, h1]
  · simp [encodeRegionRange, encodeRangeFwd, encodeRegionKey, encodeKey, h1]

example : (⟨.txn, 255⟩ : Keyspace).id < Gen.maxKeyspaceID := by decide

/-- the last keyspace id: its end is the first byte string of the next mode byte, which no keyspace of either
    mode contains (covered by `keyspaces_disjoint`); here: it is not a key of the keyspace and above all of them -/
theorem keyspace_end_above_all_keys (ks : Keyspace) (hv : ks.valid = true) (k : Bytes) :
    Bytes.lt (encodeKey ks k) ks.endKey = true ∧ Bytes.lt (encodeRegionKey ks k) (encodeBytes ks.endKey) = true ∧
    Bytes.isPrefix ks.pfx ks.endKey = false := by
  refine ⟨?_, ?_, not_prefix_end ks hv⟩
  · simp [Bytes.lt, encodeKey, enc_lt_end ks hv k]
  · simp [Bytes.lt, encodeRegionKey, encodeBytes_cmp, encodeKey, enc_lt_end ks hv k]

/-- region-key intervals of different keyspaces are disjoint as well (what PD's region tree sees) -/
theorem region_keyspaces_disjoint (a b : Keyspace) (ha : a.valid = true) (hb : b.valid = true) (hne : a ≠ b) (x : Bytes) :
    ¬ (inInterval x (encodeBytes a.pfx) (encodeBytes a.endKey) = true ∧
       inInterval x (encodeBytes b.pfx) (encodeBytes b.endKey) = true) := by
  have sep : ∀ (p q : Keyspace), p.valid = true → p.pfxVal < q.pfxVal →
      ¬ (inInterval x (encodeBytes p.pfx) (encodeBytes p.endKey) = true ∧
         inInterval x (encodeBytes q.pfx) (encodeBytes q.endKey) = true) := by
    intro p q hp hlt ⟨h1, h2⟩
    simp only [inInterval, Bool.and_eq_true, Bytes.le, Bytes.lt, bne_iff_ne, beq_iff_eq] at h1 h2
    have hle : Bytes.cmp (encodeBytes p.endKey) (encodeBytes q.pfx) ≠ .gt := by
      rw [encodeBytes_cmp]; exact end_le_pfx_of_lt hp hlt
    have h3 : Bytes.cmp x (encodeBytes q.pfx) = .lt := cmp_lt_of_lt_of_le h1.2 hle
    have h4 := h2.1
    rw [cmp_swap x (encodeBytes q.pfx), h3] at h4
    simp [Ordering.swap] at h4
  have hvne : a.pfxVal ≠ b.pfxVal := fun h => hne (pfxVal_inj ha hb h)
  rcases Nat.lt_or_gt_of_ne hvne with hlt | hgt
  · exact sep a b ha hlt
  · intro h; exact sep b a hb hgt ⟨h.2, h.1⟩

/-! ## range mapping at full strength -/

/-- among well-formed keys, `[prefix, endKey)` is EXACTLY the keyspace: nothing foreign inside, nothing own outside -/
theorem keyspace_interval_exact (ks : Keyspace) (hv : ks.valid = true) (x : Bytes) (hx : Gen.keyspacePrefixLen ≤ x.length) :
    inInterval x ks.pfx ks.endKey = true ↔ ∃ k, x = encodeKey ks k := by
  rw [Lemmas.keyspace_interval_exact ks hv x hx]
  constructor
  · intro hp; exact ⟨_, isPrefix_eq_append hp⟩
  · rintro ⟨k, rfl⟩; exact isPrefix_append _ _

/-- `encodeRange` with an empty end: the encoded end is the keyspace end, forward and (empty start) reverse, and the
    resulting interval is the whole rest of the keyspace from `s` on — no key of the keyspace ≥ s is missed -/
theorem encode_range_empty_end (ks : Keyspace) (hv : ks.valid = true) (s : Bytes) :
    (encodeRange ks s [] false).2 = ks.endKey ∧ (encodeRange ks [] s true).1 = ks.endKey ∧
    (∀ k, inInterval (encodeKey ks k) (encodeRange ks s [] false).1 (encodeRange ks s [] false).2 = Bytes.le s k) := by
  refine ⟨rfl, rfl, ?_⟩
  intro k
  rw [encode_order_iso_range ks hv k s []]
  simp [inRange]

/-- what `decodeRange` returns when it accepts, bound by bound: a region start at or before the keyspace start is
    clamped to "from the beginning" (`[]`), one inside is stripped; a region end that is unbounded or at/after the
    keyspace end is clamped to "unbounded" (`[]`), one inside is stripped (and is never empty) -/
theorem decode_range_clamps (ks : Keyspace) (hv : ks.valid = true) (rs re s e : Bytes)
    (h : decodeRange ks rs re = .ok (s, e)) :
    (Bytes.le rs ks.pfx = true → s = []) ∧
    (Bytes.lt ks.pfx rs = true → Gen.keyspacePrefixLen ≤ rs.length → rs = encodeKey ks s ∧ s ≠ []) ∧
    ((re = [] ∨ Bytes.le ks.endKey re = true) → e = []) ∧
    (Bytes.lt re ks.endKey = true → Gen.keyspacePrefixLen ≤ re.length → re ≠ [] → re = encodeKey ks e ∧ e ≠ []) := by
  unfold decodeRange at h
  split at h
  · cases h
  · rename_i hc
    simp only [Bool.or_eq_true, bne_iff_ne, Bool.and_eq_true, Bool.not_eq_true', ne_eq, not_or, Decidable.not_not,
      not_and] at hc
    obtain ⟨hltE, hre⟩ := hc
    simp only [Except.ok.injEq, Prod.mk.injEq] at h
    obtain ⟨hs, he⟩ := h
    refine ⟨?_, ?_, ?_, ?_⟩
    · intro hle
      cases hp : Bytes.isPrefix ks.pfx rs with
      | false => simpa [hp] using hs.symm
      | true =>
        have hx := isPrefix_eq_append hp
        simp only [hp, if_true] at hs
        -- rs = pfx ++ s and rs ≤ pfx force s = []
        rw [hx] at hle
        have := cmp_append_left ks.pfx (rs.drop ks.pfx.length) []
        simp only [List.append_nil] at this
        simp only [Bytes.le, this, bne_iff_ne] at hle
        rw [← hs]
        cases hd : rs.drop ks.pfx.length with
        | nil => rfl
        | cons c cs => rw [hd] at hle; simp [Bytes.cmp] at hle
    · intro hlt hlen
      have hp : Bytes.isPrefix ks.pfx rs = true := by
        cases hp : Bytes.isPrefix ks.pfx rs with
        | true => rfl
        | false =>
          exfalso
          have := long_lt_pfx ks hv hlen hltE hp
          simp only [Bytes.lt, beq_iff_eq] at hlt
          rw [cmp_swap rs ks.pfx, this] at hlt
          simp [Ordering.swap] at hlt
      have hx := isPrefix_eq_append hp
      simp only [hp, if_true] at hs
      refine ⟨by rw [← hs]; exact hx, ?_⟩
      intro hnil
      rw [← hs] at hnil
      rw [hnil, List.append_nil] at hx
      simp only [Bytes.lt, beq_iff_eq] at hlt
      rw [hx, cmp_refl] at hlt
      cases hlt
    · intro hcase
      cases hp : Bytes.isPrefix ks.pfx re with
      | false => simpa [hp] using he.symm
      | true =>
        exfalso
        have hx := isPrefix_eq_append hp
        rcases hcase with h0 | hge
        · subst h0
          have := Cat.isPrefix_nil_false ks
          rw [this] at hp; cases hp
        · have hlt := enc_lt_end ks hv (re.drop ks.pfx.length)
          rw [← hx] at hlt
          simp only [Bytes.le, bne_iff_ne] at hge
          rw [cmp_swap re ks.endKey, hlt] at hge
          simp [Ordering.swap] at hge
    · intro hlt hlen hne
      have hne' : re.isEmpty = false := Cat.isEmpty_false_of_ne hne
      have hgt := hre hne'
      have hp : Bytes.isPrefix ks.pfx re = true := by
        cases hp : Bytes.isPrefix ks.pfx re with
        | true => rfl
        | false =>
          exfalso
          simp only [Bytes.lt, beq_iff_eq] at hlt
          have := long_lt_pfx ks hv hlen hlt hp
          rw [this] at hgt
          cases hgt
      have hx := isPrefix_eq_append hp
      simp only [hp, if_true] at he
      refine ⟨by rw [← he]; exact hx, ?_⟩
      intro hnil
      rw [← he] at hnil
      rw [hnil, List.append_nil] at hx
      rw [hx, cmp_refl] at hgt
      cases hgt

example : decodeRange ⟨.txn, 7⟩ [120, 0, 0, 6, 9] [120, 0, 0, 7, 5] = .ok ([], [5]) := by rfl

/-- the same clipping one level up, for regions as PD / TiKV report them (memcomparable bounds, empty = unbounded):
    `DecodeRegionRange` accepts / rejects like `DecodeRange` on the decoded bounds and, when it accepts, the decoded
    logical range is exactly the set of keys of this keyspace whose REGION KEY lies in the reported region -/
theorem decode_region_range_clips (ks : Keyspace) (hv : ks.valid = true) (rs re : Bytes)
    (hrs : rs = [] ∨ Gen.keyspacePrefixLen ≤ rs.length) :
    decodeRegionRange ks (encRegionBound rs) (encRegionBound re) = decodeRange ks rs re ∧
    (decodeRegionRange ks (encRegionBound rs) (encRegionBound re) = .error .outOfBound →
        ∀ k, inRegion (encodeRegionKey ks k) (encRegionBound rs) (encRegionBound re) = false) ∧
    (∀ s e, decodeRegionRange ks (encRegionBound rs) (encRegionBound re) = .ok (s, e) →
        ∀ k, inRange k s e = inRegion (encodeRegionKey ks k) (encRegionBound rs) (encRegionBound re)) := by
  have hc := Cat.decodeRegionRange_canonical ks rs re
  obtain ⟨_, h2, h3, _⟩ := decode_range_clips ks hv rs re hrs
  refine ⟨hc, ?_, ?_⟩
  · intro herr k
    rw [hc] at herr
    simpa [encodeRegionKey, Cat.inRegion_canonical] using h2 herr k
  · intro s e hok k
    rw [hc] at hok
    simpa [encodeRegionKey, Cat.inRegion_canonical] using h3 s e hok k

/-- the unrestricted form of `decode_range_clips` (no hypothesis on the region start) — FALSE, see below -/
def decode_range_clips_full : Prop :=
  ∀ (ks : Keyspace), ks.valid = true → ∀ rs re s e, decodeRange ks rs re = .ok (s, e) →
    ∀ k, inRange k s e = inRegion (encodeKey ks k) rs re

/-- the hypothesis of `decode_range_clips` cannot be dropped: the model (and, by the `decrange` differential, the Go
    code) accepts the region `[x 00 01, +∞)` for keyspace 255 and decodes it to the whole keyspace although the
    region contains none of its keys.  Such a start is shorter than `keyspacePrefixLen`, i.e. not an API-v2 key. -/
theorem decode_range_clips_full_refuted : ¬ decode_range_clips_full := by
  intro h
  have := h ⟨.txn, 255⟩ (by decide) [120, 0, 1] [] [] [] (by rfl) [5]
  revert this
  decide

/-- non-vacuity of the `valid` hypothesis used throughout (largest id, both modes) -/
example : (⟨.raw, 16777215⟩ : Keyspace).valid = true ∧ (⟨.txn, 0⟩ : Keyspace).valid = true := by decide

/-! ## the catalogue (regenerated from the observed behaviour of /repo on every run) -/

/-- exception-free statement: every command row and every key-bearing field row satisfies the rule.
    It is the statement proved by `all_key_fields_encoded` exactly when no row is marked `known`. -/
def all_key_fields_encoded_full : Prop :=
  (Gen.cmdRows.all CmdRow.ok && Gen.fieldRows.all FieldRow.ok) = true

/-- every `tikvrpc.CmdType` of the enum is identified, can have its context attached, yields a readable region-error
    response of the matching type and survives batch conversion (each where required by the rule), and every
    key-bearing field of every request / response is prefixed by `EncodeRequest` (caller's message left intact, empty
    range end = keyspace end) / stripped by `DecodeResponse` — except exactly the rows that checks/c15.py matched
    against a `known` entry of known_findings.json (each printed as KNOWN-FINDING and listed in the evidence). -/
theorem all_key_fields_encoded :
    (Gen.cmdRows.all fun c => c.ok || c.known) = true ∧ (Gen.fieldRows.all fun r => r.ok || r.known) = true := by
  constructor <;> decide +kernel

/-- a row is only ever waived while it really violates the rule (a stale known-finding entry breaks the build) -/
theorem known_rows_violate_rule :
    (Gen.cmdRows.all fun c => !(c.known && c.ok)) = true ∧ (Gen.fieldRows.all fun r => !(r.known && r.ok)) = true := by
  constructor <;> decide +kernel

/-- non-vacuity: the table has commands, request rows and response rows, plain and region-format ones -/
example : Gen.cmdRows.length ≥ 40 ∧ (Gen.fieldRows.any fun r => r.side == .req && r.ok) = true
    ∧ (Gen.fieldRows.any fun r => r.side == .resp && r.fmt == .region && r.ok) = true
    ∧ (Gen.fieldRows.any fun r => r.side == .resp && r.fmt == .plain && r.ok) = true := by
  refine ⟨by decide +kernel, by decide +kernel, by decide +kernel, by decide +kernel⟩

/-! ## every catalogue row, every key, every keyspace: transparency and isolation through the field walker

  `FieldRow.action` (Model/ApiV2Fields.lean) is the codec's action on one key in a field, determined by the row's
  OBSERVED classification.  The lemmas of Proofs/ApiV2Fields.lean hold for any row satisfying the rule; here they
  are lifted over the regenerated table: a row that is in the catalogue and is not a known finding satisfies the
  rule (`all_key_fields_encoded`), hence the statements hold for it for ALL keys and ALL keyspace ids. -/

theorem catalogue_row_ok {r : FieldRow} (hm : r ∈ Gen.fieldRows) (hk : r.known = false) : r.ok = true := by
  have h := (List.all_eq_true.mp all_key_fields_encoded.2) r hm
  simpa [hk] using h

/-- transparency: a key (or list of keys) sent through ANY request field of the catalogue and echoed back through
    ANY plain response field (pairs, lock infos, key errors, …) reaches the caller unchanged — decode ∘ encode = id
    on user keys, for every keyspace and every non-empty key -/
theorem catalogue_fields_roundtrip (rq rp : FieldRow) (hq : rq ∈ Gen.fieldRows) (hp : rp ∈ Gen.fieldRows)
    (hqs : rq.side = .req) (hqk : rq.known = false) (hps : rp.side = .resp) (hpf : rp.fmt = .plain)
    (hpk : rp.known = false) (ks : Keyspace) :
    (∀ k, k ≠ [] → echo ks ks rq rp k = .ok k) ∧
    (∀ l : List Bytes, (∀ k ∈ l, k ≠ []) → echoAll ks ks rq rp l = .ok l) :=
  ⟨fun _ hk => echo_same hqs (catalogue_row_ok hq hqk) hps hpf (catalogue_row_ok hp hpk) ks hk,
   fun l hl => echoAll_same hqs (catalogue_row_ok hq hqk) hps hpf (catalogue_row_ok hp hpk) ks l hl⟩

/-- isolation: a key written through any request field by a client of keyspace `a` is REJECTED (`errKeyOutOfBound`)
    by every plain response field of a client of a different keyspace or mode `b` — never delivered, for all ids
    `0 … 2^24-1`; and whatever a response field does deliver is a key that carried exactly this keyspace's prefix -/
theorem catalogue_fields_isolated (rq rp : FieldRow) (hq : rq ∈ Gen.fieldRows) (hp : rp ∈ Gen.fieldRows)
    (hqs : rq.side = .req) (hqk : rq.known = false) (hps : rp.side = .resp) (hpf : rp.fmt = .plain)
    (hpk : rp.known = false) (a b : Keyspace) (ha : a.valid = true) (hb : b.valid = true) (hne : a ≠ b) :
    (∀ k, k ≠ [] → echo a b rq rp k = .error .outOfBound) ∧
    (∀ l : List Bytes, (∀ k ∈ l, k ≠ []) → l ≠ [] → echoAll a b rq rp l = .error .outOfBound) ∧
    (∀ x k, x ≠ [] → rp.action b x = .ok k → x = encodeKey b k ∧ x ≠ encodeKey a k) := by
  have hqo := catalogue_row_ok hq hqk
  have hpo := catalogue_row_ok hp hpk
  refine ⟨fun _ hk => echo_foreign hqs hqo hps hpf hpo ha hb hne hk,
          fun l hl hn => echoAll_foreign hqs hqo hps hpf hpo ha hb hne l hl hn, ?_⟩
  intro x k hx h
  have h1 := resp_action_sound hps hpf hpo b hx h
  exact ⟨h1, by rw [h1]; exact fun h2 => encodeKey_ne_foreign ha hb hne k k h2.symm⟩

/-- what any catalogue request field puts on the wire: the prefixed key for a non-empty key; for an empty key the
    keyspace end (range end), the keyspace prefix (range start — never the global start), the prefix or "unset"
    (plain key); in every case a non-empty wire value lies inside `[prefix, endKey]` of the client's keyspace -/
theorem catalogue_request_fields_bounded (rq : FieldRow) (hq : rq ∈ Gen.fieldRows) (hqs : rq.side = .req)
    (hqk : rq.known = false) (ks : Keyspace) (hv : ks.valid = true) :
    (∀ k, k ≠ [] → rq.action ks k = .ok (encodeKey ks k)) ∧
    (rq.role = .end_ → rq.action ks [] = .ok ks.endKey) ∧
    (rq.role = .start → rq.action ks [] = .ok ks.pfx) ∧
    (rq.role = .key → rq.action ks [] = .ok ks.pfx ∨ rq.action ks [] = .ok []) ∧
    (∀ k w, rq.action ks k = .ok w → w ≠ [] →
      Bytes.le ks.pfx w = true ∧ Bytes.le w ks.endKey = true ∧ (k ≠ [] → Bytes.lt w ks.endKey = true)) := by
  have hqo := catalogue_row_ok hq hqk
  obtain ⟨h1, h2, h3⟩ := req_action_empty hqs hqo ks
  exact ⟨fun _ hk => req_action_nonempty hqs hqo ks hk, h1, h2, h3,
         fun k w h hw => req_action_within_bounds hqs hqo ks hv k w h hw⟩

/-- region descriptions (region errors, split results, bucket keys): every catalogue field in region format returns
    the user's bound / bucket key for a region bound of this keyspace, and a bound it delivers non-empty always was (the memcomparable form
    of) a key of THIS keyspace — a foreign bound is clipped to "unbounded" or the region rejected -/
theorem catalogue_region_fields (rp : FieldRow) (hp : rp ∈ Gen.fieldRows) (hps : rp.side = .resp)
    (hpf : rp.fmt = .region) (hpk : rp.known = false) (ks : Keyspace) (hv : ks.valid = true) :
    (rp.role = .start → ∀ k, rp.action ks (encodeRegionKey ks k) = .ok k) ∧
    (rp.role = .end_ → ∀ k, k ≠ [] → rp.action ks (encodeRegionKey ks k) = .ok k) ∧
    (rp.role = .key → ∀ k, rp.action ks (encodeRegionKey ks k) = .ok k) ∧
    (∀ x k, rp.action ks x = .ok k → k ≠ [] → memDecode x = .ok (encodeKey ks k)) := by
  have hpo := catalogue_row_ok hp hpk
  exact ⟨fun hr k => resp_region_start hps hpf hpo hr ks hv k,
         fun hr k hk => resp_region_end hps hpf hpo hr ks k hk,
         fun hr k => resp_region_key hps hpf hpo hr ks k,
         fun x k h hk => resp_region_sound hps hpf hpo ks h hk⟩

/-- non-vacuity of the lifted theorems: the table contains unwaived request rows of each role, plain response rows
    and region-format response rows of both roles -/
example :
    (Gen.fieldRows.any fun r => r.side == .req && !r.known && r.role == .key) = true ∧
    (Gen.fieldRows.any fun r => r.side == .req && !r.known && r.role == .start) = true ∧
    (Gen.fieldRows.any fun r => r.side == .req && !r.known && r.role == .end_) = true ∧
    (Gen.fieldRows.any fun r => r.side == .resp && !r.known && r.fmt == .plain) = true ∧
    (Gen.fieldRows.any fun r => r.side == .resp && !r.known && r.fmt == .region && r.role == .start) = true ∧
    (Gen.fieldRows.any fun r => r.side == .resp && !r.known && r.fmt == .region && r.role == .end_) = true := by
  refine ⟨by decide +kernel, by decide +kernel, by decide +kernel, by decide +kernel, by decide +kernel, by decide +kernel⟩

/-! ## end to end against an abstract shared store: the keyspace client behaves like the unprefixed client on its
    own view and cannot touch another keyspace's view -/

/-- Put / Delete: the client's own view changes exactly like the logical map (Get is `view` itself) -/
theorem keyspace_point_ops_transparent (ks : Keyspace) (σ : KvMap) (k v : Bytes) :
    view ks (ksPut ks σ k v) = (view ks σ).put k v ∧ view ks (ksDelete ks σ k) = (view ks σ).del k := by
  constructor <;> funext y <;> simp only [view, ksPut, ksDelete, KvMap.put, KvMap.del]
  · by_cases h : y = k
    · simp [h]
    · have : encodeKey ks y ≠ encodeKey ks k := fun he => h (encodeKey_inj ks he)
      simp [h, this]
  · by_cases h : y = k
    · simp [h]
    · have : encodeKey ks y ≠ encodeKey ks k := fun he => h (encodeKey_inj ks he)
      simp [h, this]

/-- DeleteRange `[s, e)` (empty `e` = unbounded) through the codec deletes exactly the logical range from the
    client's own view -/
theorem keyspace_delete_range_transparent (ks : Keyspace) (hv : ks.valid = true) (σ : KvMap) (s e : Bytes) :
    view ks (ksDeleteRange ks σ s e) = (view ks σ).delRange s e := by
  funext k
  simp only [view, ksDeleteRange, KvMap.delInterval, KvMap.delRange, encode_order_iso_range ks hv k s e]

/-- no operation of a client of keyspace `a` — point write, delete, bounded or UNBOUNDED range delete — changes
    anything a client of another keyspace or mode `b` can observe -/
theorem keyspace_ops_isolated (a b : Keyspace) (ha : a.valid = true) (hb : b.valid = true) (hne : a ≠ b)
    (σ : KvMap) (k v s e : Bytes) :
    view b (ksPut a σ k v) = view b σ ∧ view b (ksDelete a σ k) = view b σ ∧
    view b (ksDeleteRange a σ s e) = view b σ := by
  refine ⟨?_, ?_, ?_⟩ <;> funext y <;> simp only [view, ksPut, ksDelete, ksDeleteRange, KvMap.put, KvMap.del, KvMap.delInterval]
  · simp [encodeKey_ne_foreign hb ha (Ne.symm hne) y k]
  · simp [encodeKey_ne_foreign hb ha (Ne.symm hne) y k]
  · have hno : inInterval (encodeKey b y) (encodeRange a s e false).1 (encodeRange a s e false).2 = false := by
      cases hi : inInterval (encodeKey b y) (encodeRange a s e false).1 (encodeRange a s e false).2 with
      | false => rfl
      | true =>
        exfalso
        have h1 := encode_range_within_bounds a ha (encodeKey b y) s e false (by simpa using hi)
        have h2 : inInterval (encodeKey b y) b.pfx b.endKey = true := by
          simp only [inInterval, Bool.and_eq_true, Bytes.le, Bytes.lt, bne_iff_ne, beq_iff_eq, encodeKey]
          exact ⟨pfx_le_enc b y, enc_lt_end b hb y⟩
        exact (keyspaces_disjoint a b ha hb hne).1 _ ⟨h1, h2⟩
    simp [hno]

/-- Scan: over a store holding only well-formed keys, the physical entries inside the encoded range are exactly
    the prefixed images of the logical entries inside the logical range — nothing foreign is returned, nothing own
    is missed; each returned key decodes to its logical key -/
theorem keyspace_scan_transparent (ks : Keyspace) (hv : ks.valid = true) (σ : KvMap) (hwf : σ.wellFormed)
    (s e x v : Bytes) :
    (σ x = some v ∧ inInterval x (encodeRange ks s e false).1 (encodeRange ks s e false).2 = true) ↔
    ∃ k, x = encodeKey ks k ∧ decodeKey ks x = .ok k ∧ inRange k s e = true ∧ view ks σ k = some v := by
  constructor
  · rintro ⟨hx, hi⟩
    have hlen : Gen.keyspacePrefixLen ≤ x.length := hwf x (by rw [hx]; simp)
    obtain ⟨k, rfl, hk⟩ := encode_range_within_keyspace ks hv x s e hlen hi
    exact ⟨k, rfl, decode_encode_key ks k, hk, hx⟩
  · rintro ⟨k, rfl, _, hk, hvw⟩
    exact ⟨hvw, by rw [encode_order_iso_range ks hv k s e]; exact hk⟩

example : KvMap.wellFormed (fun _ => none) := by intro x h; exact absurd rfl h

/-- reverse Scan (request start = exclusive upper bound, empty = keyspace end; request end = inclusive lower bound,
    empty = keyspace start): same statement for the swapped pair the codec sends -/
theorem keyspace_reverse_scan_transparent (ks : Keyspace) (hv : ks.valid = true) (σ : KvMap) (hwf : σ.wellFormed)
    (s e x v : Bytes) :
    (σ x = some v ∧ inInterval x (encodeRange ks s e true).2 (encodeRange ks s e true).1 = true) ↔
    ∃ k, x = encodeKey ks k ∧ decodeKey ks x = .ok k ∧ inRangeRev k s e = true ∧ view ks σ k = some v := by
  have h := keyspace_scan_transparent ks hv σ hwf e s x v
  have hr : (encodeRange ks s e true).2 = (encodeRange ks e s false).1 ∧
      (encodeRange ks s e true).1 = (encodeRange ks e s false).2 := ⟨rfl, rfl⟩
  rw [hr.1, hr.2]
  exact h

/-- the `EpochNotMatch.CurrentRegions` loop of `decodeRegionError`: the result is exactly the list of regions that
    `DecodeRegionRange` accepts, each replaced by its clipped logical range (`decode_region_range_clips`), in order;
    regions outside the keyspace are dropped; only an undecodable bound fails the response -/
theorem decode_regions_spec (ks : Keyspace) (l : List (Bytes × Bytes)) :
    ((∀ p ∈ l, decodeRegionRange ks p.1 p.2 ≠ .error .decode) →
      decodeRegions ks l = .ok (l.filterMap fun p =>
        match decodeRegionRange ks p.1 p.2 with
        | .ok r => some r
        | .error _ => none)) ∧
    ((∃ p ∈ l, decodeRegionRange ks p.1 p.2 = .error .decode) → decodeRegions ks l = .error .decode) := by
  induction l with
  | nil => exact ⟨fun _ => rfl, fun ⟨p, hp, _⟩ => by simp at hp⟩
  | cons p rest ih =>
    obtain ⟨s, e⟩ := p
    constructor
    · intro h
      have hrest := ih.1 (fun q hq => h q (by simp [hq]))
      have hp := h (s, e) (by simp)
      simp only at hp
      cases hd : decodeRegionRange ks s e with
      | ok r => simp [decodeRegions, hd, hrest, Except.map]
      | error x =>
        cases x with
        | decode => exact absurd hd hp
        | outOfBound => simp [decodeRegions, hd, hrest]
    · rintro ⟨q, hq, hqe⟩
      cases hd : decodeRegionRange ks s e with
      | error x =>
        cases x with
        | decode => simp [decodeRegions, hd]
        | outOfBound =>
          have hq' : q ∈ rest := by
            rcases List.mem_cons.mp hq with rfl | h
            · simp only at hqe; rw [hd] at hqe; cases hqe
            · exact h
          simp [decodeRegions, hd, ih.2 ⟨q, hq', hqe⟩]
      | ok r =>
        have hq' : q ∈ rest := by
          rcases List.mem_cons.mp hq with rfl | h
          · simp only at hqe; rw [hd] at hqe; cases hqe
          · exact h
        simp [decodeRegions, hd, ih.2 ⟨q, hq', hqe⟩, Except.map]

example : decodeRegions ⟨.txn, 7⟩ [([], [])] = .ok [([], [])] := by rfl

/-- region buckets (`DecodeBucketKeys`): every non-empty bucket key handed to the region cache is the stripped form
    of an input key that carried THIS keyspace's prefix; foreign or out-of-keyspace boundaries only ever appear as
    the empty (open) first / last bucket key or are dropped -/
theorem decode_bucket_keys_sound (ks : Keyspace) (keys out : List Bytes) (h : decodeBucketKeys ks keys = .ok out) :
    ∀ o ∈ out, o ≠ [] → ∃ key ∈ keys, memDecode key = .ok (encodeKey ks o) :=
  decodeBucketKeys_sound ks keys out h

example : decodeBucketKeys ⟨.txn, 7⟩ [[], []] = .ok [[], []] := by rfl

end CGV.Props.C15
