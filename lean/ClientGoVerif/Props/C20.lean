import ClientGoVerif.Model.Backoff
namespace CGV.Props.C20
theorem placeholder : True := trivial
end CGV.Props.C20
