/-
  C20 — back-off budget and fork accounting: property theorems about Model/Backoff.lean (DESIGN §4 C20).
  `run init ops` is the state after an arbitrary op sequence; every theorem below holds for ALL sequences
  (and all inputs that resolve the nondeterminism: jitter choices, map iteration order).
-/
import ClientGoVerif.Proofs.Backoff
namespace CGV.Props.C20
open CGV.Backoff

/-! ## budget -/

/-- After any op sequence whose configs have caps ≤ M, every back-offer with a positive budget has slept (outside the
    excluded kinds) less than budget + one step, and in the excluded kinds less than max(limit, budget) + one step.
    `maxSleep ≤ 0` means "no budget configured" in the code (`b.maxSleep > 0 && …`): the hypothesis is visible.
    `tainted` is the model's ghost flag for "the accounting was copied by UpdateUsingForked from a fork whose own
    budget was non-positive or larger than this back-offer's" (only ResetMaxSleep on one side of a fork can cause it);
    for such a back-offer the bound is simply false in the code, cf. `budget_bound_needs_untainted`. -/
theorem budget_bound (M : Int) (hM : 0 ≤ M) (ops : List Op) (hops : ∀ op ∈ ops, OpCap M op)
    (id : Nat) (b : Backoffer) (hb : (run init ops).bs[id]? = some b)
    (ht : b.tainted = false) (hpos : 0 < b.maxSleep) :
    b.totalSleep - b.excludedSleep < b.maxSleep + M ∧ b.excludedSleep < max exclMax b.maxSleep + M :=
  (run_SInv hM ops (SInv_init M) hops b (List.mem_of_getElem? hb)).2 ht hpos

/-- the same with the regenerated table: one step = the largest cap of config.go -/
theorem budget_bound_table (ops : List Op)
    (hops : ∀ op ∈ ops, ∀ id cfg m sl e, op = .backoff id cfg m sl e → cfg ∈ table)
    (id : Nat) (b : Backoffer) (hb : (run init ops).bs[id]? = some b)
    (ht : b.tainted = false) (hpos : 0 < b.maxSleep) :
    b.totalSleep - b.excludedSleep < b.maxSleep + tableMaxCap ∧
    b.excludedSleep < max exclMax b.maxSleep + tableMaxCap := by
  refine budget_bound tableMaxCap tableMaxCap_nonneg ops ?_ id b hb ht hpos
  intro op hop
  cases op with
  | backoff i cfg m sl e => exact table_cap_le (hops _ hop i cfg m sl e rfl)
  | _ => trivial

/-- without a merge nothing is ever tainted: the bound is unconditional for fork-free / merge-free use -/
theorem untainted_without_merge (ops : List Op) (hops : ∀ op ∈ ops, NoMerge op)
    (id : Nat) (b : Backoffer) (hb : (run init ops).bs[id]? = some b) : b.tainted = false :=
  (run_SCover (nm := true) ops (fun b hb => by simp [init] at hb) (fun _ => hops) b (List.mem_of_getElem? hb)).2 rfl

/-- the budget check itself: a call that sleeps was made strictly below the budget (one-step form, any state) -/
theorem budget_step (s s' : State) (id : Nat) (b : Backoffer) (cfg : Config) (m sl : Int) (e : String)
    (real base : Int) (att : Nat) (hb : s.live id = some b) (hpos : 0 < b.maxSleep)
    (h : step s (.backoff id cfg m sl e) = (s', .slept real base att) ∨
         ∃ sig, step s (.backoff id cfg m sl e) = (s', .killedAfter sig real base att)) :
    b.totalSleep - b.excludedSleep < b.maxSleep ∧
    ∀ l, excl cfg.name = some l → b.excludedSleep < l ∨ b.excludedSleep < b.maxSleep := by
  simp only [step, hb] at h
  obtain ⟨f, _, _, _, _, ho, _⟩ := slept_spec h
  exact overBudget_false ho hpos

/-! ## a single sleep -/

/-- Each sleep is the per-call cut of an allowed jitter value of the closure `f` in use: at most the cap, at most the
    per-call maximum when that is ≥ 0, at least half of the exponential step for EqualJitter when not cut; the
    closure is the one stored under the config's *name* (created from this config if there was none). -/
theorem single_sleep_bound (s s' : State) (id : Nat) (b : Backoffer) (cfg : Config) (m sl : Int) (e : String)
    (real base : Int) (att : Nat) (hb : s.live id = some b)
    (h : step s (.backoff id cfg m sl e) = (s', .slept real base att) ∨
         ∃ sig, step s (.backoff id cfg m sl e) = (s', .killedAfter sig real base att)) :
    ∃ f, effFn b cfg = some f ∧ base = f.base ∧ att = f.attempts ∧
      (fnLookup b.fns cfg.name = none → f.cap = cfg.cap ∧ f.jitter = cfg.jitter ∧ f.attempts = 0) ∧
      real ≤ max f.cap 0 ∧
      ((f.jitter = Gen.noJitter ∨ f.jitter = Gen.fullJitter ∨ f.jitter = Gen.equalJitter ∨ f.jitter = Gen.decorrJitter) →
        real ≤ f.cap) ∧
      (0 ≤ m → real ≤ m) ∧
      (f.jitter = Gen.equalJitter → f.jitter ≠ Gen.noJitter → f.jitter ≠ Gen.fullJitter → ¬ (m ≥ 0 ∧ sl > m) →
        Int.tdiv (expo f.base f.cap f.attempts) 2 ≤ real) := by
  simp only [step, hb] at h
  obtain ⟨f, hf, ha, _, _, _, _, hr, hbase, hatt⟩ := slept_spec h
  refine ⟨f, hf, hbase, hatt, effFn_fresh hf, ?_, ?_, ?_, ?_⟩
  · have := sleepAllowed_le f sl ha; have := realSleep_le m sl; omega
  · intro hj; have := sleepAllowed_le_cap f sl ha hj; have := realSleep_le m sl; omega
  · intro hm; rw [hr]; exact realSleep_le_max m sl hm
  · intro hj hn hfu hcut
    rw [hr, realSleep_eq_of_not_cut m sl hcut]
    exact sleepAllowed_equal_lower f sl ha hj hn hfu

/-- The exponential step, for EVERY attempt count `n` (the model computes on unbounded integers, so there is no
    overflow regime): between 0 and the cap … -/
theorem expo_within_cap (base cap : Int) (n : Nat) (hb : 0 ≤ base) (hc : 0 ≤ cap) :
    0 ≤ expo base cap n ∧ expo base cap n ≤ cap :=
  ⟨expo_nonneg base cap n hb hc, expo_le_cap base cap n⟩

/-- … and never shrinking as the attempts grow (once at the cap it stays there) -/
theorem expo_monotone (base cap : Int) (n k : Nat) (hb : 0 ≤ base) : expo base cap n ≤ expo base cap (n + k) := by
  induction k with
  | zero => exact Int.le_refl _
  | succ k ih => exact Int.le_trans ih (expo_mono base cap (n + k) hb)

/-- In every reachable state and after any number of earlier attempts of the same kind, a sleep is never negative
    (closures always have base ≥ 2; the config's cap is assumed ≥ 0): with the accounting of `sleptB` this makes
    `totalSleep` non-decreasing along back-offs. -/
theorem sleep_nonneg (M : Int) (hM : 0 ≤ M) (ops : List Op) (hops : ∀ op ∈ ops, OpCap M op) (s' : State) (id : Nat)
    (b : Backoffer) (cfg : Config) (m sl : Int) (e : String) (real base : Int) (att : Nat)
    (hb : (run init ops).live id = some b) (hcfg : cfg.cap ≤ M)
    (h : step (run init ops) (.backoff id cfg m sl e) = (s', .slept real base att) ∨
         ∃ sig, step (run init ops) (.backoff id cfg m sl e) = (s', .killedAfter sig real base att)) :
    ∃ f, effFn b cfg = some f ∧ 2 ≤ f.base ∧ (0 ≤ f.cap → 0 ≤ real) := by
  have hinv := run_SInv hM ops (SInv_init M) hops b (live_some hb).2.2
  simp only [step, hb] at h
  obtain ⟨f, hf, ha, _, _, _, _, hr, _, _⟩ := slept_spec h
  have hfb := (effFn_cap hinv.1 hcfg hf).2
  refine ⟨f, hf, hfb, ?_⟩
  intro hc
  have := sleepAllowed_nonneg f sl ha (by omega) hc
  rw [hr]
  unfold realSleep
  split <;> omega

/-! ## exhaustion reports the longest sleeper -/

/-- Any state (reachable or not): when a call answers "budget exceeded" with error class `k`, the budget really is
    exhausted, nothing was slept or recorded, and `k` is the error of the first config in `b.configs` under a name `n`
    that is a non-excluded kind with the largest accumulated sleep (no other non-excluded kind slept longer); if
    `b.configs` has no config of that name — or nothing slept at all — it is the caller's own error. -/
theorem exhausted_answer (s s' : State) (id : Nat) (b : Backoffer) (cfg : Config) (m sl : Int)
    (e k : String) (hb : s.live id = some b) (h : step s (.backoff id cfg m sl e) = (s', .exceeded k)) :
    s' = s ∧ overBudget b cfg.name = true ∧
    ∃ n, k = (match cfgErr b.configs n with | some x => x | none => callerK) ∧
      ((0 < longest b.sleepMS ∧ (n, longest b.sleepMS) ∈ b.sleepMS ∧ excl n = none ∧
          ∀ p ∈ b.sleepMS, excl p.1 = none → p.2 ≤ longest b.sleepMS) ∨
       (n = "" ∧ ∀ p ∈ b.sleepMS, excl p.1 = none → p.2 ≤ 0)) := by
  simp only [step, hb] at h
  obtain ⟨h1, _, _, ho, n, hk, hn⟩ := exceeded_spec h
  refine ⟨h1, ho, n, hk, ?_⟩
  rcases hn with ⟨hp, hm, he⟩ | ⟨hz, hn⟩
  · exact .inl ⟨hp, hm, he, (longest_ge b.sleepMS).2⟩
  · exact .inr ⟨hn, by rw [← hz]; exact (longest_ge b.sleepMS).2⟩

/-- The property as the text states it, at full strength: after ANY op sequence (clones, forks, merges, resets
    included), whenever some non-excluded kind has slept, the error reported on exhaustion IS the error of a (config
    of a) non-excluded kind with maximal accumulated sleep.  (Before /repo commit 08566b3 this failed after
    `UpdateUsingForked`, which copied `backoffSleepMS` but not `configs`.) -/
theorem exhausted_reports_longest (ops : List Op) (s' : State) (id : Nat)
    (b : Backoffer) (cfg : Config) (m sl : Int) (e k : String) (hb : (run init ops).live id = some b)
    (h : step (run init ops) (.backoff id cfg m sl e) = (s', .exceeded k)) (hl : 0 < longest b.sleepMS) :
    ∃ n, cfgErr b.configs n = some k ∧ (n, longest b.sleepMS) ∈ b.sleepMS ∧ excl n = none ∧
      ∀ p ∈ b.sleepMS, excl p.1 = none → p.2 ≤ longest b.sleepMS := by
  obtain ⟨_, _, n, hk, hn⟩ := exhausted_answer _ s' id b cfg m sl e k hb h
  have hcov := (run_SCover (nm := false) ops (fun b hb => by simp [init] at hb) (fun hh => by cases hh) b
    (live_some hb).2.2).1
  rcases hn with ⟨_, hm, he, hmax⟩ | ⟨_, hz⟩
  · refine ⟨n, ?_, hm, he, hmax⟩
    have := hcov _ hm
    cases hc : cfgErr b.configs n with
    | none => rw [hc] at this; simp at this
    | some x => rw [hc] at hk; simp only at hk; rw [hk]
  · exfalso
    -- longest > 0 but every non-excluded entry is ≤ 0: the fold cannot exceed 0
    have key : ∀ (l : AMap) (a : Int), (∀ p ∈ l, p.2 ≤ 0) → a ≤ 0 → l.foldl (fun a p => max a p.2) a ≤ 0 := by
      intro l
      induction l with
      | nil => intro a _ ha; simpa using ha
      | cons q r ih =>
        intro a hl ha
        simp only [List.foldl_cons]
        exact ih _ (fun p hp => hl p (List.mem_cons_of_mem _ hp)) (by have := hl q (by simp); omega)
    have : longest b.sleepMS ≤ 0 :=
      key (nonExcl b.sleepMS) 0 (fun p hp => hz p (mem_nonExcl.1 hp).1 (mem_nonExcl.1 hp).2) (Int.le_refl 0)
    omega

/-- when no non-excluded kind has slept (only possible through the excluded-kind limit, or after a Reset kept the
    per-kind counters at 0) the caller's own error comes back, unless a config with the empty name was used -/
theorem exhausted_nothing_slept (ops : List Op) (s' : State) (id : Nat)
    (b : Backoffer) (cfg : Config) (m sl : Int) (e k : String) (hb : (run init ops).live id = some b)
    (h : step (run init ops) (.backoff id cfg m sl e) = (s', .exceeded k)) (hl : longest b.sleepMS ≤ 0)
    (hne : cfgErr b.configs "" = none) : k = callerK := by
  obtain ⟨_, _, n, hk, hn⟩ := exhausted_answer _ s' id b cfg m sl e k hb h
  rcases hn with ⟨hp, _⟩ | ⟨hn, _⟩
  · omega
  · subst hn; rw [hne] at hk; exact hk

/-! ## cancel and kill -/

/-- a back-offer whose context is done does not sleep: the call returns the caller's error, nothing changes -/
theorem cancel_stops (s : State) (id : Nat) (b : Backoffer) (cfg : Config) (m sl : Int) (e : String)
    (hb : s.live id = some b) (hd : isDone s b = true) :
    step s (.backoff id cfg m sl e) = (s, .cancelled) := by
  simp [step, hb, backoff, hd]

/-- `cancel tok` makes done every back-offer whose context path contains `tok` (the fork itself, its clones, their
    forks …) -/
theorem cancel_marks (s s' : State) (tok : Nat) (h : step s (.cancel tok) = (s', .done)) (b : Backoffer)
    (hb : tok ∈ b.ctx) : isDone s' b = true := by
  simp only [step] at h
  split at h
  · split at h
    · injection h with h _
      subst h
      simp only [isDone, List.any_eq_true, List.contains_eq_mem, decide_eq_true_eq]
      exact ⟨tok, hb, by simp⟩
    · injection h with _ h; contradiction
  · injection h with _ h; contradiction

/-- cancellation is permanent: after any continuation `ops` no call on that back-offer sleeps or changes anything -/
theorem cancel_is_permanent (s : State) (id : Nat) (b : Backoffer) (hb : s.bs[id]? = some b)
    (hd : isDone s b = true) (ops : List Op) (cfg : Config) (m sl : Int) (e : String) :
    (step (run s ops) (.backoff id cfg m sl e)).1 = run s ops ∧
    ((step (run s ops) (.backoff id cfg m sl e)).2 = .cancelled ∨
     (step (run s ops) (.backoff id cfg m sl e)).2 = .bad) := by
  obtain ⟨b', hb', hc⟩ := (run_CtxExt ops s).1 id b hb
  have hd' : isDone (run s ops) b' = true := isDone_mono hc (run_CtxExt ops s).2 hd
  cases hl : (run s ops).live id with
  | none => simp [step, hl]
  | some x =>
    have : x = b' := by
      have := (live_some hl).1
      rw [hb'] at this
      injection this with this
      exact this.symm
    subst this
    rw [cancel_stops _ id x cfg m sl e hl hd']
    simp

/-- a kill is reported by the very call in which it is observed: with the kill flag set, a call never returns nil —
    it is cancelled / exceeded / rejected, or it sleeps once and returns the kill signal -/
theorem kill_stops (s : State) (id : Nat) (b : Backoffer) (v : Vars) (cfg : Config) (m sl : Int) (e : String)
    (hb : s.live id = some b) (hv : b.vars = some v) (hk : killVal s.kills v.killTok ≠ 0) :
    (∀ r ba at', (step s (.backoff id cfg m sl e)).2 ≠ .slept r ba at') ∧
    (∀ sig r ba at', (step s (.backoff id cfg m sl e)).2 = .killedAfter sig r ba at' →
      sig = killVal s.kills v.killTok) := by
  simp only [step, hb]
  have hck : ∀ f, checkKilled s (sleptB b cfg f m sl) = some (killVal s.kills v.killTok) := by
    intro f
    simp [checkKilled, sleptB, hv, hk]
  rcases backoff_cases s id b cfg m sl e with ⟨_, hc⟩ | ⟨f, _, _, _, _, _, _, hc⟩
  · constructor
    · intro r ba at' h
      rcases hc with ⟨hc, _⟩ | ⟨hc, _⟩ | ⟨⟨hc, _⟩ | hc, _⟩ | ⟨hc | hc, _⟩ <;> (rw [hc] at h; contradiction)
    · intro sig r ba at' h
      rcases hc with ⟨hc, _⟩ | ⟨hc, _⟩ | ⟨⟨hc, _⟩ | hc, _⟩ | ⟨hc | hc, _⟩ <;> (rw [hc] at h; contradiction)
  · rcases hc with ⟨_, hc⟩ | ⟨sig, hc, hs⟩
    · rw [hck f] at hc; contradiction
    · rw [hck f] at hs
      injection hs with hs
      constructor
      · intro r ba at' h; rw [hc] at h; contradiction
      · intro sig' r ba at' h
        rw [hc] at h
        simp only [Out.killedAfter.injEq] at h
        omega

/-! ## clone / fork / merge -/

/-- `Fork`: the child is appended to the arena with the parent's budget and accounting, an empty closure map
    (attempt counters restart), the parent's context extended by its own cancel token, `parent = id`; the arena is
    otherwise unchanged -/
theorem fork_starts_from_parent (s : State) (id : Nat) (b : Backoffer) (hb : s.live id = some b) :
    ∃ c, step s (.fork id) = (s.push c, .created s.bs.length) ∧
      (s.push c).bs[s.bs.length]? = some c ∧ (∀ j, j < s.bs.length → (s.push c).bs[j]? = s.bs[j]?) ∧
      c.maxSleep = b.maxSleep ∧ c.totalSleep = b.totalSleep ∧ c.excludedSleep = b.excludedSleep ∧
      c.errorsNum = b.errorsNum ∧ c.sleepMS = b.sleepMS ∧ c.times = b.times ∧ c.configs = b.configs ∧
      c.vars = b.vars ∧ c.fns = [] ∧ c.ctx = b.ctx ++ [s.bs.length] ∧ c.parent = some id := by
  refine ⟨{ b with fns := [], noop := false, ctx := b.ctx ++ [s.bs.length], parent := some id },
    by simp only [step, hb], ?_, ?_, rfl, rfl, rfl, rfl, rfl, rfl, rfl, rfl, rfl, rfl, rfl⟩
  · simp [State.push]
  · intro j hj; simp only [State.push]; rw [List.getElem?_append_left hj]

/-- `Clone`: as `Fork`, but shares the context and keeps the parent's `parent` -/
theorem clone_starts_from_parent (s : State) (id : Nat) (b : Backoffer) (hb : s.live id = some b) :
    ∃ c, step s (.clone id) = (s.push c, .created s.bs.length) ∧
      (s.push c).bs[s.bs.length]? = some c ∧ (∀ j, j < s.bs.length → (s.push c).bs[j]? = s.bs[j]?) ∧
      c.maxSleep = b.maxSleep ∧ c.totalSleep = b.totalSleep ∧ c.excludedSleep = b.excludedSleep ∧
      c.errorsNum = b.errorsNum ∧ c.sleepMS = b.sleepMS ∧ c.times = b.times ∧ c.configs = b.configs ∧
      c.vars = b.vars ∧ c.fns = [] ∧ c.ctx = b.ctx ∧ c.parent = b.parent := by
  refine ⟨{ b with fns := [], noop := false }, by simp only [step, hb], ?_, ?_,
    rfl, rfl, rfl, rfl, rfl, rfl, rfl, rfl, rfl, rfl, rfl⟩
  · simp [State.push]
  · intro j hj; simp only [State.push]; rw [List.getElem?_append_left hj]

/-- `UpdateUsingForked`, descendant case: in any reachable state, if `t` lies on the parent chain of `f` (any
    distance), then afterwards `t`'s counters and config list equal the fork's — nothing lost, nothing counted twice —
    its budget, closures and context are untouched, and no third back-offer changes -/
theorem merge_exact (ops : List Op) (t f : Nat) (b fb : Backoffer)
    (hb : (run init ops).live t = some b) (hfb : (run init ops).live f = some fb)
    (hanc : AncP (run init ops).bs t fb.parent) :
    ∃ b', (step (run init ops) (.merge t f)).2 = .merged ∧
      (step (run init ops) (.merge t f)).1.bs[t]? = some b' ∧
      b'.totalSleep = fb.totalSleep ∧ b'.excludedSleep = fb.excludedSleep ∧ b'.errorsNum = fb.errorsNum ∧
      b'.sleepMS = fb.sleepMS ∧ b'.times = fb.times ∧
      b'.configs = fb.configs ∧
      b'.maxSleep = b.maxSleep ∧ b'.fns = b.fns ∧ b'.ctx = b.ctx ∧ b'.parent = b.parent ∧
      (∀ j, j ≠ t → j ≠ f → (step (run init ops) (.merge t f)).1.bs[j]? = (run init ops).bs[j]?) := by
  have hwf := run_WF ops WF_init
  have hcont := (ancestors_iff hwf (live_some hfb).1 t).2 hanc
  have htf : t ≠ f := by
    intro h
    subst h
    -- a back-offer is not its own ancestor: all ancestors are older
    have hlt : ∀ (par : Option Nat), AncP (run init ops).bs t par → ∀ p, par = some p → t ≤ p := by
      intro par ha
      induction ha with
      | here => intro p hp; injection hp with hp; omega
      | @up q x hx _ ih =>
        intro p hp
        injection hp with hp
        subst hp
        cases hxp : x.parent with
        | none => rw [hxp] at ih; rename_i ha; rw [hxp] at ha; cases ha
        | some r => have := ih r hxp; have := hwf q x r hx hxp; omega
    cases hp : fb.parent with
    | none => rw [hp] at hanc; cases hanc
    | some p =>
      have := hlt _ hanc p hp
      have := hwf t fb p (live_some hfb).1 hp
      omega
  have hlt := live_lt hb
  have hstep : step (run init ops) (.merge t f) =
      ((((run init ops).setB t { b with
          totalSleep := fb.totalSleep, excludedSleep := fb.excludedSleep, errorsNum := fb.errorsNum
          sleepMS := fb.sleepMS, times := fb.times, configs := fb.configs
          tainted := fb.tainted || decide (fb.maxSleep ≤ 0) || decide (fb.maxSleep > b.maxSleep) }).setB f
          { fb with retired := true }), .merged) := by
    simp only [step, hb, hfb, hcont, if_true]
  rw [hstep]
  refine ⟨{ b with
      totalSleep := fb.totalSleep, excludedSleep := fb.excludedSleep, errorsNum := fb.errorsNum
      sleepMS := fb.sleepMS, times := fb.times, configs := fb.configs
      tainted := fb.tainted || decide (fb.maxSleep ≤ 0) || decide (fb.maxSleep > b.maxSleep) },
    rfl, ?_, rfl, rfl, rfl, rfl, rfl, rfl, rfl, rfl, rfl, rfl, ?_⟩
  · simp only [State.setB]
    rw [List.getElem?_set_ne (Ne.symm htf), List.getElem?_set_self hlt]
  · intro j hjt hjf
    simp only [State.setB]
    rw [List.getElem?_set_ne (Ne.symm hjf), List.getElem?_set_ne (Ne.symm hjt)]

/-- `UpdateUsingForked`, other case: a back-offer that is not on the parent chain of `forked` ignores it -/
theorem merge_ignores_non_descendant (ops : List Op) (t f : Nat) (b fb : Backoffer)
    (hb : (run init ops).live t = some b) (hfb : (run init ops).live f = some fb)
    (hanc : ¬ AncP (run init ops).bs t fb.parent) :
    step (run init ops) (.merge t f) = (run init ops, .ignored) := by
  have hwf := run_WF ops WF_init
  have : (ancestors (run init ops).bs (run init ops).bs.length fb.parent).contains t = false := by
    cases h : (ancestors (run init ops).bs (run init ops).bs.length fb.parent).contains t with
    | false => rfl
    | true => exact absurd ((ancestors_iff hwf (live_some hfb).1 t).1 h) hanc
  simp only [step, hb, hfb, this]
  simp

/-! ## non-vacuity of the hypotheses above -/

/-- a config that is not in the table (the witnesses below do not depend on the regenerated literals) -/
def kcfg : Config := { name := "k", base := 500, cap := 5000, jitter := Gen.noJitter, errK := "kerr" }

/-- fork, back off on the fork only, merge back: the parent owns `sleepMS = {k: 500}` and the fork's configs -/
def mergeOps : List Op := [.newPlain 50, .fork 0, .backoff 1 kcfg (-1) 500 "-", .merge 0 1]

-- exhausted_reports_longest after a merge: the exhausted parent reports the kind only the fork backed off with
-- (the input of the former finding C20-merge-drops-configs), and the caller's error is no longer accepted
example : ((run init mergeOps).live 0).map (fun b => (b.configs, decide (0 < longest b.sleepMS))) =
      some ([("k", "kerr")], true) ∧
    (step (run init mergeOps) (.backoff 0 kcfg (-1) 0 "kerr")).2 = .exceeded "kerr" ∧
    (step (run init mergeOps) (.backoff 0 kcfg (-1) 0 "caller")).2 = .badChoice := by decide +kernel

/-- a config under the first excluded name of the regenerated `isSleepExcluded`, sleeping past that limit at once -/
def exCfg : Config :=
  match Gen.isSleepExcluded.head? with
  | some (n, l) => { name := n, base := max l 2 + 1, cap := max l 2 + 1, jitter := Gen.noJitter, errK := "e" }
  | none => kcfg

-- exhausted_nothing_slept: the excluded-kind limit is hit while no other kind has slept: the caller's error returns
example : Gen.isSleepExcluded = [] ∨
    ((step (run init [.newPlain 1, .backoff 0 exCfg (-1) exCfg.cap "-"]) (.backoff 0 exCfg (-1) 0 "caller")).2 =
        .exceeded "caller" ∧
     ((run init [.newPlain 1, .backoff 0 exCfg (-1) exCfg.cap "-"]).live 0).map
        (fun b => (longest b.sleepMS, cfgErr b.configs "")) = some (0, none)) := by decide +kernel

/-- one sleep over a budget of 50: reachable, untainted, positive budget, and already beyond the budget itself
    (so `budget_bound` is not about an empty set of states, and "+ one step" is needed) -/
def sleepOps : List Op := [.newPlain 50, .backoff 0 kcfg (-1) 500 "-"]

example : ∀ op ∈ sleepOps, OpCap 5000 op := by
  intro op h
  simp only [sleepOps, List.mem_cons, List.mem_nil_iff, or_false] at h
  rcases h with rfl | rfl <;> simp [OpCap, kcfg]

example : ∀ op ∈ sleepOps, NoMerge op := by
  intro op h
  simp only [sleepOps, List.mem_cons, List.mem_nil_iff, or_false] at h
  rcases h with rfl | rfl <;> simp [NoMerge]

example : ∃ b, (run init sleepOps).bs[0]? = some b ∧ b.tainted = false ∧ 0 < b.maxSleep ∧
    b.maxSleep < b.totalSleep - b.excludedSleep := by
  have h : ((run init sleepOps).bs[0]?).map (fun b => (b.tainted, b.maxSleep, b.totalSleep - b.excludedSleep)) =
      some (false, 50, 500) := by decide +kernel
  obtain ⟨b, hb, hv⟩ := Option.map_eq_some_iff.1 h
  simp only [Prod.mk.injEq] at hv
  exact ⟨b, hb, hv.1, by omega, by omega⟩

-- budget_step / single_sleep_bound: a live back-offer and a call that sleeps
example : ((run init [.newPlain 50]).live 0).isSome = true ∧
    (step (run init [.newPlain 50]) (.backoff 0 kcfg 100 500 "-")).2 = .slept 100 500 0 := by decide +kernel

-- expo_within_cap / sleep_nonneg far beyond 2^63: attempt 200 of a base-2 kind still sleeps exactly the cap
example : expo 2 500 200 = 500 ∧ sleepAllowed { base := 2, cap := 500, jitter := Gen.noJitter, attempts := 200, lastSleep := 500 } 500 = true := by
  decide +kernel

-- exhausted_answer / exhausted_reports_longest: a state whose next call is refused with the longest sleeper's error
example : ((run init sleepOps).live 0).isSome = true ∧
    (step (run init sleepOps) (.backoff 0 kcfg (-1) 0 "kerr")).2 = .exceeded "kerr" ∧
    (((run init sleepOps).live 0).map fun b => decide (0 < longest b.sleepMS)) = some true := by decide +kernel

-- cancel_stops / cancel_is_permanent: a live back-offer whose context is done
example : (((run init [.newPlain 50, .fork 0, .cancel 0]).live 1).map
    fun b => isDone (run init [.newPlain 50, .fork 0, .cancel 0]) b) = some true := by decide +kernel

-- cancel_marks
example : (step (run init [.newPlain 50]) (.cancel 0)).2 = .done := by decide +kernel

-- kill_stops: vars with a non-zero kill flag; the call sleeps once and reports signal 3
example : (((run init [.newVars 50 10 2, .kill 0 3]).live 0).map fun b =>
      b.vars.map fun v => killVal (run init [.newVars 50 10 2, .kill 0 3]).kills v.killTok) = some (some 3) ∧
    (step (run init [.newVars 50 10 2, .kill 0 3]) (.backoff 0 kcfg (-1) 500 "-")).2 = .killedAfter 3 500 500 0 := by
  decide +kernel

-- fork_starts_from_parent / clone_starts_from_parent: a live back-offer with non-trivial accounting
example : (((run init sleepOps).live 0).map fun b => b.totalSleep) = some 500 := by decide +kernel

-- merge_exact: 0 is on the parent chain of 2 at distance 2 (fork of a fork), both live
example : ∃ fb, (run init [.newPlain 50, .fork 0, .fork 1]).live 2 = some fb ∧
    ((run init [.newPlain 50, .fork 0, .fork 1]).live 0).isSome = true ∧
    AncP (run init [.newPlain 50, .fork 0, .fork 1]).bs 0 fb.parent := by
  have h2 : ((run init [.newPlain 50, .fork 0, .fork 1]).live 2).map (·.parent) = some (some 1) := by decide +kernel
  have h1 : ((run init [.newPlain 50, .fork 0, .fork 1]).bs[1]?).map (·.parent) = some (some 0) := by decide +kernel
  obtain ⟨fb, hfb, hp⟩ := Option.map_eq_some_iff.1 h2
  obtain ⟨x, hx, hxp⟩ := Option.map_eq_some_iff.1 h1
  refine ⟨fb, hfb, by decide +kernel, ?_⟩
  rw [hp]
  exact .up hx (by rw [hxp]; exact .here)

-- merge_ignores_non_descendant: two unrelated roots
example : ∃ fb, (run init [.newPlain 50, .newPlain 60]).live 1 = some fb ∧
    ((run init [.newPlain 50, .newPlain 60]).live 0).isSome = true ∧
    ¬ AncP (run init [.newPlain 50, .newPlain 60]).bs 0 fb.parent := by
  have h1 : ((run init [.newPlain 50, .newPlain 60]).live 1).map (·.parent) = some none := by decide +kernel
  obtain ⟨fb, hfb, hp⟩ := Option.map_eq_some_iff.1 h1
  refine ⟨fb, hfb, by decide +kernel, ?_⟩
  rw [hp]
  intro h
  cases h

end CGV.Props.C20
