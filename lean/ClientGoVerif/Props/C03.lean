/-
  C03 — Commit's answer is truthful.  The judge compares what `Commit` told the client with the MVCC truth after
  quiescence (`toldCheck` in Driver/Hub.lean), for every fault script explored by checks/c03.py.
  proved   the truth side of that comparison: the outcome oracle is sound (C02), a committed primary cannot be rolled
           back by a later status check / resolve (the store answers the commit ts), and an owner rollback is only
           accepted by the monitor when no commit-point request may have taken effect (rule 3).
  partial  `answer_truthful` for a committer model under every fault script is not built (explored instead).
-/
import ClientGoVerif.Proofs.MvccWrites
import ClientGoVerif.Proofs.Perc
namespace CGV.Props.C03
open CGV CGV.Mvcc CGV.Perc

/-- once the primary is committed, a status check reports that commit ts and changes nothing: no resolver can be told
    "rolled back" afterwards -/
theorem committed_primary_stays_committed (s : Store) (p : Bytes) (T caller cur : Nat) (rb rp : Bool) (c : Write)
    (hl : (getEntry s.kv p).lock.filter (·.startTS == T) = none)
    (hc : txnCommitInfo (getEntry s.kv p).writes T = some c) (hv : c.vt ≠ .rollback) :
    checkTxnStatus s p T caller cur rb rp = (s, { commitTS := c.commitTS }) :=
  checkTxnStatus_committed s p T caller cur rb rp c hl hc hv

/-- … and a rollback request for it is refused with the commit ts -/
theorem committed_key_refuses_rollback (s : Store) (k : Bytes) (T : Nat) (c : Write)
    (hl : (getEntry s.kv k).lock.filter (·.startTS == T) = none)
    (hc : txnCommitInfo (getEntry s.kv k).writes T = some c) (hv : c.vt ≠ .rollback) :
    rollbackKey s k T = .error (.alreadyCommitted c.commitTS) := by
  simp [rollbackKey, hl, hc, hv]

/-- a rolled-back primary refuses the commit: a definite error, never a silent success -/
theorem rolled_back_key_refuses_commit (s : Store) (k : Bytes) (T C : Nat) (c : Write)
    (hl : (getEntry s.kv k).lock.filter (·.startTS == T) = none)
    (hc : txnCommitInfo (getEntry s.kv k).writes T = some c) (hv : c.vt = .rollback) :
    commitKey s k T C = .error .retryable := by
  simp [commitKey, hl, hc, hv]

theorem owner_rollback_only_before_commit_point (m m' : MState) (client : String) (fate : Fate) (S : Nat) (keys : List Bytes)
    (h : Monitor.step m (.rollback client fate S keys) = .ok m') :
    (m.get S client).client = client → (m.get S client).commitPointMaybe = false :=
  monitor_accepts_rollback m m' client fate S keys h

theorem outcome_committed_sound (s : Store) (T c : Nat) (h : outcomeOf s T = .committed c) :
    (∀ w ∈ recsOf s T, w.vt ≠ .rollback ∧ w.commitTS = c) ∧ recsOf s T ≠ [] ∧ hasLockOf s T = false :=
  outcomeOf_committed s T c h

end CGV.Props.C03
