/-
  C03 — Commit's answer is truthful.  The judge compares what `Commit` told the client with the MVCC truth after
  quiescence (`toldCheck` in Driver/Hub.lean), for every fault script explored by checks/c03.py.
  proved   the truth side of that comparison: the outcome oracle is sound (C02), a committed primary cannot be rolled
           back by a later status check / resolve (the store answers the commit ts), and an owner rollback is only
           accepted by the monitor when no commit-point request may have taken effect (rule 3).
  partial  `answer_truthful` for a committer model under every fault script is not built (explored instead).
-/
import ClientGoVerif.Proofs.MvccWrites
import ClientGoVerif.Proofs.Perc
import ClientGoVerif.Proofs.MvccTemporal
import ClientGoVerif.Proofs.MvccAtomic
import ClientGoVerif.Proofs.Told
import ClientGoVerif.Proofs.MvccLockKept
namespace CGV.Props.C03
open CGV CGV.Mvcc CGV.Perc

/-- once the primary is committed, a status check reports that commit ts and changes nothing: no resolver can be told
    "rolled back" afterwards -/
theorem committed_primary_stays_committed (s : Store) (p : Bytes) (T caller cur : Nat) (rb rp : Bool) (c : Write)
    (hl : (getEntry s.kv p).lock.filter (·.startTS == T) = none)
    (hc : txnCommitInfo (getEntry s.kv p).writes T = some c) (hv : c.vt ≠ .rollback) :
    checkTxnStatus s p T caller cur rb rp = (s, { commitTS := c.commitTS }) :=
  checkTxnStatus_committed s p T caller cur rb rp c hl hc hv

/-- … and a rollback request for it is refused with the commit ts -/
theorem committed_key_refuses_rollback (s : Store) (k : Bytes) (T : Nat) (c : Write)
    (hl : (getEntry s.kv k).lock.filter (·.startTS == T) = none)
    (hc : txnCommitInfo (getEntry s.kv k).writes T = some c) (hv : c.vt ≠ .rollback) :
    rollbackKey s k T = .error (.alreadyCommitted c.commitTS) := by
  simp [rollbackKey, hl, hc, hv]

/-- a rolled-back primary refuses the commit: a definite error, never a silent success -/
theorem rolled_back_key_refuses_commit (s : Store) (k : Bytes) (T C : Nat) (c : Write)
    (hl : (getEntry s.kv k).lock.filter (·.startTS == T) = none)
    (hc : txnCommitInfo (getEntry s.kv k).writes T = some c) (hv : c.vt = .rollback) :
    commitKey s k T C = .error .retryable := by
  simp [commitKey, hl, hc, hv]

/-- what makes a success answer safe to give: once the commit record is in the store, NO later command sequence —
    including rollback / cleanup / resolve-as-rolled-back requests for the same transaction from confused resolvers —
    can remove it or put a rollback record of the transaction next to it (GC and destroy-range aside) -/
theorem success_answer_cannot_be_undone (w : Write) (k : Bytes) (s : Store) (cs : List Cmd) (hs : SInv s)
    (hok : OkAll s cs) (hg : GuardAll (fun _ lab => lab.keepsRecord w) k s cs)
    (hw : w ∈ (getEntry s.kv k).writes) (hdata : w.vt ≠ .rollback) :
    w ∈ (getEntry (runAll s cs).kv k).writes ∧
      ∀ w2 ∈ (getEntry (runAll s cs).kv k).writes, w2.startTS = w.startTS → w2.vt ≠ .rollback := by
  have hin := runAll_record_stays w k s cs hs hok hg hw
  refine ⟨hin, fun w2 h2 hst hv => ?_⟩
  exact hdata (((runAll_inv s cs hs hok).2 k).nomix w2 h2 w hin hst hv)

/-- the store's answer to a commit request is truthful: an error answer changed nothing … -/
theorem commit_error_means_not_applied (s s' : Store) (keys : List Bytes) (T C : Nat) (err : KErr)
    (h : Mvcc.commit s keys T C = (s', some err)) : s'.kv = s.kv := commit_error_changes_nothing s s' keys T C err h

/-- … and a success answer means every requested key that carried the transaction's prewrite lock now has its data
    record at the requested commit ts (which, by `success_answer_cannot_be_undone`, no later run can take away) -/
theorem commit_success_means_applied (s s' : Store) (keys : List Bytes) (T C : Nat) (hs : SInv s) (hn : keys.Nodup)
    (hC : T < C) (h : Mvcc.commit s keys T C = (s', none)) (k : Bytes) (hk : k ∈ keys) (l : Lock)
    (hl : (getEntry s.kv k).lock = some l) (hT : l.startTS = T) (hop : l.op ≠ .pessimisticLock) :
    HasData (getEntry s'.kv k) T C := commit_success_applied s s' keys T C hs hn hC h k hk l hl hT hop

/-- "an error other than undetermined implies that it is not committed and never becomes visible", at the store, for
    every run: if every commit request the owner got through to the store for the primary was answered with an error
    (`OwnerFails`: that is what a definite error rests on) and everybody obeys the owner/resolver discipline (`Disc`),
    then after ANY command sequence no key carries a data record of the transaction and no read at any timestamp on
    any key returns a version it wrote -/
theorem definite_error_never_visible (T : Nat) (p : Bytes) (s : Store) (cs : List Cmd) (hs : SInv s) (hok : OkAll s cs)
    (hf : FailAll T p s cs) (hn : NeverCommitted T s) :
    NeverCommitted T (runAll s cs) ∧
      ∀ k ts w, firstVisible (getEntry (runAll s cs).kv k).writes ts = some w → w.startTS ≠ T :=
  have h := runAll_never_committed T p s cs hs hok hf hn
  ⟨h, fun k ts w hw => h.invisible k ts w hw⟩

/-- non-vacuity: prewrite, a resolver's TTL-expiry rollback of the primary, then the owner's commit (refused), then its rollback -/
example : FailAll 10 [0x61] {}
    [Cmd.prewrite { mutations := [⟨.put, [0x61], [1], .none⟩], primary := [0x61], startTS := 10, ttl := 0 },
     Cmd.status [0x61] 10 0 (2 ^ 40) true false,
     Cmd.commit [[0x61]] 10 20] := by
  refine ⟨trivial, trivial, ?_, trivial, ?_, ?_, trivial⟩
  · intro _; right; rfl
  · intro _; right
    refine ⟨by simp, ?_, ?_⟩
    · intro l hl _
      have h0 : (getEntry (Cmd.run (Cmd.run {} (Cmd.prewrite { mutations := [⟨.put, [0x61], [1], .none⟩], primary := [0x61], startTS := 10, ttl := 0 }))
          (Cmd.status [0x61] 10 0 (2 ^ 40) true false)).kv [0x61]).lock = none := by decide
      rw [h0] at hl; cases hl
    · rintro C' ⟨w, hw, hT, hv, _⟩
      have h0 : (getEntry (Cmd.run (Cmd.run {} (Cmd.prewrite { mutations := [⟨.put, [0x61], [1], .none⟩], primary := [0x61], startTS := 10, ttl := 0 }))
          (Cmd.status [0x61] 10 0 (2 ^ 40) true false)).kv [0x61]).writes = [⟨.rollback, 10, 10, []⟩] := by decide
      rw [h0] at hw
      simp only [List.mem_singleton] at hw
      subst hw
      exact absurd rfl hv
  · intro _ _; decide

/-! ### the judge's oracle says what the property says.  `toldCheck` (Driver/Hub.lean) fails a trace in which Commit answered a
    definite error iff `committedAtOf store T` is `some _`, and accepts `ok c` when it is `some c`. -/

/-- "answered a definite error" passes the oracle exactly when NO key of the store carries a data record of the transaction … -/
theorem oracle_not_committed_iff_no_data_record (s : Store) (T : Nat) :
    committedAtOf s T = none ↔ ¬ HasDataRec s T := committedAtOf_none_iff s T

/-- … which on a well-formed store is `NeverCommitted` of the store theorems: no read at any timestamp on any key returns a
    version the transaction wrote -/
theorem oracle_not_committed_means_invisible (s : Store) (T : Nat) (hs : KvSorted s.kv) (h : committedAtOf s T = none) :
    NeverCommitted T s ∧ ∀ k ts w, firstVisible (getEntry s.kv k).writes ts = some w → w.startTS ≠ T :=
  have hn := (noDataRec_iff_neverCommitted s T hs).1 ((committedAtOf_none_iff s T).1 h)
  ⟨hn, fun k ts w hw => hn.invisible k ts w hw⟩

/-- the commit ts the oracle compares a success answer with is the commit ts of a data record of the transaction in the store -/
theorem oracle_commit_ts_is_in_store (s : Store) (T c : Nat) (h : committedAtOf s T = some c) :
    ∃ p ∈ s.kv, ∃ w ∈ p.2.writes, w.startTS = T ∧ w.vt ≠ .rollback ∧ w.commitTS = c := committedAtOf_some s T c h

/-- non-vacuity: a committed key is seen, a rolled-back one is not -/
example : committedAtOf { kv := [([0x61], { writes := [⟨.put, 10, 20, [1]⟩] })] } 10 = some 20 := by decide
example : committedAtOf { kv := [([0x61], { writes := [⟨.rollback, 10, 10, []⟩] })] } 10 = none := by decide

/-- why Commit may not answer a definite error once its async-commit prewrites are all acknowledged (the defect repaired in
    client-go 8b21e32 did exactly that for transactions older than MaxTxnTimeUse): from then on, recovery of the
    transaction over the keys it locked finds every key locked and is answered "all locked, no commit ts" — the only
    conclusion rule 4 of the monitor allows a resolver is to commit at the largest min_commit_ts -/
theorem acknowledged_async_commit_is_recovered_as_committed (f : MvccFull.FStore)
    (rs : List (PrewriteReq × MvccFull.FPrewriteExtra)) (T : Nat) (keys : List Bytes) (hs : KvSorted f.base.kv)
    (hack : MvccFull.AckedAll T f rs)
    (hkeys : ∀ k ∈ keys, ∃ q ∈ rs, q.1.startTS = T ∧ ∃ m ∈ q.1.mutations, m.key = k ∧ m.op ≠ .checkNotExists) :
    (MvccFull.fcheckSecondaryLocks (MvccFull.fprewriteAll f rs) keys T).2.commitTS = 0 ∧
      (MvccFull.fcheckSecondaryLocks (MvccFull.fprewriteAll f rs) keys T).2.locks.map (·.key) = keys := by
  have hall : ∀ k ∈ keys, MvccFull.PrewriteLocked (MvccFull.fprewriteAll f rs) T k := by
    intro k hk
    obtain ⟨q, hq, hT, m, hm, rfl, hne⟩ := hkeys k hk
    exact MvccFull.fprewriteAll_ack_locks f rs T hs hack q hq hT m hm hne
  obtain ⟨h1, h2, _⟩ := MvccFull.sec_all_locked (MvccFull.fprewriteAll f rs) keys T hall
  exact ⟨h1, h2⟩

theorem owner_rollback_only_before_commit_point (m m' : MState) (client : String) (fate : Fate) (S : Nat) (keys : List Bytes)
    (h : Monitor.step m (.rollback client fate S keys) = .ok m') :
    (m.get S client).client = client → (m.get S client).commitPointMaybe = false :=
  monitor_accepts_rollback m m' client fate S keys h

theorem outcome_committed_sound (s : Store) (T c : Nat) (h : outcomeOf s T = .committed c) :
    (∀ w ∈ recsOf s T, w.vt ≠ .rollback ∧ w.commitTS = c) ∧ recsOf s T ≠ [] ∧ hasLockOf s T = false :=
  outcomeOf_committed s T c h

end CGV.Props.C03
