/- soundness of the judge's oracles and local soundness of the C04 monitor -/
import ClientGoVerif.Model.Percolator
import ClientGoVerif.Proofs.MvccReads
namespace CGV.Perc
open CGV CGV.Mvcc

/-! ### the mutation table of rule 9 -/

/-- the table of the property text, over the six facts that matter -/
def initOpTable (pessTxn hasValue valueEmpty presumeNotExists newlyInserted locked : Bool) : Option Op :=
  match hasValue, valueEmpty with
  | false, _ => if locked then some .lock else none                  -- locked without value = lock
  | true, false => if presumeNotExists then some .insert else some .put   -- set = put / insert
  | true, true =>                                                     -- delete
    if !pessTxn && presumeNotExists then some .checkNotExists         -- optimistic insert-then-delete: existence check only
    else if newlyInserted then (if locked then some .lock else none)  -- pessimistic insert-then-delete: only its lock
    else some .del

theorem initOp_eq_table (pess : Bool) (b : BufEntry) :
    initOp pess b = initOpTable pess b.hasValue b.value.isEmpty b.presumeNotExists b.newlyInserted b.locked := by
  unfold initOp initOpTable
  cases b.hasValue <;> cases b.value.isEmpty <;> cases b.presumeNotExists <;> cases b.newlyInserted <;>
    cases b.locked <;> cases pess <;> rfl

/-- a mutation that is sent is never a plain put for a presumed-absent key, never a delete for an optimistic
    insert-then-delete, and a value-less entry is sent only if it was locked -/
theorem initOp_facts (pess : Bool) (b : BufEntry) :
    (initOp pess b = some .put → b.hasValue = true ∧ b.value.isEmpty = false ∧ b.presumeNotExists = false) ∧
    (initOp pess b = some .insert → b.hasValue = true ∧ b.value.isEmpty = false ∧ b.presumeNotExists = true) ∧
    (initOp pess b = some .del → b.hasValue = true ∧ b.value.isEmpty = true ∧ b.newlyInserted = false) ∧
    (initOp pess b = some .checkNotExists → pess = false ∧ b.presumeNotExists = true ∧ b.value.isEmpty = true) ∧
    (initOp pess b = some .lock → b.locked = true) := by
  rw [initOp_eq_table]
  unfold initOpTable
  cases b.hasValue <;> cases b.value.isEmpty <;> cases b.presumeNotExists <;> cases b.newlyInserted <;>
    cases b.locked <;> cases pess <;> simp_all

/-! ### outcome oracle -/

theorem mem_recsOf {s : Store} {T : Nat} {w : Write} :
    w ∈ recsOf s T ↔ ∃ p ∈ s.kv, w ∈ p.2.writes ∧ w.startTS = T := by
  simp only [recsOf, List.mem_flatMap, List.mem_filter, beq_iff_eq]

theorem allSameCommit_spec (ds : List Write) (h : allSameCommit ds = true) :
    ∀ w ∈ ds, w.commitTS = (ds.head?.map (·.commitTS)).getD 0 := by
  cases ds with
  | nil => intro w hw; cases hw
  | cons d rest =>
    intro w hw
    simp only [List.head?_cons, Option.map_some, Option.getD_some]
    cases hw with
    | head => rfl
    | tail _ hr => simpa using List.all_eq_true.mp h w hr

/-- C02 oracle soundness: `committed c` means every record of the transaction, on every key, is a data record
    with commit ts c, there is at least one, and no lock of it remains -/
theorem outcomeOf_committed (s : Store) (T c : Nat) (h : outcomeOf s T = .committed c) :
    (∀ w ∈ recsOf s T, w.vt ≠ .rollback ∧ w.commitTS = c) ∧ recsOf s T ≠ [] ∧ hasLockOf s T = false := by
  unfold outcomeOf at h
  simp only [] at h
  by_cases c1 : (!((recsOf s T).filter (·.vt != .rollback)).isEmpty && !((recsOf s T).filter (·.vt == .rollback)).isEmpty) = true
  · rw [if_pos c1] at h; cases h
  · rw [if_neg c1] at h
    by_cases c2 : (!((recsOf s T).filter (·.vt != .rollback)).isEmpty) = true
    · rw [if_pos c2] at h
      by_cases c3 : (!allSameCommit ((recsOf s T).filter (·.vt != .rollback))) = true
      · rw [if_pos c3] at h; cases h
      · rw [if_neg c3] at h
        by_cases c4 : hasLockOf s T = true
        · rw [if_pos c4] at h; cases h
        · rw [if_neg c4] at h
          injection h with hc
          have hnorb : ((recsOf s T).filter (·.vt == .rollback)).isEmpty = true := by
            simp only [c2, Bool.true_and, Bool.not_eq_true, Bool.not_eq_false'] at c1; simpa using c1
          have hsame : allSameCommit ((recsOf s T).filter (·.vt != .rollback)) = true := by simpa using c3
          refine ⟨?_, ?_, by simpa using c4⟩
          · intro w hw
            have hwv : w.vt ≠ .rollback := by
              intro hv
              have : w ∈ (recsOf s T).filter (·.vt == .rollback) := List.mem_filter.mpr ⟨hw, by simp [hv]⟩
              rw [List.isEmpty_iff] at hnorb; rw [hnorb] at this; cases this
            have hwd : w ∈ (recsOf s T).filter (·.vt != .rollback) := List.mem_filter.mpr ⟨hw, by simp [hwv]⟩
            exact ⟨hwv, by rw [← hc]; exact allSameCommit_spec _ hsame w hwd⟩
          · intro he
            rw [he] at c2; simp at c2
    · rw [if_neg c2] at h
      by_cases c5 : (!((recsOf s T).filter (·.vt == .rollback)).isEmpty) = true
      · rw [if_pos c5] at h; split at h <;> cases h
      · rw [if_neg c5] at h; split at h <;> cases h

/-- C02 oracle soundness: whenever the oracle does not say `mixed`, the records of the transaction are all-or-nothing:
    never a data record together with a rollback record -/
theorem outcomeOf_not_mixed (s : Store) (T : Nat) (h : ∀ why, outcomeOf s T ≠ .mixed why) :
    ¬ (∃ w1 ∈ recsOf s T, ∃ w2 ∈ recsOf s T, w1.vt ≠ .rollback ∧ w2.vt = .rollback) := by
  rintro ⟨w1, h1, w2, h2, hv1, hv2⟩
  apply h "committed on one key and rolled back on another"
  unfold outcomeOf
  simp only []
  have e1 : (recsOf s T).filter (·.vt != .rollback) ≠ [] := by
    intro he
    have : w1 ∈ (recsOf s T).filter (·.vt != .rollback) := List.mem_filter.mpr ⟨h1, by simp [hv1]⟩
    rw [he] at this; cases this
  have e2 : (recsOf s T).filter (·.vt == .rollback) ≠ [] := by
    intro he
    have : w2 ∈ (recsOf s T).filter (·.vt == .rollback) := List.mem_filter.mpr ⟨h2, by simp [hv2]⟩
    rw [he] at this; cases this
  have c1 : (!((recsOf s T).filter (·.vt != .rollback)).isEmpty && !((recsOf s T).filter (·.vt == .rollback)).isEmpty) = true := by
    have i1 : ((recsOf s T).filter (·.vt != .rollback)).isEmpty = false := by
      cases hh : (recsOf s T).filter (·.vt != .rollback) with
      | nil => exact absurd hh e1
      | cons _ _ => rfl
    have i2 : ((recsOf s T).filter (·.vt == .rollback)).isEmpty = false := by
      cases hh : (recsOf s T).filter (·.vt == .rollback) with
      | nil => exact absurd hh e2
      | cons _ _ => rfl
    rw [i1, i2]; rfl
  rw [if_pos c1]

/-! ### soundness of the monitor: an event is accepted exactly when every rule it triggers holds -/

theorem monitor_accepts_iff (m m' : MState) (ev : Ev) :
    Monitor.step m ev = .ok m' ↔ (∀ c ∈ checksOf m ev, c.1 = true) ∧ m' = applyEv m ev := by
  unfold Monitor.step
  cases hf : (checksOf m ev).find? (fun c => !c.1) with
  | some c =>
    obtain ⟨b, msg⟩ := c
    simp only []
    constructor
    · intro h; cases h
    · rintro ⟨hall, _⟩
      have hm := List.mem_of_find?_eq_some hf
      have hb := List.find?_some hf
      have := hall (b, msg) hm
      simp only [] at this hb
      rw [this] at hb; cases hb
  | none =>
    simp only []
    constructor
    · intro h
      injection h with h
      refine ⟨?_, h.symm⟩
      intro c hc
      have := List.find?_eq_none.mp hf c hc
      simpa using this
    · rintro ⟨_, rfl⟩; rfl

def prewrittenKeys (t : TxnM) : List Bytes := (t.prewritten.filter (fun x => x.2.1 != .checkNotExists)).map (·.1)

/-- C04 rules 1, 2, 7 at the point of decision: whatever `commit` event the monitor accepts satisfies them -/
theorem monitor_accepts_commit (m m' : MState) (client : String) (fate : Fate) (S C : Nat) (keys : List Bytes)
    (ok definite : Bool) (h : Monitor.step m (.commit client fate S C keys ok definite) = .ok m') :
    let t := m.get S client
    C > S ∧ (∀ mc ∈ t.minCommits, mc ≤ C) ∧
    (∀ x, t.commitCallTSO = some x → t.causal = true ∨ C > x) ∧
    (∀ k ∈ keys, k ∈ prewrittenKeys t) ∧
    (∀ k ∈ t.attemptedKeys, ∃ x ∈ t.prewritten, x.1 = k) ∧
    (∃ p, t.primary = some p ∧ p ∈ prewrittenKeys t) ∧
    ((∃ p, t.primary = some p ∧ p ∈ keys) ∨ t.primaryCommitted.isSome = true ∨ (t.asyncAcks > 0 ∧ t.plainAcks = 0)) ∧
    (∀ c, t.primaryCommitted = some c → c = C) := by
  intro t
  have hall := ((monitor_accepts_iff _ _ _).mp h).1
  simp only [checksOf, List.mem_cons, List.mem_nil_iff, or_false, forall_eq_or_imp, forall_eq] at hall
  obtain ⟨h1, h2, h3, h4, h5, _h6, h7, h8, h9⟩ := hall
  refine ⟨by simpa using h1, ?_, ?_, ?_, ?_, ?_, ?_, ?_⟩
  · intro mc hmc; simpa using List.all_eq_true.mp h2 mc hmc
  · intro x hx
    show t.causal = true ∨ C > x
    have h3' : (match t.commitCallTSO with | some x => t.causal || decide (C > x) | none => true) = true := h3
    rw [hx] at h3'
    simpa using h3'
  · intro k hk; simpa [prewrittenKeys] using List.all_eq_true.mp h4 k hk
  · intro k hk
    obtain ⟨x, hx, hxk⟩ := List.any_eq_true.mp (List.all_eq_true.mp h5 k hk)
    exact ⟨x, hx, by simpa using hxk⟩
  · have h7' : (match t.primary with | some p => (prewrittenKeys t).contains p | none => false) = true := h7
    cases hp : t.primary with
    | none => rw [hp] at h7'; cases h7'
    | some p => rw [hp] at h7'; exact ⟨p, rfl, by simpa using h7'⟩
  · have h8' : ((match t.primary with | some p => keys.contains p | none => false) || t.primaryCommitted.isSome ||
        (decide (t.asyncAcks > 0) && t.plainAcks == 0)) = true := h8
    simp only [Bool.or_eq_true, Bool.and_eq_true, decide_eq_true_eq, beq_iff_eq] at h8'
    rcases h8' with (hh | hh) | hh
    · cases hp : t.primary with
      | none => rw [hp] at hh; cases hh
      | some p => rw [hp] at hh; left; exact ⟨p, rfl, by simpa using hh⟩
    · right; left; exact hh
    · right; right; exact hh
  · intro c hc
    have h9' : (match t.primaryCommitted with | some c => c == C | none => true) = true := h9
    rw [hc] at h9'; simpa using h9'

/-- C04 rule 3: an accepted owner rollback means no primary commit may have taken effect -/
theorem monitor_accepts_rollback (m m' : MState) (client : String) (fate : Fate) (S : Nat) (keys : List Bytes)
    (h : Monitor.step m (.rollback client fate S keys) = .ok m') :
    let t := m.get S client
    t.client = client → t.commitPointMaybe = false := by
  intro t hc
  have hall := ((monitor_accepts_iff _ _ _).mp h).1
  simp only [checksOf, List.mem_cons, List.mem_nil_iff, or_false, forall_eq] at hall
  have : ¬ (m.get S client).client = client ∨ (m.get S client).commitPointMaybe = false := by simpa using hall
  cases this with
  | inl h' => exact absurd hc h'
  | inr h' => exact h'

/-- C04 rule 4: an accepted single-transaction resolve names an outcome its sender learned — as the owner whose primary
    commit succeeded at that ts, from a status answer, or from a check-secondary-locks answer -/
theorem monitor_accepts_resolve (m m' : MState) (client : String) (fate : Fate) (S C : Nat)
    (h : Monitor.step m (.resolve client fate S C []) = .ok m') :
    let t := m.get S client
    (0 < C → (t.client = client ∧ t.primaryCommitted = some C) ∨ (∃ a ∈ t.statusAnswers, a.1 = C) ∨ C ∈ t.secOutcomes ∨
      (t.secMinCommits ≠ [] ∧ ¬ (0 ∈ t.secOutcomes) ∧ C = t.secMinCommits.foldl max 0)) ∧
    (C = 0 → (∃ a ∈ t.statusAnswers, a.2 = true) ∨ 0 ∈ t.secOutcomes) := by
  intro t
  have hall := ((monitor_accepts_iff _ _ _).mp h).1
  simp only [checksOf, List.mem_cons, List.mem_nil_iff, or_false, forall_eq, List.isEmpty_nil, if_true] at hall
  constructor
  · intro hpos
    split at hall
    · rename_i h1
      left
      simp only [Bool.and_eq_true, beq_iff_eq, decide_eq_true_eq] at h1
      exact ⟨h1.1, h1.2.1⟩
    · right
      try rw [if_pos hpos] at hall
      simp only [Bool.or_eq_true, List.any_eq_true, beq_iff_eq, List.contains_iff_mem, Bool.and_eq_true,
        Bool.not_eq_true', List.isEmpty_eq_false_iff, ne_eq] at hall
      rcases hall with (⟨a, ha, hac⟩ | hsec) | ⟨⟨hne, hz⟩, hmax⟩
      · left; exact ⟨a, ha, hac⟩
      · right; left; exact hsec
      · right; right
        refine ⟨hne, ?_, hmax⟩
        intro hmem; rw [List.contains_iff_mem.mpr hmem] at hz; cases hz
  · intro hz
    subst hz
    split at hall
    · rename_i h1
      simp at h1
    · try rw [if_neg (Nat.lt_irrefl 0)] at hall
      simp only [Bool.or_eq_true, List.any_eq_true, List.contains_iff_mem] at hall
      rcases hall with ⟨a, ha, hac⟩ | hsec
      · left; exact ⟨a, ha, hac⟩
      · right; exact hsec

end CGV.Perc
